#!/bin/bash
# setup_cmd: (re)generate the harness go.mod / go.sum files from /repo's module
# layout and warm the build cache.  Offline; touches nothing under /repo.
set -euo pipefail
cd "$(dirname "$0")"
export GOFLAGS=-mod=mod GOPROXY=off GOSUMDB=off GOTOOLCHAIN=local GOWORK=off
REPO=${VERIF_REPO:-/repo}

gen_mod() { # dir modname
  local dir=$1 name=$2
  mkdir -p "$dir"
  local modfile="$dir/go.mod" sumfile="$dir/go.sum"
  if [ -n "${VERIF_MODOUT:-}" ]; then # alternative go.mod (driver: VERIF_REPO != /repo), used with -modfile
    mkdir -p "$VERIF_MODOUT/$dir"
    modfile="$VERIF_MODOUT/$dir/go.mod"; sumfile="$VERIF_MODOUT/$dir/go.sum"
  fi
  {
    echo "module $name"
    echo
    echo "go 1.23.0"
    echo
    echo "require ("
    echo "	pgregory.net/rapid v1.3.0"
    echo "	go.uber.org/goleak v1.3.0"
    find "$REPO" -name go.mod -not -path '*/internal/tools/*' | sort | while read -r f; do
      m=$(awk '/^module /{print $2; exit}' "$f")
      echo "	$m v0.0.0-00010101000000-000000000000"
    done
    echo ")"
    echo
    echo "replace ("
    find "$REPO" -name go.mod -not -path '*/internal/tools/*' | sort | while read -r f; do
      m=$(awk '/^module /{print $2; exit}' "$f")
      echo "	$m => $(dirname "$f")"
    done
    echo ")"
  } > "$modfile"
  cat "$REPO"/cmd/otelcorecol/go.sum "$REPO"/internal/e2e/go.sum "$REPO"/service/go.sum "$REPO"/otelcol/go.sum \
      "$REPO"/pdata/go.sum "$REPO"/exporter/otlphttpexporter/go.sum 2>/dev/null | sort -u > "$sumfile"
}

gen_mod harness go.opentelemetry.io/collector/verifharness
gen_mod harness-service go.opentelemetry.io/collector/service/verifharness

mkdir -p .build evidence replays
[ -n "${VERIF_MODOUT:-}" ] && exit 0
# warm the cache: compile every test package once (errors here are reported but
# a single package failing must not prevent the others from being usable)
rc=0
for d in harness harness-service; do
  if ls "$d"/*/ >/dev/null 2>&1; then
    (cd "$d" && go vet -tags verif ./... >/dev/null 2>../.build/setup-$d.log) || { echo "setup: vet/build problems in $d (see .build/setup-$d.log)"; rc=0; }
  fi
done
exit $rc
