#!/usr/bin/env python3
"""Regenerates MANIFEST.json from registry.json + manifest_meta.json (keeps it valid at all times)."""
import json, os
ROOT = os.path.dirname(os.path.abspath(__file__))
reg = json.load(open(os.path.join(ROOT, "registry.json")))
meta = json.load(open(os.path.join(ROOT, "manifest_meta.json")))
import glob
for frag in sorted(glob.glob(os.path.join(ROOT, "harness*", "c[0-9][0-9]*", "REGISTRY.json"))):
    reg.update(json.load(open(frag)))
for frag in sorted(glob.glob(os.path.join(ROOT, "harness*", "c[0-9][0-9]*", "META.json"))):
    meta["checks"].update(json.load(open(frag)))
props = [json.loads(l) for l in open(os.path.join(ROOT, "properties.jsonl"))]
baseline = json.load(open("/root/.vp/BASELINE.json"))["cmd"] if os.path.exists("/root/.vp/BASELINE.json") else ""
checks, na = [], []
for p in props:
    pid = p["id"]
    if pid in reg and pid in meta["checks"]:
        m = meta["checks"][pid]
        checks.append({
            "property_id": pid,
            "quick_cmd": "./check %s quick" % pid,
            "thorough_cmd": "./check %s thorough" % pid,
            "evidence_file": "evidence/%s.json" % pid,
            "replay_cmd_template": "./check %s --replay {path}" % pid,
            "engine": "rapid-harness",
            "level_claimed": {"category": reg[pid].get("level", "exploration"), "text": m["text"], "design_ref": m.get("design_ref", "DESIGN.md §4 " + pid)},
            "level_note": m["note"],
            "technique": m["technique"],
        })
    else:
        na.append({"property_id": pid, "reason": meta.get("not_applicable", {}).get(pid, "check not registered yet: harness under construction in this session (planned, see DESIGN.md §4 %s)" % pid)})
man = {
    "version": 1,
    "setup_cmd": "./setup.sh",
    "hooks": {
        "guard": "verif",
        "enable": "go test -tags verif (no hook exists in /repo: every check drives exported identifiers only; the tag is passed for forward compatibility)",
        "baseline_off_cmd": baseline,
        "source_commits": [],
        "add_only": True,
    },
    "engines": [
        {"name": "rapid-harness", "path": "harness/", "serves_properties": [c["property_id"] for c in checks],
         "kind_free_text": "pgregory.net/rapid v1.3.0 generated scripts + explicit oracles (reference models, conservation laws, round trips, differential/metamorphic relations); Go native fuzzing in the thorough tier; python3 driver ./check"},
    ],
    "checks": checks,
    "notes": meta.get("notes", ""),
    "not_applicable": na,
}
json.dump(man, open(os.path.join(ROOT, "MANIFEST.json"), "w"), indent=1)
print("checks:", [c["property_id"] for c in checks], "not_applicable:", len(na))
