package c11

import (
	"context"
	"encoding/json"
	"errors"
	"fmt"
	"runtime"
	"sync"
	"testing"

	"pgregory.net/rapid"

	"go.opentelemetry.io/collector/component"
	"go.opentelemetry.io/collector/component/componentstatus"
	"go.opentelemetry.io/collector/internal/sharedcomponent"
	"go.opentelemetry.io/collector/pipeline"
	"go.opentelemetry.io/collector/service/verifharness/vt"
)

// ---------------------------------------------------------------------------
// (c) internal/sharedcomponent: one component, 2-3 logical instances whose
// hosts are attached (Start called again with another host) at generated
// moments.
// ---------------------------------------------------------------------------

const (
	opReport = iota
	opAttach
	opShutdown
)

type SharedOp struct {
	Kind   int
	Letter int
}

type SharedScript struct {
	NHosts int
	// Auto: the harness host reports lifecycle statuses around Start/Shutdown
	// exactly as the service graph does (Starting before Start,
	// ReportOKIfStarting / PermanentError after; Stopping before Shutdown,
	// Stopped / PermanentError after).  Otherwise the hosts are bare.
	Auto            bool
	StartReports    []int // reported by the component from inside Start, through the host it was given
	StartErr        bool
	ShutdownReports []int
	ShutdownErr     bool
	// Ops after the first Start; contains NHosts-1 attach ops and at most one shutdown.
	Ops []SharedOp
	// Async: the report ops before the last attach are issued by a second
	// goroutine while the calling goroutine performs the attaches.
	Async bool
}

func (s SharedScript) valid() bool {
	if s.NHosts < 1 || s.NHosts > 8 {
		return false
	}
	att := 0
	for _, op := range s.Ops {
		if op.Kind == opAttach {
			att++
		}
		if op.Kind < 0 || op.Kind > opShutdown || op.Letter < 0 || op.Letter >= nLetters || op.Letter == lOKIfStarting {
			return false
		}
	}
	for _, l := range append(append([]int(nil), s.StartReports...), s.ShutdownReports...) {
		if l < 0 || l >= nLetters || l == lOKIfStarting {
			return false
		}
	}
	return att <= s.NHosts-1
}

func letterOfStatus(st componentstatus.Status) Letter {
	switch {
	case st >= 0 && int(st) < nStates:
		return int(st)
	case st < 0:
		return lInvalidNeg
	}
	return lInvalidHigh
}

var errScripted = errors.New("c11 scripted failure")

// shInner is the wrapped component.
type shInner struct {
	env  *shEnv
	host component.Host
}

func (c *shInner) Start(_ context.Context, host component.Host) error {
	c.host = host
	for _, l := range c.env.s.StartReports {
		c.env.componentReport(l)
	}
	if c.env.s.StartErr {
		return errScripted
	}
	return nil
}

func (c *shInner) Shutdown(context.Context) error {
	for _, l := range c.env.s.ShutdownReports {
		c.env.componentReport(l)
	}
	if c.env.s.ShutdownErr {
		return errScripted
	}
	return nil
}

type shHost struct {
	env  *shEnv
	inst int
}

func (h *shHost) GetExtensions() map[component.ID]component.Component { return nil }
func (h *shHost) Report(ev *componentstatus.Event)                    { h.env.hostReport(h.inst, ev) }

type shEnv struct {
	s       SharedScript
	r       *rig
	inner   *shInner
	comp    *sharedcomponent.Component[*shInner]
	hosts   []*shHost
	mu      sync.Mutex
	raw     [][]*componentstatus.Event // per host: events handed to host.Report, in order
	sent    []*componentstatus.Event   // events the component reported, in order
	states  []State
	exact   bool // step-wise model is valid (single goroutine)
	f       *vt.Finding
	attachd []bool
	// truncated: some late host was handed fewer statuses than had been reported
	truncated bool
	asyncUsed bool
}

func (e *shEnv) fail(f *vt.Finding) {
	e.mu.Lock()
	if e.f == nil {
		e.f = f
	}
	e.mu.Unlock()
}

// checked report to the real reporter for instance inst.
func (e *shEnv) reportTo(inst int, l Letter, ev *componentstatus.Event) {
	if !e.exact {
		if l == lOKIfStarting {
			e.r.rep.ReportOKIfStarting(e.r.ids[inst])
		} else {
			e.r.rep.ReportStatus(e.r.ids[inst], ev)
		}
		return
	}
	before := e.r.logLen()
	if l == lOKIfStarting {
		e.r.rep.ReportOKIfStarting(e.r.ids[inst])
	} else {
		e.r.rep.ReportStatus(e.r.ids[inst], ev)
	}
	got := e.r.since(before)
	for _, o := range got {
		if o.Inst != inst {
			e.fail(vt.Failf("shared/event-for-other-instance", "report for instance %d delivered an event for instance %d", inst, o.Inst))
			return
		}
	}
	if _, f := modelStep("shared", &e.states[inst], l, got); f != nil {
		f.Msg = fmt.Sprintf("instance %d: %s", inst, f.Msg)
		e.fail(f)
	}
}

func (e *shEnv) hostReport(inst int, ev *componentstatus.Event) {
	e.mu.Lock()
	e.raw[inst] = append(e.raw[inst], ev)
	e.mu.Unlock()
	if ev == nil {
		e.fail(vt.Failf("shared/nil-event", "host %d was handed a nil event", inst))
		return
	}
	e.reportTo(inst, letterOfStatus(ev.Status()), ev)
}

// componentReport: the wrapped component reports through the host it was given at Start.
func (e *shEnv) componentReport(l Letter) *componentstatus.Event {
	if e.inner.host == nil {
		return nil
	}
	ev := newEvent(l)
	e.mu.Lock()
	e.sent = append(e.sent, ev)
	e.mu.Unlock()
	componentstatus.ReportStatus(e.inner.host, ev)
	return ev
}

func sameEvent(a, b *componentstatus.Event) bool {
	if a == b {
		return true
	}
	if a == nil || b == nil {
		return false
	}
	return a.Status() == b.Status() && a.Err() == b.Err() && a.Timestamp().Equal(b.Timestamp())
}

func (e *shEnv) rawLen(k int) int {
	e.mu.Lock()
	defer e.mu.Unlock()
	return len(e.raw[k])
}

func (e *shEnv) rawSince(k, n int) []*componentstatus.Event {
	e.mu.Lock()
	defer e.mu.Unlock()
	return append([]*componentstatus.Event(nil), e.raw[k][n:]...)
}

func evStatuses(evs []*componentstatus.Event) string {
	st := make([]componentstatus.Status, len(evs))
	for i, e := range evs {
		st[i] = e.Status()
	}
	return statusSeqString(st)
}

// attach starts the shared component with host k.
func (e *shEnv) attach(k int) error {
	if e.s.Auto {
		e.reportTo(k, lStarting, newEvent(lStarting))
	}
	err := e.comp.Start(context.Background(), e.hosts[k])
	e.mu.Lock()
	e.attachd[k] = true
	e.mu.Unlock()
	if e.s.Auto {
		if err != nil {
			e.reportTo(k, lPermanent, componentstatus.NewPermanentErrorEvent(err))
		} else {
			e.reportTo(k, lOKIfStarting, nil)
		}
	}
	return err
}

// lateAttachOracle: what host k was handed during its attach must be a replay
// of earlier reports (in order, nothing invented) and must at least carry the
// component's latest report or its current status.
func (e *shEnv) lateAttachOracle(k int, replay []*componentstatus.Event, sentBefore []*componentstatus.Event, state0 State, c klass) *vt.Finding {
	j := 0
	for _, r := range replay {
		for j < len(sentBefore) && !sameEvent(sentBefore[j], r) {
			j++
		}
		if j == len(sentBefore) {
			return vt.Failf("shared/replay-not-a-subsequence", "host %d was replayed [%s], which is not an in-order subsequence of the statuses reported before it attached [%s]",
				k, evStatuses(replay), evStatuses(sentBefore))
		}
		j++
	}
	if len(sentBefore) == 0 {
		return nil
	}
	last := sentBefore[len(sentBefore)-1]
	informed := false
	for _, r := range replay {
		if sameEvent(r, last) || int(r.Status()) == state0 {
			informed = true
		}
	}
	if !informed {
		return vt.Failf("shared/late-instance-not-informed", "host %d attached after %d reports [%s] but was handed [%s]: neither the latest report nor the current status (%s) of the component",
			k, len(sentBefore), evStatuses(sentBefore), evStatuses(replay), stateName[state0])
	}
	if len(replay) == len(sentBefore) {
		c.Class("late-attach/replay-complete")
	} else {
		c.Class("late-attach/replay-truncated")
		e.truncated = true
	}
	return nil
}

func (e *shEnv) sentCopy() []*componentstatus.Event {
	e.mu.Lock()
	defer e.mu.Unlock()
	return append([]*componentstatus.Event(nil), e.sent...)
}

// convergence: when every late host was handed a complete replay, all
// instances of the shared component have been told the same things and must
// hold the same status (the component "delivers its status to every instance it
// represents").  After a truncated replay the statuses may differ: that is
// counted and noted, not judged (the replay is documented as bounded).
func (e *shEnv) convergence(c klass, attached int, when string) *vt.Finding {
	if attached < 2 {
		return nil
	}
	same := true
	for k := 1; k < attached; k++ {
		if e.states[k] != e.states[0] {
			same = false
		}
	}
	if same {
		c.Class("instances-same-status/" + when)
		return nil
	}
	names := make([]string, attached)
	for i := range names {
		names[i] = stateName[e.states[i]]
	}
	if !e.truncated {
		return vt.Failf("shared/instances-differ-after-complete-replay", "every late host was handed all earlier reports, yet the instances hold different statuses %v (%s)", names, when)
	}
	c.Class("instances-DIVERGED-after-truncated-replay/" + when)
	noteDivergence(c, e.s, e.states[:attached])
	return nil
}

var cShared = vt.New("C11", "sharedcomponent")

// klass is a nil-safe view of a collector (reference runs record nothing).
type klass struct{ c *vt.C }

func (k klass) Class(labels ...string) {
	if k.c != nil {
		k.c.Class(labels...)
	}
}

func (k klass) Note(format string, args ...any) {
	if k.c != nil {
		k.c.Note(format, args...)
	}
}

// shOutcome is what a run of a SharedScript delivered (filled when the oracle held).
type shOutcome struct {
	Per          [][]componentstatus.Status // per instance: delivered statuses
	Raw          [][]componentstatus.Status // per host: statuses handed to the host
	InnerStarted bool                       // this run's component object was started
	ShutdownDone bool
}

func runShared(s SharedScript) (nontrivial bool, key string, f *vt.Finding) {
	return runSharedWith(s, sharedcomponent.NewMap[string, *shInner](), klass{cShared}, nil)
}

// runSharedWith runs s on map m (key "k").
func runSharedWith(s SharedScript, m *sharedcomponent.Map[string, *shInner], c klass, out *shOutcome) (nontrivial bool, key string, f *vt.Finding) {
	kb, _ := json.Marshal(s)
	key = string(kb)
	if !s.valid() {
		return false, key, nil
	}
	e := &shEnv{s: s, r: &rig{}, exact: true}
	cid := component.MustNewIDWithName("c11", "shared")
	sigs := []pipeline.Signal{pipeline.SignalTraces, pipeline.SignalMetrics, pipeline.SignalLogs}
	for k := 0; k < s.NHosts; k++ {
		e.r.ids = append(e.r.ids, componentstatus.NewInstanceID(cid, component.KindReceiver, pipeline.NewIDWithName(sigs[k%3], fmt.Sprintf("p%d", k))))
		e.hosts = append(e.hosts, &shHost{env: e, inst: k})
	}
	e.r.init()
	e.raw = make([][]*componentstatus.Event, s.NHosts)
	e.states = make([]State, s.NHosts)
	e.attachd = make([]bool, s.NHosts)
	e.inner = &shInner{env: e}
	var err error
	e.comp, err = m.LoadOrStore("k", func() (*shInner, error) { return e.inner, nil })
	if err != nil {
		return false, key, vt.Failf("shared/harness", "LoadOrStore: %v", err)
	}

	classes := []string{fmt.Sprintf("hosts/%d", s.NHosts)}
	if s.Auto {
		classes = append(classes, "hosts-like-graph")
	} else {
		classes = append(classes, "hosts-bare")
	}

	// first Start
	startErr := e.attach(0)
	if e.f != nil {
		return true, key, e.f
	}
	if (startErr != nil) != s.StartErr {
		return true, key, vt.Failf("shared/start-error-not-propagated", "Start returned %v, component returned error=%v", startErr, s.StartErr)
	}
	next := 1
	stopAttaching := s.Auto && startErr != nil // the graph stops starting components at the first error
	if s.StartErr {
		classes = append(classes, "start-error")
	}

	lastAttach := -1
	for i, op := range s.Ops {
		if op.Kind == opAttach {
			lastAttach = i
		}
	}
	ops := s.Ops
	reportsAfterAll, acceptedSomewhere := 0, false

	if s.Async && lastAttach >= 0 && !stopAttaching {
		classes = append(classes, "async-attach")
		e.asyncUsed = true
		// phase A: reports before the last attach are issued concurrently with the attaches
		e.exact = false
		var wg sync.WaitGroup
		gate := make(chan struct{})
		wg.Add(1)
		go func() {
			defer wg.Done()
			<-gate
			for _, op := range ops[:lastAttach] {
				if op.Kind == opReport {
					e.componentReport(op.Letter)
					runtime.Gosched()
				}
			}
		}()
		close(gate)
		for _, op := range ops[:lastAttach+1] {
			if op.Kind == opAttach && next < s.NHosts {
				runtime.Gosched()
				if aerr := e.attach(next); aerr != nil {
					return true, key, vt.Failf("shared/late-start-returned-error", "Start with host %d returned %v", next, aerr)
				}
				next++
			}
		}
		wg.Wait()
		if e.f != nil {
			return true, key, e.f
		}
		// join: every instance's delivered sequence so far is a path; every report reached host 0;
		// every late host holds the latest report (directly or by replay) or the current status.
		per := make([][]componentstatus.Status, s.NHosts)
		for _, o := range e.r.since(0) {
			if o.Inst < 0 {
				return true, key, vt.Failf("shared/event-for-unknown-instance", "event for unknown instance")
			}
			per[o.Inst] = append(per[o.Inst], o.Status)
		}
		for k := range per {
			if fd := pathCheck("shared", per[k]); fd != nil {
				return true, key, fd
			}
			e.states[k] = lNone
			if n := len(per[k]); n > 0 {
				e.states[k] = int(per[k][n-1])
			}
		}
		sent := e.sentCopy()
		raw0 := e.rawSince(0, 0)
		if len(raw0) < len(sent) {
			return true, key, vt.Failf("shared/report-not-fanned-out", "host 0 (attached first) was handed %d of the %d statuses the component reported", len(raw0), len(sent))
		}
		if len(raw0) > 0 {
			last := raw0[len(raw0)-1]
			for k := 1; k < next; k++ {
				ok := false
				if e.rawLen(k) < len(raw0) {
					e.truncated = true
				}
				for _, r := range e.rawSince(k, 0) {
					if sameEvent(r, last) || int(r.Status()) == e.states[0] {
						ok = true
					}
				}
				if !ok {
					return true, key, vt.Failf("shared/late-instance-not-informed", "host %d (attached concurrently with reports) holds [%s]: neither the component's latest report (%s) nor its current status (%s)",
						k, evStatuses(e.rawSince(k, 0)), statusName(last.Status()), stateName[e.states[0]])
				}
			}
		}
		e.exact = true
		ops = ops[lastAttach+1:]
	}

	shutdownDone := false
	for _, op := range ops {
		switch op.Kind {
		case opAttach:
			if next >= s.NHosts {
				continue
			}
			if stopAttaching {
				c.Class("attach-skipped(start-error,graph-stops)")
				continue
			}
			if shutdownDone {
				continue // a component is never started after it was shut down
			}
			k := next
			next++
			sentBefore := e.rawSince(0, 0) // host 0 is attached from the start: everything reported so far
			state0 := e.states[0]
			rawBefore := e.rawLen(k)
			if aerr := e.attach(k); aerr != nil && !s.StartErr {
				return true, key, vt.Failf("shared/late-start-returned-error", "Start with host %d returned %v", k, aerr)
			}
			if e.f != nil {
				return true, key, e.f
			}
			if fd := e.lateAttachOracle(k, e.rawSince(k, rawBefore), sentBefore, state0, c); fd != nil {
				return true, key, fd
			}
		case opReport:
			if e.inner.host == nil {
				continue
			}
			before := make([]int, s.NHosts)
			for k := range before {
				before[k] = e.rawLen(k)
			}
			d0 := e.r.logLen()
			ev := e.componentReport(op.Letter)
			if e.f != nil {
				return true, key, e.f
			}
			for k := 0; k < next; k++ {
				got := e.rawSince(k, before[k])
				if len(got) != 1 || !sameEvent(got[0], ev) {
					return true, key, vt.Failf("shared/report-not-fanned-out", "component reported %s with hosts 0..%d attached; host %d was handed [%s]",
						letterName[op.Letter], next-1, k, evStatuses(got))
				}
			}
			for k := next; k < s.NHosts; k++ {
				if e.rawLen(k) != before[k] {
					return true, key, vt.Failf("shared/report-to-unattached-host", "host %d received a report before it was attached", k)
				}
			}
			if next == s.NHosts {
				reportsAfterAll++
				if e.r.logLen() > d0 {
					acceptedSomewhere = true
				}
			}
		case opShutdown:
			if shutdownDone {
				continue
			}
			shutdownDone = true
			if fd := e.convergence(c, next, "at-shutdown"); fd != nil {
				return true, key, fd
			}
			before := make([]int, s.NHosts)
			for k := range before {
				before[k] = e.rawLen(k)
			}
			n := s.NHosts
			if !s.Auto {
				n = 1
			}
			for k := 0; k < n; k++ { // the graph shuts every node down, started or not
				if s.Auto {
					e.reportTo(k, lStopping, newEvent(lStopping))
				}
				serr := e.comp.Shutdown(context.Background())
				if k == 0 && (serr != nil) != s.ShutdownErr {
					return true, key, vt.Failf("shared/shutdown-error-not-propagated", "Shutdown returned %v, component returned error=%v", serr, s.ShutdownErr)
				}
				if s.Auto {
					if serr != nil {
						e.reportTo(k, lPermanent, componentstatus.NewPermanentErrorEvent(serr))
					} else {
						e.reportTo(k, lStopped, newEvent(lStopped))
					}
				}
			}
			if e.f != nil {
				return true, key, e.f
			}
			// the shared component reports Stopping ... Stopped|PermanentError for every instance it represents
			want := lStopped
			if s.ShutdownErr {
				want = lPermanent
				classes = append(classes, "shutdown-error")
			}
			for k := 0; k < next; k++ {
				got := e.rawSince(k, before[k])
				if len(got) < 2 || got[0].Status() != componentstatus.StatusStopping || int(got[len(got)-1].Status()) != want {
					return true, key, vt.Failf("shared/shutdown-status-not-fanned-out", "shutdown (error=%v): attached host %d was handed [%s], want Stopping ... %s",
						s.ShutdownErr, k, evStatuses(got), letterName[want])
				}
			}
		}
	}
	if e.f != nil {
		return true, key, e.f
	}
	if !shutdownDone {
		if fd := e.convergence(c, next, "at-end"); fd != nil {
			return true, key, fd
		}
	}
	// final: every instance's delivered sequence is a path
	per := make([][]componentstatus.Status, s.NHosts)
	for _, o := range e.r.since(0) {
		if o.Inst < 0 {
			return true, key, vt.Failf("shared/event-for-unknown-instance", "event for unknown instance")
		}
		per[o.Inst] = append(per[o.Inst], o.Status)
	}
	rejAfterAcc := false
	for k := range per {
		if fd := pathCheck("shared", per[k]); fd != nil {
			return true, key, fd
		}
		if len(per[k]) > 0 && len(e.rawSince(k, 0)) > len(per[k]) {
			rejAfterAcc = true
		}
	}
	if next == s.NHosts && next >= 2 {
		classes = append(classes, "all-attached")
	}
	if reportsAfterAll > 0 {
		classes = append(classes, "reports-after-all-attached")
	}
	if shutdownDone {
		classes = append(classes, "shutdown")
	}
	c.Class(classes...)
	if out != nil {
		out.Per = per
		out.Raw = make([][]componentstatus.Status, s.NHosts)
		for k := range out.Raw {
			for _, ev := range e.rawSince(k, 0) {
				out.Raw[k] = append(out.Raw[k], ev.Status())
			}
		}
		out.InnerStarted = e.inner.host != nil
		out.ShutdownDone = shutdownDone
	}
	nontrivial = next >= 2 && reportsAfterAll > 0 && acceptedSomewhere && rejAfterAcc
	return nontrivial, key, nil
}

// divergenceProbe is set while the curated observation script runs (TestShared).
var divergenceProbe bool

func noteDivergence(c klass, s SharedScript, states []State) {
	if !divergenceProbe {
		return
	}
	names := make([]string, len(states))
	for i, st := range states {
		names[i] = stateName[st]
	}
	b, _ := json.Marshal(s)
	c.Note("observation (recorded, not judged by this check): the instances of one shared component can hold different statuses; curated script %s ends with instance statuses %v "+
		"(the component reported PermanentError and then OK five times before the second host attached: the bounded replay hands the late instance only the five ignored OK reports)", b, names)
}

// observationScript: hosts behave like the graph; the component reports
// PermanentError from Start, then OK five times, then the second host attaches.
var observationScript = SharedScript{NHosts: 2, Auto: true, StartReports: []int{lPermanent},
	Ops: []SharedOp{{opReport, lOK}, {opReport, lOK}, {opReport, lOK}, {opReport, lOK}, {opReport, lOK}, {Kind: opAttach}, {Kind: opShutdown}}}

func genShared(t *rapid.T) SharedScript {
	s := SharedScript{
		NHosts: rapid.IntRange(2, 3).Draw(t, "nhosts"),
		Auto:   rapid.IntRange(0, 3).Draw(t, "auto") != 0,
	}
	compLetter := rapid.SampledFrom([]int{lOK, lOK, lOK, lRecoverable, lRecoverable, lRecoverable, lPermanent, lFatal, lStopping, lStopped, lStarting, lNone, lInvalidHigh})
	s.StartReports = rapid.SliceOfN(compLetter, 0, 3).Draw(t, "startReports")
	s.StartErr = rapid.IntRange(0, 7).Draw(t, "startErr") == 0
	s.ShutdownErr = rapid.IntRange(0, 4).Draw(t, "shutdownErr") == 0
	s.ShutdownReports = rapid.SliceOfN(compLetter, 0, 2).Draw(t, "shutdownReports")
	s.Async = rapid.IntRange(0, 3).Draw(t, "async") == 0
	// reports interleaved with the attaches; sometimes many reports before an attach
	for k := 1; k < s.NHosts; k++ {
		max := 3
		if rapid.IntRange(0, 3).Draw(t, "burst") == 0 {
			max = 9
		}
		for _, l := range rapid.SliceOfN(compLetter, 0, max).Draw(t, "pre") {
			s.Ops = append(s.Ops, SharedOp{opReport, l})
		}
		s.Ops = append(s.Ops, SharedOp{Kind: opAttach})
	}
	for _, l := range rapid.SliceOfN(compLetter, 0, 6).Draw(t, "post") {
		s.Ops = append(s.Ops, SharedOp{opReport, l})
	}
	if rapid.IntRange(0, 4).Draw(t, "shutdown") != 0 {
		s.Ops = append(s.Ops, SharedOp{Kind: opShutdown})
		for _, l := range rapid.SliceOfN(compLetter, 0, 2).Draw(t, "late") {
			s.Ops = append(s.Ops, SharedOp{opReport, l})
		}
	}
	return s
}

func TestShared(t *testing.T) {
	cShared.ReplayRepeat = 50
	if vt.ReplayPath() == "" {
		divergenceProbe = true
		if _, _, f := runShared(observationScript); f != nil {
			cShared.Violation(f, observationScript)
			t.Fatalf("curated observation script: %v", f)
		}
		divergenceProbe = false
	}
	vt.Run(t, cShared, vt.N(30000, 1500000), genShared, runShared)
}
