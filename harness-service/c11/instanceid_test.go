package c11

import (
	"encoding/json"
	"fmt"
	"sort"
	"strings"
	"testing"

	"pgregory.net/rapid"

	"go.opentelemetry.io/collector/component"
	"go.opentelemetry.io/collector/component/componentstatus"
	"go.opentelemetry.io/collector/pipeline"
	"go.opentelemetry.io/collector/service/verifharness/vt"
)

// ---------------------------------------------------------------------------
// (d'') the public InstanceID itself.  A watcher learns which pipelines an
// event is about from InstanceID.AllPipelineIDs only; the service builds the
// ID of a shared node step by step (NewInstanceID, then one WithPipelines per
// further pipeline, in map order).  Model: the pipelines of an InstanceID are a
// SET - AllPipelineIDs reports exactly the union of everything that was added,
// whatever the order and grouping of the additions, however much the IDs
// resemble each other as text.
// ---------------------------------------------------------------------------

type PID struct{ Signal, Name string }

func (p PID) String() string  { return pidString(p.Signal, p.Name) }
func (p PID) id() pipeline.ID { return pipeline.NewIDWithName(sigOf(p.Signal), p.Name) }

// InstScript: Steps[0] is handed to NewInstanceID, every further step to
// WithPipelines of the previous result.  Other holds the same pipelines in
// another order / grouping.  StopAfter: the callback of one extra
// AllPipelineIDs walk returns false at its StopAfter-th call.
type InstScript struct {
	Kind      int
	Comp      string
	Steps     [][]PID
	Other     [][]PID
	StopAfter int
}

var instKinds = []component.Kind{component.KindReceiver, component.KindProcessor, component.KindExporter, component.KindExtension, component.KindConnector}

func pidSet(steps [][]PID) map[PID]bool {
	m := map[PID]bool{}
	for _, st := range steps {
		for _, p := range st {
			m[p] = true
		}
	}
	return m
}

func (s InstScript) valid() bool {
	if s.Kind < 0 || s.Kind >= len(instKinds) || len(s.Steps) < 1 || len(s.Steps) > 8 || len(s.Other) > 8 || s.StopAfter < 0 {
		return false
	}
	for _, steps := range [][][]PID{s.Steps, s.Other} {
		for _, st := range steps {
			if len(st) > 8 {
				return false
			}
			for _, p := range st {
				if (p.Signal != "traces" && p.Signal != "metrics" && p.Signal != "logs") || !validPipeName(p.Name) {
					return false
				}
			}
		}
	}
	if len(s.Other) > 0 {
		a, b := pidSet(s.Steps), pidSet(s.Other)
		if len(a) != len(b) {
			return false
		}
		for p := range a {
			if !b[p] {
				return false
			}
		}
	}
	return true
}

func readPipelines(id *componentstatus.InstanceID) (set map[pipeline.ID]int, calls int) {
	set = map[pipeline.ID]int{}
	id.AllPipelineIDs(func(p pipeline.ID) bool {
		set[p]++
		calls++
		return true
	})
	return set, calls
}

func pidList(m map[PID]bool) string {
	out := make([]string, 0, len(m))
	for p := range m {
		out = append(out, p.String())
	}
	sort.Strings(out)
	return "{" + strings.Join(out, " ") + "}"
}

func idList(m map[pipeline.ID]int) string {
	out := make([]string, 0, len(m))
	for p := range m {
		out = append(out, p.String())
	}
	sort.Strings(out)
	return "{" + strings.Join(out, " ") + "}"
}

func stepsString(steps [][]PID) string {
	var sb strings.Builder
	for i, st := range steps {
		names := make([]string, len(st))
		for j, p := range st {
			names[j] = p.String()
		}
		if i == 0 {
			sb.WriteString("NewInstanceID(" + strings.Join(names, ", ") + ")")
		} else {
			sb.WriteString(".WithPipelines(" + strings.Join(names, ", ") + ")")
		}
	}
	return sb.String()
}

// buildInstance applies the steps and returns the InstanceID after each.
func buildInstance(cid component.ID, kind component.Kind, steps [][]PID) []*componentstatus.InstanceID {
	var out []*componentstatus.InstanceID
	for i, st := range steps {
		ids := make([]pipeline.ID, len(st))
		for j, p := range st {
			ids[j] = p.id()
		}
		if i == 0 {
			out = append(out, componentstatus.NewInstanceID(cid, kind, ids...))
		} else {
			out = append(out, out[i-1].WithPipelines(ids...))
		}
	}
	return out
}

// checkAgainstUnion: the InstanceID reports exactly want.
func checkAgainstUnion(when string, steps [][]PID, upto int, id *componentstatus.InstanceID, want map[PID]bool) *vt.Finding {
	got, _ := readPipelines(id)
	ps := make([]PID, 0, len(want))
	for p := range want {
		ps = append(ps, p)
	}
	sort.Slice(ps, func(i, j int) bool { return ps[i].String() < ps[j].String() })
	for _, p := range ps {
		if got[p.id()] == 0 {
			return vt.Failf("instanceid/pipeline-lost", "%s: %s was given pipeline %q but AllPipelineIDs reports %s (added so far: %s)",
				when, stepsString(steps[:upto+1]), p.String(), idList(got), pidList(want))
		}
	}
	for g := range got {
		found := false
		for p := range want {
			if p.id() == g {
				found = true
				break
			}
		}
		if !found {
			return vt.Failf("instanceid/foreign-pipeline", "%s: %s reports pipeline %q, which was never added (added: %s)",
				when, stepsString(steps[:upto+1]), g.String(), pidList(want))
		}
	}
	return nil
}

var cInst = vt.New("C11", "instanceid-model")

func runInst(s InstScript) (nontrivial bool, key string, f *vt.Finding) {
	kb, _ := json.Marshal(s)
	key = string(kb)
	if !s.valid() {
		return false, key, nil
	}
	c := cInst
	kind := instKinds[s.Kind]
	cid := component.NewIDWithName(typC, s.Comp)
	ids := buildInstance(cid, kind, s.Steps)

	// (1) after every step: exactly the union of what was added
	unions := make([]map[PID]bool, len(s.Steps))
	reAdd, containedLater := false, false
	for i := range s.Steps {
		unions[i] = pidSet(s.Steps[:i+1])
		if i > 0 {
			for _, p := range s.Steps[i] {
				if unions[i-1][p] {
					reAdd = true
					continue
				}
				for q := range unions[i-1] {
					if textual(pairRelation(p.String(), q.String())) && len(q.String()) >= len(p.String()) {
						containedLater = true // the C11-n shape: an ID added after a longer one that contains it / its case variant
					}
				}
			}
		}
		if fd := checkAgainstUnion("after the step", s.Steps, i, ids[i], unions[i]); fd != nil {
			return true, key, fd
		}
		if ids[i].Kind() != kind || ids[i].ComponentID() != cid {
			return true, key, vt.Failf("instanceid/component-changed", "%s: kind/component id are %v %v, built with %v %v", stepsString(s.Steps[:i+1]), ids[i].Kind(), ids[i].ComponentID(), kind, cid)
		}
	}
	// (2) WithPipelines returns a NEW id: every earlier id still reports its own set
	for i := range s.Steps {
		if fd := checkAgainstUnion("re-read after all later WithPipelines calls", s.Steps, i, ids[i], unions[i]); fd != nil {
			fd.Sig = "instanceid/receiver-mutated"
			return true, key, fd
		}
	}
	// (3) ids of one component are equal exactly when their sets are equal
	for i := range ids {
		for j := i + 1; j < len(ids); j++ {
			same := len(unions[i]) == len(unions[j]) // unions grow monotonically
			if (*ids[i] == *ids[j]) != same {
				return true, key, vt.Failf("instanceid/equality-not-by-set", "%s: the id after step %d (%s) and after step %d (%s) compare equal=%v",
					stepsString(s.Steps), i, pidList(unions[i]), j, pidList(unions[j]), *ids[i] == *ids[j])
			}
		}
	}
	final := ids[len(ids)-1]
	// (4) another order / grouping of the same pipelines gives an equal id reporting the same set
	if len(s.Other) > 0 {
		oids := buildInstance(cid, kind, s.Other)
		o := oids[len(oids)-1]
		if fd := checkAgainstUnion("other order", s.Other, len(s.Other)-1, o, unions[len(unions)-1]); fd != nil {
			return true, key, fd
		}
		if *o != *final {
			return true, key, vt.Failf("instanceid/order-dependent", "%s and %s hold the same pipelines %s but do not compare equal",
				stepsString(s.Steps), stepsString(s.Other), pidList(unions[len(unions)-1]))
		}
	}
	// (5) the walk stops when the callback says so
	n := len(unions[len(unions)-1])
	if s.StopAfter > 0 && n > 0 {
		calls := 0
		final.AllPipelineIDs(func(pipeline.ID) bool { calls++; return calls < s.StopAfter })
		want := s.StopAfter
		if want > n {
			want = n
		}
		if calls != want {
			return true, key, vt.Failf("instanceid/walk-does-not-stop", "%s holds %d pipelines; a callback returning false at call %d was called %d times", stepsString(s.Steps), n, s.StopAfter, calls)
		}
	}

	// classes
	u := unions[len(unions)-1]
	all := make([]string, 0, len(u))
	for p := range u {
		all = append(all, p.String())
	}
	sort.Strings(all)
	rels := map[string]bool{}
	anyTextual := false
	for i := range all {
		for j := i + 1; j < len(all); j++ {
			if r := pairRelation(all[i], all[j]); r != "" {
				rels[r] = true
				anyTextual = anyTextual || textual(r)
			}
		}
	}
	for r := range rels {
		c.Class("pair/" + r)
	}
	c.Class(fmt.Sprintf("steps/%d", len(s.Steps)), "pipelines/"+bucket(n))
	if reAdd {
		c.Class("re-adds-a-recorded-pipeline")
	}
	if containedLater {
		c.Class("adds-an-id-contained-in-a-recorded-longer-one")
	}
	if len(s.Other) > 0 {
		c.Class("other-order-compared")
	}
	if len(s.Steps[0]) == 0 {
		c.Class("created-without-pipelines")
	}
	return len(s.Steps) >= 2 && anyTextual, key, nil
}

func genInst(t *rapid.T) InstScript {
	s := InstScript{Kind: rapid.IntRange(0, len(instKinds)-1).Draw(t, "kind"), Comp: rapid.SampledFrom([]string{"", "a", "eu"}).Draw(t, "comp")}
	family := nameFamily(rapid.SampledFrom(nameBases).Draw(t, "nameBase"))
	if rapid.IntRange(0, 3).Draw(t, "twoBases") == 0 {
		family = append(family, nameFamily(rapid.SampledFrom(nameBases).Draw(t, "nameBase2"))...)
	}
	pid := rapid.Custom(func(t *rapid.T) PID {
		return PID{
			Signal: rapid.SampledFrom([]string{"traces", "traces", "logs", "logs", "metrics"}).Draw(t, "signal"),
			Name:   rapid.SampledFrom(family).Draw(t, "name"),
		}
	})
	nSteps := rapid.IntRange(1, 5).Draw(t, "steps")
	var flat []PID
	for i := 0; i < nSteps; i++ {
		st := rapid.SliceOfN(pid, 0, 3).Draw(t, "step")
		if i > 0 && len(st) == 0 {
			st = []PID{pid.Draw(t, "one")}
		}
		if st == nil {
			st = []PID{}
		}
		s.Steps = append(s.Steps, st)
		flat = append(flat, st...)
	}
	if rapid.IntRange(0, 4).Draw(t, "other") != 0 && len(flat) > 0 {
		perm := rapid.Permutation(flat).Draw(t, "perm")
		groups := rapid.IntRange(1, 4).Draw(t, "groups")
		s.Other = make([][]PID, groups)
		for i := range s.Other {
			s.Other[i] = []PID{}
		}
		for _, p := range perm {
			g := rapid.IntRange(0, groups-1).Draw(t, "group")
			s.Other[g] = append(s.Other[g], p)
		}
	}
	s.StopAfter = rapid.IntRange(0, 4).Draw(t, "stopAfter")
	return s
}

func TestInstanceID(t *testing.T) { vt.Run(t, cInst, vt.N(20000, 1000000), genInst, runInst) }
