package c11

import (
	"os"
	"testing"

	"go.opentelemetry.io/collector/service/verifharness/vt"
)

// TestDescribe prints a replay script in readable form (debug aid):
// VT_DESCRIBE=<file> go test -tags verif ./c11 -run TestDescribe -v
func TestDescribe(t *testing.T) {
	p := os.Getenv("VT_DESCRIBE")
	if p == "" {
		t.Skip()
	}
	ops := func(o []SeqOp) string {
		out := ""
		for _, op := range o {
			out += " " + letterName[op.Letter%nLetters] + "@" + string(rune('0'+op.Inst%10))
		}
		return out
	}
	var seq SeqScript
	check, _ := vt.LoadReplay(p, &seq)
	switch check {
	case "fsm-exhaustive", "fsm-long":
		t.Logf("%s: %d instances:%s", check, seq.NInst, ops(seq.Ops))
	case "concurrent", "concurrent-fresh":
		var s ConcScript
		_, _ = vt.LoadReplay(p, &s)
		t.Logf("%s (%s): %d instances, %d repetitions; prefix:%s", check, s.Style, s.NInst, s.Reps, ops(s.Prefix))
		for i, w := range s.Workers {
			t.Logf("  worker %d:%s", i, ops(w))
		}
	case "sharedcomponent":
		var s SharedScript
		_, _ = vt.LoadReplay(p, &s)
		t.Logf("sharedcomponent: hosts=%d likeGraph=%v async=%v Start reports [%s] err=%v; Shutdown reports [%s] err=%v",
			s.NHosts, s.Auto, s.Async, lettersString(s.StartReports), s.StartErr, lettersString(s.ShutdownReports), s.ShutdownErr)
		for i, op := range s.Ops {
			switch op.Kind {
			case opReport:
				t.Logf("  %d: component reports %s", i, letterName[op.Letter%nLetters])
			case opAttach:
				t.Logf("  %d: next host attaches (Start)", i)
			default:
				t.Logf("  %d: Shutdown", i)
			}
		}
	case "sharedcomponent-gated":
		var s GatedScript
		_, _ = vt.LoadReplay(p, &s)
		t.Logf("gated: hosts=%d likeGraph=%v Start reports [%s]; prefix [%s]; racers %s; first report of racer %d is held inside host %d's delivery; post [%s]",
			s.NHosts, s.Auto, lettersString(s.StartReports), lettersString(s.Prefix), workersString(s.Racers), s.HeldRacer, s.HeldHost, lettersString(s.Post))
	case "sharedcomponent-generations":
		var g GenScript
		_, _ = vt.LoadReplay(p, &g)
		for i, s := range g.Gens {
			line := ""
			for _, op := range s.Ops {
				switch op.Kind {
				case opReport:
					line += " report:" + letterName[op.Letter%nLetters]
				case opAttach:
					line += " attach"
				default:
					line += " SHUTDOWN"
				}
			}
			t.Logf("generation %d: hosts=%d likeGraph=%v Start[%s] err=%v Shutdown[%s] err=%v ops:%s", i, s.NHosts, s.Auto,
				lettersString(s.StartReports), s.StartErr, lettersString(s.ShutdownReports), s.ShutdownErr, line)
		}
	case "service-generations":
		var g SvcGenScript
		_, _ = vt.LoadReplay(p, &g)
		for i, s := range g.Gens {
			b := s.Comps["s"]
			t.Logf("service generation %d: pipelines=%v shared receiver Start[%s] Shutdown[%s] err=%v; %d runtime reports", i, s.Signals,
				lettersString(b.StartReports), lettersString(b.ShutdownReports), b.ShutdownErr, func() int {
					n := 0
					for _, w := range s.Runtime {
						n += len(w)
					}
					return n
				}())
		}
	case "service-topology":
		var s TopoScript
		_, _ = vt.LoadReplay(p, &s)
		for _, pp := range s.Pipes {
			t.Logf("  pipeline %-12s receivers=%v exporters=%v", pp.id(), pp.Recv, pp.Exp)
		}
		for _, o := range s.objects() {
			b := s.Comps[o]
			if len(b.StartReports)+len(b.ShutdownReports) > 0 || b.ShutdownErr {
				t.Logf("  node %-22s Start[%s] Shutdown[%s] err=%v", o, lettersString(b.StartReports), lettersString(b.ShutdownReports), b.ShutdownErr)
			}
		}
		for _, op := range s.Runtime {
			t.Logf("  runtime: %s reports %s", op.Comp, letterName[op.Letter%nLetters])
		}
	case "service-watcher":
		var s SvcScript
		_, _ = vt.LoadReplay(p, &s)
		t.Logf("service: pipelines=%v shared=%v secondExt=%v watcherFirst=%v", s.Signals, s.Shared, s.SecondExt, s.WatcherFirst)
		for _, n := range s.compNames() {
			b := s.Comps[n]
			t.Logf("  %-10s Start[%s] async[%s] err=%v  Shutdown[%s] err=%v", n, lettersString(b.StartReports), lettersString(b.StartAsync), b.StartErr, lettersString(b.ShutdownReports), b.ShutdownErr)
		}
		for i, w := range s.Runtime {
			line := ""
			for _, op := range w {
				line += " " + op.Comp + ":" + letterName[op.Letter%nLetters]
			}
			t.Logf("  runtime goroutine %d:%s", i, line)
		}
	default:
		t.Logf("unknown check %q", check)
	}
}
