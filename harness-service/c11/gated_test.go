package c11

import (
	"context"
	"encoding/json"
	"fmt"
	"sync"
	"sync/atomic"
	"testing"
	"time"

	"pgregory.net/rapid"

	"go.opentelemetry.io/collector/component"
	"go.opentelemetry.io/collector/component/componentstatus"
	"go.opentelemetry.io/collector/internal/sharedcomponent"
	"go.opentelemetry.io/collector/pipeline"
	"go.opentelemetry.io/collector/service/verifharness/vt"
)

// ---------------------------------------------------------------------------
// (c') sharedcomponent, harness-owned schedules.  The hosts attached to the
// shared component are harness objects, so the harness decides when a host
// "returns" from a status delivery: report #1 is delivered to the hosts before
// HeldHost, then held inside HeldHost's delivery callback; while it is held the
// other racers report from their own goroutines and get a bounded moment to
// either wait (a fan-out that is atomic per report) or complete; then the gate
// opens.  Whatever the implementation does in that window, a component shared
// by several instances must take all of them through the same history: every
// report reaches every attached instance and there is ONE order of the reports
// that explains every instance's delivered sequence.
// ---------------------------------------------------------------------------

type GatedScript struct {
	NHosts       int
	Auto         bool    // hosts report lifecycle statuses like the service graph
	StartReports []int   // reported by the component inside Start (<= 2: never truncates the replay)
	Prefix       []int   // reported after all hosts are attached, before the race
	Racers       [][]int // 2..3 goroutines, 1..2 reports each
	HeldHost     int     // the host whose delivery of the held report blocks on the gate
	HeldRacer    int     // the racer whose FIRST report is held
	Post         []int   // reported sequentially after the race
}

func (s GatedScript) valid() bool {
	if s.NHosts < 2 || s.NHosts > 6 || len(s.Racers) < 2 || len(s.Racers) > 6 || len(s.StartReports) > 2 {
		return false
	}
	if s.HeldHost < 0 || s.HeldHost >= s.NHosts || s.HeldRacer < 0 || s.HeldRacer >= len(s.Racers) {
		return false
	}
	ok := func(ls []int) bool {
		for _, l := range ls {
			if l < 0 || l >= nLetters || l == lOKIfStarting {
				return false
			}
		}
		return true
	}
	for _, r := range s.Racers {
		if len(r) < 1 || len(r) > 4 || !ok(r) {
			return false
		}
	}
	return ok(s.StartReports) && ok(s.Prefix) && ok(s.Post) && len(s.Prefix) <= 16 && len(s.Post) <= 16
}

// holdWindow: how long the racers that are not held get to complete their
// report while the held delivery is blocked.  With a fan-out that is atomic
// per report they simply wait (the full window is spent); otherwise they finish
// within microseconds and the window ends early.
const holdWindow = 8 * time.Millisecond

type gEnv struct {
	s     GatedScript
	r     *rig
	inner *gInner
	comp  *sharedcomponent.Component[*gInner]

	mu  sync.Mutex
	raw [][]*componentstatus.Event

	heldEv  *componentstatus.Event
	held    atomic.Bool
	reached chan struct{}
	gate    chan struct{}
}

type gInner struct {
	env  *gEnv
	host component.Host
}

func (c *gInner) Start(_ context.Context, host component.Host) error {
	c.host = host
	for _, l := range c.env.s.StartReports {
		componentstatus.ReportStatus(host, newEvent(l))
	}
	return nil
}
func (c *gInner) Shutdown(context.Context) error { return nil }

type gHost struct {
	env  *gEnv
	inst int
}

func (h *gHost) GetExtensions() map[component.ID]component.Component { return nil }

func (h *gHost) Report(ev *componentstatus.Event) {
	e := h.env
	if ev != nil && ev == e.heldEv && h.inst == e.s.HeldHost && e.held.CompareAndSwap(false, true) {
		close(e.reached)
		select {
		case <-e.gate:
		case <-time.After(10 * time.Second): // never deadlock on the harness' own gate
		}
	}
	e.mu.Lock()
	e.raw[h.inst] = append(e.raw[h.inst], ev)
	e.mu.Unlock()
	if ev != nil {
		e.r.rep.ReportStatus(e.r.ids[h.inst], ev)
	}
}

var cGated = vt.New("C11", "sharedcomponent-gated")

func runGated(s GatedScript) (nontrivial bool, key string, f *vt.Finding) {
	kb, _ := json.Marshal(s)
	key = string(kb)
	if !s.valid() {
		return false, key, nil
	}
	c := cGated
	e := &gEnv{s: s, r: &rig{}, reached: make(chan struct{}), gate: make(chan struct{})}
	cid := component.MustNewIDWithName("c11", "gated")
	sigs := []pipeline.Signal{pipeline.SignalTraces, pipeline.SignalMetrics, pipeline.SignalLogs}
	hosts := make([]*gHost, s.NHosts)
	for k := 0; k < s.NHosts; k++ {
		e.r.ids = append(e.r.ids, componentstatus.NewInstanceID(cid, component.KindReceiver, pipeline.NewIDWithName(sigs[k%3], fmt.Sprintf("p%d", k))))
		hosts[k] = &gHost{env: e, inst: k}
	}
	e.r.init()
	e.raw = make([][]*componentstatus.Event, s.NHosts)
	e.inner = &gInner{env: e}
	var err error
	e.comp, err = sharedcomponent.NewMap[string, *gInner]().LoadOrStore("k", func() (*gInner, error) { return e.inner, nil })
	if err != nil {
		return false, key, vt.Failf("shared/harness", "LoadOrStore: %v", err)
	}
	// attach every host, then the prefix history: all instances are attached for the whole race
	for k := 0; k < s.NHosts; k++ {
		if s.Auto {
			e.r.rep.ReportStatus(e.r.ids[k], newEvent(lStarting))
		}
		if serr := e.comp.Start(context.Background(), hosts[k]); serr != nil {
			return false, key, vt.Failf("shared/harness", "Start: %v", serr)
		}
		if s.Auto {
			e.r.rep.ReportOKIfStarting(e.r.ids[k])
		}
	}
	for _, l := range s.Prefix {
		componentstatus.ReportStatus(e.inner.host, newEvent(l))
	}
	perInst := func(from int) [][]componentstatus.Status {
		per := make([][]componentstatus.Status, s.NHosts)
		for _, o := range e.r.since(from) {
			if o.Inst >= 0 {
				per[o.Inst] = append(per[o.Inst], o.Status)
			}
		}
		return per
	}
	pre := perInst(0)
	state0 := State(lNone)
	for k := range pre {
		if fd := pathCheck("shared", pre[k]); fd != nil {
			return true, key, fd
		}
		st := State(lNone)
		if n := len(pre[k]); n > 0 {
			st = int(pre[k][n-1])
		}
		if k == 0 {
			state0 = st
		} else if st != state0 {
			// cannot happen with <= 2 start reports (complete replay, judged by TestShared); not this check's business
			c.Class("skipped/pre-race-statuses-differ")
			return false, key, nil
		}
	}
	raceMark := e.r.logLen()
	rawMark := make([]int, s.NHosts)
	for k := range rawMark {
		rawMark[k] = len(e.raw[k])
	}

	// the race
	evs := make([][]*componentstatus.Event, len(s.Racers))
	for i, r := range s.Racers {
		for _, l := range r {
			evs[i] = append(evs[i], newEvent(l))
		}
	}
	e.heldEv = evs[s.HeldRacer][0]
	done := make([]chan struct{}, len(s.Racers))
	entering := make([]chan struct{}, len(s.Racers))
	start := func(i int) {
		done[i], entering[i] = make(chan struct{}), make(chan struct{})
		go func() {
			defer close(done[i])
			close(entering[i])
			for _, ev := range evs[i] {
				componentstatus.ReportStatus(e.inner.host, ev)
			}
		}()
	}
	start(s.HeldRacer)
	holdReached := true
	select {
	case <-e.reached:
	case <-done[s.HeldRacer]: // the held report never got to HeldHost (would be a fan-out failure, judged below)
		holdReached = false
	case <-time.After(5 * time.Second):
		holdReached = false
	}
	for i := range s.Racers {
		if i != s.HeldRacer {
			start(i)
		}
	}
	othersDone := true
	if holdReached {
		deadline := time.After(holdWindow)
		for i := range s.Racers {
			if i == s.HeldRacer {
				continue
			}
			select {
			case <-entering[i]:
			case <-time.After(time.Second):
			}
			select {
			case <-done[i]:
			case <-deadline:
				othersDone = false
			}
			if !othersDone {
				break
			}
		}
	}
	close(e.gate) // always released before joining
	joinDeadline := time.After(30 * time.Second)
	for i := range s.Racers {
		select {
		case <-done[i]:
		case <-joinDeadline:
			return true, key, vt.Failf("shared/gated/hang", "racer %d did not return within 30s after the gate was opened", i)
		}
	}
	switch {
	case !holdReached:
		c.Class("hold/not-reached")
	case othersDone:
		c.Class("hold/other-racers-completed-while-held")
	default:
		c.Class("hold/other-racers-waited")
	}
	afterRace := e.r.logLen()
	for _, l := range s.Post {
		componentstatus.ReportStatus(e.inner.host, newEvent(l))
	}

	// (1) every report of the race reached every attached host exactly once
	e.mu.Lock()
	raw := make([][]*componentstatus.Event, s.NHosts)
	for k := range raw {
		raw[k] = append([]*componentstatus.Event(nil), e.raw[k][rawMark[k]:]...)
	}
	e.mu.Unlock()
	for k := range raw {
		for i := range evs {
			for j, ev := range evs[i] {
				n := 0
				for _, got := range raw[k] {
					if got == ev {
						n++
					}
				}
				if n != 1 {
					return true, key, vt.Failf("shared/report-not-fanned-out", "racer %d report %d (%s) was handed to host %d %d times (want exactly once); host %d received [%s]",
						i, j, letterName[s.Racers[i][j]], k, n, k, evStatuses(raw[k]))
				}
			}
		}
	}
	// (2) each instance's sequence is a path, and all instances (attached for the whole history,
	// same status before the race) were taken through the same history
	all := perInst(0)
	for k := range all {
		if fd := pathCheck("shared", all[k]); fd != nil {
			return true, key, fd
		}
	}
	race := perInst(raceMark)
	for k := 1; k < s.NHosts; k++ {
		if statusSeqString(race[k]) != statusSeqString(race[0]) {
			return true, key, vt.Failf("shared/gated/instances-differ",
				"all %d instances were attached and in status %s; racing reports %s (+ later [%s]): instance 0 delivered [%s] but instance %d delivered [%s] "+
					"(hosts were handed: 0:[%s] %d:[%s]) — no single order of the reports explains both",
				s.NHosts, stateName[state0], workersString(s.Racers), lettersString(s.Post), statusSeqString(race[0]), k, statusSeqString(race[k]),
				evStatuses(raw[0]), k, evStatuses(raw[k]))
		}
	}
	// (3) that common history is the automaton's output for some interleaving of the racers
	n0 := 0
	for _, o := range e.r.since(raceMark)[:afterRace-raceMark] {
		if o.Inst == 0 {
			n0++
		}
	}
	if ok, exhausted := linearizable(state0, s.Racers, race[0][:n0]); !exhausted && !ok {
		return true, key, vt.Failf("shared/gated/not-linearizable", "instance 0 (status %s): delivered [%s] is not the automaton's output for any interleaving of %s",
			stateName[state0], statusSeqString(race[0][:n0]), workersString(s.Racers))
	}
	orderSame := true
	for k := 1; k < s.NHosts; k++ {
		for i := range raw[0] {
			if i >= len(raw[k]) || raw[k][i] != raw[0][i] {
				orderSame = false
			}
		}
	}
	if !orderSame {
		c.Class("hosts-saw-different-report-order(not observable in statuses)")
	}
	c.Class(fmt.Sprintf("hosts/%d", s.NHosts), fmt.Sprintf("racers/%d", len(s.Racers)), fmt.Sprintf("held-host/%d", s.HeldHost), "pre-race-status/"+stateName[state0])
	acc := len(race[0])
	total := len(s.Post)
	for _, r := range s.Racers {
		total += len(r)
	}
	if acc >= 2 {
		c.Class("race-accepted>=2")
	}
	// non-trivial: the order of the racing reports matters (>= 1 accepted and >= 1 rejected during the race)
	return holdReached && acc >= 1 && acc < total, key, nil
}

func genGated(t *rapid.T) GatedScript {
	s := GatedScript{
		NHosts: rapid.IntRange(2, 3).Draw(t, "nhosts"),
		Auto:   rapid.IntRange(0, 3).Draw(t, "auto") != 0,
	}
	live := rapid.SampledFrom([]int{lOK, lOK, lRecoverable, lRecoverable, lOK, lRecoverable, lPermanent, lStopping, lFatal, lStarting})
	s.StartReports = rapid.SliceOfN(rapid.SampledFrom([]int{lOK, lRecoverable}), 0, 2).Draw(t, "startReports")
	s.Prefix = rapid.SliceOfN(rapid.SampledFrom([]int{lOK, lRecoverable, lOK, lRecoverable, lStopping, lPermanent}), 0, 3).Draw(t, "prefix")
	nr := rapid.SampledFrom([]int{2, 2, 2, 3}).Draw(t, "racers")
	for i := 0; i < nr; i++ {
		s.Racers = append(s.Racers, rapid.SliceOfN(live, 1, 2).Draw(t, "racer"))
	}
	s.HeldHost = rapid.IntRange(0, s.NHosts-1).Draw(t, "heldHost")
	if rapid.IntRange(0, 3).Draw(t, "heldLater") != 0 && s.HeldHost == 0 {
		s.HeldHost = rapid.IntRange(1, s.NHosts-1).Draw(t, "heldHost2")
	}
	s.HeldRacer = rapid.IntRange(0, nr-1).Draw(t, "heldRacer")
	s.Post = rapid.SliceOfN(live, 0, 2).Draw(t, "post")
	return s
}

func TestSharedGated(t *testing.T) {
	cGated.ReplayRepeat = 5
	vt.Run(t, cGated, vt.N(500, 24000), genGated, runGated)
}
