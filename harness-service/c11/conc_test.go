package c11

import (
	"fmt"
	"strings"
	"sync"
	"testing"
	"time"

	"pgregory.net/rapid"

	"go.opentelemetry.io/collector/component/componentstatus"
	"go.opentelemetry.io/collector/service/verifharness/vt"
)

// ---------------------------------------------------------------------------
// (b) concurrent reports: several goroutines x several instances
// ---------------------------------------------------------------------------

// ConcScript: Prefix is applied by the calling goroutine, then every worker
// applies its ops concurrently (all released by one barrier).  The script is
// executed Reps times, each time on a fresh reporter (the oracle must hold for
// every schedule, so every repetition is a legitimate case).
type ConcScript struct {
	NInst   int
	Prefix  []SeqOp
	Workers [][]SeqOp
	Reps    int
	Style   string // small | hammer | fresh (label only; the oracle adapts to the sizes)
}

func (s ConcScript) valid() bool {
	if s.NInst < 1 || s.NInst > 64 || s.Reps < 1 || s.Reps > 100000 || len(s.Workers) > 64 {
		return false
	}
	chk := func(ops []SeqOp) bool {
		for _, op := range ops {
			if op.Inst < 0 || op.Inst >= s.NInst || op.Letter < 0 || op.Letter >= nLetters {
				return false
			}
		}
		return true
	}
	if !chk(s.Prefix) {
		return false
	}
	for _, w := range s.Workers {
		if !chk(w) {
			return false
		}
	}
	return true
}

func (s ConcScript) key() string {
	var b strings.Builder
	fmt.Fprintf(&b, "%d|", s.NInst)
	for _, op := range s.Prefix {
		fmt.Fprintf(&b, "%d.%d,", op.Inst, op.Letter)
	}
	for _, w := range s.Workers {
		b.WriteByte('|')
		for _, op := range w {
			fmt.Fprintf(&b, "%d.%d,", op.Inst, op.Letter)
		}
	}
	return b.String()
}

// linBudget bounds the interleaving search (number of memoised search nodes).
const linBudget = 400000

// linearizable decides whether some interleaving of the workers' letter
// sequences (each in program order), run through the reference automaton from
// state start, delivers exactly `delivered`.  MAY edges may go either way.
// ok=false, exhausted=true when the budget ran out (no verdict).
func linearizable(start State, workers [][]int, delivered []componentstatus.Status) (ok, exhausted bool) {
	nw := len(workers)
	pos := make([]int, nw)
	seen := map[string]struct{}{}
	budget := linBudget
	keyBuf := make([]byte, nw+2)
	var rec func(s State, d int) bool
	rec = func(s State, d int) bool {
		done := true
		for w := 0; w < nw; w++ {
			if pos[w] < len(workers[w]) {
				done = false
				break
			}
		}
		if done {
			return d == len(delivered)
		}
		for w := 0; w < nw; w++ {
			keyBuf[w] = byte(pos[w])
		}
		keyBuf[nw], keyBuf[nw+1] = byte(s), byte(d)
		k := string(keyBuf)
		if _, dup := seen[k]; dup {
			return false
		}
		if budget--; budget < 0 {
			exhausted = true
			return false
		}
		seen[k] = struct{}{}
		for w := 0; w < nw; w++ {
			if pos[w] >= len(workers[w]) {
				continue
			}
			l := workers[w][pos[w]]
			v, to := judge(s, l)
			pos[w]++
			if v != mustReject && d < len(delivered) && delivered[d] == letterStatus(l) {
				if rec(to, d+1) {
					return true
				}
			}
			if v != mustAllow {
				if rec(s, d) {
					return true
				}
			}
			pos[w]--
			if exhausted {
				return false
			}
		}
		return false
	}
	ok = rec(start, 0)
	return ok, exhausted
}

type concResult struct {
	delivered, reports int
	linChecked         int
	linSkipped         int
	contended          bool // >= 2 workers reported for one instance
	rejectedAfterAcc   bool
}

// runConcOnce executes the script once and evaluates the oracle.
func runConcOnce(s ConcScript) (res concResult, f *vt.Finding) {
	r := newRig(s.NInst)
	states := make([]State, s.NInst)
	// phase 1: sequential prefix, exact step-wise model
	for i, op := range s.Prefix {
		before := r.logLen()
		r.apply(op.Inst, op.Letter)
		got := r.since(before)
		for _, e := range got {
			if e.Inst != op.Inst {
				return res, vt.Failf("conc/event-for-other-instance", "prefix step %d: report for instance %d delivered an event for instance %d", i, op.Inst, e.Inst)
			}
		}
		if _, fd := modelStep("conc-prefix", &states[op.Inst], op.Letter, got); fd != nil {
			return res, fd
		}
	}
	mark := r.logLen()
	prefixPer := make([][]componentstatus.Status, s.NInst)
	for _, e := range r.since(0) {
		prefixPer[e.Inst] = append(prefixPer[e.Inst], e.Status)
	}

	// phase 2: concurrent workers
	var wg sync.WaitGroup
	gate := make(chan struct{})
	for _, ops := range s.Workers {
		wg.Add(1)
		go func(ops []SeqOp) {
			defer wg.Done()
			<-gate
			for _, op := range ops {
				r.apply(op.Inst, op.Letter)
			}
		}(ops)
	}
	close(gate)
	wg.Wait()

	conc := r.since(mark)
	per := make([][]componentstatus.Status, s.NInst)
	for _, e := range conc {
		if e.Inst < 0 {
			return res, vt.Failf("conc/event-for-unknown-instance", "an event was delivered for an instance id that was never reported")
		}
		per[e.Inst] = append(per[e.Inst], e.Status)
	}
	res.delivered = len(conc)
	// per-instance projections of the workers
	for inst := 0; inst < s.NInst; inst++ {
		var ws [][]int
		nrep := 0
		for _, ops := range s.Workers {
			var ls []int
			for _, op := range ops {
				if op.Inst == inst {
					ls = append(ls, op.Letter)
				}
			}
			if len(ls) > 0 {
				ws = append(ws, ls)
				nrep += len(ls)
			}
		}
		res.reports += nrep
		if len(ws) >= 2 {
			res.contended = true
		}
		if len(per[inst]) > nrep {
			return res, vt.Failf("conc/more-events-than-reports", "instance %d: %d reports produced %d events", inst, nrep, len(per[inst]))
		}
		if len(per[inst]) < nrep && (len(per[inst]) > 0 || len(prefixPer[inst]) > 0) {
			res.rejectedAfterAcc = true
		}
		// (1) the delivered sequence (prefix + concurrent part) is a path
		full := append(append([]componentstatus.Status(nil), prefixPer[inst]...), per[inst]...)
		if fd := pathCheck("conc", full); fd != nil {
			fd.Msg = fmt.Sprintf("instance %d under concurrent reports: %s [%s]", inst, fd.Msg, fd.Sig)
			fd.Sig = "conc/not-a-path"
			return res, fd
		}
		// (2) it is the run of the automaton over SOME interleaving of the reports
		size := 1
		for _, w := range ws {
			size *= len(w) + 1
			if size > 60000 {
				break
			}
		}
		if size > 60000 || len(ws) > 250 {
			res.linSkipped++
			continue
		}
		ok, exhausted := linearizable(states[inst], ws, per[inst])
		if exhausted {
			res.linSkipped++
			continue
		}
		res.linChecked++
		if !ok {
			return res, vt.Failf("conc/not-linearizable",
				"instance %d (state %s after the prefix): delivered [%s] is not the automaton's output for any interleaving of the workers' reports %s",
				inst, stateName[states[inst]], statusSeqString(per[inst]), workersString(ws))
		}
	}
	return res, nil
}

func workersString(ws [][]int) string {
	parts := make([]string, len(ws))
	for i, w := range ws {
		parts[i] = "[" + lettersString(w) + "]"
	}
	return strings.Join(parts, " ")
}

func runConc(c *vt.C) func(s ConcScript) (bool, string, *vt.Finding) {
	return func(s ConcScript) (bool, string, *vt.Finding) {
		if !s.valid() {
			return false, "", nil
		}
		nt := false
		var agg concResult
		for i := 0; i < s.Reps; i++ {
			res, f := runConcOnce(s)
			if f != nil {
				return true, s.key(), f
			}
			nt = nt || (res.contended && res.rejectedAfterAcc)
			agg.linChecked += res.linChecked
			agg.linSkipped += res.linSkipped
			agg.delivered += res.delivered
			agg.contended = agg.contended || res.contended
		}
		c.Class("style/"+s.Style, fmt.Sprintf("workers/%d", len(s.Workers)), fmt.Sprintf("ninst/%d", s.NInst))
		c.ClassN("runs", int64(s.Reps))
		c.ClassN("lin/instances-checked", int64(agg.linChecked))
		c.ClassN("lin/instances-skipped(size)", int64(agg.linSkipped))
		c.ClassN("events-delivered", int64(agg.delivered))
		if agg.contended {
			c.Class("contended-instance")
		}
		return nt, s.key(), nil
	}
}

// concLetter: letters for the concurrent phase; mostly runtime statuses so that
// instances stay alive and several workers race for the same transition.
func concLetter(t *rapid.T) int {
	return rapid.SampledFrom([]int{
		lOK, lOK, lOK, lRecoverable, lRecoverable, lRecoverable, lPermanent, lStopping, lStopped, lFatal,
		lStarting, lStarting, lOKIfStarting, lOKIfStarting, lNone,
	}).Draw(t, "letter")
}

// genPrefix touches every instance at least once (any letter: a rejected first
// report leaves the instance without status) so that the reporter's
// per-instance record exists before the concurrent phase; "fresh" scripts skip
// this and are only run in child processes (see TestConcFresh).
func genPrefix(t *rapid.T, n int) []SeqOp {
	var p []SeqOp
	for i := 0; i < n; i++ {
		switch rapid.IntRange(0, 9).Draw(t, "pre") {
		case 0: // untouched status: first real report happens concurrently
			p = append(p, SeqOp{i, rapid.SampledFrom([]int{lOK, lNone, lStopped, lOKIfStarting}).Draw(t, "rej")})
		case 1, 2, 3:
			p = append(p, SeqOp{i, lStarting})
		case 4, 5:
			p = append(p, SeqOp{i, lStarting}, SeqOp{i, lOK})
		case 6:
			p = append(p, SeqOp{i, lStarting}, SeqOp{i, lRecoverable})
		case 7:
			p = append(p, SeqOp{i, lStarting}, SeqOp{i, lOK}, SeqOp{i, lStopping})
		case 8:
			p = append(p, SeqOp{i, lStarting}, SeqOp{i, lPermanent})
		default:
			k := rapid.IntRange(1, 4).Draw(t, "k")
			for j := 0; j < k; j++ {
				p = append(p, SeqOp{i, genLetter(t)})
			}
		}
	}
	return p
}

func genConc(t *rapid.T) ConcScript {
	s := ConcScript{}
	if rapid.IntRange(0, 3).Draw(t, "style") == 0 {
		// hammer: many reports on one or two instances, flip-flops, same status from all workers
		s.Style = "hammer"
		s.NInst = rapid.IntRange(1, 2).Draw(t, "ninst")
		s.Prefix = genPrefix(t, s.NInst)
		nw := rapid.IntRange(2, 8).Draw(t, "workers")
		n := rapid.IntRange(10, 60).Draw(t, "nops")
		pat := rapid.SliceOfN(rapid.SampledFrom([]int{lOK, lRecoverable, lOK, lRecoverable, lStarting, lOKIfStarting, lPermanent, lStopping}), 1, 4).Draw(t, "pattern")
		for w := 0; w < nw; w++ {
			var ops []SeqOp
			for i := 0; i < n; i++ {
				ops = append(ops, SeqOp{Inst: (i / 7) % s.NInst, Letter: pat[i%len(pat)]})
			}
			s.Workers = append(s.Workers, ops)
		}
		s.Reps = rapid.IntRange(1, 4).Draw(t, "reps")
		return s
	}
	s.Style = "small"
	s.NInst = rapid.IntRange(1, 4).Draw(t, "ninst")
	s.Prefix = genPrefix(t, s.NInst)
	nw := rapid.IntRange(2, 5).Draw(t, "workers")
	for w := 0; w < nw; w++ {
		n := rapid.IntRange(1, 6).Draw(t, "nops")
		var ops []SeqOp
		for i := 0; i < n; i++ {
			ops = append(ops, SeqOp{Inst: rapid.IntRange(0, s.NInst-1).Draw(t, "inst"), Letter: concLetter(t)})
		}
		s.Workers = append(s.Workers, ops)
	}
	s.Reps = rapid.IntRange(1, 6).Draw(t, "reps")
	return s
}

var cConc = vt.New("C11", "concurrent")

func TestConcurrent(t *testing.T) {
	cConc.ReplayRepeat = 300
	vt.Run(t, cConc, vt.N(10000, 600000), genConc, runConc(cConc))
}

// ---------------------------------------------------------------------------
// (b') fresh instances: the very first reports for the instances race.  A
// reporter that loses its serialisation may crash the process here (Go aborts
// on concurrent map writes), so these scripts run in child processes and a
// dead child is a violation, not a lost worker.
// ---------------------------------------------------------------------------

var cFresh = vt.New("C11", "concurrent-fresh")

func genFresh(t *rapid.T) ConcScript {
	s := ConcScript{Style: "fresh", NInst: rapid.IntRange(4, 24).Draw(t, "ninst")}
	nw := rapid.IntRange(3, 8).Draw(t, "workers")
	for w := 0; w < nw; w++ {
		var ops []SeqOp
		// every worker walks over all instances (rotated), first report is Starting or OKIfStarting
		rot := rapid.IntRange(0, s.NInst-1).Draw(t, "rot")
		for i := 0; i < s.NInst; i++ {
			inst := (i + rot) % s.NInst
			if w%2 == 0 {
				inst = i
			}
			ops = append(ops, SeqOp{inst, rapid.SampledFrom([]int{lStarting, lStarting, lOKIfStarting, lOK}).Draw(t, "first")})
			k := rapid.IntRange(0, 2).Draw(t, "more")
			for j := 0; j < k; j++ {
				ops = append(ops, SeqOp{inst, concLetter(t)})
			}
		}
		s.Workers = append(s.Workers, ops)
	}
	s.Reps = rapid.IntRange(50, 150).Draw(t, "reps")
	return s
}

// TestConcFreshChild is the child side: it only runs when started by
// TestConcFresh (or by hand with VT_CHILD=1 VT_REPLAY=<file>).
func TestConcFreshChild(t *testing.T) {
	if !vt.IsChild() || vt.ReplayPath() == "" {
		t.Skip("child-process side of TestConcFresh")
	}
	vt.Run(t, cFresh, 1, genFresh, runConc(cFresh))
}

func evalFresh(s ConcScript) *vt.Finding {
	f, hung, err := cFresh.Child("TestConcFreshChild", s, 120*time.Second)
	switch {
	case hung:
		return vt.Failf("conc/hang", "child running concurrent first reports did not finish within 120s")
	case err != nil:
		return vt.Failf("conc/crash", "process died while instances were first reported concurrently: %v", err)
	}
	return f
}

func TestConcFresh(t *testing.T) {
	if vt.IsChild() {
		t.Skip("parent side only")
	}
	defer cFresh.Flush()
	if p := vt.ReplayPath(); p != "" {
		if rc := vt.ReplayCheck(); rc != "concurrent-fresh" {
			t.Skipf("replay file is for check %q", rc)
		}
		var s ConcScript
		if _, err := vt.LoadReplay(p, &s); err != nil {
			cFresh.Inconclusive("cannot load replay %s: %v", p, err)
			t.Fatalf("cannot load replay: %v", err)
		}
		var f *vt.Finding
		for i := 0; i < 3 && f == nil; i++ {
			f = evalFresh(s)
		}
		cFresh.Eval(true, s.key())
		if f != nil && cFresh.Report(f, s) {
			cFresh.Violation(f, s)
			t.Fatalf("replay fails: %v", f)
		}
		return
	}
	cFresh.Check(t, vt.N(12, 120), func(rt *rapid.T) {
		s := genFresh(rt)
		f := evalFresh(s)
		cFresh.Eval(true, s.key())
		cFresh.Class(fmt.Sprintf("workers/%d", len(s.Workers)), "ninst/"+bucket(s.NInst))
		cFresh.ClassN("runs", int64(s.Reps))
		cFresh.Fail(rt, f, s)
	})
}
