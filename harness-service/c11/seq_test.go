package c11

import (
	"errors"
	"fmt"
	"os"
	"strconv"
	"sync"
	"testing"

	"pgregory.net/rapid"

	"go.opentelemetry.io/collector/component"
	"go.opentelemetry.io/collector/component/componentstatus"
	"go.opentelemetry.io/collector/pipeline"
	"go.opentelemetry.io/collector/service/internal/status"
	"go.opentelemetry.io/collector/service/verifharness/vt"
)

func TestMain(m *testing.M) { vt.Main(m) }

// ---------------------------------------------------------------------------
// rig: one fresh status.Reporter + n instance ids + a recording watcher.
// ---------------------------------------------------------------------------

type rig struct {
	rep     status.Reporter
	ids     []*componentstatus.InstanceID
	mu      sync.Mutex
	log     []obs
	invalid int
}

var kinds = []component.Kind{component.KindReceiver, component.KindProcessor, component.KindExporter, component.KindConnector}

var instSignals = []pipeline.Signal{pipeline.SignalTraces, pipeline.SignalMetrics, pipeline.SignalLogs}

// newInstanceID: instances 2g and 2g+1 share component id and kind and differ
// only in their pipeline (as the per-signal instances of one receiver do in
// the service graph); every fifth instance is an extension (no pipeline).
func newInstanceID(i int) *componentstatus.InstanceID {
	if i%5 == 4 {
		return componentstatus.NewInstanceID(component.MustNewIDWithName("c11", "x"+strconv.Itoa(i)), component.KindExtension)
	}
	g := i / 2
	cid := component.MustNewIDWithName("c11", "g"+strconv.Itoa(g))
	return componentstatus.NewInstanceID(cid, kinds[g%len(kinds)], pipeline.NewIDWithName(instSignals[i%3], "p"+strconv.Itoa(i)))
}

func newRig(n int) *rig {
	r := &rig{}
	for i := 0; i < n; i++ {
		r.ids = append(r.ids, newInstanceID(i))
	}
	r.init()
	return r
}

func (r *rig) init() {
	r.rep = status.NewReporter(r.onStatus, func(error) {
		r.mu.Lock()
		r.invalid++
		r.mu.Unlock()
	})
}

func (r *rig) instIndex(id *componentstatus.InstanceID) int {
	for i, x := range r.ids {
		if x == id {
			return i
		}
	}
	if id != nil {
		for i, x := range r.ids { // a reporter is free to hand out an equal copy
			if *x == *id {
				return i
			}
		}
	}
	return -1
}

func (r *rig) onStatus(id *componentstatus.InstanceID, ev *componentstatus.Event) {
	o := obs{Inst: r.instIndex(id)}
	if ev != nil {
		o.Status, o.Err = ev.Status(), ev.Err()
	} else {
		o.Status = componentstatus.Status(-99)
	}
	r.mu.Lock()
	r.log = append(r.log, o)
	r.mu.Unlock()
}

func (r *rig) logLen() int {
	r.mu.Lock()
	defer r.mu.Unlock()
	return len(r.log)
}

func (r *rig) since(n int) []obs {
	r.mu.Lock()
	defer r.mu.Unlock()
	return append([]obs(nil), r.log[n:]...)
}

var errReported = errors.New("c11 reported error")

func newEvent(l Letter) *componentstatus.Event {
	switch l {
	case lRecoverable:
		return componentstatus.NewRecoverableErrorEvent(errReported)
	case lPermanent:
		return componentstatus.NewPermanentErrorEvent(errReported)
	case lFatal:
		return componentstatus.NewFatalErrorEvent(errReported)
	}
	return componentstatus.NewEvent(letterStatus(l))
}

// apply performs one report.
func (r *rig) apply(inst int, l Letter) {
	if l == lOKIfStarting {
		r.rep.ReportOKIfStarting(r.ids[inst])
		return
	}
	r.rep.ReportStatus(r.ids[inst], newEvent(l))
}

// ---------------------------------------------------------------------------
// Sequential scripts
// ---------------------------------------------------------------------------

type SeqOp struct {
	Inst   int
	Letter int
}

// SeqScript is a sequence of reports applied by one goroutine to a fresh
// reporter with NInst instances.
type SeqScript struct {
	NInst int
	Ops   []SeqOp
}

func (s SeqScript) valid() bool {
	if s.NInst < 1 || s.NInst > 64 {
		return false
	}
	for _, op := range s.Ops {
		if op.Inst < 0 || op.Inst >= s.NInst || op.Letter < 0 || op.Letter >= nLetters {
			return false
		}
	}
	return true
}

func (s SeqScript) key() string {
	b := make([]byte, 0, 2*len(s.Ops)+1)
	b = append(b, byte(s.NInst))
	for _, op := range s.Ops {
		b = append(b, byte(op.Inst), byte(op.Letter))
	}
	return string(b)
}

// pairStats counts (state, letter, outcome) triples locally (flushed into the
// collector's class histogram at the end; one mutex round per step would
// dominate the exhaustive sweep).
type pairStats [nStates][nLetters][2]int64

func (p *pairStats) flush(c *vt.C) {
	for s := 0; s < nStates; s++ {
		for l := 0; l < nLetters; l++ {
			for o := 0; o < 2; o++ {
				if n := p[s][l][o]; n > 0 {
					c.ClassN(fmt.Sprintf("step/%s/%s/%s", stateName[s], letterName[l], [...]string{"rejected", "accepted"}[o]), n)
				}
			}
		}
	}
}

// seqResult summarises one sequential run.
type seqResult struct {
	accepted, rejected   int
	rejectedAfterAccept  bool
	mayTaken, mayRefused int
	failStep             int // index of the op at which the oracle failed (-1: none)
}

// runSeqOn executes s step by step and compares every step with the reference
// automaton.
func runSeqOn(s SeqScript, ps *pairStats) (res seqResult, f *vt.Finding) {
	res.failStep = -1
	if !s.valid() {
		return res, nil
	}
	r := newRig(s.NInst)
	states := make([]State, s.NInst)
	for i, op := range s.Ops {
		before := r.logLen()
		r.apply(op.Inst, op.Letter)
		got := r.since(before)
		for _, e := range got {
			if e.Inst != op.Inst {
				res.failStep = i
				return res, vt.Failf("fsm/event-for-other-instance", "step %d: report for instance %d delivered an event for instance %d (%s)", i, op.Inst, e.Inst, obsString(got))
			}
		}
		from := states[op.Inst]
		v, _ := judge(from, op.Letter)
		out, fd := modelStep("fsm", &states[op.Inst], op.Letter, got)
		if fd != nil {
			res.failStep = i
			fd.Msg = fmt.Sprintf("step %d (instance %d): %s", i, op.Inst, fd.Msg)
			return res, fd
		}
		if ps != nil {
			ps[from][op.Letter][out]++
		}
		if out == outAccepted {
			res.accepted++
			if v == mayAllow {
				res.mayTaken++
			}
		} else {
			res.rejected++
			if res.accepted > 0 {
				res.rejectedAfterAccept = true
			}
			if v == mayAllow {
				res.mayRefused++
			}
		}
	}
	// final cross-check: the whole per-instance delivered sequence is a path
	// (redundant with the step-wise run unless the model itself is inconsistent).
	per := make([][]componentstatus.Status, s.NInst)
	for _, e := range r.since(0) {
		if e.Inst >= 0 {
			per[e.Inst] = append(per[e.Inst], e.Status)
		}
	}
	for _, seq := range per {
		if fd := pathCheck("fsm", seq); fd != nil {
			return res, fd
		}
	}
	return res, nil
}

// ---------------------------------------------------------------------------
// (a) exhaustive bounded enumeration
// ---------------------------------------------------------------------------

var cExh = vt.New("C11", "fsm-exhaustive")

func shardInfo() (k, n int) {
	n = 1
	if v, err := strconv.Atoi(os.Getenv("VT_SHARDS")); err == nil && v > 0 {
		n = v
	}
	if v, err := strconv.Atoi(os.Getenv("VT_SHARD")); err == nil && v >= 0 && v < n {
		k = v
	}
	return k, n
}

func pow(b, e int) int {
	p := 1
	for i := 0; i < e; i++ {
		p *= b
	}
	return p
}

// sweep runs every sequence of exactly length L over the first `letters`
// letters (those with index%shards==shard).  Every step is checked, so the
// sweep decides every sequence of length <= L (each is a prefix of one of
// length L).
func sweep(t *testing.T, c *vt.C, letters, L int, label string) {
	shard, shards := shardInfo()
	total := pow(letters, L)
	var ps pairStats
	script := SeqScript{NInst: 1, Ops: make([]SeqOp, L)}
	var nMayTaken, nMayRefused, cases int64
	for idx := 0; idx < total; idx++ {
		if idx%shards != shard {
			continue
		}
		x := idx
		for p := L - 1; p >= 0; p-- { // most significant digit first: enumeration is lexicographic
			script.Ops[p] = SeqOp{Letter: x % letters}
			x /= letters
		}
		res, f := runSeqOn(script, &ps)
		if f != nil {
			min := SeqScript{NInst: 1, Ops: append([]SeqOp(nil), script.Ops[:res.failStep+1]...)}
			if !c.Report(f, min) {
				continue // listed finding
			}
			c.Violation(f, min)
			ps.flush(c)
			t.Fatalf("%s: sequence [%s]: %v", label, seqLetters(min), f)
		}
		cases++
		c.Eval(res.rejectedAfterAccept, script.key())
		nMayTaken += int64(res.mayTaken)
		nMayRefused += int64(res.mayRefused)
		if res.rejectedAfterAccept && res.accepted >= 3 {
			c.Sample(seqLetters(script))
		}
	}
	ps.flush(c)
	c.ClassN("sweep/"+label+"/cases", cases)
	c.ClassN("may-edge/taken", nMayTaken)
	c.ClassN("may-edge/refused", nMayRefused)
	c.Note("%s: every sequence of length <= %d over %d letters (shard %d/%d ran %d of %d sequences of length %d; step-wise check covers all prefixes)",
		label, L, letters, shard, shards, cases, total, L)
}

func seqLetters(s SeqScript) string {
	ls := make([]int, len(s.Ops))
	for i, op := range s.Ops {
		ls[i] = op.Letter
	}
	return lettersString(ls)
}

func TestExhaustive(t *testing.T) {
	defer cExh.Flush()
	if p := vt.ReplayPath(); p != "" {
		// The driver ANDs the exhaustive flag over every stats file of this check,
		// including the ones written by replay-tier processes (which enumerate
		// nothing).  A replay process must not veto the sweep's claim; a failing
		// replay is reported as a violation anyway.
		cExh.SetExhaustive(true)
		replaySeq(t, cExh, "fsm-exhaustive", p)
		return
	}
	// quick: L=5 for both alphabets (the 11-letter sweep contains the 9-letter one; both are run so that
	// the evidence labels stay comparable); thorough: 9 letters to L=7, 11 letters to L=6.
	L, Lext := 5, 5
	if vt.Thorough() {
		L, Lext = 7, 6
		if os.Getenv("VT_RACE") != "" {
			L, Lext = 5, 4
		}
	}
	sweep(t, cExh, coreLetters, L, fmt.Sprintf("core9-L%d", L))
	sweep(t, cExh, extLetters, Lext, fmt.Sprintf("ext11-L%d", Lext))
	cExh.SetExhaustive(true)
}

func replaySeq(t *testing.T, c *vt.C, name, p string) {
	if rc := vt.ReplayCheck(); rc != name {
		t.Skipf("replay file is for check %q", rc)
	}
	var s SeqScript
	if _, err := vt.LoadReplay(p, &s); err != nil {
		c.Inconclusive("cannot load replay %s: %v", p, err)
		t.Fatalf("cannot load replay: %v", err)
	}
	res, f := runSeqOn(s, nil)
	c.Eval(res.rejectedAfterAccept, s.key())
	if f != nil {
		if c.Report(f, s) {
			c.Violation(f, s)
			t.Fatalf("replay fails: %v", f)
		}
	}
}

// ---------------------------------------------------------------------------
// (a2) long generated sequences, several instances on one reporter
// ---------------------------------------------------------------------------

var cLong = vt.New("C11", "fsm-long")

// genLetter draws a letter, biased towards keeping the instance alive (OK /
// Recoverable flip-flops) so that long accepted runs exist, with every other
// letter still frequent.
func genLetter(t *rapid.T) int {
	return rapid.SampledFrom([]int{
		lStarting, lStarting, lOK, lOK, lOK, lRecoverable, lRecoverable, lRecoverable, lPermanent, lFatal,
		lStopping, lStopping, lStopped, lOKIfStarting, lOKIfStarting, lNone, lInvalidHigh, lInvalidNeg,
	}).Draw(t, "letter")
}

func genLong(t *rapid.T) SeqScript {
	s := SeqScript{NInst: rapid.IntRange(1, 4).Draw(t, "ninst")}
	n := rapid.IntRange(1, 40).Draw(t, "nops")
	for i := 0; i < n; i++ {
		s.Ops = append(s.Ops, SeqOp{Inst: rapid.IntRange(0, s.NInst-1).Draw(t, "inst"), Letter: genLetter(t)})
	}
	return s
}

func runLong(s SeqScript) (bool, string, *vt.Finding) {
	var ps pairStats
	res, f := runSeqOn(s, &ps)
	ps.flush(cLong)
	cLong.Class(fmt.Sprintf("ninst/%d", s.NInst), "accepted/"+bucket(res.accepted), "len/"+bucket(len(s.Ops)))
	if res.mayTaken > 0 {
		cLong.Class("may-edge/taken")
	}
	return res.rejectedAfterAccept, s.key(), f
}

func bucket(n int) string {
	switch {
	case n == 0:
		return "0"
	case n <= 2:
		return "1-2"
	case n <= 5:
		return "3-5"
	case n <= 10:
		return "6-10"
	case n <= 20:
		return "11-20"
	}
	return ">20"
}

func TestLong(t *testing.T) { vt.Run(t, cLong, vt.N(20000, 1200000), genLong, runLong) }
