package c11

import (
	"context"
	"encoding/json"
	"fmt"
	"sort"
	"strings"
	"sync"
	"testing"

	"go.uber.org/zap/zapcore"
	"pgregory.net/rapid"

	"go.opentelemetry.io/collector/component"
	"go.opentelemetry.io/collector/component/componentstatus"
	"go.opentelemetry.io/collector/config/configtelemetry"
	"go.opentelemetry.io/collector/confmap"
	"go.opentelemetry.io/collector/consumer"
	"go.opentelemetry.io/collector/exporter"
	"go.opentelemetry.io/collector/extension"
	"go.opentelemetry.io/collector/internal/sharedcomponent"
	"go.opentelemetry.io/collector/pdata/plog"
	"go.opentelemetry.io/collector/pdata/pmetric"
	"go.opentelemetry.io/collector/pdata/ptrace"
	"go.opentelemetry.io/collector/pipeline"
	"go.opentelemetry.io/collector/processor"
	"go.opentelemetry.io/collector/receiver"
	"go.opentelemetry.io/collector/service"
	"go.opentelemetry.io/collector/service/extensions"
	"go.opentelemetry.io/collector/service/pipelines"
	"go.opentelemetry.io/collector/service/telemetry"
	"go.opentelemetry.io/collector/service/verifharness/vt"
)

// ---------------------------------------------------------------------------
// (d) integration: public service.New, a status-watcher extension, components
// that report statuses from Start, from a goroutine spawned in Start, at
// runtime and from Shutdown.
// ---------------------------------------------------------------------------

// Behaviour scripts one component.
type Behaviour struct {
	StartReports    []int // reported synchronously inside Start
	StartAsync      []int // reported by a goroutine spawned in Start
	StartErr        bool
	ShutdownReports []int
	ShutdownErr     bool
}

// RtOp: at runtime (service started), component Comp reports Letter through the
// host it was given at Start (componentstatus.ReportStatus).
type RtOp struct {
	Comp   string
	Letter int
}

// SvcScript.  Components are named "<kind>/<signal>" (kind r|p|e: per-signal
// receiver, processor, exporter), "s" (one receiver built on
// internal/sharedcomponent that is part of every pipeline) and "x" (a second
// extension).  The watcher extension is always present.
type SvcScript struct {
	Signals      []string // subset of traces, metrics, logs
	Shared       bool
	SecondExt    bool
	WatcherFirst bool // order of the two extensions in service::extensions
	Comps        map[string]Behaviour
	Runtime      [][]RtOp // one slice per goroutine; a single slice is run by the calling goroutine
}

var allSignals = []string{"traces", "metrics", "logs"}

func (s SvcScript) compNames() []string {
	var out []string
	for _, sg := range s.Signals {
		out = append(out, "r/"+sg, "p/"+sg, "e/"+sg)
	}
	if s.Shared {
		out = append(out, "s")
	}
	if s.SecondExt {
		out = append(out, "x")
	}
	return out
}

func (s SvcScript) valid() bool {
	if len(s.Signals) < 1 || len(s.Signals) > 3 || len(s.Runtime) > 16 {
		return false
	}
	seen := map[string]bool{}
	for _, sg := range s.Signals {
		if seen[sg] || (sg != "traces" && sg != "metrics" && sg != "logs") {
			return false
		}
		seen[sg] = true
	}
	okL := func(ls []int) bool {
		for _, l := range ls {
			if l < 0 || l >= nLetters || l == lOKIfStarting {
				return false
			}
		}
		return true
	}
	for _, b := range s.Comps {
		if !okL(b.StartReports) || !okL(b.StartAsync) || !okL(b.ShutdownReports) {
			return false
		}
	}
	for _, w := range s.Runtime {
		for _, op := range w {
			if !okL([]int{op.Letter}) {
				return false
			}
		}
	}
	return true
}

type svcEnv struct {
	s       SvcScript
	mu      sync.Mutex
	events  []svcEvent
	comps   map[string]*svcComp
	shared  *sharedcomponent.Map[*compCfg, *svcComp]
	watcher *watcherExt
	// sharedCfg is the config object of the shared receiver (the key of the sharedcomponent.Map)
	sharedCfg *compCfg
}

type svcEvent struct {
	Key    string
	Status componentstatus.Status
}

type compCfg struct {
	Name string
	env  *svcEnv
}

type svcComp struct {
	env  *svcEnv
	name string
	b    Behaviour

	mu           sync.Mutex
	host         component.Host
	startCalls   int
	shutdownCall int
	rtIssued     [][]int // per runtime worker: letters actually reported
	wg           sync.WaitGroup
}

func (c *svcComp) report(l Letter) {
	if c.name == "x" {
		return // extensions are handed a host without a status reporter; the scripted extension only fails Start/Shutdown
	}
	c.mu.Lock()
	h := c.host
	c.mu.Unlock()
	if h != nil {
		componentstatus.ReportStatus(h, newEvent(l))
	}
}

func (c *svcComp) Start(_ context.Context, host component.Host) error {
	c.mu.Lock()
	c.host = host
	c.startCalls++
	c.mu.Unlock()
	for _, l := range c.b.StartReports {
		c.report(l)
	}
	if len(c.b.StartAsync) > 0 {
		c.wg.Add(1)
		go func() {
			defer c.wg.Done()
			for _, l := range c.b.StartAsync {
				c.report(l)
			}
		}()
	}
	if c.b.StartErr {
		return errScripted
	}
	return nil
}

func (c *svcComp) Shutdown(context.Context) error {
	c.wg.Wait()
	c.mu.Lock()
	c.shutdownCall++
	c.mu.Unlock()
	for _, l := range c.b.ShutdownReports {
		c.report(l)
	}
	if c.b.ShutdownErr {
		return errScripted
	}
	return nil
}

func (c *svcComp) Capabilities() consumer.Capabilities                   { return consumer.Capabilities{} }
func (c *svcComp) ConsumeTraces(context.Context, ptrace.Traces) error    { return nil }
func (c *svcComp) ConsumeMetrics(context.Context, pmetric.Metrics) error { return nil }
func (c *svcComp) ConsumeLogs(context.Context, plog.Logs) error          { return nil }

// watcher extension
type watcherExt struct {
	env     *svcEnv
	started bool
}

func (w *watcherExt) Start(context.Context, component.Host) error { w.started = true; return nil }
func (w *watcherExt) Shutdown(context.Context) error              { return nil }
func (w *watcherExt) ComponentStatusChanged(source *componentstatus.InstanceID, ev *componentstatus.Event) {
	k := "<nil>"
	if source != nil {
		k = instanceKey(source.Kind(), source.ComponentID(), pipelinesOf(source))
	}
	st := componentstatus.Status(-99)
	if ev != nil {
		st = ev.Status()
	}
	w.env.mu.Lock()
	w.env.events = append(w.env.events, svcEvent{k, st})
	w.env.mu.Unlock()
}

var _ componentstatus.Watcher = (*watcherExt)(nil)

func pipelinesOf(id *componentstatus.InstanceID) []string {
	var ps []string
	id.AllPipelineIDs(func(p pipeline.ID) bool { ps = append(ps, p.String()); return true })
	sort.Strings(ps)
	return ps
}

func instanceKey(kind component.Kind, id component.ID, pipes []string) string {
	return kind.String() + "|" + id.String() + "|" + strings.Join(pipes, ",")
}

var (
	typR = component.MustNewType("c11r")
	typP = component.MustNewType("c11p")
	typE = component.MustNewType("c11e")
	typS = component.MustNewType("c11s")
	typW = component.MustNewType("c11w")
	typX = component.MustNewType("c11x")
)

func (e *svcEnv) newComp(cfg component.Config) *svcComp {
	cc := cfg.(*compCfg)
	c := &svcComp{env: e, name: cc.Name, b: e.s.Comps[cc.Name], rtIssued: make([][]int, len(e.s.Runtime))}
	e.mu.Lock()
	e.comps[cc.Name] = c
	e.mu.Unlock()
	return c
}

func (e *svcEnv) sharedComp(cfg component.Config) (component.Component, error) {
	return e.shared.LoadOrStore(cfg.(*compCfg), func() (*svcComp, error) { return e.newComp(cfg), nil })
}

func defaultCfg() component.Config { return &compCfg{} }

const stab = component.StabilityLevelDevelopment

func (e *svcEnv) settings() service.Settings {
	rf := receiver.NewFactory(typR, defaultCfg,
		receiver.WithTraces(func(_ context.Context, _ receiver.Settings, cfg component.Config, _ consumer.Traces) (receiver.Traces, error) {
			return e.newComp(cfg), nil
		}, stab),
		receiver.WithMetrics(func(_ context.Context, _ receiver.Settings, cfg component.Config, _ consumer.Metrics) (receiver.Metrics, error) {
			return e.newComp(cfg), nil
		}, stab),
		receiver.WithLogs(func(_ context.Context, _ receiver.Settings, cfg component.Config, _ consumer.Logs) (receiver.Logs, error) {
			return e.newComp(cfg), nil
		}, stab))
	sf := receiver.NewFactory(typS, defaultCfg,
		receiver.WithTraces(func(_ context.Context, _ receiver.Settings, cfg component.Config, _ consumer.Traces) (receiver.Traces, error) {
			return e.sharedComp(cfg)
		}, stab),
		receiver.WithMetrics(func(_ context.Context, _ receiver.Settings, cfg component.Config, _ consumer.Metrics) (receiver.Metrics, error) {
			return e.sharedComp(cfg)
		}, stab),
		receiver.WithLogs(func(_ context.Context, _ receiver.Settings, cfg component.Config, _ consumer.Logs) (receiver.Logs, error) {
			return e.sharedComp(cfg)
		}, stab))
	pf := processor.NewFactory(typP, defaultCfg,
		processor.WithTraces(func(_ context.Context, _ processor.Settings, cfg component.Config, _ consumer.Traces) (processor.Traces, error) {
			return e.newComp(cfg), nil
		}, stab),
		processor.WithMetrics(func(_ context.Context, _ processor.Settings, cfg component.Config, _ consumer.Metrics) (processor.Metrics, error) {
			return e.newComp(cfg), nil
		}, stab),
		processor.WithLogs(func(_ context.Context, _ processor.Settings, cfg component.Config, _ consumer.Logs) (processor.Logs, error) {
			return e.newComp(cfg), nil
		}, stab))
	ef := exporter.NewFactory(typE, defaultCfg,
		exporter.WithTraces(func(_ context.Context, _ exporter.Settings, cfg component.Config) (exporter.Traces, error) {
			return e.newComp(cfg), nil
		}, stab),
		exporter.WithMetrics(func(_ context.Context, _ exporter.Settings, cfg component.Config) (exporter.Metrics, error) {
			return e.newComp(cfg), nil
		}, stab),
		exporter.WithLogs(func(_ context.Context, _ exporter.Settings, cfg component.Config) (exporter.Logs, error) {
			return e.newComp(cfg), nil
		}, stab))
	wf := extension.NewFactory(typW, defaultCfg, func(context.Context, extension.Settings, component.Config) (extension.Extension, error) {
		e.watcher = &watcherExt{env: e}
		return e.watcher, nil
	}, stab)
	xf := extension.NewFactory(typX, defaultCfg, func(_ context.Context, _ extension.Settings, cfg component.Config) (extension.Extension, error) {
		return e.newComp(cfg), nil
	}, stab)

	set := service.Settings{
		BuildInfo:           component.NewDefaultBuildInfo(),
		CollectorConf:       confmap.New(),
		ReceiversConfigs:    map[component.ID]component.Config{},
		ReceiversFactories:  map[component.Type]receiver.Factory{typR: rf, typS: sf},
		ProcessorsConfigs:   map[component.ID]component.Config{},
		ProcessorsFactories: map[component.Type]processor.Factory{typP: pf},
		ExportersConfigs:    map[component.ID]component.Config{},
		ExportersFactories:  map[component.Type]exporter.Factory{typE: ef},
		ExtensionsConfigs:   map[component.ID]component.Config{component.NewID(typW): &compCfg{Name: "w", env: e}},
		ExtensionsFactories: map[component.Type]extension.Factory{typW: wf, typX: xf},
		AsyncErrorChannel:   make(chan error, 8192), // FatalError events are pushed here by the host; nobody reads in this harness
	}
	for _, sg := range e.s.Signals {
		set.ReceiversConfigs[component.NewIDWithName(typR, sg)] = &compCfg{Name: "r/" + sg, env: e}
		set.ProcessorsConfigs[component.NewIDWithName(typP, sg)] = &compCfg{Name: "p/" + sg, env: e}
		set.ExportersConfigs[component.NewIDWithName(typE, sg)] = &compCfg{Name: "e/" + sg, env: e}
	}
	if e.s.Shared {
		set.ReceiversConfigs[component.NewID(typS)] = e.sharedCfg
	}
	if e.s.SecondExt {
		set.ExtensionsConfigs[component.NewID(typX)] = &compCfg{Name: "x", env: e}
	}
	return set
}

func (e *svcEnv) config() service.Config {
	cfg := service.Config{
		Telemetry: telemetry.Config{
			Logs: telemetry.LogsConfig{
				Level:            zapcore.FatalLevel,
				Encoding:         "console",
				OutputPaths:      []string{"/dev/null"},
				ErrorOutputPaths: []string{"/dev/null"},
			},
			Metrics: telemetry.MetricsConfig{Level: configtelemetry.LevelNone},
		},
		Pipelines: pipelines.Config{},
	}
	w, x := component.NewID(typW), component.NewID(typX)
	switch {
	case !e.s.SecondExt:
		cfg.Extensions = extensions.Config{w}
	case e.s.WatcherFirst:
		cfg.Extensions = extensions.Config{w, x}
	default:
		cfg.Extensions = extensions.Config{x, w}
	}
	for _, sg := range e.s.Signals {
		var sig pipeline.Signal
		switch sg {
		case "traces":
			sig = pipeline.SignalTraces
		case "metrics":
			sig = pipeline.SignalMetrics
		default:
			sig = pipeline.SignalLogs
		}
		pc := &pipelines.PipelineConfig{
			Receivers:  []component.ID{component.NewIDWithName(typR, sg)},
			Processors: []component.ID{component.NewIDWithName(typP, sg)},
			Exporters:  []component.ID{component.NewIDWithName(typE, sg)},
		}
		if e.s.Shared {
			pc.Receivers = append(pc.Receivers, component.NewID(typS))
		}
		cfg.Pipelines[pipeline.NewID(sig)] = pc
	}
	return cfg
}

// expectedKey returns the watcher key of the instance of non-shared component name.
func expectedKey(name string) string {
	switch {
	case name == "x":
		return instanceKey(component.KindExtension, component.NewID(typX), nil)
	case name == "w":
		return instanceKey(component.KindExtension, component.NewID(typW), nil)
	}
	kind, sg, _ := strings.Cut(name, "/")
	switch kind {
	case "r":
		return instanceKey(component.KindReceiver, component.NewIDWithName(typR, sg), []string{sg})
	case "p":
		return instanceKey(component.KindProcessor, component.NewIDWithName(typP, sg), []string{sg})
	}
	return instanceKey(component.KindExporter, component.NewIDWithName(typE, sg), []string{sg})
}

var cSvc = vt.New("C11", "service-watcher")

func runSvc(s SvcScript) (nontrivial bool, key string, f *vt.Finding) {
	return runSvcWith(s, sharedcomponent.NewMap[*compCfg, *svcComp](), &compCfg{Name: "s"}, klass{cSvc}, nil)
}

// svcOutcome: what the shared receiver's instances delivered (filled when the oracle held).
type svcOutcome struct {
	SharedBefore map[string]string // instance key -> delivered statuses before Shutdown
	SharedAll    map[string]string
	StartFailed  bool
}

// runSvcWith builds, starts, exercises and shuts down one service.  shared and
// sharedCfg are the factory-level sharedcomponent.Map and the config object it
// is keyed by: a later generation (reload) passes the same ones.
func runSvcWith(s SvcScript, shared *sharedcomponent.Map[*compCfg, *svcComp], sharedCfg *compCfg, c klass, out *svcOutcome) (nontrivial bool, key string, f *vt.Finding) {
	kb, _ := json.Marshal(s)
	key = string(kb)
	if !s.valid() {
		return false, key, nil
	}
	e := &svcEnv{s: s, comps: map[string]*svcComp{}, shared: shared, sharedCfg: sharedCfg}
	ctx := context.Background()
	srv, err := service.New(ctx, e.settings(), e.config())
	if err != nil {
		return false, key, vt.Failf("svc/harness", "service.New: %v", err)
	}
	startErr := srv.Start(ctx)
	e.mu.Lock()
	markStart := len(e.events)
	e.mu.Unlock()
	rtTotal := 0
	if startErr == nil {
		runWorker := func(w int) {
			for _, op := range s.Runtime[w] {
				comp := e.comps[op.Comp]
				if comp == nil || comp.host == nil {
					continue
				}
				comp.rtIssued[w] = append(comp.rtIssued[w], op.Letter)
				comp.report(op.Letter)
			}
		}
		if len(s.Runtime) == 1 {
			runWorker(0)
		} else if len(s.Runtime) > 1 {
			// a component's rtIssued[w] is only touched by worker w
			var wg sync.WaitGroup
			gate := make(chan struct{})
			for w := range s.Runtime {
				wg.Add(1)
				go func(w int) { defer wg.Done(); <-gate; runWorker(w) }(w)
			}
			close(gate)
			wg.Wait()
		}
		for _, w := range s.Runtime {
			rtTotal += len(w)
		}
	}
	e.mu.Lock()
	markRuntime := len(e.events)
	e.mu.Unlock()
	_ = srv.Shutdown(ctx) // as otelcol does, also after a failed Start
	for _, comp := range e.comps {
		comp.wg.Wait()
	}

	e.mu.Lock()
	events := append([]svcEvent(nil), e.events...)
	e.mu.Unlock()
	per := map[string][]componentstatus.Status{}
	perBeforeShutdown := map[string][]componentstatus.Status{}
	for i, ev := range events {
		per[ev.Key] = append(per[ev.Key], ev.Status)
		if i < markRuntime {
			perBeforeShutdown[ev.Key] = append(perBeforeShutdown[ev.Key], ev.Status)
		}
	}
	_ = markStart

	// (1) every instance's delivered sequence is a path (schedule-independent)
	keys := make([]string, 0, len(per))
	for k := range per {
		keys = append(keys, k)
	}
	sort.Strings(keys)
	for _, k := range keys {
		if fd := pathCheck("svc", per[k]); fd != nil {
			fd.Msg = "instance " + k + ": " + fd.Msg
			return true, key, fd
		}
	}

	// (1b) identity, derived from the configuration: every (component, pipeline) pair is represented by
	// an instance id that lists the pipeline, and no instance lists a pipeline its component is not part of
	wantPairs := map[string]map[string]bool{
		component.KindExtension.String() + "|" + component.NewID(typW).String(): {},
	}
	if s.SecondExt {
		wantPairs[component.KindExtension.String()+"|"+component.NewID(typX).String()] = map[string]bool{}
	}
	for _, sg := range s.Signals {
		wantPairs[component.KindReceiver.String()+"|"+component.NewIDWithName(typR, sg).String()] = map[string]bool{sg: true}
		wantPairs[component.KindProcessor.String()+"|"+component.NewIDWithName(typP, sg).String()] = map[string]bool{sg: true}
		wantPairs[component.KindExporter.String()+"|"+component.NewIDWithName(typE, sg).String()] = map[string]bool{sg: true}
		if s.Shared {
			ck := component.KindReceiver.String() + "|" + component.NewID(typS).String()
			if wantPairs[ck] == nil {
				wantPairs[ck] = map[string]bool{}
			}
			wantPairs[ck][sg] = true
		}
	}
	if fd := identityOracle("svc", wantPairs, keys, startErr == nil); fd != nil {
		return true, key, fd
	}

	// (2) non-shared instances: the delivered sequence is the automaton's output for the
	// reports that were made (service automation per docs "Automation" + the component's own)
	rejAfterAcc := false
	anyAsync := len(s.Runtime) > 1
	names := append(s.compNames(), "w")
	known := map[string]bool{}
	for _, name := range names {
		if name == "s" {
			continue
		}
		k := expectedKey(name)
		known[k] = true
		var b Behaviour
		started, shutdownCalled, hostOK := false, false, false
		var rt [][]int
		if name == "w" {
			started, shutdownCalled = e.watcher != nil && e.watcher.started, true
		} else {
			comp := e.comps[name]
			if comp == nil {
				return true, key, vt.Failf("svc/harness", "component %s was never created", name)
			}
			b = comp.b
			started, shutdownCalled = comp.startCalls > 0, comp.shutdownCall > 0
			hostOK = started && name != "x" // the host handed to extensions has no status reporter
			if comp.startCalls > 1 || comp.shutdownCall > 1 {
				return true, key, vt.Failf("svc/harness", "component %s started %d times, shut down %d times", name, comp.startCalls, comp.shutdownCall)
			}
			rt = comp.rtIssued
		}
		var w0 []int
		var workers [][]int
		if started {
			w0 = append(w0, lStarting)
			if hostOK {
				w0 = append(w0, b.StartReports...)
			}
			if b.StartErr {
				w0 = append(w0, lPermanent)
			} else {
				w0 = append(w0, lOKIfStarting)
			}
		}
		sequential := !(hostOK && len(b.StartAsync) > 0) && len(s.Runtime) <= 1
		if hostOK && len(b.StartAsync) > 0 {
			workers = append(workers, b.StartAsync)
			anyAsync = true
		}
		for _, ls := range rt {
			if len(ls) == 0 {
				continue
			}
			if sequential {
				w0 = append(w0, ls...)
			} else {
				workers = append(workers, ls)
			}
		}
		// service.Shutdown reports Stopping / Stopped|PermanentError for every component, started or not
		w0 = append(w0, lStopping)
		if hostOK && shutdownCalled {
			w0 = append(w0, b.ShutdownReports...)
		}
		if shutdownCalled && b.ShutdownErr {
			w0 = append(w0, lPermanent)
		} else {
			w0 = append(w0, lStopped)
		}
		workers = append([][]int{w0}, workers...)
		ok, exhausted := linearizable(lNone, workers, per[k])
		if exhausted {
			c.Class("expectation-skipped(size)")
			continue
		}
		if !ok {
			sig := "svc/not-the-automaton-run"
			if !sequential {
				sig = "svc/not-linearizable"
			}
			return true, key, vt.Failf(sig, "instance %s: watcher saw [%s]; reports made: %s (first list = service automation and synchronous reports, in order)",
				k, statusSeqString(per[k]), workersString(workers))
		}
		n := 0
		for _, w := range workers {
			n += len(w)
		}
		if len(per[k]) > 0 && len(per[k]) < n {
			rejAfterAcc = true
		}
	}

	// (3) the shared receiver: every instance it represents gets its status
	if s.Shared {
		comp := e.comps["s"]
		if comp == nil {
			var seen []string
			for _, sg := range s.Signals {
				k := instanceKey(component.KindReceiver, component.NewID(typS), []string{sg})
				seen = append(seen, k+":["+statusSeqString(per[k])+"]")
			}
			return true, key, vt.Failf("svc/shared-component-not-created", "the shared receiver's factory never created (hence never started) a component for this service; its instances delivered %s",
				strings.Join(seen, " "))
		}
		if comp.startCalls > 1 || comp.shutdownCall > 1 {
			return true, key, vt.Failf("svc/shared-started-twice", "shared component started %d times, shut down %d times", comp.startCalls, comp.shutdownCall)
		}
		var ks []string
		for _, sg := range s.Signals {
			k := instanceKey(component.KindReceiver, component.NewID(typS), []string{sg})
			known[k] = true
			ks = append(ks, k)
		}
		b := comp.b
		if startErr == nil && len(b.StartAsync) == 0 && len(s.Runtime) <= 1 && len(b.StartReports) <= 3 {
			c.Class("shared/equality-checked")
			for _, k := range ks[1:] {
				if statusSeqString(perBeforeShutdown[k]) != statusSeqString(perBeforeShutdown[ks[0]]) {
					return true, key, vt.Failf("svc/shared-instances-differ", "shared receiver: before shutdown instance %s delivered [%s] but instance %s delivered [%s]",
						ks[0], statusSeqString(perBeforeShutdown[ks[0]]), k, statusSeqString(perBeforeShutdown[k]))
				}
			}
			// ... and that sequence reflects exactly what was reported for this service's instances:
			// Starting, the component's reports from Start, the automatic OK, its runtime reports
			want := append([]int{lStarting}, b.StartReports...)
			want = append(want, lOKIfStarting)
			for _, ls := range comp.rtIssued {
				want = append(want, ls...)
			}
			if ok, exhausted := linearizable(lNone, [][]int{want}, perBeforeShutdown[ks[0]]); !exhausted && !ok {
				return true, key, vt.Failf("svc/shared-not-the-automaton-run", "shared receiver instance %s: watcher saw [%s] before shutdown; reports made for it: [%s]",
					ks[0], statusSeqString(perBeforeShutdown[ks[0]]), lettersString(want))
			}
			if len(perBeforeShutdown[ks[0]]) == 0 {
				return true, key, vt.Failf("svc/shared-no-status", "shared receiver was started but no status was delivered for %s", ks[0])
			}
		} else {
			c.Class("shared/path-only")
		}
	}
	for _, k := range keys {
		if !known[k] {
			return true, key, vt.Failf("svc/unknown-instance", "watcher received events for an unexpected instance %q", k)
		}
	}

	classes := []string{fmt.Sprintf("pipelines/%d", len(s.Signals))}
	if startErr != nil {
		classes = append(classes, "service-start-failed")
	}
	if s.Shared {
		classes = append(classes, "with-shared-receiver")
	}
	if anyAsync {
		classes = append(classes, "concurrent-reports")
	} else {
		classes = append(classes, "sequential-exact")
	}
	if rtTotal > 0 {
		classes = append(classes, "runtime-reports")
	}
	c.Class(classes...)
	if c.c != nil {
		c.c.ClassN("events-delivered", int64(len(events)))
	}
	if out != nil {
		out.SharedBefore, out.SharedAll, out.StartFailed = map[string]string{}, map[string]string{}, startErr != nil
		if s.Shared {
			for _, sg := range s.Signals {
				k := instanceKey(component.KindReceiver, component.NewID(typS), []string{sg})
				out.SharedBefore[k] = statusSeqString(perBeforeShutdown[k])
				out.SharedAll[k] = statusSeqString(per[k])
			}
		}
	}
	return rejAfterAcc, key, nil
}

func genBehaviour(t *rapid.T, async bool) Behaviour {
	l := rapid.SampledFrom([]int{lOK, lOK, lRecoverable, lRecoverable, lPermanent, lFatal, lStopping, lStopped, lStarting, lNone})
	b := Behaviour{}
	if rapid.IntRange(0, 2).Draw(t, "hasStart") == 0 {
		b.StartReports = rapid.SliceOfN(l, 1, 3).Draw(t, "startReports")
	}
	if async && rapid.IntRange(0, 2).Draw(t, "hasAsync") == 0 {
		b.StartAsync = rapid.SliceOfN(l, 1, 3).Draw(t, "startAsync")
	}
	if rapid.IntRange(0, 4).Draw(t, "hasShutdown") == 0 {
		b.ShutdownReports = rapid.SliceOfN(l, 1, 2).Draw(t, "shutdownReports")
	}
	b.ShutdownErr = rapid.IntRange(0, 7).Draw(t, "shutdownErr") == 0
	return b
}

func genSvc(t *rapid.T) SvcScript {
	s := SvcScript{Comps: map[string]Behaviour{}}
	mask := rapid.SampledFrom([]int{1, 2, 4, 3, 5, 6, 7, 7, 7}).Draw(t, "signals")
	for i, sg := range allSignals {
		if mask&(1<<i) != 0 {
			s.Signals = append(s.Signals, sg)
		}
	}
	s.Shared = rapid.IntRange(0, 2).Draw(t, "shared") != 0
	s.SecondExt = rapid.Bool().Draw(t, "secondExt")
	s.WatcherFirst = rapid.Bool().Draw(t, "watcherFirst")
	async := rapid.IntRange(0, 2).Draw(t, "asyncMode") == 0
	names := s.compNames()
	var rtNames []string
	for _, n := range names {
		b := genBehaviour(t, async)
		if n == "x" {
			b = Behaviour{ShutdownErr: b.ShutdownErr}
		} else {
			rtNames = append(rtNames, n)
		}
		s.Comps[n] = b
	}
	if rapid.IntRange(0, 3).Draw(t, "startFailure") == 0 { // exactly one component fails Start
		n := rapid.SampledFrom(names).Draw(t, "failing")
		b := s.Comps[n]
		b.StartErr = true
		s.Comps[n] = b
	}
	nw := rapid.SampledFrom([]int{0, 1, 1, 1}).Draw(t, "rtWorkers")
	if async {
		nw = rapid.SampledFrom([]int{1, 2, 3, 4}).Draw(t, "rtWorkers")
	}
	rl := rapid.SampledFrom([]int{lOK, lOK, lOK, lRecoverable, lRecoverable, lRecoverable, lPermanent, lFatal, lStopping, lStopped, lStarting, lNone, lInvalidHigh})
	// runtime reports concentrate on a few components so that sequences get long
	focus := rapid.SliceOfN(rapid.SampledFrom(rtNames), 1, 3).Draw(t, "focus")
	for w := 0; w < nw; w++ {
		n := rapid.IntRange(1, 10).Draw(t, "rtOps")
		var ops []RtOp
		for i := 0; i < n; i++ {
			ops = append(ops, RtOp{Comp: rapid.SampledFrom(focus).Draw(t, "comp"), Letter: rl.Draw(t, "letter")})
		}
		s.Runtime = append(s.Runtime, ops)
	}
	return s
}

func TestService(t *testing.T) {
	cSvc.ReplayRepeat = 50
	vt.Run(t, cSvc, vt.N(6000, 300000), genSvc, runSvc)
}
