package c11

import (
	"context"
	"encoding/json"
	"fmt"
	"regexp"
	"sort"
	"strings"
	"testing"

	"go.uber.org/zap/zapcore"
	"pgregory.net/rapid"

	"go.opentelemetry.io/collector/component"
	"go.opentelemetry.io/collector/component/componentstatus"
	"go.opentelemetry.io/collector/config/configtelemetry"
	"go.opentelemetry.io/collector/confmap"
	"go.opentelemetry.io/collector/connector"
	"go.opentelemetry.io/collector/consumer"
	"go.opentelemetry.io/collector/exporter"
	"go.opentelemetry.io/collector/extension"
	"go.opentelemetry.io/collector/pipeline"
	"go.opentelemetry.io/collector/processor"
	"go.opentelemetry.io/collector/receiver"
	"go.opentelemetry.io/collector/service"
	"go.opentelemetry.io/collector/service/extensions"
	"go.opentelemetry.io/collector/service/pipelines"
	"go.opentelemetry.io/collector/service/telemetry"
	"go.opentelemetry.io/collector/service/verifharness/vt"
)

// ---------------------------------------------------------------------------
// (d') identity of what each event is about.  A component that is part of
// several pipelines (a receiver / exporter listed by several pipelines of one
// signal, a connector on its exporter side AND on its receiver side) must
// deliver its status for every pipeline it is part of: the watcher files every
// event under the pipelines of its InstanceID (AllPipelineIDs), as a
// per-pipeline health aggregator does.  The expectation is derived from the
// CONFIGURATION only.
// ---------------------------------------------------------------------------

// identityOracle: want maps "Kind|componentID" to the set of pipelines that
// list the component in the configuration; got are the instance keys
// (instanceKey) the watcher received events for.  requireAll: every
// (component, pipeline) pair must be covered (only meaningful when every
// component was started).
func identityOracle(where string, want map[string]map[string]bool, got []string, requireAll bool) *vt.Finding {
	covered := map[string]map[string]bool{}
	for _, k := range got {
		parts := strings.SplitN(k, "|", 3)
		if len(parts) != 3 {
			continue
		}
		ck := parts[0] + "|" + parts[1]
		w, known := want[ck]
		if !known {
			return vt.Failf(where+"/identity/unknown-component", "the watcher received events for instance %q, which is not a component of the configuration", k)
		}
		if covered[ck] == nil {
			covered[ck] = map[string]bool{}
		}
		if parts[2] == "" {
			continue
		}
		for _, p := range strings.Split(parts[2], ",") {
			if !w[p] {
				return vt.Failf(where+"/identity/foreign-pipeline/"+parts[0], "instance %q lists pipeline %q, but the configuration does not make %s part of that pipeline (it is part of %s)",
					k, p, ck, setString(w))
			}
			covered[ck][p] = true
		}
	}
	if !requireAll {
		return nil
	}
	cks := make([]string, 0, len(want))
	for ck := range want {
		cks = append(cks, ck)
	}
	sort.Strings(cks)
	for _, ck := range cks {
		kind := strings.SplitN(ck, "|", 2)[0]
		if len(want[ck]) == 0 && covered[ck] == nil {
			return vt.Failf(where+"/identity/component-without-status/"+kind, "the watcher never received an event for %s", ck)
		}
		ps := make([]string, 0, len(want[ck]))
		for p := range want[ck] {
			ps = append(ps, p)
		}
		sort.Strings(ps)
		for _, p := range ps {
			if !covered[ck][p] {
				var seen []string
				for _, k := range got {
					if strings.HasPrefix(k, ck+"|") {
						seen = append(seen, k)
					}
				}
				sort.Strings(seen)
				return vt.Failf(where+"/identity/pipeline-not-represented/"+kind,
					"%s is part of pipeline %q in the configuration, but no instance the watcher received events for lists that pipeline (instances seen for it: %v): as part of %q the component never delivered a status",
					ck, p, seen, p)
			}
		}
	}
	return nil
}

func setString(m map[string]bool) string {
	ks := make([]string, 0, len(m))
	for k := range m {
		ks = append(ks, k)
	}
	sort.Strings(ks)
	return "{" + strings.Join(ks, ",") + "}"
}

// TopoPipe is one pipeline; Recv/Exp hold component names: "ra","rb" regular
// receivers, "ea","eb" regular exporters, "ca","cb" connectors.  Every
// pipeline has its own processor.
type TopoPipe struct {
	Signal string
	Name   string
	Recv   []string
	Exp    []string
}

// id is the pipeline ID in its "signal[/name]" form; Name == "" is the unnamed
// pipeline of the signal.
func (p TopoPipe) id() string { return pidString(p.Signal, p.Name) }

func pidString(signal, name string) string {
	if name == "" {
		return signal
	}
	return signal + "/" + name
}

// legalPipeName: what pipeline.ID.UnmarshalText accepts as a name (1..1024
// characters, no whitespace / control characters / symbols), minus the
// characters this harness uses as separators in its own keys (",", "|", ":").
var legalPipeName = regexp.MustCompile(`^[^\pZ\pC\pS]+$`)

func validPipeName(n string) bool {
	if n == "" {
		return true // unnamed pipeline
	}
	return len(n) <= 64 && legalPipeName.MatchString(n) && !strings.ContainsAny(n, ",|:") && !strings.HasPrefix(n, "/") && !strings.HasSuffix(n, "/")
}

// TopoScript: objects (one per graph node) are named
// "r:<id>:<signal>", "e:<id>:<signal>", "p:<pipeline>", "c:<id>:<expSignal>><rcvSignal>".
type TopoScript struct {
	Pipes   []TopoPipe
	Comps   map[string]Behaviour // by object name
	Runtime []RtOp               // reported sequentially after Start; Comp = object name
}

var typC = component.MustNewType("c11c")

func isConn(n string) bool { return strings.HasPrefix(n, "c") }

func (s TopoScript) valid() bool {
	if len(s.Pipes) < 1 || len(s.Pipes) > 8 {
		return false
	}
	seen := map[string]bool{}
	asExp, asRecv := map[string]bool{}, map[string]bool{}
	for _, p := range s.Pipes {
		if p.Signal != "traces" && p.Signal != "metrics" && p.Signal != "logs" {
			return false
		}
		if !validPipeName(p.Name) || seen[p.id()] || len(p.Recv) == 0 || len(p.Exp) == 0 {
			return false
		}
		seen[p.id()] = true
		connRecv, connExp := false, false
		for _, r := range p.Recv {
			if r != "ra" && r != "rb" && r != "ca" && r != "cb" {
				return false
			}
			if isConn(r) {
				asRecv[r] = true
				connRecv = true
			}
		}
		for _, x := range p.Exp {
			if x != "ea" && x != "eb" && x != "ca" && x != "cb" {
				return false
			}
			if isConn(x) {
				asExp[x] = true
				connExp = true
			}
		}
		if connRecv && connExp {
			return false // two tiers keep the graph acyclic: no pipeline is fed by a connector AND feeds one
		}
		if dup(p.Recv) || dup(p.Exp) {
			return false
		}
	}
	for _, c := range []string{"ca", "cb"} {
		if asExp[c] != asRecv[c] {
			return false
		}
	}
	for _, b := range s.Comps {
		if len(b.StartAsync) > 0 || b.StartErr {
			return false
		}
		for _, l := range append(append([]int(nil), b.StartReports...), b.ShutdownReports...) {
			if l < 0 || l >= nLetters || l == lOKIfStarting {
				return false
			}
		}
	}
	for _, op := range s.Runtime {
		if op.Letter < 0 || op.Letter >= nLetters || op.Letter == lOKIfStarting {
			return false
		}
	}
	return true
}

func dup(xs []string) bool {
	m := map[string]bool{}
	for _, x := range xs {
		if m[x] {
			return true
		}
		m[x] = true
	}
	return false
}

// topoExpect derives, from the configuration alone: the (component, pipeline)
// pairs, and per graph node (object) the instance key its events must carry.
func topoExpect(s TopoScript) (pairs map[string]map[string]bool, objKey map[string]string) {
	pairs, objKey = map[string]map[string]bool{}, map[string]string{}
	add := func(ck, p string) {
		if pairs[ck] == nil {
			pairs[ck] = map[string]bool{}
		}
		pairs[ck][p] = true
	}
	nodePipes := map[string][]string{}
	type side struct{ exp, rcv map[string][]string } // signal -> pipelines
	conns := map[string]*side{}
	for _, p := range s.Pipes {
		pid := p.id()
		procID := component.NewIDWithName(typP, p.Signal+"_"+p.Name)
		add(component.KindProcessor.String()+"|"+procID.String(), pid)
		nodePipes["p:"+pid] = []string{pid}
		for _, r := range p.Recv {
			if isConn(r) {
				if conns[r] == nil {
					conns[r] = &side{map[string][]string{}, map[string][]string{}}
				}
				conns[r].rcv[p.Signal] = append(conns[r].rcv[p.Signal], pid)
				add(component.KindConnector.String()+"|"+component.NewIDWithName(typC, r).String(), pid)
				continue
			}
			add(component.KindReceiver.String()+"|"+component.NewIDWithName(typR, r).String(), pid)
			nodePipes["r:"+r+":"+p.Signal] = append(nodePipes["r:"+r+":"+p.Signal], pid)
		}
		for _, x := range p.Exp {
			if isConn(x) {
				if conns[x] == nil {
					conns[x] = &side{map[string][]string{}, map[string][]string{}}
				}
				conns[x].exp[p.Signal] = append(conns[x].exp[p.Signal], pid)
				add(component.KindConnector.String()+"|"+component.NewIDWithName(typC, x).String(), pid)
				continue
			}
			add(component.KindExporter.String()+"|"+component.NewIDWithName(typE, x).String(), pid)
			nodePipes["e:"+x+":"+p.Signal] = append(nodePipes["e:"+x+":"+p.Signal], pid)
		}
	}
	for c, sd := range conns {
		for es, eps := range sd.exp {
			for rs, rps := range sd.rcv {
				nodePipes["c:"+c+":"+es+">"+rs] = append(append([]string(nil), eps...), rps...)
			}
		}
	}
	for obj, ps := range nodePipes {
		sort.Strings(ps)
		parts := strings.Split(obj, ":")
		switch parts[0] {
		case "p":
			sg, name, _ := strings.Cut(parts[1], "/")
			objKey[obj] = instanceKey(component.KindProcessor, component.NewIDWithName(typP, sg+"_"+name), ps)
		case "r":
			objKey[obj] = instanceKey(component.KindReceiver, component.NewIDWithName(typR, parts[1]), ps)
		case "e":
			objKey[obj] = instanceKey(component.KindExporter, component.NewIDWithName(typE, parts[1]), ps)
		default:
			objKey[obj] = instanceKey(component.KindConnector, component.NewIDWithName(typC, parts[1]), ps)
		}
	}
	w := component.KindExtension.String() + "|" + component.NewID(typW).String()
	pairs[w] = map[string]bool{}
	return pairs, objKey
}

func (s TopoScript) objects() []string {
	_, objKey := topoExpect(s)
	out := make([]string, 0, len(objKey))
	for o := range objKey {
		out = append(out, o)
	}
	sort.Strings(out)
	return out
}

type topoEnv struct {
	s     TopoScript
	sink  *svcEnv // watcher events
	comps map[string]*svcComp
}

func (e *topoEnv) obj(name string) *svcComp {
	e.sink.mu.Lock()
	defer e.sink.mu.Unlock()
	c := &svcComp{name: name, b: e.s.Comps[name], rtIssued: make([][]int, 1)}
	if old := e.comps[name]; old != nil {
		c.name = name + "#dup" // a node built twice: reported below
		e.comps[c.name] = c
		return c
	}
	e.comps[name] = c
	return c
}

func sigOf(s string) pipeline.Signal {
	switch s {
	case "traces":
		return pipeline.SignalTraces
	case "metrics":
		return pipeline.SignalMetrics
	}
	return pipeline.SignalLogs
}

func (e *topoEnv) build() (service.Settings, service.Config) {
	rf := receiver.NewFactory(typR, defaultCfg,
		receiver.WithTraces(func(_ context.Context, set receiver.Settings, _ component.Config, _ consumer.Traces) (receiver.Traces, error) {
			return e.obj("r:" + set.ID.Name() + ":traces"), nil
		}, stab),
		receiver.WithMetrics(func(_ context.Context, set receiver.Settings, _ component.Config, _ consumer.Metrics) (receiver.Metrics, error) {
			return e.obj("r:" + set.ID.Name() + ":metrics"), nil
		}, stab),
		receiver.WithLogs(func(_ context.Context, set receiver.Settings, _ component.Config, _ consumer.Logs) (receiver.Logs, error) {
			return e.obj("r:" + set.ID.Name() + ":logs"), nil
		}, stab))
	procObj := func(id component.ID) string {
		sg, name, _ := strings.Cut(id.Name(), "_")
		return "p:" + pidString(sg, name)
	}
	pf := processor.NewFactory(typP, defaultCfg,
		processor.WithTraces(func(_ context.Context, set processor.Settings, _ component.Config, _ consumer.Traces) (processor.Traces, error) {
			return e.obj(procObj(set.ID)), nil
		}, stab),
		processor.WithMetrics(func(_ context.Context, set processor.Settings, _ component.Config, _ consumer.Metrics) (processor.Metrics, error) {
			return e.obj(procObj(set.ID)), nil
		}, stab),
		processor.WithLogs(func(_ context.Context, set processor.Settings, _ component.Config, _ consumer.Logs) (processor.Logs, error) {
			return e.obj(procObj(set.ID)), nil
		}, stab))
	ef := exporter.NewFactory(typE, defaultCfg,
		exporter.WithTraces(func(_ context.Context, set exporter.Settings, _ component.Config) (exporter.Traces, error) {
			return e.obj("e:" + set.ID.Name() + ":traces"), nil
		}, stab),
		exporter.WithMetrics(func(_ context.Context, set exporter.Settings, _ component.Config) (exporter.Metrics, error) {
			return e.obj("e:" + set.ID.Name() + ":metrics"), nil
		}, stab),
		exporter.WithLogs(func(_ context.Context, set exporter.Settings, _ component.Config) (exporter.Logs, error) {
			return e.obj("e:" + set.ID.Name() + ":logs"), nil
		}, stab))
	co := func(set connector.Settings, pair string) *svcComp { return e.obj("c:" + set.ID.Name() + ":" + pair) }
	cf := connector.NewFactory(typC, defaultCfg,
		connector.WithTracesToTraces(func(_ context.Context, set connector.Settings, _ component.Config, _ consumer.Traces) (connector.Traces, error) {
			return co(set, "traces>traces"), nil
		}, stab),
		connector.WithTracesToMetrics(func(_ context.Context, set connector.Settings, _ component.Config, _ consumer.Metrics) (connector.Traces, error) {
			return co(set, "traces>metrics"), nil
		}, stab),
		connector.WithTracesToLogs(func(_ context.Context, set connector.Settings, _ component.Config, _ consumer.Logs) (connector.Traces, error) {
			return co(set, "traces>logs"), nil
		}, stab),
		connector.WithMetricsToTraces(func(_ context.Context, set connector.Settings, _ component.Config, _ consumer.Traces) (connector.Metrics, error) {
			return co(set, "metrics>traces"), nil
		}, stab),
		connector.WithMetricsToMetrics(func(_ context.Context, set connector.Settings, _ component.Config, _ consumer.Metrics) (connector.Metrics, error) {
			return co(set, "metrics>metrics"), nil
		}, stab),
		connector.WithMetricsToLogs(func(_ context.Context, set connector.Settings, _ component.Config, _ consumer.Logs) (connector.Metrics, error) {
			return co(set, "metrics>logs"), nil
		}, stab),
		connector.WithLogsToTraces(func(_ context.Context, set connector.Settings, _ component.Config, _ consumer.Traces) (connector.Logs, error) {
			return co(set, "logs>traces"), nil
		}, stab),
		connector.WithLogsToMetrics(func(_ context.Context, set connector.Settings, _ component.Config, _ consumer.Metrics) (connector.Logs, error) {
			return co(set, "logs>metrics"), nil
		}, stab),
		connector.WithLogsToLogs(func(_ context.Context, set connector.Settings, _ component.Config, _ consumer.Logs) (connector.Logs, error) {
			return co(set, "logs>logs"), nil
		}, stab))
	wf := extension.NewFactory(typW, defaultCfg, func(context.Context, extension.Settings, component.Config) (extension.Extension, error) {
		return &watcherExt{env: e.sink}, nil
	}, stab)

	set := service.Settings{
		BuildInfo:           component.NewDefaultBuildInfo(),
		CollectorConf:       confmap.New(),
		ReceiversConfigs:    map[component.ID]component.Config{},
		ReceiversFactories:  map[component.Type]receiver.Factory{typR: rf},
		ProcessorsConfigs:   map[component.ID]component.Config{},
		ProcessorsFactories: map[component.Type]processor.Factory{typP: pf},
		ExportersConfigs:    map[component.ID]component.Config{},
		ExportersFactories:  map[component.Type]exporter.Factory{typE: ef},
		ConnectorsConfigs:   map[component.ID]component.Config{},
		ConnectorsFactories: map[component.Type]connector.Factory{typC: cf},
		ExtensionsConfigs:   map[component.ID]component.Config{component.NewID(typW): &compCfg{Name: "w"}},
		ExtensionsFactories: map[component.Type]extension.Factory{typW: wf},
		AsyncErrorChannel:   make(chan error, 8192),
	}
	cfg := service.Config{
		Telemetry: telemetry.Config{
			Logs:    telemetry.LogsConfig{Level: zapcore.FatalLevel, Encoding: "console", OutputPaths: []string{"/dev/null"}, ErrorOutputPaths: []string{"/dev/null"}},
			Metrics: telemetry.MetricsConfig{Level: configtelemetry.LevelNone},
		},
		Extensions: extensions.Config{component.NewID(typW)},
		Pipelines:  pipelines.Config{},
	}
	cid := func(n string) component.ID {
		switch n[0] {
		case 'r':
			id := component.NewIDWithName(typR, n)
			set.ReceiversConfigs[id] = &compCfg{Name: n}
			return id
		case 'e':
			id := component.NewIDWithName(typE, n)
			set.ExportersConfigs[id] = &compCfg{Name: n}
			return id
		}
		id := component.NewIDWithName(typC, n)
		set.ConnectorsConfigs[id] = &compCfg{Name: n}
		return id
	}
	for _, p := range e.s.Pipes {
		pc := &pipelines.PipelineConfig{}
		for _, r := range p.Recv {
			pc.Receivers = append(pc.Receivers, cid(r))
		}
		procID := component.NewIDWithName(typP, p.Signal+"_"+p.Name)
		set.ProcessorsConfigs[procID] = &compCfg{Name: procID.Name()}
		pc.Processors = []component.ID{procID}
		for _, x := range p.Exp {
			pc.Exporters = append(pc.Exporters, cid(x))
		}
		cfg.Pipelines[pipeline.NewIDWithName(sigOf(p.Signal), p.Name)] = pc
	}
	return set, cfg
}

var cTopo = vt.New("C11", "service-topology")

func init() { cTopo.ReplayRepeat = 8 } // the order in which the graph visits the pipelines (a map) varies per start

// pairRelation names how two distinct pipeline IDs ("signal[/name]") resemble
// each other, "" when they do not.  These are the shapes in which an
// implementation that handles the pipelines of an instance as text (one encoded
// string, prefix tests, case folding ...) can take one pipeline for the other.
func pairRelation(a, b string) string {
	if len(a) > len(b) || (len(a) == len(b) && a > b) {
		a, b = b, a
	}
	sa, na, namedA := strings.Cut(a, "/")
	sb, nb, namedB := strings.Cut(b, "/")
	switch {
	case a == b:
		return ""
	case strings.EqualFold(a, b):
		return "case-variant"
	case !namedA && namedB && sa == sb:
		return "unnamed+named"
	case strings.HasPrefix(b, a):
		return "id-prefix-of-id"
	case !namedA && namedB && strings.HasSuffix(b, "/"+a):
		return "unnamed-id-is-name-in-other-signal" // logs and traces/logs
	case strings.HasSuffix(b, a):
		return "id-suffix-of-id"
	case strings.Contains(b, a):
		return "id-infix-of-id"
	case namedA && namedB && sa == sb && strings.EqualFold(na, nb):
		return "case-variant"
	case namedA && namedB && sa != sb && na == nb:
		return "same-name-other-signal"
	case namedA && namedB && sa == sb && (strings.HasSuffix(nb, na) || strings.HasSuffix(na, nb)):
		return "name-suffix-of-name"
	case namedA && namedB && sa == sb && (strings.Contains(nb, na) || strings.Contains(na, nb)):
		return "name-infix-of-name"
	}
	return ""
}

// textual: relations in which one whole ID occurs inside the other or they
// differ in case only (a start of such a service is repeated, see runTopo).
func textual(rel string) bool {
	switch rel {
	case "case-variant", "unnamed+named", "id-prefix-of-id", "unnamed-id-is-name-in-other-signal", "id-suffix-of-id", "id-infix-of-id":
		return true
	}
	return false
}

// nodeRelations: the relations between the pipelines that ONE graph node (one
// status instance) stands for, derived from the configuration.
func nodeRelations(objKey map[string]string) (rels map[string]bool, anyTextual bool) {
	rels = map[string]bool{}
	for o, k := range objKey {
		parts := strings.SplitN(k, "|", 3)
		if len(parts) != 3 || parts[2] == "" {
			continue
		}
		ps := strings.Split(parts[2], ",")
		for i := range ps {
			for j := i + 1; j < len(ps); j++ {
				if r := pairRelation(ps[i], ps[j]); r != "" {
					rels[o[:1]+":"+r] = true
					anyTextual = anyTextual || textual(r)
				}
			}
		}
	}
	return rels, anyTextual
}

type topoRun struct {
	sharedNodes, connMulti, nconn, nobjs int
	contentSkipped                       int
}

func runTopo(s TopoScript) (nontrivial bool, key string, f *vt.Finding) {
	kb, _ := json.Marshal(s)
	key = string(kb)
	if !s.valid() {
		return false, key, nil
	}
	c := cTopo
	_, objKey := topoExpect(s)
	rels, anyTextual := nodeRelations(objKey)
	// The graph builds the InstanceIDs while ranging over the pipelines map, so the order in which
	// the pipelines of a shared node are added differs from start to start.  The expectation does
	// not depend on it; a configuration whose shared pipelines resemble each other is started
	// several times so that both orders are seen with high probability.
	reps := 1
	if anyTextual {
		reps = 5
	}
	var st topoRun
	for i := 0; i < reps; i++ {
		var fd *vt.Finding
		st, fd = runTopoOnce(s)
		if fd != nil {
			return true, key, fd
		}
	}
	named, unnamed, sigWord, slash := 0, 0, 0, 0
	for _, p := range s.Pipes {
		switch {
		case p.Name == "":
			unnamed++
		default:
			named++
		}
		if p.Name == "traces" || p.Name == "metrics" || p.Name == "logs" {
			sigWord++
		}
		if strings.Contains(p.Name, "/") {
			slash++
		}
	}
	c.Class(fmt.Sprintf("pipelines/%d", len(s.Pipes)), "nodes/"+bucket(st.nobjs))
	if unnamed > 0 {
		c.Class("names/has-unnamed-pipeline")
	}
	if sigWord > 0 {
		c.Class("names/name-is-a-signal-word")
	}
	if slash > 0 {
		c.Class("names/name-contains-slash")
	}
	for r := range rels {
		c.Class("one-node-stands-for-pair/" + r)
	}
	if anyTextual {
		c.Class("started-5-times(textually-related-pipelines-on-one-node)")
	} else if len(rels) == 0 {
		c.Class("one-node-stands-for-pair/none-related")
	}
	if st.contentSkipped > 0 {
		c.Class("content-skipped(instance-id-differs-from-derived)")
	}
	if st.sharedNodes > 0 {
		c.Class("node-in->=2-pipelines")
	}
	c.Class(fmt.Sprintf("connector-nodes/%d", st.nconn))
	if st.connMulti > 0 {
		c.Class("connector-exporter-of->=2-pipelines-of-one-signal")
	}
	// non-trivial: some component is part of >= 2 pipelines through one instance
	return st.sharedNodes > 0, key, nil
}

// runTopoOnce builds, starts, drives and stops one service for the script and
// evaluates every oracle on what the watcher saw.
func runTopoOnce(s TopoScript) (st topoRun, f *vt.Finding) {
	e := &topoEnv{s: s, sink: &svcEnv{comps: map[string]*svcComp{}}, comps: map[string]*svcComp{}}
	set, cfg := e.build()
	ctx := context.Background()
	srv, err := service.New(ctx, set, cfg)
	if err != nil {
		return st, vt.Failf("svc/harness", "service.New: %v", err)
	}
	if serr := srv.Start(ctx); serr != nil {
		_ = srv.Shutdown(ctx)
		return st, vt.Failf("svc/harness", "service.Start: %v", serr)
	}
	for _, op := range s.Runtime {
		if comp := e.comps[op.Comp]; comp != nil && comp.host != nil {
			comp.rtIssued[0] = append(comp.rtIssued[0], op.Letter)
			comp.report(op.Letter)
		}
	}
	_ = srv.Shutdown(ctx)

	e.sink.mu.Lock()
	events := append([]svcEvent(nil), e.sink.events...)
	e.sink.mu.Unlock()
	per := map[string][]componentstatus.Status{}
	for _, ev := range events {
		per[ev.Key] = append(per[ev.Key], ev.Status)
	}
	keys := make([]string, 0, len(per))
	for k := range per {
		keys = append(keys, k)
	}
	sort.Strings(keys)
	for _, k := range keys {
		if fd := pathCheck("svc", per[k]); fd != nil {
			fd.Msg = "instance " + k + ": " + fd.Msg
			return st, fd
		}
	}
	// identity: derived from the configuration alone
	pairs, objKey := topoExpect(s)
	if fd := identityOracle("svc", pairs, keys, true); fd != nil {
		return st, fd
	}
	// content: every graph node delivered the automaton's output for what was reported for it
	objs := s.objects()
	st.nobjs = len(objs)
	for _, o := range objs {
		comp := e.comps[o]
		if comp == nil || comp.startCalls != 1 || comp.shutdownCall != 1 || e.comps[o+"#dup"] != nil {
			n := 0
			if comp != nil {
				n = comp.startCalls
			}
			return st, vt.Failf("svc/topology/node-lifecycle", "configuration implies one component for node %s; created=%v (twice=%v) started %d times", o, comp != nil, e.comps[o+"#dup"] != nil, n)
		}
		want := append([]int{lStarting}, comp.b.StartReports...)
		want = append(want, lOKIfStarting)
		want = append(want, comp.rtIssued[0]...)
		want = append(want, lStopping)
		want = append(want, comp.b.ShutdownReports...)
		if comp.b.ShutdownErr {
			want = append(want, lPermanent)
		} else {
			want = append(want, lStopped)
		}
		// the node's events may be filed under any instance id that names the component (the identity
		// oracle above judged the ids); take the one derived from the configuration when present
		got, okKey := per[objKey[o]]
		if !okKey {
			st.contentSkipped++
			continue
		}
		if ok, exhausted := linearizable(lNone, [][]int{want}, got); !exhausted && !ok {
			return st, vt.Failf("svc/not-the-automaton-run", "instance %s: watcher saw [%s]; reports made: [%s]", objKey[o], statusSeqString(got), lettersString(want))
		}
		if strings.Count(objKey[o], ",") >= 1 {
			st.sharedNodes++
		}
		if strings.HasPrefix(o, "c:") {
			st.nconn++
			parts := strings.Split(o, ":")
			es, _, _ := strings.Cut(parts[2], ">")
			n := 0
			for _, p := range s.Pipes {
				if p.Signal == es {
					for _, x := range p.Exp {
						if x == parts[1] {
							n++
						}
					}
				}
			}
			if n >= 2 {
				st.connMulti++
			}
		}
	}
	return st, nil
}

// nameFamily: pipeline names that resemble each other and the signal words,
// built around one base token: the unnamed pipeline, the token, the token
// extended at the end / at the front / on both sides, its proper prefix and
// suffix, doubled, case variants, a name with a slash, and the signal words
// themselves (logs/logs, traces/logs ...).  Every name is legal for
// pipeline.ID.UnmarshalText.
func nameFamily(base string) []string {
	rs := []rune(base)
	out := []string{"", "", base, base, base + "2", "2" + base, "x" + base + "y", base + base,
		strings.ToUpper(base), strings.ToUpper(string(rs[:1])) + string(rs[1:]), base + "/" + base, base + "-" + base,
		"logs", "traces", "metrics", "log", "Logs"}
	if len(rs) > 1 {
		out = append(out, string(rs[:len(rs)-1]), string(rs[1:]))
	}
	return out
}

var nameBases = []string{"eu", "eu", "audit", "a", "ab", "prod", "logs", "traces", "x1", "über"}

func genTopo(t *rapid.T) TopoScript {
	s := TopoScript{Comps: map[string]Behaviour{}}
	sig := func(label string) string {
		return rapid.SampledFrom([]string{"traces", "traces", "traces", "metrics", "metrics", "logs"}).Draw(t, label)
	}
	nIn := rapid.IntRange(1, 3).Draw(t, "nIn")
	nOut := rapid.IntRange(0, 3).Draw(t, "nOut")
	// names: 1 in 4 scripts keeps the plain tier names in1.. / out1.., the others draw every name from
	// one family of names that resemble each other
	var family []string
	if rapid.IntRange(0, 3).Draw(t, "plainNames") != 0 {
		family = nameFamily(rapid.SampledFrom(nameBases).Draw(t, "nameBase"))
	}
	used := map[string]bool{}
	name := func(signal, plain string) string {
		if family == nil {
			return plain
		}
		i := rapid.IntRange(0, len(family)-1).Draw(t, "name")
		for used[pidString(signal, family[i])] { // distinct pipeline IDs; the family is larger than any script
			i = (i + 1) % len(family)
		}
		used[pidString(signal, family[i])] = true
		return family[i]
	}
	for i := 0; i < nIn; i++ {
		p := TopoPipe{Signal: sig("inSig")}
		p.Name = name(p.Signal, fmt.Sprintf("in%d", i+1))
		p.Recv = rapid.SampledFrom([][]string{{"ra"}, {"ra"}, {"rb"}, {"ra", "rb"}}).Draw(t, "inRecv")
		p.Exp = rapid.SampledFrom([][]string{{}, {}, {"ea"}, {"eb"}}).Draw(t, "inExp")
		s.Pipes = append(s.Pipes, p)
	}
	for i := 0; i < nOut; i++ {
		p := TopoPipe{Signal: sig("outSig")}
		p.Name = name(p.Signal, fmt.Sprintf("out%d", i+1))
		p.Recv = rapid.SampledFrom([][]string{{}, {}, {"ra"}, {"rb"}}).Draw(t, "outRecv")
		p.Exp = rapid.SampledFrom([][]string{{"ea"}, {"ea"}, {"eb"}, {"ea", "eb"}}).Draw(t, "outExp")
		s.Pipes = append(s.Pipes, p)
	}
	if nOut > 0 {
		nc := rapid.IntRange(1, 2).Draw(t, "nConn")
		for ci := 0; ci < nc; ci++ {
			cn := []string{"ca", "cb"}[ci]
			from := rapid.IntRange(1, (1<<nIn)-1).Draw(t, "from")
			if rapid.Bool().Draw(t, "fromAll") {
				from = (1 << nIn) - 1
			}
			to := rapid.IntRange(1, (1<<nOut)-1).Draw(t, "to")
			for i := 0; i < nIn; i++ {
				if from&(1<<i) != 0 {
					s.Pipes[i].Exp = append(s.Pipes[i].Exp, cn)
				}
			}
			for i := 0; i < nOut; i++ {
				if to&(1<<i) != 0 {
					s.Pipes[nIn+i].Recv = append(s.Pipes[nIn+i].Recv, cn)
				}
			}
		}
	}
	for i := range s.Pipes {
		if len(s.Pipes[i].Exp) == 0 {
			s.Pipes[i].Exp = []string{"ea"}
		}
		if len(s.Pipes[i].Recv) == 0 {
			s.Pipes[i].Recv = []string{"ra"}
		}
	}
	objs := s.objects()
	l := rapid.SampledFrom([]int{lOK, lOK, lRecoverable, lRecoverable, lPermanent, lFatal, lStopping, lStarting})
	for _, o := range objs {
		b := Behaviour{}
		if rapid.IntRange(0, 4).Draw(t, "hasStart") == 0 {
			b.StartReports = rapid.SliceOfN(l, 1, 2).Draw(t, "startReports")
		}
		if rapid.IntRange(0, 7).Draw(t, "hasShutdown") == 0 {
			b.ShutdownReports = rapid.SliceOfN(l, 1, 2).Draw(t, "shutdownReports")
		}
		b.ShutdownErr = rapid.IntRange(0, 9).Draw(t, "shutdownErr") == 0
		s.Comps[o] = b
	}
	n := rapid.IntRange(0, 8).Draw(t, "rtOps")
	for i := 0; i < n; i++ {
		s.Runtime = append(s.Runtime, RtOp{Comp: rapid.SampledFrom(objs).Draw(t, "comp"), Letter: l.Draw(t, "letter")})
	}
	return s
}

func TestTopology(t *testing.T) { vt.Run(t, cTopo, vt.N(2500, 100000), genTopo, runTopo) }
