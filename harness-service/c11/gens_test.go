package c11

import (
	"encoding/json"
	"fmt"
	"sort"
	"strings"
	"testing"

	"pgregory.net/rapid"

	"go.opentelemetry.io/collector/component/componentstatus"
	"go.opentelemetry.io/collector/internal/sharedcomponent"
	"go.opentelemetry.io/collector/service/verifharness/vt"
)

// ---------------------------------------------------------------------------
// Generations: the same sharedcomponent.Map and the same key are used by
// several consecutive "services" in one process (config reload, or an embedder
// that rebuilds the service from the same component config).  Every generation
// but the last is shut down (its Shutdown succeeds or FAILS) before the next
// one is built.  A generation must behave exactly as if it were the first user
// of the map: every instance's sequence starts at Starting and reflects only
// what this generation's component reported.  Oracle (metamorphic, scripts are
// sequential and therefore deterministic): the generation is also run on a
// fresh map; it must pass the ordinary oracle on the reused map and deliver /
// be handed exactly the same statuses as on the fresh one.
// ---------------------------------------------------------------------------

type GenScript struct {
	Gens []SharedScript
}

func hasShutdown(s SharedScript) bool {
	for _, op := range s.Ops {
		if op.Kind == opShutdown {
			return true
		}
	}
	return false
}

func (g GenScript) valid() bool {
	if len(g.Gens) < 2 || len(g.Gens) > 5 {
		return false
	}
	for i, s := range g.Gens {
		if !s.valid() || s.Async {
			return false
		}
		if i < len(g.Gens)-1 && !hasShutdown(s) {
			return false // an earlier generation that is still running legitimately shares its component
		}
	}
	return true
}

func seqsString(per [][]componentstatus.Status) string {
	parts := make([]string, len(per))
	for i, p := range per {
		parts[i] = fmt.Sprintf("%d:[%s]", i, statusSeqString(p))
	}
	return strings.Join(parts, " ")
}

var cGens = vt.New("C11", "sharedcomponent-generations")

func runGens(g GenScript) (nontrivial bool, key string, f *vt.Finding) {
	kb, _ := json.Marshal(g)
	key = string(kb)
	if !g.valid() {
		return false, key, nil
	}
	c := klass{cGens}
	m := sharedcomponent.NewMap[string, *shInner]()
	history := ""
	for i, s := range g.Gens {
		// reference: the same generation as the first user of a fresh map
		var ref shOutcome
		if _, _, fr := runSharedWith(s, sharedcomponent.NewMap[string, *shInner](), klass{}, &ref); fr != nil {
			return true, key, fr // not a generation problem: TestShared's oracle
		}
		var out shOutcome
		_, _, fg := runSharedWith(s, m, c, &out)
		if i > 0 {
			problem := ""
			switch {
			case fg != nil:
				problem = fmt.Sprintf("the ordinary oracle fails although it holds on a fresh map: %v", fg)
			case !out.InnerStarted && ref.InnerStarted:
				problem = "this generation's component was never started (the map handed out an earlier generation's component)"
			case seqsString(out.Per) != seqsString(ref.Per):
				problem = fmt.Sprintf("instances delivered %s, on a fresh map %s", seqsString(out.Per), seqsString(ref.Per))
			case seqsString(out.Raw) != seqsString(ref.Raw):
				problem = fmt.Sprintf("hosts were handed %s, on a fresh map %s", seqsString(out.Raw), seqsString(ref.Raw))
			}
			if problem != "" {
				return true, key, vt.Failf("shared/generation/differs-from-fresh-map",
					"generation %d on a sharedcomponent.Map/key already used by%s: %s", i, history, problem)
			}
		} else if fg != nil {
			return true, key, fg
		}
		switch {
		case s.StartErr:
			history += fmt.Sprintf(" gen%d(Start failed)", i)
			c.Class("earlier-generation/start-failed")
		case s.ShutdownErr:
			history += fmt.Sprintf(" gen%d(Shutdown FAILED)", i)
			if i < len(g.Gens)-1 {
				c.Class("earlier-generation/shutdown-failed")
				nontrivial = true
			}
		default:
			history += fmt.Sprintf(" gen%d(Shutdown ok)", i)
			if i < len(g.Gens)-1 {
				c.Class("earlier-generation/shutdown-ok")
			}
		}
	}
	c.Class(fmt.Sprintf("generations/%d", len(g.Gens)))
	return nontrivial, key, nil
}

func genGens(t *rapid.T) GenScript {
	n := rapid.SampledFrom([]int{2, 2, 2, 3, 3, 4}).Draw(t, "ngens")
	var g GenScript
	for i := 0; i < n; i++ {
		s := genShared(t)
		s.Async = false
		if i < n-1 {
			if !hasShutdown(s) {
				s.Ops = append(s.Ops, SharedOp{Kind: opShutdown})
			}
			s.ShutdownErr = rapid.Bool().Draw(t, "shutdownFails")
		}
		g.Gens = append(g.Gens, s)
	}
	return g
}

func TestSharedGenerations(t *testing.T) {
	vt.Run(t, cGens, vt.N(6000, 300000), genGens, runGens)
}

// ---------------------------------------------------------------------------
// The same through the public service.New: consecutive services built from the
// SAME receiver config object (the key of the factory's sharedcomponent.Map).
// ---------------------------------------------------------------------------

type SvcGenScript struct {
	Gens []SvcScript
}

func (g SvcGenScript) valid() bool {
	if len(g.Gens) < 2 || len(g.Gens) > 4 {
		return false
	}
	for _, s := range g.Gens {
		if !s.valid() || !s.Shared || len(s.Runtime) > 1 {
			return false
		}
		for _, b := range s.Comps {
			if len(b.StartAsync) > 0 || b.StartErr {
				return false
			}
		}
	}
	return true
}

func mapString(m map[string]string) string {
	ks := make([]string, 0, len(m))
	for k := range m {
		ks = append(ks, k)
	}
	sort.Strings(ks)
	var b strings.Builder
	for _, k := range ks {
		fmt.Fprintf(&b, "%s:[%s] ", k, m[k])
	}
	return b.String()
}

var cSvcGens = vt.New("C11", "service-generations")

func runSvcGens(g SvcGenScript) (nontrivial bool, key string, f *vt.Finding) {
	kb, _ := json.Marshal(g)
	key = string(kb)
	if !g.valid() {
		return false, key, nil
	}
	c := klass{cSvcGens}
	shared := sharedcomponent.NewMap[*compCfg, *svcComp]()
	cfg := &compCfg{Name: "s"}
	history := ""
	for i, s := range g.Gens {
		var ref svcOutcome
		if _, _, fr := runSvcWith(s, sharedcomponent.NewMap[*compCfg, *svcComp](), &compCfg{Name: "s"}, klass{}, &ref); fr != nil {
			return true, key, fr // TestService's oracle
		}
		var out svcOutcome
		_, _, fg := runSvcWith(s, shared, cfg, c, &out)
		if i > 0 {
			problem := ""
			switch {
			case fg != nil:
				problem = fmt.Sprintf("the ordinary oracle fails although it holds for a freshly built factory: %v", fg)
			case mapString(out.SharedBefore) != mapString(ref.SharedBefore):
				// sequential scripts: what the shared receiver's instances deliver before Shutdown is
				// determined by the script (after Shutdown it depends on which node is stopped first)
				problem = fmt.Sprintf("before shutdown the shared receiver's instances delivered %s; with a fresh factory %s", mapString(out.SharedBefore), mapString(ref.SharedBefore))
			}
			if problem != "" {
				return true, key, vt.Failf("svc/generation/differs-from-fresh-service",
					"service generation %d built from the same receiver config object as%s: %s", i, history, problem)
			}
		} else if fg != nil {
			return true, key, fg
		}
		if s.Comps["s"].ShutdownErr {
			history += fmt.Sprintf(" gen%d(shared receiver's Shutdown FAILED)", i)
			if i < len(g.Gens)-1 {
				c.Class("earlier-generation/shutdown-failed")
				nontrivial = true
			}
		} else {
			history += fmt.Sprintf(" gen%d(Shutdown ok)", i)
			if i < len(g.Gens)-1 {
				c.Class("earlier-generation/shutdown-ok")
			}
		}
	}
	c.Class(fmt.Sprintf("generations/%d", len(g.Gens)))
	return nontrivial, key, nil
}

func genSvcGens(t *rapid.T) SvcGenScript {
	n := rapid.SampledFrom([]int{2, 2, 3}).Draw(t, "ngens")
	var g SvcGenScript
	for i := 0; i < n; i++ {
		s := genSvc(t)
		s.Shared = true
		if _, ok := s.Comps["s"]; !ok {
			s.Comps["s"] = Behaviour{}
		}
		for k, b := range s.Comps { // sequential, no Start failure: deterministic per instance
			b.StartAsync, b.StartErr = nil, false
			if k == "s" && i < n-1 {
				b.ShutdownErr = rapid.Bool().Draw(t, "sharedShutdownFails")
			}
			s.Comps[k] = b
		}
		if len(s.Runtime) > 1 {
			s.Runtime = s.Runtime[:1]
		}
		g.Gens = append(g.Gens, s)
	}
	return g
}

func TestServiceGenerations(t *testing.T) {
	vt.Run(t, cSvcGens, vt.N(700, 30000), genSvcGens, runSvcGens)
}
