package c11

import (
	"fmt"
	"strings"

	"go.opentelemetry.io/collector/component/componentstatus"
	"go.opentelemetry.io/collector/service/verifharness/vt"
)

// ---------------------------------------------------------------------------
// Reference relation, derived from /repo/docs/component-status.md (text +
// component-status-state-diagram.png) and the property statement.  It is
// written down independently of service/internal/status: see NOTES.md for the
// justification of every entry.
// ---------------------------------------------------------------------------

// Letter is one report: 0..7 = ReportStatus with that componentstatus.Status
// value (0 = StatusNone), 8 = ReportOKIfStarting, 9/10 = ReportStatus with a
// status value outside the enumeration (only used by the extended alphabet).
type Letter = int

const (
	lNone Letter = iota
	lStarting
	lOK
	lRecoverable
	lPermanent
	lFatal
	lStopping
	lStopped
	lOKIfStarting
	lInvalidHigh // componentstatus.Status(8)
	lInvalidNeg  // componentstatus.Status(-1)
	nLetters
)

const (
	coreLetters = 9  // the 8 statuses + ReportOKIfStarting
	extLetters  = 11 // + two out-of-range status values
)

var letterName = [...]string{"None", "Starting", "OK", "Recoverable", "Permanent", "Fatal", "Stopping", "Stopped", "OKIfStarting", "Invalid8", "Invalid-1"}

// State is the model state: the componentstatus.Status value last delivered
// (0 = nothing delivered yet).
type State = int

const nStates = 8

var stateName = letterName[:nStates]

type verdict int8

const (
	mustReject verdict = iota
	mustAllow
	mayAllow
)

func (v verdict) String() string { return [...]string{"reject", "must", "may"}[v] }

// rel[from][to] for to in the 8 status values.
var rel [nStates][nStates]verdict

func init() {
	must := func(from State, tos ...State) {
		for _, to := range tos {
			rel[from][to] = mustAllow
		}
	}
	may := func(from State, tos ...State) {
		for _, to := range tos {
			rel[from][to] = mayAllow
		}
	}
	// Diagram edges.
	must(lNone, lStarting)
	must(lStarting, lOK, lRecoverable, lPermanent)
	must(lOK, lRecoverable, lPermanent, lStopping)
	must(lRecoverable, lOK, lPermanent, lStopping)
	must(lPermanent, lStopping)
	must(lStopping, lPermanent, lStopped)
	// "!Stopped -> Fatal" box of the diagram, restricted by the text: not from
	// PermanentError (property: "never leaves PermanentError except to
	// Stopping"), not from FatalError itself (final; no self-loop), not as the
	// first event (property: "begins with Starting").
	must(lStarting, lFatal)
	must(lOK, lFatal)
	must(lRecoverable, lFatal)
	must(lStopping, lFatal)
	// Edges the implementation adds and the text does not forbid.
	may(lStarting, lStopping)
	may(lStopping, lRecoverable)
}

// letterStatus is the status value an accepted report of letter l delivers.
func letterStatus(l Letter) componentstatus.Status {
	switch l {
	case lOKIfStarting:
		return componentstatus.StatusOK
	case lInvalidHigh:
		return componentstatus.Status(8)
	case lInvalidNeg:
		return componentstatus.Status(-1)
	}
	return componentstatus.Status(l)
}

// judge returns the reference verdict for reporting letter l in state s and the
// state reached when the report is accepted.
func judge(s State, l Letter) (verdict, State) {
	switch {
	case l == lOKIfStarting:
		if s == lStarting {
			return mustAllow, lOK
		}
		return mustReject, s
	case l >= nStates: // out-of-range status value
		return mustReject, s
	}
	return rel[s][l], l
}

// obs is one delivered event, as seen by the watcher callback.
type obs struct {
	Inst   int // index of the instance the event was delivered for (-1: unknown instance)
	Status componentstatus.Status
	Err    error
}

// stepOutcome classifies what the model concluded for one report.
type stepOutcome int8

const (
	outRejected stepOutcome = iota
	outAccepted
)

// modelStep advances *s over letter l given the events delivered during the
// call (for the reported instance) and returns the outcome, or a finding.
// where prefixes the signature ("fsm", "svc", "shared"...).
func modelStep(where string, s *State, l Letter, delivered []obs) (stepOutcome, *vt.Finding) {
	v, to := judge(*s, l)
	from := *s
	edge := stateName[from] + "->" + letterName[l]
	if len(delivered) > 1 {
		return 0, vt.Failf(where+"/multiple-events/"+edge, "one report of %s in state %s delivered %d events: %s",
			letterName[l], stateName[from], len(delivered), obsString(delivered))
	}
	if len(delivered) == 1 {
		ev := delivered[0]
		if ev.Status != letterStatus(l) {
			return 0, vt.Failf(where+"/wrong-event-status/"+edge, "report of %s in state %s delivered an event with status %v",
				letterName[l], stateName[from], ev.Status)
		}
		if v == mustReject {
			if l == lOKIfStarting {
				return 0, vt.Failf(where+"/okifstarting-outside-starting/"+stateName[from],
					"ReportOKIfStarting emitted OK although the instance was in %s, not Starting", stateName[from])
			}
			return 0, vt.Failf(where+"/illegal-event/"+edge, "report of %s in state %s is not an edge of the documented state machine but an event was delivered",
				letterName[l], stateName[from])
		}
		*s = to
		return outAccepted, nil
	}
	if v == mustAllow {
		return 0, vt.Failf(where+"/missing-event/"+edge, "report of %s in state %s is a documented transition but no event was delivered",
			letterName[l], stateName[from])
	}
	return outRejected, nil
}

func obsString(o []obs) string {
	var b strings.Builder
	for i, e := range o {
		if i > 0 {
			b.WriteByte(' ')
		}
		fmt.Fprintf(&b, "%d:%s", e.Inst, statusName(e.Status))
	}
	return b.String()
}

func statusName(s componentstatus.Status) string {
	if s >= 0 && int(s) < nStates {
		return stateName[s]
	}
	return fmt.Sprintf("Status(%d)", int32(s))
}

func lettersString(ls []int) string {
	var b strings.Builder
	for i, l := range ls {
		if i > 0 {
			b.WriteByte(' ')
		}
		if l >= 0 && l < nLetters {
			b.WriteString(letterName[l])
		} else {
			fmt.Fprintf(&b, "?%d", l)
		}
	}
	return b.String()
}

// pathCheck verifies that a delivered status sequence alone (no knowledge of
// the reports) is a path of the documented machine (MUST or MAY edges) starting
// from "nothing delivered".  This is the schedule-independent core of C11.
func pathCheck(where string, seq []componentstatus.Status) *vt.Finding {
	s := State(lNone)
	for i, st := range seq {
		if st < 0 || int(st) >= nStates {
			return vt.Failf(where+"/not-a-path/out-of-range", "event %d has status %d (sequence %s)", i, int32(st), statusSeqString(seq))
		}
		if rel[s][int(st)] == mustReject {
			kind := "illegal-edge"
			switch {
			case s == lNone:
				kind = "first-not-starting"
			case s == int(st):
				kind = "repeat"
			case s == lPermanent:
				kind = "leaves-permanent"
			case s == lFatal || s == lStopped:
				kind = "after-final"
			}
			return vt.Failf(where+"/not-a-path/"+kind+"/"+stateName[s]+"->"+stateName[st],
				"delivered sequence is not a path of the documented state machine: event %d goes %s -> %s (sequence %s)",
				i, stateName[s], stateName[st], statusSeqString(seq))
		}
		s = int(st)
	}
	return nil
}

func statusSeqString(seq []componentstatus.Status) string {
	parts := make([]string, len(seq))
	for i, s := range seq {
		parts[i] = statusName(s)
	}
	return strings.Join(parts, " ")
}
