package vt

import (
	"flag"
	"hash/fnv"
	"strconv"
)

// setRapidChecks points rapid's package-level flags at the budget and seed
// of the check about to run.  rapid reads them at Check time, so setting them
// programmatically is equivalent to passing -rapid.checks / -rapid.seed.
func setRapidChecks(n int) {
	_ = flag.Set("rapid.checks", strconv.Itoa(n))
	_ = flag.Set("rapid.nofailfile", "true")
}

// SeedFor derives a non-zero rapid seed for a named check from VT_SEED.
func SeedFor(check string) uint64 {
	h := fnv.New64a()
	_, _ = h.Write([]byte(check))
	_, _ = h.Write([]byte(strconv.FormatUint(Seed(), 10)))
	s := h.Sum64()
	if s == 0 {
		s = 1
	}
	return s
}

func setRapidSeed(check string) {
	_ = flag.Set("rapid.seed", strconv.FormatUint(SeedFor(check), 10))
}
