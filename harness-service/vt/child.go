package vt

import (
	"bytes"
	"os/exec"
	"syscall"
	"time"
)

func execCommand(name string, args ...string) *exec.Cmd {
	cmd := exec.Command(name, args...)
	cmd.SysProcAttr = &syscall.SysProcAttr{Setpgid: true}
	return cmd
}

// runLimited runs cmd with a wall-clock limit and an address-space cap
// inherited from the parent; the whole process group is killed on timeout.
func runLimited(cmd *exec.Cmd, limit time.Duration) (out string, rc int, timedOut bool) {
	var buf bytes.Buffer
	cmd.Stdout = &buf
	cmd.Stderr = &buf
	if err := cmd.Start(); err != nil {
		return err.Error(), -1, false
	}
	done := make(chan error, 1)
	go func() { done <- cmd.Wait() }()
	select {
	case err := <-done:
		if err != nil {
			if ee, ok := err.(*exec.ExitError); ok {
				return buf.String(), ee.ExitCode(), false
			}
			return buf.String(), -1, false
		}
		return buf.String(), 0, false
	case <-time.After(limit):
		_ = syscall.Kill(-cmd.Process.Pid, syscall.SIGKILL)
		<-done
		return buf.String(), -9, true
	}
}
