// Package c19x is the second test package of property C19: the pipeline-level
// item counters of service/internal/obsconsumer (the wrappers the service puts
// between pipeline components; counters carry an `outcome` attribute and the
// static attributes the caller asked for).
package c19x

import (
	"context"
	"crypto/sha256"
	"encoding/json"
	"errors"
	"fmt"
	"sort"
	"strings"
	"testing"

	"go.opentelemetry.io/otel/attribute"
	"go.opentelemetry.io/otel/metric"
	sdkmetric "go.opentelemetry.io/otel/sdk/metric"
	"go.opentelemetry.io/otel/sdk/metric/metricdata"
	"pgregory.net/rapid"

	"go.opentelemetry.io/collector/consumer"
	"go.opentelemetry.io/collector/consumer/consumererror"
	"go.opentelemetry.io/collector/consumer/xconsumer"
	"go.opentelemetry.io/collector/pdata/plog"
	"go.opentelemetry.io/collector/pdata/pmetric"
	"go.opentelemetry.io/collector/pdata/pprofile"
	"go.opentelemetry.io/collector/pdata/ptrace"
	"go.opentelemetry.io/collector/service/internal/obsconsumer"
	"go.opentelemetry.io/collector/service/verifharness/vt"
)

func TestMain(m *testing.M) { vt.Main(m) }

// OScript: a few counters on one meter provider, obsconsumer wrappers around a
// scripted downstream consumer (or around another wrapper, as the service graph
// nests producer-side and consumer-side counting) and a history of Consume calls.
type OScript struct {
	Counters []string // instrument names
	Wrappers []OWrap
	Calls    []OCall
}

// OWrap is one obsconsumer.New<Signal> wrapper.
type OWrap struct {
	Signal  string // logs | traces | metrics | profiles
	Counter int    // index into Counters
	Attrs   []OAttr
	Next    int // index of an earlier wrapper of the same signal, or -1 = the scripted downstream
}

// OAttr is one WithStaticDataPointAttribute option.
type OAttr struct {
	Key  string
	Kind string // string | int | bool
	S    string
	I    int64
	B    bool
}

func (a OAttr) kv() attribute.KeyValue {
	switch a.Kind {
	case "int":
		return attribute.Int64(a.Key, a.I)
	case "bool":
		return attribute.Bool(a.Key, a.B)
	}
	return attribute.String(a.Key, a.S)
}

// OCall is one Consume call on Wrappers[W].
type OCall struct {
	W int
	// Shape: resources -> scopes -> entries.  logs/traces: one record/span per
	// entry; metrics: entry e is a metric of type e/4%5 with e%4 data points;
	// profiles: entry e is a profile with e%4 samples.
	Shape [][][]int
	Down  string // "" | plain | permanent | canceled | partial (the downstream's answer)
	// Mutate: the downstream empties the payload before answering.
	Mutate bool
}

var signals = []string{"logs", "traces", "metrics", "profiles"}

func genO(t *rapid.T) OScript {
	var s OScript
	nc := rapid.IntRange(1, 3).Draw(t, "counters")
	for i := 0; i < nc; i++ {
		s.Counters = append(s.Counters, fmt.Sprintf("otelcol.vt.c%d.items", i))
	}
	nw := rapid.IntRange(1, 4).Draw(t, "wrappers")
	for i := 0; i < nw; i++ {
		w := OWrap{Signal: rapid.SampledFrom(signals).Draw(t, "signal"), Counter: rapid.IntRange(0, nc-1).Draw(t, "counter"), Next: -1}
		// 0..9 static attributes with distinct keys (never "outcome": that key is the wrapper's own)
		na := rapid.IntRange(0, 9).Draw(t, "attrs")
		for j := 0; j < na; j++ {
			a := OAttr{Key: fmt.Sprintf("%s%d", rapid.SampledFrom([]string{"otelcol.component.", "k", "otelcol.pipeline.", "a.b."}).Draw(t, "kp"), j),
				Kind: rapid.SampledFrom([]string{"string", "string", "int", "bool"}).Draw(t, "kind")}
			switch a.Kind {
			case "string":
				a.S = rapid.StringMatching(`[a-z/_.]{0,6}`).Draw(t, "s")
			case "int":
				a.I = rapid.Int64Range(-3, 1000).Draw(t, "i")
			case "bool":
				a.B = rapid.Bool().Draw(t, "b")
			}
			w.Attrs = append(w.Attrs, a)
		}
		// nest on an earlier wrapper of the same signal now and then
		var cands []int
		for j := 0; j < i; j++ {
			if s.Wrappers[j].Signal == w.Signal {
				cands = append(cands, j)
			}
		}
		if len(cands) > 0 && rapid.Bool().Draw(t, "nest") {
			w.Next = rapid.SampledFrom(cands).Draw(t, "next")
		}
		s.Wrappers = append(s.Wrappers, w)
	}
	n := rapid.IntRange(1, 10).Draw(t, "calls")
	for i := 0; i < n; i++ {
		c := OCall{W: rapid.IntRange(0, nw-1).Draw(t, "w"),
			Down:   rapid.SampledFrom([]string{"", "", "", "plain", "permanent", "canceled", "partial"}).Draw(t, "down"),
			Mutate: rapid.Bool().Draw(t, "mutate")}
		nr := rapid.IntRange(0, 2).Draw(t, "res")
		for r := 0; r < nr; r++ {
			var res [][]int
			ns := rapid.IntRange(0, 2).Draw(t, "scopes")
			for q := 0; q < ns; q++ {
				res = append(res, rapid.SliceOfN(rapid.IntRange(0, 19), 0, 4).Draw(t, "entries"))
			}
			c.Shape = append(c.Shape, res)
		}
		s.Calls = append(s.Calls, c)
	}
	return s
}

// build makes the payload and returns the number of items by the shape (not by
// pdata's own counting).
func build(signal string, shape [][][]int) (any, int) {
	items := 0
	switch signal {
	case "logs":
		ld := plog.NewLogs()
		for _, res := range shape {
			rl := ld.ResourceLogs().AppendEmpty()
			for _, sc := range res {
				sl := rl.ScopeLogs().AppendEmpty()
				for _, e := range sc {
					sl.LogRecords().AppendEmpty().Body().SetInt(int64(e))
					items++
				}
			}
		}
		return ld, items
	case "traces":
		td := ptrace.NewTraces()
		for _, res := range shape {
			rs := td.ResourceSpans().AppendEmpty()
			for _, sc := range res {
				ss := rs.ScopeSpans().AppendEmpty()
				for _, e := range sc {
					ss.Spans().AppendEmpty().SetName(fmt.Sprint(e))
					items++
				}
			}
		}
		return td, items
	case "metrics":
		md := pmetric.NewMetrics()
		for _, res := range shape {
			rm := md.ResourceMetrics().AppendEmpty()
			for _, sc := range res {
				sm := rm.ScopeMetrics().AppendEmpty()
				for _, e := range sc {
					m := sm.Metrics().AppendEmpty()
					m.SetName(fmt.Sprint(e))
					for p := 0; p < e%4; p++ {
						switch e / 4 % 5 {
						case 0:
							if p == 0 {
								m.SetEmptyGauge()
							}
							m.Gauge().DataPoints().AppendEmpty()
						case 1:
							if p == 0 {
								m.SetEmptySum()
							}
							m.Sum().DataPoints().AppendEmpty()
						case 2:
							if p == 0 {
								m.SetEmptyHistogram()
							}
							m.Histogram().DataPoints().AppendEmpty()
						case 3:
							if p == 0 {
								m.SetEmptyExponentialHistogram()
							}
							m.ExponentialHistogram().DataPoints().AppendEmpty()
						case 4:
							if p == 0 {
								m.SetEmptySummary()
							}
							m.Summary().DataPoints().AppendEmpty()
						}
						items++
					}
				}
			}
		}
		return md, items
	case "profiles":
		pd := pprofile.NewProfiles()
		for _, res := range shape {
			rp := pd.ResourceProfiles().AppendEmpty()
			for _, sc := range res {
				sp := rp.ScopeProfiles().AppendEmpty()
				for _, e := range sc {
					pr := sp.Profiles().AppendEmpty()
					for p := 0; p < e%4; p++ {
						pr.Sample().AppendEmpty()
						items++
					}
				}
			}
		}
		return pd, items
	}
	panic("c19x: unknown signal " + signal)
}

var (
	errPlain = errors.New("scripted downstream failure")
	errPerm  = consumererror.NewPermanent(errors.New("scripted permanent failure"))
)

// downstream answers a call; v is the payload it was handed.
func downstream(c *OCall, v any) error {
	var err error
	switch c.Down {
	case "":
	case "plain":
		err = errPlain
	case "permanent":
		err = errPerm
	case "canceled":
		err = context.Canceled
	case "partial":
		// a partial failure carries the data that still has to be delivered; this
		// version of obsconsumer does not look inside: any error is a failure
		switch x := v.(type) {
		case plog.Logs:
			r := plog.NewLogs()
			x.CopyTo(r)
			err = consumererror.NewLogs(errPlain, r)
		case ptrace.Traces:
			r := ptrace.NewTraces()
			x.CopyTo(r)
			err = consumererror.NewTraces(errPlain, r)
		case pmetric.Metrics:
			r := pmetric.NewMetrics()
			x.CopyTo(r)
			err = consumererror.NewMetrics(errPlain, r)
		default:
			err = errPlain
		}
	default:
		panic("c19x: unknown downstream answer " + c.Down)
	}
	if c.Mutate {
		switch x := v.(type) {
		case plog.Logs:
			x.ResourceLogs().RemoveIf(func(plog.ResourceLogs) bool { return true })
		case ptrace.Traces:
			x.ResourceSpans().RemoveIf(func(ptrace.ResourceSpans) bool { return true })
		case pmetric.Metrics:
			x.ResourceMetrics().RemoveIf(func(pmetric.ResourceMetrics) bool { return true })
		case pprofile.Profiles:
			x.ResourceProfiles().RemoveIf(func(pprofile.ResourceProfiles) bool { return true })
		}
	}
	return err
}

// ---------------------------------------------------------------------------
// reading the counters: "name{type:key=value,…}" -> value

func collect(reader *sdkmetric.ManualReader) (map[string]int64, error) {
	out := map[string]int64{}
	var rm metricdata.ResourceMetrics
	if err := reader.Collect(context.Background(), &rm); err != nil {
		return nil, err
	}
	for _, sm := range rm.ScopeMetrics {
		for _, m := range sm.Metrics {
			d, ok := m.Data.(metricdata.Sum[int64])
			if !ok {
				continue
			}
			for _, dp := range d.DataPoints {
				out[dpKey(m.Name, dp.Attributes.ToSlice())] += dp.Value
			}
		}
	}
	return out, nil
}

func dpKey(name string, kvs []attribute.KeyValue) string {
	parts := make([]string, 0, len(kvs))
	for _, kv := range kvs {
		parts = append(parts, kv.Value.Type().String()+":"+string(kv.Key)+"="+kv.Value.Emit())
	}
	sort.Strings(parts)
	return name + "{" + strings.Join(parts, ",") + "}"
}

func delta(before, after map[string]int64) map[string]int64 {
	d := map[string]int64{}
	for k, v := range after {
		if dv := v - before[k]; dv != 0 {
			d[k] = dv
		}
	}
	for k, v := range before {
		if _, ok := after[k]; !ok && v != 0 {
			d[k] = -v
		}
	}
	return d
}

func same(a, b map[string]int64) bool {
	if len(a) != len(b) {
		return false
	}
	for k, v := range a {
		if b[k] != v {
			return false
		}
	}
	return true
}

func show(m map[string]int64) string {
	ks := make([]string, 0, len(m))
	for k := range m {
		ks = append(ks, k)
	}
	sort.Strings(ks)
	var sb strings.Builder
	sb.WriteString("[")
	for i, k := range ks {
		if i > 0 {
			sb.WriteString(" ")
		}
		fmt.Fprintf(&sb, "%s%+d", k, m[k])
	}
	return sb.String() + "]"
}

var cO = vt.New("C19", "obsconsumer-outcome")

type wrapped struct {
	consume func(v any) error
}

func runO(s OScript) (nontrivial bool, k string, f *vt.Finding) {
	b, _ := json.Marshal(s)
	h := sha256.Sum256(b)
	k = string(h[:])
	reader := sdkmetric.NewManualReader()
	mp := sdkmetric.NewMeterProvider(sdkmetric.WithReader(reader))
	defer func() { _ = mp.Shutdown(context.Background()) }()
	meter := mp.Meter("c19x")
	var counters []metric.Int64Counter
	for _, name := range s.Counters {
		c, err := meter.Int64Counter(name)
		if err != nil {
			return false, k, vt.Failf("harness/counter", "%v", err)
		}
		counters = append(counters, c)
	}
	ctx := context.Background()
	var cur *OCall
	var downCalls int
	ws := make([]wrapped, len(s.Wrappers))
	for i, w := range s.Wrappers {
		if w.Counter < 0 || w.Counter >= len(counters) || w.Next >= i || (w.Next >= 0 && s.Wrappers[w.Next].Signal != w.Signal) {
			return false, k, vt.Failf("harness/script", "wrapper %d is malformed", i)
		}
		var opts []obsconsumer.Option
		for _, a := range w.Attrs {
			opts = append(opts, obsconsumer.WithStaticDataPointAttribute(a.kv()))
		}
		next := func(v any) error { downCalls++; return downstream(cur, v) }
		if w.Next >= 0 {
			next = ws[w.Next].consume
		}
		switch w.Signal {
		case "logs":
			nc, _ := consumer.NewLogs(func(_ context.Context, ld plog.Logs) error { return next(ld) })
			oc := obsconsumer.NewLogs(nc, counters[w.Counter], opts...)
			ws[i].consume = func(v any) error { return oc.ConsumeLogs(ctx, v.(plog.Logs)) }
		case "traces":
			nc, _ := consumer.NewTraces(func(_ context.Context, td ptrace.Traces) error { return next(td) })
			oc := obsconsumer.NewTraces(nc, counters[w.Counter], opts...)
			ws[i].consume = func(v any) error { return oc.ConsumeTraces(ctx, v.(ptrace.Traces)) }
		case "metrics":
			nc, _ := consumer.NewMetrics(func(_ context.Context, md pmetric.Metrics) error { return next(md) })
			oc := obsconsumer.NewMetrics(nc, counters[w.Counter], opts...)
			ws[i].consume = func(v any) error { return oc.ConsumeMetrics(ctx, v.(pmetric.Metrics)) }
		case "profiles":
			nc, _ := xconsumer.NewProfiles(func(_ context.Context, pd pprofile.Profiles) error { return next(pd) })
			oc := obsconsumer.NewProfiles(nc, counters[w.Counter], opts...)
			ws[i].consume = func(v any) error { return oc.ConsumeProfiles(ctx, v.(pprofile.Profiles)) }
		default:
			return false, k, vt.Failf("harness/script", "wrapper %d: signal %q", i, w.Signal)
		}
	}
	prev, err := collect(reader)
	if err != nil {
		return false, k, vt.Failf("harness/collect", "%v", err)
	}
	okCalls, errCalls := 0, 0
	attrCounts := map[int]bool{}
	nested := false
	for ci := range s.Calls {
		c := &s.Calls[ci]
		if c.W < 0 || c.W >= len(ws) {
			return false, k, vt.Failf("harness/script", "call %d refers to wrapper %d", ci, c.W)
		}
		w := s.Wrappers[c.W]
		v, items := build(w.Signal, c.Shape)
		cur = c
		downCalls = 0
		got := ws[c.W].consume(v)
		// the wrapper must hand the payload on exactly once and return the downstream's answer unchanged
		wantErr := c.Down != ""
		if downCalls != 1 || (got != nil) != wantErr {
			return true, k, vt.Failf("obsconsumer/forwarding/"+w.Signal, "call %d: downstream called %d times, answered %q, wrapper returned %v", ci, downCalls, c.Down, got)
		}
		outcome := "success"
		if wantErr {
			outcome = "failure"
		}
		exp := map[string]int64{}
		for wi := c.W; wi >= 0; wi = s.Wrappers[wi].Next {
			ww := s.Wrappers[wi]
			kvs := []attribute.KeyValue{attribute.String("outcome", outcome)}
			for _, a := range ww.Attrs {
				kvs = append(kvs, a.kv())
			}
			if items != 0 {
				exp[dpKey(s.Counters[ww.Counter], kvs)] += int64(items)
			}
			attrCounts[len(ww.Attrs)] = true
			if wi != c.W {
				nested = true
			}
		}
		now, err := collect(reader)
		if err != nil {
			return false, k, vt.Failf("harness/collect", "%v", err)
		}
		if d := delta(prev, now); !same(d, exp) {
			return true, k, vt.Failf("obsconsumer/"+classify(d, exp, outcome)+"/"+w.Signal,
				"call %d: %s wrapper %d (%d static attributes, counter %s, next %d) given %d items, downstream answered %q: counters moved by %s, expected %s",
				ci, w.Signal, c.W, len(w.Attrs), s.Counters[w.Counter], w.Next, items, c.Down, show(d), show(exp))
		}
		prev = now
		if items > 0 {
			if wantErr {
				errCalls++
			} else {
				okCalls++
			}
		}
	}
	for n := range attrCounts {
		cO.Class(fmt.Sprintf("static-attrs:%d", n))
	}
	if nested {
		cO.Class("nested-wrappers")
	}
	if okCalls > 0 && errCalls > 0 {
		cO.Class("mixed-outcomes")
	}
	return okCalls > 0 && errCalls > 0, k, nil
}

// classify names how the observed delta deviates.
func classify(got, exp map[string]int64, outcome string) string {
	var gs, es int64
	for _, v := range got {
		gs += v
	}
	for _, v := range exp {
		es += v
	}
	if gs != es {
		return "success+failure!=given"
	}
	other := "outcome=failure"
	if outcome == "failure" {
		other = "outcome=success"
	}
	for kk := range got {
		if _, ok := exp[kk]; !ok {
			if strings.Contains(kk, other) {
				return "wrong-outcome"
			}
			if !strings.Contains(kk, "outcome=") {
				return "outcome-attribute-missing"
			}
			name := kk[:strings.Index(kk, "{")]
			for ek := range exp {
				if strings.HasPrefix(ek, name+"{") {
					return "static-attributes"
				}
			}
			return "wrong-counter"
		}
	}
	return "delta-mismatch"
}

func TestObsconsumerOutcome(t *testing.T) { vt.Run(t, cO, vt.N(10000, 150000), genO, runO) }
