#!/usr/bin/env python3
"""Refresh the section 8.1 table of DESIGN.md from the evidence files: the check names and the quick-tier
sizes come from evidence/<id>.json (last run), the 'deciding oracle' column is kept as written."""
import json, os, re
ROOT = os.path.dirname(os.path.dirname(os.path.abspath(__file__)))
p = os.path.join(ROOT, "DESIGN.md")
s = open(p).read()
lines = s.split("\n")
out = []
pkg = {"C11": "harness-service/c11", "C19": "c19 + harness-service/c19x"}
inside = False
for ln in lines:
    if ln.startswith("### 8.1"):
        inside = True
    elif ln.startswith("### 8.2"):
        inside = False
    m = inside and re.match(r"^\| (C\d\d) \| (.*?) \| (.*?) \| (.*?) \|$", ln)
    if m and "deciding oracle" not in ln:
        pid, _, oracle, _ = m.groups()
        ev = os.path.join(ROOT, "evidence", pid + ".json")
        if os.path.exists(ev):
            d = json.load(open(ev))
            pc = d["coverage"].get("per_check", {})
            names = ", ".join(sorted(pc))
            size = "%s cases (%s distinct non-trivial) in %.0f s, %s tier" % (
                format(d["coverage"]["evaluations"], ",").replace(",", " "),
                format(d["coverage"]["distinct_nontrivial"], ",").replace(",", " "), d.get("wall_s", 0), d.get("tier", "?"))
            ln = "| %s | %s: %s | %s | %s |" % (pid, pkg.get(pid, pid.lower()), names, oracle, size)
    out.append(ln)
open(p, "w").write("\n".join(out))
