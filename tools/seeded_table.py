#!/usr/bin/env python3
"""Prints the markdown table of /verif/seeded/*/meta.json (used for DESIGN.md §8.6)."""
import glob, json, os
ROOT = os.path.dirname(os.path.dirname(os.path.abspath(__file__)))
rows = []
for mp in sorted(glob.glob(os.path.join(ROOT, "seeded", "*", "meta.json"))):
    m = json.load(open(mp))
    name = os.path.basename(os.path.dirname(mp))
    touched = ", ".join(os.path.basename(t) for t in m.get("touched", []))
    checks = m.get("checks", {})
    caught_by = [k for k, v in checks.items() if v.get("rc") == 1]
    sigs = []
    for k in caught_by:
        for v in checks[k].get("violations", []):
            if "violation sig=" in v:
                s = v.split("violation sig=")[1].split(":")[0]
                if s not in sigs:
                    sigs.append(s)
    hist = m.get("history", [])
    first_missed = any(h.get("caught") is False for h in hist)
    status = "caught" if m.get("caught") else "MISSED"
    if m.get("caught") and first_missed:
        status = "caught after strengthening"
    tier = next(iter(checks.values()), {}).get("tier", "")
    secs = max([v.get("seconds", 0) for v in checks.values()] or [0])
    rows.append("| %s | %s | %s | %s | %s (%s, %ds) | %s |" % (name, touched, m.get("needs_to_manifest", "")[:160], status, ",".join(caught_by) or "-", tier, secs, "; ".join(sigs[:2])[:110]))
print("| change | file | needs | outcome | caught by | signature |")
print("|---|---|---|---|---|---|")
print("\n".join(rows))
