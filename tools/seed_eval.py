#!/usr/bin/env python3
"""Evaluate one independently written breaking change ("seeded defect").

  tools/seed_eval.py <PROP> <name> <dir-with-patch.diff> [--demo-pkg <dir relative to repo>] [--demo-run <regex>]
                     [--tier quick|thorough] [--checks C01,C03] [--keep]

Steps (all in a scratch worktree of /repo's HEAD under /tmp, removed afterwards):
  1. the patch applies and the touched modules still build,
  2. the existing tests of every touched package still pass with the patch,
  3. the demonstration (a *_test.go dropped into --demo-pkg) fails with the patch and passes without,
  4. ./check <PROP> <tier> with VERIF_REPO=<worktree> must exit 1 (VIOLATION).
The outcome is written to /verif/seeded/<PROP>-<name>/meta.json next to a copy of the patch and the demonstration.
"""
import argparse
import glob
import json
import os
import re
import shutil
import subprocess
import sys
import time

ROOT = os.path.dirname(os.path.dirname(os.path.abspath(__file__)))
GOENV = dict(GOFLAGS="-mod=mod", GOPROXY="off", GOSUMDB="off", GOTOOLCHAIN="local", GOWORK="off")


def sh(cmd, cwd=None, timeout=3600, env=None):
    e = dict(os.environ)
    e.update(GOENV)
    if env:
        e.update(env)
    r = subprocess.run(cmd, shell=True, cwd=cwd, env=e, capture_output=True, text=True, timeout=timeout)
    return r.returncode, (r.stdout + r.stderr)


def module_of(wt, path):
    d = os.path.dirname(os.path.join(wt, path))
    while d.startswith(wt):
        if os.path.exists(os.path.join(d, "go.mod")):
            return d
        d = os.path.dirname(d)
    return wt


def main():
    ap = argparse.ArgumentParser()
    ap.add_argument("prop")
    ap.add_argument("name")
    ap.add_argument("src")
    ap.add_argument("--demo-pkg")
    ap.add_argument("--demo-run", default=".")
    ap.add_argument("--tier", default="quick")
    ap.add_argument("--checks")
    ap.add_argument("--keep", action="store_true")
    ap.add_argument("--needs", default="")
    a = ap.parse_args()
    patch = os.path.join(a.src, "patch.diff")
    wt = "/tmp/sc-%s-%s" % (a.prop, a.name)
    sh("git -C /repo worktree remove --force %s" % wt)
    rc, out = sh("git -C /repo worktree add --detach %s HEAD" % wt)
    if rc != 0:
        print(out)
        return 2
    meta = {"property": a.prop, "name": a.name, "needs_to_manifest": a.needs, "repo_head": sh("git -C /repo rev-parse --short HEAD")[1].strip(), "ran": []}
    try:
        demo_files = [f for f in glob.glob(os.path.join(a.src, "*_test.go")) + glob.glob(os.path.join(a.src, "*.go"))]
        demo_files = sorted(set(demo_files))
        # 3a. demonstration on the clean tree
        demo_res = {}
        if a.demo_pkg and demo_files:
            pkgdir = os.path.join(wt, a.demo_pkg)
            mod = module_of(wt, os.path.join(a.demo_pkg, "x.go"))
            rel = "./" + os.path.relpath(pkgdir, mod)
            for f in demo_files:
                shutil.copy(f, pkgdir)
            cmd = "go test -count=1 -run '%s' %s" % (a.demo_run, rel)
            rc0, out0 = sh(cmd, cwd=mod, timeout=1200)
            demo_res["clean"] = rc0
            meta["ran"].append({"cmd": "(clean tree) " + cmd, "rc": rc0, "tail": out0[-600:]})
        # 1. apply
        rc, out = sh("git apply %s" % os.path.abspath(patch), cwd=wt)
        if rc != 0:
            print("patch does not apply:\n" + out)
            meta["error"] = "patch does not apply"
            return 2
        touched = [l.split()[-1] for l in sh("git status --short", cwd=wt)[1].splitlines() if l.startswith(" M")]
        meta["touched"] = touched
        # 3b. demonstration with the patch
        if a.demo_pkg and demo_files:
            rc1, out1 = sh(cmd, cwd=mod, timeout=1200)
            demo_res["patched"] = rc1
            meta["ran"].append({"cmd": "(patched) " + cmd, "rc": rc1, "tail": out1[-1200:]})
            for f in demo_files:
                try:
                    os.remove(os.path.join(pkgdir, os.path.basename(f)))
                except OSError:
                    pass
        meta["demonstration"] = demo_res
        # 2. existing tests of the touched packages
        tests_ok = True
        seen = set()
        for t in touched:
            mod_t = module_of(wt, t)
            rel_t = "./" + os.path.relpath(os.path.dirname(os.path.join(wt, t)), mod_t)
            if (mod_t, rel_t) in seen:
                continue
            seen.add((mod_t, rel_t))
            if not glob.glob(os.path.join(os.path.dirname(os.path.join(wt, t)), "*.go")):
                continue  # a template / data directory: nothing to test
            cmdt = "go test -count=1 %s" % rel_t
            rct, outt = sh(cmdt, cwd=mod_t, timeout=2400)
            meta["ran"].append({"cmd": "(patched, existing tests) cd %s && %s" % (os.path.relpath(mod_t, wt) or ".", cmdt), "rc": rct, "tail": outt[-400:]})
            if rct != 0:
                tests_ok = False
        meta["existing_tests_pass"] = tests_ok
        sh("git checkout -- '*go.sum' '*go.mod'", cwd=wt)
        # 4. our checks
        results = {}
        for pid in (a.checks.split(",") if a.checks else [a.prop]):
            t0 = time.time()
            rcc, outc = sh("./check %s %s" % (pid, a.tier), cwd=ROOT, timeout=7200, env={"VERIF_REPO": wt})
            viol = [l for l in outc.splitlines() if l.startswith("  violation sig=") or l.startswith("VIOLATION")]
            results[pid] = {"tier": a.tier, "rc": rcc, "seconds": round(time.time() - t0, 1), "violations": [v[:400] for v in viol[:6]]}
            meta["ran"].append({"cmd": "VERIF_REPO=%s ./check %s %s" % (wt, pid, a.tier), "rc": rcc})
        meta["checks"] = results
        meta["caught"] = any(r["rc"] == 1 for r in results.values())
    finally:
        dst = os.path.join(ROOT, "seeded", "%s-%s" % (a.prop, a.name))
        os.makedirs(dst, exist_ok=True)
        shutil.copy(patch, dst)
        for f in glob.glob(os.path.join(a.src, "*")):
            if os.path.isfile(f) and not f.endswith("patch.diff"):
                shutil.copy(f, dst)
        old = {}
        mp = os.path.join(dst, "meta.json")
        if os.path.exists(mp):
            try:
                old = json.load(open(mp))
            except ValueError:
                old = {}
        if old.get("history") is None:
            old["history"] = []
        if old.get("checks"):
            old["history"].append({"checks": old.get("checks"), "caught": old.get("caught"), "repo_head": old.get("repo_head")})
        meta["history"] = old.get("history", [])
        if old.get("existing_tests_note"):  # a recorded explanation of a non-zero exit that is not the patch's doing
            meta["existing_tests_note"] = old["existing_tests_note"]
            meta["existing_tests_pass"] = True
        json.dump(meta, open(mp, "w"), indent=1)
        if not a.keep:
            sh("git -C /repo worktree remove --force %s" % wt)
            # only this worktree's generated go.mod files: other evaluations may be running
            import hashlib
            shutil.rmtree(os.path.join(ROOT, ".build", "mods", hashlib.sha1(os.path.abspath(wt).encode()).hexdigest()[:10]), ignore_errors=True)
    print(json.dumps({k: meta.get(k) for k in ("property", "name", "touched", "demonstration", "existing_tests_pass", "checks", "caught")}, indent=1))
    return 0


if __name__ == "__main__":
    sys.exit(main())
