#!/usr/bin/env python3
"""Print the per-property table of DESIGN.md section 8.1 from the evidence files."""
import json, os, sys
ROOT = os.path.dirname(os.path.dirname(os.path.abspath(__file__)))
man = json.load(open(os.path.join(ROOT, "MANIFEST.json")))
print("| id | checks (quick evaluations, seed 1) | total | distinct non-trivial | wall |")
print("|----|------------------------------------|-------|----------------------|------|")
for n in range(1, 21):
    pid = "C%02d" % n
    p = os.path.join(ROOT, "evidence", pid + ".json")
    if not os.path.exists(p):
        print("| %s | (no evidence) | | | |" % pid)
        continue
    d = json.load(open(p))
    pc = d["coverage"].get("per_check", {})
    parts = ["%s %s" % (k, format(v.get("evaluations", 0), ",").replace(",", " ")) for k, v in sorted(pc.items())]
    print("| %s | %s | %s | %s | %.0f s |" % (pid, "; ".join(parts), format(d["coverage"]["evaluations"], ",").replace(",", " "),
          format(d["coverage"]["distinct_nontrivial"], ",").replace(",", " "), d.get("wall_s", 0)))
