package c01

import (
	"context"
	"crypto/sha256"
	"encoding/json"
	"errors"
	"fmt"
	"sort"
	"sync"
	"testing"
	"time"

	"pgregory.net/rapid"

	"go.opentelemetry.io/collector/config/configretry"
	"go.opentelemetry.io/collector/consumer/consumererror"
	"go.opentelemetry.io/collector/exporter/exporterhelper"
	"go.opentelemetry.io/collector/verifharness/sig"
	"go.opentelemetry.io/collector/verifharness/vt"
	"go.opentelemetry.io/collector/verifharness/xh"
)

func TestMain(m *testing.M) { vt.Main(m) }

// Cfg is the queue configuration of every incarnation of a script.
type Cfg struct {
	QueueSize int  `json:"queue_size"`
	Consumers int  `json:"consumers"`
	Retry     bool `json:"retry"`
	Block     bool `json:"block_on_overflow"`
	// BatchMax > 0 adds the (deprecated but public) WithBatcher option on top of the persistent queue:
	// requests are merged up to BatchMin items and split into parts of at most BatchMax items.
	BatchMax int `json:"batch_max,omitempty"`
	BatchMin int `json:"batch_min,omitempty"`
	// Signal: "" = logs; traces | metrics | profiles use that signal's request type and storage encoding.
	Signal string `json:"signal,omitempty"`
	// Sibling: a second exporter of this (different) signal with the SAME component id and the same storage
	// extension lives next to the first in every incarnation — one exporter in pipelines of two signals.  Each
	// has a persistent queue of its own ("one storage per signal").
	Sibling string `json:"sibling,omitempty"`
}

func (c Cfg) signal() string {
	if c.Signal == "" {
		return sig.Logs
	}
	return c.Signal
}

// curSignal is the signal of the script being run (scripts run one at a time).
var curSignal = sig.Logs

// curSibling is the sibling exporter's signal of the script being run ("" = none).
var curSibling string

// OpS is one step of the main run.
type OpS struct {
	Kind string `json:"kind"` // enq | rel | restart
	// enq: offer to the sibling exporter (ignored when there is none)
	Sib bool `json:"sib,omitempty"`
	// enq: number of items (log records) of the request, default 1
	Items int `json:"items,omitempty"`
	// rel: which parked hand-off (index modulo the number parked) and its outcome
	Pick    int    `json:"pick,omitempty"`
	Outcome string `json:"outcome,omitempty"` // ok | perm | transient
	// restart: outcomes given to the hand-offs parked when shutdown is requested
	Outcomes []string `json:"outcomes,omitempty"`
}

// Script: a main run plus the crash cuts to explore.  A cut path is a list of
// positions in per-mille of the respective history: [p1] = die after p1‰ of
// the main history; [p1, p2] = additionally die after p2‰ of the history of
// the recovery that follows.
type Script struct {
	Cfg     Cfg     `json:"cfg"`
	Ops     []OpS   `json:"ops"`
	Cuts    [][]int `json:"cuts"`
	AllCuts bool    `json:"all_cuts"` // enumerate every cut to depth 2 instead of Cuts
}

var (
	errTransient = errors.New("scripted transient failure")
	errPermanent = errors.New("scripted permanent failure")
)

func payload(id int64, n int) any { return sig.Simple(curSignal, id, n) }

func idsOf(v any) []int64 {
	var out []int64
	for _, it := range sig.Items(v) {
		out = append(out, it.ID)
	}
	return out
}

func options(cfg Cfg) []exporterhelper.Option {
	q := exporterhelper.NewDefaultQueueConfig()
	q.Enabled = true
	q.Sizer = exporterhelper.RequestSizerTypeRequests
	q.QueueSize = int64(cfg.QueueSize)
	q.NumConsumers = cfg.Consumers
	q.BlockOnOverflow = cfg.Block
	sid := xh.StorageID
	q.StorageID = &sid
	if err := q.Validate(); err != nil {
		panic(err)
	}
	opts := []exporterhelper.Option{exporterhelper.WithQueue(q), exporterhelper.WithTimeout(exporterhelper.TimeoutConfig{Timeout: 0})}
	if cfg.BatchMax > 0 {
		b := exporterhelper.NewDefaultBatcherConfig()
		b.Enabled = true
		b.FlushTimeout = 2 * time.Millisecond
		b.MinSize = int64(cfg.BatchMin)
		b.MaxSize = int64(cfg.BatchMax)
		if err := b.Validate(); err != nil {
			panic(err)
		}
		opts = append(opts, exporterhelper.WithBatcher(b))
	}
	if cfg.Retry {
		r := configretry.NewDefaultBackOffConfig()
		r.InitialInterval = time.Hour
		r.MaxInterval = time.Hour
		r.MaxElapsedTime = 0
		r.RandomizationFactor = 0
		opts = append(opts, exporterhelper.WithRetry(r))
	} else {
		r := configretry.NewDefaultBackOffConfig()
		r.Enabled = false
		opts = append(opts, exporterhelper.WithRetry(r))
	}
	return opts
}

// ---------------------------------------------------------------------------
// main run

type parked struct {
	ids []int64
	ch  chan string
}

type mainRun struct {
	cfg     Cfg
	rec     *xh.Recorder
	inc     int
	exp     *xh.Exporter
	sib     *xh.Exporter // sibling exporter (other signal, same id, same storage) or nil
	mu      sync.Mutex
	parked  []*parked
	backoff int // hand-offs that returned a transient error with retry enabled (consumer stays busy)
	nextID  int64
}

func (m *mainRun) push(_ context.Context, v any) error {
	ids := idsOf(v)
	m.mu.Lock()
	inc := m.inc
	m.mu.Unlock()
	p := &parked{ids: ids, ch: make(chan string, 1)}
	m.mu.Lock()
	m.parked = append(m.parked, p)
	m.mu.Unlock()
	for _, id := range ids {
		m.rec.Event("handoff", id, inc)
	}
	out := <-p.ch
	final := func() {
		for _, id := range ids {
			m.rec.Event("final", id, inc)
		}
	}
	switch out {
	case "ok":
		final()
		return nil
	case "perm":
		final()
		return consumererror.NewPermanent(errPermanent)
	default:
		if !m.cfg.Retry {
			final() // without retry every failure is final
		} else {
			m.mu.Lock()
			m.backoff++
			m.mu.Unlock()
		}
		return errTransient
	}
}

func (m *mainRun) startIncarnation() *vt.Finding {
	m.mu.Lock()
	m.inc++
	m.backoff = 0
	m.parked = nil
	m.mu.Unlock()
	exp, err := xh.NewExporter(curSignal, xh.NopSettings(), m.push, options(m.cfg)...)
	if err != nil {
		return vt.Failf("harness/new", "NewExporter: %v", err)
	}
	m.exp = exp
	m.sib = nil
	if m.cfg.Sibling != "" {
		sib, err := xh.NewExporter(m.cfg.Sibling, xh.NopSettings(), m.push, options(m.cfg)...)
		if err != nil {
			return vt.Failf("harness/new", "NewExporter (sibling): %v", err)
		}
		m.sib = sib
	}
	m.rec.Event("start", 0, m.inc)
	var serr error
	ok, _ := vt.WithWatchdog(5*time.Second, func() {
		serr = xh.StartThenCancel(exp, xh.HostWith(m.rec))
		if serr == nil && m.sib != nil {
			serr = xh.StartThenCancel(m.sib, xh.HostWith(m.rec))
		}
	})
	if !ok {
		return vt.Failf("start-blocks/main", "Start of incarnation %d did not return within 5s", m.inc)
	}
	if serr != nil {
		return vt.Failf("harness/start", "Start: %v", serr)
	}
	m.rec.Event("started", 0, m.inc)
	return nil
}

// settle waits until the history has been quiet for a moment (nothing the
// oracle needs depends on this; it only makes the script's steps land on
// distinct states).
func (m *mainRun) settle() {
	idle := time.NewTimer(2 * time.Millisecond)
	defer idle.Stop()
	deadline := time.After(300 * time.Millisecond)
	for {
		m.mu.Lock()
		busy := len(m.parked) + m.backoff
		m.mu.Unlock()
		if busy >= m.cfg.Consumers {
			return
		}
		select {
		case <-m.rec.Notify():
			if !idle.Stop() {
				select {
				case <-idle.C:
				default:
				}
			}
			idle.Reset(2 * time.Millisecond)
		case <-idle.C:
			return
		case <-deadline:
			return
		}
	}
}

func (m *mainRun) release(pick int, outcome string) bool {
	m.mu.Lock()
	if len(m.parked) == 0 {
		m.mu.Unlock()
		return false
	}
	i := pick % len(m.parked)
	p := m.parked[i]
	m.parked = append(m.parked[:i], m.parked[i+1:]...)
	m.mu.Unlock()
	p.ch <- outcome
	return true
}

// shutdown requests a graceful shutdown, releasing parked hand-offs with the
// given outcomes while it is in progress (the export function of a real
// exporter completes one way or another while the collector shuts down).
func (m *mainRun) shutdown(outcomes []string) *vt.Finding {
	m.rec.Event("shutdown", 0, m.inc)
	done := make(chan error, 1)
	go func() {
		err := m.exp.Shutdown(context.Background())
		if m.sib != nil {
			err = errors.Join(err, m.sib.Shutdown(context.Background()))
		}
		done <- err
	}()
	k := 0
	deadline := time.After(20 * time.Second)
	tick := time.NewTicker(500 * time.Microsecond)
	defer tick.Stop()
	for {
		select {
		case err := <-done:
			if err != nil {
				return vt.Failf("shutdown-error", "Shutdown returned %v", err)
			}
			m.rec.Event("stopped", 0, m.inc)
			return nil
		case <-tick.C:
			out := "ok"
			if len(outcomes) > 0 {
				out = outcomes[k%len(outcomes)]
			}
			if m.release(0, out) {
				k++
			}
		case <-deadline:
			return vt.Failf("shutdown-blocks", "graceful Shutdown of incarnation %d did not return within 20s", m.inc)
		}
	}
}

func runMain(s *Script) (*xh.Recorder, *vt.Finding, map[string]int) {
	stats := map[string]int{}
	m := &mainRun{cfg: s.Cfg, rec: xh.NewRecorder(nil), nextID: 1}
	if f := m.startIncarnation(); f != nil {
		return m.rec, f, stats
	}
	for _, op := range s.Ops {
		switch op.Kind {
		case "enq":
			id := m.nextID
			n := op.Items
			if n < 1 {
				n = 1
			}
			m.nextID += int64(n)
			ctx, cancel := context.WithTimeout(context.Background(), 30*time.Millisecond)
			var err error
			if op.Sib && m.sib != nil {
				err = m.sib.Consume(ctx, sig.Simple(m.cfg.Sibling, id, n))
				stats["offered-to-sibling"]++
			} else {
				err = m.exp.Consume(ctx, payload(id, n))
			}
			cancel()
			if err == nil {
				for i := 0; i < n; i++ {
					m.rec.Event("accepted", id+int64(i), m.inc)
				}
				stats["accepted"]++
				if m.cfg.BatchMax > 0 && n > m.cfg.BatchMax {
					stats["request-split-into-parts"]++
				}
			} else {
				stats["refused"]++
			}
			m.settle()
		case "rel":
			if m.release(op.Pick, op.Outcome) {
				stats["released:"+op.Outcome]++
				m.settle()
			}
		case "restart":
			if f := m.shutdown(op.Outcomes); f != nil {
				return m.rec, f, stats
			}
			stats["graceful-restart"]++
			if f := m.startIncarnation(); f != nil {
				return m.rec, f, stats
			}
			m.settle()
		}
	}
	// end of the script: shut the last incarnation down, every parked hand-off succeeds
	if f := m.shutdown([]string{"ok"}); f != nil {
		return m.rec, f, stats
	}
	return m.rec, nil, stats
}

// ---------------------------------------------------------------------------
// recovery incarnations

type recovery struct {
	log     []xh.Entry
	handed  map[int64]bool
	hung    string // "start" | "shutdown" | ""
	elapsed time.Duration
}

// recoverOn starts a fresh incarnation on the given storage contents with an
// always-succeeding export function and lets it drain until every id of must
// has been handed off (or nothing has happened for a long moment).
func recoverOn(cfg Cfg, contents map[string][]byte, must map[int64]bool) recovery {
	t0 := time.Now()
	rec := xh.NewRecorder(contents)
	var mu sync.Mutex
	handed := map[int64]bool{}
	push := func(_ context.Context, v any) error {
		for _, id := range idsOf(v) {
			rec.Event("handoff", id, 0)
			mu.Lock()
			handed[id] = true
			mu.Unlock()
			rec.Event("final", id, 0)
		}
		return nil
	}
	res := recovery{handed: handed}
	exp, err := xh.NewExporter(curSignal, xh.NopSettings(), push, options(cfg)...)
	if err != nil {
		panic(err)
	}
	var sib *xh.Exporter
	if cfg.Sibling != "" {
		if sib, err = xh.NewExporter(cfg.Sibling, xh.NopSettings(), push, options(cfg)...); err != nil {
			panic(err)
		}
	}
	ok, _ := vt.WithWatchdog(3*time.Second, func() {
		_ = xh.StartThenCancel(exp, xh.HostWith(rec))
		if sib != nil {
			_ = xh.StartThenCancel(sib, xh.HostWith(rec))
		}
	})
	if !ok {
		res.hung = "start"
		res.log = rec.Log()
		return res
	}
	complete := func() bool {
		mu.Lock()
		defer mu.Unlock()
		for id := range must {
			if !handed[id] {
				return false
			}
		}
		return true
	}
	idleFor := 1500 * time.Millisecond
	idle := time.NewTimer(idleFor)
	for !complete() {
		select {
		case <-rec.Notify():
			if !idle.Stop() {
				select {
				case <-idle.C:
				default:
				}
			}
			idle.Reset(idleFor)
			continue
		case <-idle.C:
		}
		break
	}
	idle.Stop()
	ok, _ = vt.WithWatchdog(10*time.Second, func() {
		_ = exp.Shutdown(context.Background())
		if sib != nil {
			_ = sib.Shutdown(context.Background())
		}
	})
	if !ok {
		res.hung = "shutdown"
	}
	res.log = rec.Log()
	mu.Lock()
	res.handed = map[int64]bool{}
	for k := range handed {
		res.handed[k] = true
	}
	mu.Unlock()
	res.elapsed = time.Since(t0)
	return res
}

// ---------------------------------------------------------------------------
// oracle

// mustAt computes A_c \ F_c for the history prefix log[:c].
func mustAt(log []xh.Entry, c int, base map[int64]bool) map[int64]bool {
	must := map[int64]bool{}
	for id := range base {
		must[id] = true
	}
	for i := 0; i < c && i < len(log); i++ {
		switch log[i].Event {
		case "accepted":
			must[log[i].ID] = true
		case "final":
			delete(must, log[i].ID)
		}
	}
	return must
}

// bodiesIn decodes every stored value that is a request body and returns the ids found.
func bodiesIn(contents map[string][]byte) map[int64]string {
	out := map[int64]string{}
	for k, v := range contents {
		func() {
			defer func() { _ = recover() }()
			for _, sg := range []string{curSignal, curSibling} {
				if sg == "" {
					continue
				}
				val, err := sig.Decode(sg, v)
				if err != nil {
					continue
				}
				for _, id := range idsOf(val) {
					if id > 0 {
						out[id] = k
					}
				}
			}
		}()
	}
	return out
}

func setKeys(m map[int64]bool) []int64 {
	var out []int64
	for k := range m {
		out = append(out, k)
	}
	sort.Slice(out, func(i, j int) bool { return out[i] < out[j] })
	return out
}

// classifyLoss explains how id disappeared: it looks at the histories (main
// prefix, then each recovery) for the operation that removed its body.
func classifyLoss(id int64, contentsAtCut map[string][]byte, recLogs [][]xh.Entry, recStart []map[string][]byte, everStored map[int64]bool) string {
	if _, stored := bodiesIn(contentsAtCut)[id]; !stored {
		if everStored[id] {
			return "body-deleted-without-final-outcome"
		}
		return "never-stored"
	}
	for r, log := range recLogs {
		contents := recStart[r]
		for i := range log {
			for _, m := range log[i].Muts {
				if !m.Del {
					continue
				}
				if key, ok := bodiesIn(contents)[id]; ok && key == m.Key {
					// the body is deleted here; was it stored again under another key by then?
					after := xh.Replay(recStart[r], log, i+1)
					if _, still := bodiesIn(after)[id]; !still {
						return "recovery-deleted-body-before-handoff"
					}
				}
			}
			contents = xh.Replay(recStart[r], log, i+1)
		}
	}
	return "stranded-in-storage"
}

type explorer struct {
	everStored map[int64]bool
	c          *vt.C
	s          *Script
	evals      int
	nt         int
	maxD       int
}

// explore runs a recovery on contents and, if depth allows, recurses into the
// cuts of that recovery's own history.  cutsAt(depth, n) yields the cut
// positions to take in a history of length n at that depth.
func (e *explorer) explore(contents map[string][]byte, must map[int64]bool, depth int, path string, cutsAt func(depth, n int) []int, where string) *vt.Finding {
	rv := recoverOn(e.s.Cfg, contents, must)
	e.evals++
	e.c.Class(fmt.Sprintf("recovery-depth-%d", depth))
	if rv.hung != "" {
		f := vt.Failf("recovery-"+rv.hung+"-blocks", "cut %s (%s): %s of the recovering incarnation does not return; must-deliver ids %v, keys at cut %v", path, where, rv.hung, setKeys(must), xh.Keys(contents))
		if !e.c.Soft(f, e.s) {
			return f
		}
		return nil
	}
	var lost []int64
	for id := range must {
		if !rv.handed[id] {
			lost = append(lost, id)
		}
	}
	if len(lost) > 0 {
		sort.Slice(lost, func(i, j int) bool { return lost[i] < lost[j] })
		kind := classifyLoss(lost[0], contents, [][]xh.Entry{rv.log}, []map[string][]byte{contents}, e.everStored)
		f := vt.Failf("lost/"+kind, "cut %s (%s): accepted request(s) %v were never handed to the export function again (must-deliver %v, handed %v); keys at cut %v; cfg %+v",
			path, where, lost, setKeys(must), setKeys(rv.handed), xh.Keys(contents), e.s.Cfg)
		if !e.c.Soft(f, e.s) {
			return f
		}
	}
	if depth >= e.maxD {
		return nil
	}
	for _, q := range cutsAt(depth+1, len(rv.log)) {
		m2 := mustAt(rv.log, q, must)
		if len(m2) == 0 {
			e.c.Class("cut-without-obligation")
			continue
		}
		e.nt++
		c2 := xh.Replay(contents, rv.log, q)
		if f := e.explore(c2, m2, depth+1, fmt.Sprintf("%s>%d/%d", path, q, len(rv.log)), cutsAt, "death while recovering"); f != nil {
			return f
		}
	}
	return nil
}

func whereIs(log []xh.Entry, c int) string {
	// between which harness events does the cut fall
	last := "begin"
	for i := 0; i < c && i < len(log); i++ {
		if log[i].Event == "shutdown" || log[i].Event == "stopped" || log[i].Event == "start" || log[i].Event == "started" {
			last = log[i].Event
		}
	}
	switch last {
	case "shutdown":
		return "death during graceful shutdown"
	case "stopped":
		return "after a graceful shutdown completed"
	case "start":
		return "death during start-up recovery of a later incarnation"
	}
	return "death while running"
}

var cQ = vt.New("C01", "crash-cuts")

func run(s Script) (nontrivial bool, key string, f *vt.Finding) {
	b, _ := json.Marshal(s)
	h := sha256.Sum256(b)
	key = string(h[:])
	curSignal, curSibling = s.Cfg.signal(), s.Cfg.Sibling
	cQ.Class("signal:" + curSignal)
	if curSibling != "" {
		cQ.Class("sibling-exporter-same-id")
	}
	rec, f, stats := runMain(&s)
	if f != nil {
		return true, key, f
	}
	for k, v := range stats {
		cQ.ClassN(k, int64(v))
	}
	log := rec.Log()
	e := &explorer{c: cQ, s: &s, maxD: 2, everStored: map[int64]bool{}}
	for i := range log {
		for _, m := range log[i].Muts {
			if !m.Del {
				for id := range bodiesIn(map[string][]byte{m.Key: m.Val}) {
					e.everStored[id] = true
				}
			}
		}
	}
	var cutsAt func(depth, n int) []int
	var top []int
	if s.AllCuts {
		cutsAt = func(_ int, n int) []int {
			out := make([]int, 0, n+1)
			for i := 0; i <= n; i++ {
				out = append(out, i)
			}
			return out
		}
		top = cutsAt(1, len(log))
		for _, c := range top {
			must := mustAt(log, c, nil)
			if len(must) == 0 {
				cQ.Class("cut-without-obligation")
				continue
			}
			e.nt++
			if f := e.explore(xh.Replay(nil, log, c), must, 1, fmt.Sprintf("%d/%d", c, len(log)), cutsAt, whereIs(log, c)); f != nil {
				return true, key, f
			}
		}
	} else {
		for _, cp := range s.Cuts {
			if len(cp) == 0 {
				continue
			}
			c := cp[0] * len(log) / 1000
			must := mustAt(log, c, nil)
			if len(must) == 0 {
				cQ.Class("cut-without-obligation")
				continue
			}
			e.nt++
			cp := cp
			e.maxD = 2
			if len(cp) > e.maxD {
				e.maxD = len(cp)
			}
			cutsAt = func(depth, n int) []int {
				if depth-1 < len(cp) {
					return []int{cp[depth-1] * n / 1000}
				}
				return nil
			}
			if f := e.explore(xh.Replay(nil, log, c), must, 1, fmt.Sprintf("%d/%d", c, len(log)), cutsAt, whereIs(log, c)); f != nil {
				return true, key, f
			}
		}
	}
	cQ.ClassN("recovery-incarnations", int64(e.evals))
	cQ.ClassN("cuts-with-obligation", int64(e.nt))
	return e.nt > 0, key, nil
}

func gen(all bool) func(t *rapid.T) Script { return genMode(all, false) }

// genMode: parts=true forces the legacy batcher (the only configuration in which a stored request is exported in
// parts, merged with its neighbours) together with retry, so that every script is about parts of requests that
// end differently (one interrupted by shutdown or lost to a death, another finished)
func genMode(all, parts bool) func(t *rapid.T) Script {
	return func(t *rapid.T) Script {
		s := Script{AllCuts: all}
		s.Cfg = Cfg{
			QueueSize: rapid.IntRange(1, 6).Draw(t, "queue_size"),
			Consumers: rapid.IntRange(1, 3).Draw(t, "consumers"),
			Retry:     rapid.Bool().Draw(t, "retry"),
			Block:     rapid.IntRange(0, 4).Draw(t, "block") == 0,
		}
		s.Cfg.Signal = rapid.SampledFrom([]string{"", "", "", "traces", "metrics", "profiles"}).Draw(t, "signal")
		if rapid.IntRange(0, 3).Draw(t, "sibling") == 0 {
			var others []string
			for _, sg := range sig.All {
				if sg != s.Cfg.signal() {
					others = append(others, sg)
				}
			}
			s.Cfg.Sibling = rapid.SampledFrom(others).Draw(t, "sibling_signal")
		}
		if parts {
			s.Cfg.Retry = rapid.IntRange(0, 5).Draw(t, "retry2") != 0
		}
		if parts || rapid.IntRange(0, 2).Draw(t, "legacy_batcher") == 0 {
			s.Cfg.BatchMax = rapid.IntRange(1, 3).Draw(t, "batch_max")
			s.Cfg.BatchMin = rapid.IntRange(0, s.Cfg.BatchMax).Draw(t, "batch_min")
			if rapid.Bool().Draw(t, "min=max") {
				// a request below min_size waits in the batcher; the next one is merged into it and split
				s.Cfg.BatchMin = s.Cfg.BatchMax
			}
		}
		maxItems := 4
		if 2*s.Cfg.BatchMax+1 > maxItems {
			maxItems = 2*s.Cfg.BatchMax + 1 // merged totals that are exact multiples of max_size (parts of equal size)
		}
		n := rapid.IntRange(1, 25).Draw(t, "nops")
		if all {
			n = rapid.IntRange(1, 12).Draw(t, "nops")
		}
		for i := 0; i < n; i++ {
			switch k := rapid.IntRange(0, 9).Draw(t, "op"); {
			case k <= 4:
				s.Ops = append(s.Ops, OpS{Kind: "enq", Items: rapid.IntRange(1, maxItems).Draw(t, "items"), Sib: s.Cfg.Sibling != "" && rapid.Bool().Draw(t, "sib")})
			case k <= 8:
				s.Ops = append(s.Ops, OpS{Kind: "rel", Pick: rapid.IntRange(0, 2).Draw(t, "pick"),
					Outcome: rapid.SampledFrom([]string{"ok", "ok", "perm", "transient", "transient"}).Draw(t, "outcome")})
			default:
				s.Ops = append(s.Ops, OpS{Kind: "restart", Outcomes: rapid.SliceOfN(rapid.SampledFrom([]string{"ok", "perm", "transient", "transient"}), 1, 3).Draw(t, "outcomes")})
			}
		}
		if !all {
			nc := rapid.IntRange(1, 3).Draw(t, "ncuts")
			for i := 0; i < nc; i++ {
				cp := []int{rapid.IntRange(0, 1000).Draw(t, "cut1")}
				// deaths while recovering: one more cut per level ("how many times it dies and restarts"),
				// up to four deaths in a row on the same storage contents
				for d, deep := 2, rapid.IntRange(0, 7).Draw(t, "deep"); d <= []int{1, 1, 1, 2, 2, 2, 3, 4}[deep]; d++ {
					cp = append(cp, rapid.IntRange(0, 1000).Draw(t, fmt.Sprintf("cut%d", d)))
				}
				s.Cuts = append(s.Cuts, cp)
			}
		}
		return s
	}
}

func TestCrashCuts(t *testing.T) {
	vt.Run(t, cQ, vt.N(2000, 60000), gen(false), run)
}

var cParts = vt.New("C01", "crash-cuts-request-parts")

func TestCrashCutsParts(t *testing.T) {
	runParts := func(s Script) (bool, string, *vt.Finding) {
		save := cQ
		cQ = cParts
		defer func() { cQ = save }()
		return run(s)
	}
	vt.Run(t, cParts, vt.N(1500, 40000), genMode(false, true), runParts)
}

var cAll = vt.New("C01", "all-cuts")

func TestAllCuts(t *testing.T) {
	runAll := func(s Script) (bool, string, *vt.Finding) {
		save := cQ
		cQ = cAll
		defer func() { cQ = save }()
		return run(s)
	}
	vt.Run(t, cAll, vt.N(300, 20000), gen(true), runAll)
}
