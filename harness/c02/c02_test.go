package c02

import (
	"context"
	"crypto/sha256"
	"encoding/json"
	"errors"
	"fmt"
	"runtime"
	"sort"
	"strings"
	"sync"
	"testing"
	"time"

	"go.opentelemetry.io/otel/sdk/metric/metricdata"
	"pgregory.net/rapid"

	"go.opentelemetry.io/collector/component/componenttest"
	"go.opentelemetry.io/collector/config/configretry"
	"go.opentelemetry.io/collector/exporter/exporterhelper"
	"go.opentelemetry.io/collector/pdata/pcommon"
	"go.opentelemetry.io/collector/pdata/plog"
	"go.opentelemetry.io/collector/pdata/pmetric"
	"go.opentelemetry.io/collector/pdata/pprofile"
	"go.opentelemetry.io/collector/pdata/ptrace"
	"go.opentelemetry.io/collector/verifharness/sig"
	"go.opentelemetry.io/collector/verifharness/vt"
	"go.opentelemetry.io/collector/verifharness/xh"
)

func TestMain(m *testing.M) { vt.Main(m) }

// Cfg is the queue configuration.
type Cfg struct {
	Persistent bool   `json:"persistent"`
	Sizer      string `json:"sizer"` // requests | items | bytes
	Cap        int    `json:"cap"`   // in units of the sizer (bytes: multiples of the unit record size)
	Consumers  int    `json:"consumers"`
	Block      bool   `json:"block_on_overflow"`
	WFR        bool   `json:"wait_for_result"`
	// SlowStorageUS > 0: every mutating storage operation of the persistent queue takes this long
	SlowStorageUS int `json:"slow_storage_us,omitempty"`
	// Signal: "" = logs; traces | metrics | profiles (the queue front differs per signal: instruments, encoding)
	Signal string `json:"signal,omitempty"`
}

func (c Cfg) signal() string {
	if c.Signal == "" {
		return sig.Logs
	}
	return c.Signal
}

// Op is one harness action.
type Op struct {
	Kind string `json:"kind"` // offer | complete | cancel | burst
	// offer: number of log records of the request (0 allowed) and whether its context can be cancelled
	N          int  `json:"n,omitempty"`
	Cancelable bool `json:"cancelable,omitempty"`
	// complete: which in-flight hand-off (index modulo) and whether it fails
	Pick int  `json:"pick,omitempty"`
	Fail bool `json:"fail,omitempty"`
	// burst: concurrent offers (record counts), completions and cancellations
	Offers    []int `json:"offers,omitempty"`
	Completes int   `json:"completes,omitempty"`
	Cancels   int   `json:"cancels,omitempty"`
}

// Script is a configuration and a list of actions.
type Script struct {
	Cfg Cfg  `json:"cfg"`
	Ops []Op `json:"ops"`
}

const ridKey = "rid"

// curSig is the signal of the script being run (scripts run one at a time).
var curSig = sig.Logs

// payload builds a request of the current signal: one resource entry tagged with
// the request id and n items of uniform size under one scope (none for n == 0).
func payload(rid int64, n int) any {
	switch curSig {
	case sig.Traces:
		td := ptrace.NewTraces()
		rs := td.ResourceSpans().AppendEmpty()
		rs.Resource().Attributes().PutInt(ridKey, rid)
		if n > 0 {
			ss := rs.ScopeSpans().AppendEmpty()
			for i := 0; i < n; i++ {
				ss.Spans().AppendEmpty().SetName("0123456789")
			}
		}
		return td
	case sig.Metrics:
		md := pmetric.NewMetrics()
		rm := md.ResourceMetrics().AppendEmpty()
		rm.Resource().Attributes().PutInt(ridKey, rid)
		if n > 0 {
			g := rm.ScopeMetrics().AppendEmpty().Metrics().AppendEmpty().SetEmptyGauge()
			for i := 0; i < n; i++ {
				g.DataPoints().AppendEmpty().SetIntValue(7)
			}
		}
		return md
	case sig.Profiles:
		pd := pprofile.NewProfiles()
		rp := pd.ResourceProfiles().AppendEmpty()
		rp.Resource().Attributes().PutInt(ridKey, rid)
		if n > 0 {
			pr := rp.ScopeProfiles().AppendEmpty().Profiles().AppendEmpty()
			for i := 0; i < n; i++ {
				pr.Sample().AppendEmpty().SetLocationsLength(7)
			}
		}
		return pd
	}
	ld := plog.NewLogs()
	rl := ld.ResourceLogs().AppendEmpty()
	rl.Resource().Attributes().PutInt(ridKey, rid)
	if n > 0 {
		sl := rl.ScopeLogs().AppendEmpty()
		for i := 0; i < n; i++ {
			sl.LogRecords().AppendEmpty().Body().SetStr("0123456789")
		}
	}
	return ld
}

func ridOf(v any) int64 {
	var attrs pcommon.Map
	switch x := v.(type) {
	case plog.Logs:
		if x.ResourceLogs().Len() == 0 {
			return -1
		}
		attrs = x.ResourceLogs().At(0).Resource().Attributes()
	case ptrace.Traces:
		if x.ResourceSpans().Len() == 0 {
			return -1
		}
		attrs = x.ResourceSpans().At(0).Resource().Attributes()
	case pmetric.Metrics:
		if x.ResourceMetrics().Len() == 0 {
			return -1
		}
		attrs = x.ResourceMetrics().At(0).Resource().Attributes()
	case pprofile.Profiles:
		if x.ResourceProfiles().Len() == 0 {
			return -1
		}
		attrs = x.ResourceProfiles().At(0).Resource().Attributes()
	default:
		return -1
	}
	x, ok := attrs.Get(ridKey)
	if !ok {
		return -1
	}
	return x.Int()
}

var errBackend = errors.New("scripted backend failure")

// producer is one Offer (ConsumeLogs) call.
type producer struct {
	rid      int64
	size     int64
	n        int
	ctx      context.Context
	cancel   context.CancelFunc
	endErr   error // what the context reports once it has ended: Canceled, or DeadlineExceeded
	canceled bool
	done     chan struct{}
	err      error
	returned bool // harness has consumed the result
	step     int  // harness step at which it was offered
	// model state
	state     string // blocked | queued | inflight | finished | refused | zero | unknown(relaxed)
	acceptLo  int
	acceptHi  int
	outcome   error // outcome scripted for its hand-off
	hasResult bool
}

type handoff struct {
	rid int64
	ch  chan error
}

type world struct {
	cfg   Cfg
	tel   *componenttest.Telemetry
	exp   *xh.Exporter
	mu    sync.Mutex
	park  []*handoff    // in-flight hand-offs, arrival order
	seen  map[int64]int // hand-off count per rid
	order []int64       // hand-off order
	note  chan struct{}
	prods map[int64]*producer
	next  int64
	step  int
	// model
	size         int64 // memory queue: summed size of accepted-unfinished
	relaxed      bool  // wait_for_result + block_on_overflow: admissions are not observable, end-to-end invariants only
	unit         int64 // bytes per record (bytes sizer)
	base         int64 // bytes of a request without records
	sizeDeadline time.Time
	maxQueued    int // deepest backlog seen at a reconcile
}

func (w *world) ping() {
	select {
	case w.note <- struct{}{}:
	default:
	}
}

func (w *world) push(_ context.Context, v any) error {
	h := &handoff{rid: ridOf(v), ch: make(chan error, 1)}
	w.mu.Lock()
	w.park = append(w.park, h)
	w.seen[h.rid]++
	w.order = append(w.order, h.rid)
	w.mu.Unlock()
	w.ping()
	return <-h.ch
}

func (w *world) sizeOf(rid int64, n int) int64 {
	switch w.cfg.Sizer {
	case "requests":
		return 1
	case "items":
		return int64(n)
	}
	// the request id is part of the payload: its varint grows from rid 128 on
	return int64(sig.Size(payload(rid, n)))
}

func (w *world) capUnits() int64 {
	if w.cfg.Sizer == "bytes" {
		return w.base + int64(w.cfg.Cap)*w.unit
	}
	return int64(w.cfg.Cap)
}

func (w *world) gauge(name string) (int64, bool) {
	m, err := w.tel.GetMetric(name)
	if err != nil {
		return 0, false
	}
	g, ok := m.Data.(metricdata.Gauge[int64])
	if !ok || len(g.DataPoints) == 0 {
		return 0, false
	}
	return g.DataPoints[0].Value, true
}

func newWorld(cfg Cfg) (*world, *vt.Finding) {
	curSig = cfg.signal()
	w := &world{cfg: cfg, tel: componenttest.NewTelemetry(), seen: map[int64]int{}, note: make(chan struct{}, 1), prods: map[int64]*producer{}, next: 1}
	w.relaxed = cfg.WFR && cfg.Block
	w.base = int64(sig.Size(payload(1, 0)))
	w.unit = int64(sig.Size(payload(1, 2)) - sig.Size(payload(1, 1)))
	q := exporterhelper.NewDefaultQueueConfig()
	q.Enabled = true
	q.Sizer = xh.SizerType(cfg.Sizer)
	q.QueueSize = w.capUnits()
	q.NumConsumers = cfg.Consumers
	q.BlockOnOverflow = cfg.Block
	q.WaitForResult = cfg.WFR
	rec := xh.NewRecorder(nil)
	if cfg.SlowStorageUS > 0 {
		rec.SetDelay(time.Duration(cfg.SlowStorageUS) * time.Microsecond)
	}
	var host = xh.HostWith(rec)
	if cfg.Persistent {
		sid := xh.StorageID
		q.StorageID = &sid
	}
	if err := q.Validate(); err != nil {
		return nil, vt.Failf("harness/config", "generated config rejected: %v", err)
	}
	set := xh.NopSettings()
	set.TelemetrySettings = w.tel.NewTelemetrySettings()
	r := configretry.NewDefaultBackOffConfig()
	r.Enabled = false
	exp, err := xh.NewExporter(curSig, set, w.push, exporterhelper.WithQueue(q), exporterhelper.WithRetry(r),
		exporterhelper.WithTimeout(exporterhelper.TimeoutConfig{Timeout: 0}))
	if err != nil {
		return nil, vt.Failf("harness/new", "NewExporter: %v", err)
	}
	if err := xh.StartThenCancel(exp, host); err != nil {
		return nil, vt.Failf("harness/start", "Start: %v", err)
	}
	w.exp = exp
	return w, nil
}

// endCtx is a context the harness ends on demand with an error of its choice (a deadline that "arrives" exactly
// when the script says so).
type endCtx struct {
	context.Context
	done chan struct{}
	err  error
	once sync.Once
}

func (c *endCtx) Done() <-chan struct{} { return c.done }
func (c *endCtx) Err() error {
	select {
	case <-c.done:
		return c.err
	default:
		return nil
	}
}
func (c *endCtx) end() { c.once.Do(func() { close(c.done) }) }

// offer starts an Offer in its own goroutine.
func (w *world) offer(n int, cancelable bool) *producer {
	p := &producer{rid: w.next, n: n, size: w.sizeOf(w.next, n), done: make(chan struct{}), step: w.step}
	w.next++
	p.ctx, p.cancel, p.endErr = context.Background(), func() {}, context.Canceled
	if cancelable {
		p.ctx, p.cancel = context.WithCancel(context.Background())
		if p.rid%2 == 0 {
			// every other cancellable producer has a context that ends the way a deadline does
			ec := &endCtx{Context: context.Background(), done: make(chan struct{}), err: context.DeadlineExceeded}
			p.ctx, p.cancel, p.endErr = ec, ec.end, context.DeadlineExceeded
		}
	}
	w.prods[p.rid] = p
	ld := payload(p.rid, n)
	go func() {
		p.err = w.exp.Consume(p.ctx, ld)
		close(p.done)
		w.ping()
	}()
	return p
}

func returned(p *producer) bool {
	select {
	case <-p.done:
		return true
	default:
		return false
	}
}

func waitReturn(p *producer, d time.Duration) bool {
	select {
	case <-p.done:
		return true
	case <-time.After(d):
		return false
	}
}

const watchdog = 10 * time.Second

// quiesce waits until nothing has happened for a short moment.
func (w *world) quiesce() {
	idle := time.NewTimer(1500 * time.Microsecond)
	defer idle.Stop()
	deadline := time.After(200 * time.Millisecond)
	for {
		select {
		case <-w.note:
			if !idle.Stop() {
				select {
				case <-idle.C:
				default:
				}
			}
			idle.Reset(1500 * time.Microsecond)
		case <-idle.C:
			return
		case <-deadline:
			return
		}
	}
}

func (w *world) parkedCount() int {
	w.mu.Lock()
	defer w.mu.Unlock()
	return len(w.park)
}

// waitParked waits until at least n hand-offs are in flight.
func (w *world) waitParked(n int, d time.Duration) bool {
	deadline := time.After(d)
	for w.parkedCount() < n {
		select {
		case <-w.note:
		case <-time.After(time.Millisecond):
		case <-deadline:
			return w.parkedCount() >= n
		}
	}
	return true
}

func (w *world) byState(st string) []*producer {
	var out []*producer
	for _, p := range w.prods {
		if p.state == st {
			out = append(out, p)
		}
	}
	sort.Slice(out, func(i, j int) bool { return out[i].rid < out[j].rid })
	return out
}

// reportedSize reads the size gauge (0 when the instrument has not reported yet).
func (w *world) reportedSize() int64 {
	v, _ := w.gauge("otelcol_exporter_queue_size")
	return v
}

// reconcile brings the model up to date with what can be observed at a
// quiescent point and validates every observation.
func (w *world) reconcile(c *vt.C) *vt.Finding {
	w.quiesce()
	// 1. blocked producers that returned
	for _, p := range w.byState("blocked") {
		if !returned(p) {
			continue
		}
		switch {
		case p.canceled && errors.Is(p.err, p.endErr):
			p.state = "refused"
			p.returned = true
			c.Class("blocked-producer-cancelled")
		case p.err == nil && !w.cfg.WFR:
			// admitted: must fit now (memory queue: model size; persistent: checked through the gauge bound below)
			if !w.cfg.Persistent && w.size+p.size > w.capUnits() {
				return vt.Failf("admitted-over-capacity", "blocked producer rid=%d (size %d) was admitted while %d of %d were in use", p.rid, p.size, w.size, w.capUnits())
			}
			w.size += p.size
			p.state = "queued"
			p.acceptLo, p.acceptHi = p.step, w.step
			p.returned = true
			c.Class("blocked-producer-released")
		default:
			return vt.Failf("blocked-offer-result", "blocked producer rid=%d returned %v (cancelled=%v)", p.rid, p.err, p.canceled)
		}
	}
	for _, p := range w.byState("unknown") {
		if returned(p) && !p.hasResult {
			switch {
			case p.err == nil:
				return vt.Failf("wfr-returned-early", "wait_for_result: rid=%d returned nil before its request was finished", p.rid)
			case p.canceled && errors.Is(p.err, p.endErr):
				// either never admitted, or admitted and abandoned by its producer (it may then still be
				// handed over, or be dropped by the sender because its context is done)
				p.state, p.returned = "maybe", true
			default:
				p.state, p.returned = "refused", true
			}
		}
	}
	// 2. hand-offs: every in-flight hand-off must be of an accepted, not yet handed request
	w.mu.Lock()
	park := append([]*handoff(nil), w.park...)
	order := append([]int64(nil), w.order...)
	seen := map[int64]int{}
	for k, v := range w.seen {
		seen[k] = v
	}
	w.mu.Unlock()
	for rid, n := range seen {
		if n > 1 {
			return vt.Failf("handed-twice", "request rid=%d was handed to a consumer %d times", rid, n)
		}
		p := w.prods[rid]
		if p == nil {
			return vt.Failf("handed-unknown", "a consumer received a request the harness never offered (rid=%d)", rid)
		}
		switch p.state {
		case "refused":
			return vt.Failf("handed-refused", "request rid=%d was handed to a consumer although its enqueue was refused (%v)", rid, p.err)
		case "zero":
			if !w.relaxed {
				c.Class("zero-sized-handed")
			}
		}
	}
	for _, h := range park {
		p := w.prods[h.rid]
		// a blocked producer whose request is being handed over has been admitted: under load the consumer can
		// park the hand-off before the producer's own return has been observed
		if p.state == "queued" || p.state == "unknown" || p.state == "maybe" || p.state == "blocked" {
			if p.state != "queued" {
				// admission only now becomes visible
				w.size += p.size
				p.acceptLo, p.acceptHi = p.step, w.step
			}
			p.state = "inflight"
		}
	}
	// FIFO (single consumer): an item accepted definitely later must not be handed before one accepted definitely earlier
	if w.cfg.Consumers == 1 {
		for i := 0; i < len(order); i++ {
			for j := i + 1; j < len(order); j++ {
				a, b := w.prods[order[i]], w.prods[order[j]]
				if a.acceptHi == 0 || b.acceptHi == 0 {
					// no acceptance window recorded (steps start at 1): the hand-off was completed before a
					// reconcile saw it parked; nothing is known about when it was accepted
					continue
				}
				if b.acceptHi < a.acceptLo {
					return vt.Failf("fifo", "single consumer: rid=%d (accepted at step %d..%d) was handed before rid=%d (accepted at step %d..%d)", a.rid, a.acceptLo, a.acceptHi, b.rid, b.acceptLo, b.acceptHi)
				}
			}
		}
	}
	// 3. expected number of in-flight hand-offs: consumers never idle while something is queued
	exact := !w.relaxed && len(w.byState("unknown")) == 0 && len(w.byState("maybe")) == 0
	if exact {
		queued := len(w.byState("queued"))
		inflight := len(w.byState("inflight"))
		if queued > w.maxQueued {
			w.maxQueued = queued
		}
		want := inflight
		if free := w.cfg.Consumers - inflight; free > 0 && queued > 0 {
			// wait for the idle consumers to pick up work
			more := free
			if queued < more {
				more = queued
			}
			if !w.waitParked(inflight+more, watchdog) {
				return stuckf("consumer-idle", "%d request(s) are queued and %d consumer(s) are idle, but no hand-off happened within %v", queued, free, watchdog)
			}
			return w.reconcile(c)
		}
		if len(park) != want {
			return vt.Failf("harness/parked", "model expects %d in-flight hand-offs, observed %d", want, len(park))
		}
	}
	// 4. reported size
	size, ok := w.gauge("otelcol_exporter_queue_size")
	capv, okc := w.gauge("otelcol_exporter_queue_capacity")
	if ok {
		if size < 0 {
			return vt.Failf("size-negative", "reported queue size is %d", size)
		}
		if size > w.capUnits() {
			return vt.Failf("size-over-capacity", "reported queue size %d exceeds the capacity %d", size, w.capUnits())
		}
		if !w.cfg.Persistent && exact && size != w.size {
			// a completion is booked right AFTER the export function returned, and a blocked producer may
			// be admitted at any moment: re-reconcile until the size converges (bounded)
			if w.sizeDeadline.IsZero() {
				w.sizeDeadline = time.Now().Add(watchdog)
			}
			if time.Now().Before(w.sizeDeadline) {
				time.Sleep(200 * time.Microsecond)
				return w.reconcile(c)
			}
			w.sizeDeadline = time.Time{}
			return vt.Failf("size-mismatch", "reported queue size stays at %d, accepted-but-unfinished requests sum to %d", size, w.size)
		}
	}
	w.sizeDeadline = time.Time{}
	if okc && capv != w.capUnits() {
		return vt.Failf("capacity-gauge", "reported capacity %d, configured %d", capv, w.capUnits())
	}
	// 5. liveness: nobody who fits the capacity stays blocked while the queue is empty
	if exact && !w.cfg.Persistent && w.size == 0 {
		if bl := w.byState("blocked"); len(bl) > 0 {
			deadline := time.After(watchdog)
			for {
				any := false
				for _, p := range bl {
					if returned(p) {
						any = true
					}
				}
				if any {
					return w.reconcile(c)
				}
				select {
				case <-w.note:
				case <-time.After(time.Millisecond):
				case <-deadline:
					return stuckf("blocked-while-empty", "the queue is empty but %d producer(s) stay blocked (first: rid=%d size %d, capacity %d)", len(bl), bl[0].rid, bl[0].size, w.capUnits())
				}
			}
		}
	}
	if !w.relaxed && !w.cfg.Persistent {
		for _, p := range w.byState("blocked") {
			if w.size+p.size <= w.capUnits() {
				c.Class("blocked-although-it-would-fit")
			}
		}
	}
	return nil
}

// doOffer performs one sequential offer and checks its immediate result
// against the model.
func (w *world) doOffer(c *vt.C, n int, cancelable bool) *vt.Finding {
	var before int64
	if w.cfg.Persistent {
		before = w.reportedSize()
	} else {
		before = w.size
	}
	p := w.offer(n, cancelable)
	capv := w.capUnits()
	switch {
	case p.size == 0 && !w.cfg.Persistent:
		// zero-sized: accepted at once, promise nothing about hand-off
		if !waitReturn(p, watchdog) {
			return stuckf("offer-stuck", "offer of a zero-sized request did not return")
		}
		if p.err != nil {
			return vt.Failf("zero-refused", "zero-sized request was refused: %v", p.err)
		}
		p.state, p.returned = "zero", true
		c.Class("offer-zero-sized")
	case p.size > capv:
		if !waitReturn(p, watchdog) {
			return stuckf("offer-stuck", "offer of a request larger than the capacity (size %d, capacity %d) did not return", p.size, capv)
		}
		if p.err == nil {
			return vt.Failf("oversized-accepted", "request of size %d was accepted by a queue of capacity %d", p.size, capv)
		}
		p.state, p.returned = "refused", true
		c.Class("offer-oversized-refused")
	case w.relaxed:
		p.state = "unknown"
		c.Class("offer-relaxed")
	case !w.cfg.Persistent && (len(w.byState("unknown")) > 0 || len(w.byState("maybe")) > 0):
		// the model's size is not exact at the moment (requests of unknown fate exist): classify by observation only
		c.Class("offer-observed-only")
		if w.cfg.WFR {
			p.state = "unknown"
			break
		}
		w.quiesce()
		switch {
		case returned(p) && p.err == nil:
			w.size += p.size
			p.state, p.returned = "queued", true
			p.acceptLo, p.acceptHi = w.step, w.step
		case returned(p):
			p.state, p.returned = "refused", true
		case w.cfg.Block:
			p.state = "blocked"
		default:
			if !waitReturn(p, watchdog) {
				return stuckf("offer-stuck", "non-blocking offer rid=%d did not return", p.rid)
			}
			if p.err == nil {
				w.size += p.size
				p.state, p.returned = "queued", true
				p.acceptLo, p.acceptHi = w.step, w.step
			} else {
				p.state, p.returned = "refused", true
			}
		}
	case before+p.size <= capv:
		// must be accepted
		if w.cfg.WFR {
			// returns only with the result; acceptance shows as a hand-off or a size change
			w.size += p.size
			p.state = "queued"
			p.acceptLo, p.acceptHi = w.step, w.step
		} else {
			if w.cfg.Block && len(w.byState("blocked")) > 0 {
				// Earlier producers are still waiting for space.  Space that a completion freed goes to one of them
				// first (Signal wakes the longest waiter), and the model books that admission only when the waiter's
				// return has been observed - so "fits" may already be out of date, and nothing promises that a new
				// offer overtakes the waiting ones.  Classify by observation; the drain at the end of the script still
				// requires every blocked producer to be released, and nobody may stay blocked while the queue is empty.
				w.quiesce()
				switch {
				case returned(p) && p.err == nil:
					w.size += p.size
					p.state, p.returned = "queued", true
					p.acceptLo, p.acceptHi = w.step, w.step
					c.Class("offer-accepted")
				case returned(p):
					return vt.Failf("refused-although-fits", "request of size %d refused (%v) by a blocking queue while the reported size was %d of %d", p.size, p.err, before, capv)
				default:
					p.state = "blocked"
					c.Class("offer-blocked-behind-earlier-waiters")
				}
				return nil
			}
			if !waitReturn(p, watchdog) {
				return stuckf("offer-stuck", "offer of rid=%d (size %d, %d of %d in use) did not return", p.rid, p.size, before, capv)
			}
			if p.err != nil {
				return vt.Failf("refused-although-fits", "request of size %d refused (%v) while the reported size was %d of %d", p.size, p.err, before, capv)
			}
			w.size += p.size
			p.state, p.returned = "queued", true
			p.acceptLo, p.acceptHi = w.step, w.step
		}
		c.Class("offer-accepted")
	case !w.cfg.Block:
		if !waitReturn(p, watchdog) {
			return stuckf("offer-stuck", "offer into a full non-blocking queue did not return")
		}
		if p.err == nil {
			return vt.Failf("accepted-over-capacity", "request of size %d accepted while the reported size was %d of %d", p.size, before, capv)
		}
		p.state, p.returned = "refused", true
		c.Class("offer-refused-full")
	default:
		// must block
		p.state = "blocked"
		c.Class("offer-blocked")
		w.quiesce()
		if returned(p) && p.err == nil && !w.cfg.Persistent {
			return vt.Failf("accepted-over-capacity", "blocking offer of size %d returned nil at once while %d of %d were in use", p.size, before, capv)
		}
	}
	return nil
}

func (w *world) complete(c *vt.C, pick int, fail bool) *vt.Finding {
	w.mu.Lock()
	if len(w.park) == 0 {
		w.mu.Unlock()
		return nil
	}
	i := pick % len(w.park)
	h := w.park[i]
	w.park = append(w.park[:i], w.park[i+1:]...)
	w.mu.Unlock()
	var out error
	if fail {
		out = errBackend
	}
	p := w.prods[h.rid]
	p.outcome, p.hasResult = out, true
	if p.acceptHi == 0 {
		// handed over since the last reconcile: accepted somewhere between its offer and now
		p.acceptLo, p.acceptHi = p.step, w.step
	}
	h.ch <- out
	c.Class("complete")
	if p.state == "inflight" || p.state == "queued" {
		p.state = "finished"
		w.size -= p.size
	} else if p.state == "unknown" || p.state == "maybe" || w.relaxed {
		p.state = "finished"
	}
	if w.cfg.WFR {
		// the producer must now receive exactly this outcome (unless cancelled first)
		if !waitReturn(p, watchdog) {
			return stuckf("result-missing", "wait_for_result: producer rid=%d did not return after its request finished", p.rid)
		}
		if !p.returned {
			p.returned = true
			switch {
			case p.canceled && errors.Is(p.err, p.endErr):
			case out == nil && p.err != nil, out != nil && !errors.Is(p.err, out):
				return vt.Failf("wrong-result", "wait_for_result: producer rid=%d received %v, its request finished with %v", p.rid, p.err, out)
			}
		}
	}
	return nil
}

func (w *world) cancelOne(c *vt.C, pick int) *vt.Finding {
	var cand []*producer
	for _, p := range w.prods {
		if !p.returned && !p.canceled && p.ctx.Done() != nil && !returned(p) {
			cand = append(cand, p)
		}
	}
	if len(cand) == 0 {
		return nil
	}
	sort.Slice(cand, func(i, j int) bool { return cand[i].rid < cand[j].rid })
	p := cand[pick%len(cand)]
	p.canceled = true
	p.cancel()
	c.Class("cancel:" + p.state)
	if !waitReturn(p, watchdog) {
		return stuckf("cancel-ignored", "producer rid=%d (state %s) did not return after its context was cancelled", p.rid, p.state)
	}
	if p.state != "blocked" { // waiting for a result: returns the context's error, the request itself stays
		p.returned = true
		if p.state == "queued" || p.state == "unknown" {
			// not handed yet: it may still be handed over, or be dropped by the sender because its context is done
			if p.state == "queued" {
				w.size -= p.size // no longer counted exactly; "maybe" suspends the exact size comparison
			}
			p.state = "maybe"
		}
		if p.err == nil || !errors.Is(p.err, p.endErr) {
			if !(p.hasResult) {
				return vt.Failf("cancel-result", "producer rid=%d cancelled while waiting returned %v", p.rid, p.err)
			}
		}
	}
	return nil
}

func (w *world) burst(c *vt.C, op *Op) *vt.Finding {
	c.Class("burst")
	before := w.size
	var ps []*producer
	var wg sync.WaitGroup
	start := make(chan struct{})
	// completions
	w.mu.Lock()
	nc := op.Completes
	if nc > len(w.park) {
		nc = len(w.park)
	}
	hs := append([]*handoff(nil), w.park[:nc]...)
	w.park = w.park[nc:]
	w.mu.Unlock()
	for _, h := range hs {
		p := w.prods[h.rid]
		p.outcome, p.hasResult = nil, true
		if p.acceptHi == 0 {
			p.acceptLo, p.acceptHi = p.step, w.step
		}
		wg.Add(1)
		go func(h *handoff) { defer wg.Done(); <-start; h.ch <- nil }(h)
	}
	// cancellations of blocked producers
	var cs []*producer
	for _, p := range w.byState("blocked") {
		if len(cs) < op.Cancels && p.ctx.Done() != nil && !p.canceled {
			cs = append(cs, p)
		}
	}
	for _, p := range cs {
		p.canceled = true
		wg.Add(1)
		go func(p *producer) { defer wg.Done(); <-start; p.cancel() }(p)
	}
	close(start)
	for _, n := range op.Offers {
		ps = append(ps, w.offer(n, true))
	}
	wg.Wait()
	// model: completions
	for _, h := range hs {
		p := w.prods[h.rid]
		if p.state == "inflight" || p.state == "queued" {
			p.state = "finished"
			w.size -= p.size
		} else if p.state == "unknown" || p.state == "maybe" || w.relaxed {
			p.state = "finished"
		}
		if w.cfg.WFR {
			if !waitReturn(p, watchdog) {
				return stuckf("result-missing", "wait_for_result: producer rid=%d did not return after its request finished (burst)", p.rid)
			}
			if !p.returned {
				p.returned = true
				if p.err != nil && !(p.canceled && errors.Is(p.err, p.endErr)) {
					return vt.Failf("wrong-result", "wait_for_result: producer rid=%d received %v, its request succeeded (burst)", p.rid, p.err)
				}
			}
		}
	}
	for _, p := range cs {
		if !waitReturn(p, watchdog) {
			return stuckf("cancel-ignored", "blocked producer rid=%d did not return after its context was cancelled (burst)", p.rid)
		}
	}
	w.quiesce()
	// concurrent offers: classify by what happened; legality is checked against the loosest bound
	var accepted int64
	for _, p := range ps {
		switch {
		case p.size == 0 && !w.cfg.Persistent:
			if !waitReturn(p, watchdog) || p.err != nil {
				return vt.Failf("zero-refused", "zero-sized request refused or stuck in a burst: %v", p.err)
			}
			p.state, p.returned = "zero", true
		case p.size > w.capUnits():
			if !waitReturn(p, watchdog) || p.err == nil {
				return vt.Failf("oversized-accepted", "oversized request accepted or stuck in a burst")
			}
			p.state, p.returned = "refused", true
		case w.relaxed:
			p.state = "unknown"
		case w.cfg.WFR:
			// acceptance of a concurrent wait_for_result offer is not observable until its hand-off or its
			// (error) return: keep it "unknown" until then
			p.state = "unknown"
		case returned(p):
			if p.err == nil {
				p.state, p.returned = "queued", true
				p.acceptLo, p.acceptHi = w.step, w.step
				w.size += p.size
				accepted += p.size
			} else {
				p.state, p.returned = "refused", true
				if w.cfg.Block {
					return vt.Failf("blocking-offer-refused", "block_on_overflow: offer rid=%d returned %v without its context ending", p.rid, p.err)
				}
			}
		default:
			if !w.cfg.Block {
				if !waitReturn(p, watchdog) {
					return stuckf("offer-stuck", "non-blocking offer rid=%d did not return (burst)", p.rid)
				}
				if p.err == nil {
					p.state, p.returned = "queued", true
					p.acceptLo, p.acceptHi = w.step, w.step
					w.size += p.size
					accepted += p.size
				} else {
					p.state, p.returned = "refused", true
				}
			} else {
				p.state = "blocked"
			}
		}
	}
	if !w.cfg.Persistent && !w.relaxed {
		if w.size > w.capUnits() {
			return vt.Failf("accepted-over-capacity", "after a burst the accepted-but-unfinished requests sum to %d > capacity %d", w.size, w.capUnits())
		}
		// a refusal is unjustified if the request fits even with everything that was ever simultaneously present
		for _, p := range ps {
			if p.state == "refused" && p.size > 0 && p.size <= w.capUnits() && before+accepted+p.size <= w.capUnits() {
				return vt.Failf("refused-although-fits", "burst: request of size %d refused (%v) although at most %d of %d could have been in use", p.size, p.err, before+accepted, w.capUnits())
			}
		}
	}
	return nil
}

func (w *world) finish(c *vt.C) *vt.Finding {
	// complete everything repeatedly: every uncancelled blocked producer must get in and finish
	deadline := time.Now().Add(2 * watchdog)
	for {
		if f := w.reconcile(c); f != nil {
			return f
		}
		pending := 0
		for _, p := range w.prods {
			switch p.state {
			case "queued", "inflight", "blocked", "unknown":
				pending++
			}
		}
		if pending == 0 {
			break
		}
		if w.parkedCount() == 0 {
			if !w.waitParked(1, watchdog) {
				var desc []string
				for _, p := range w.prods {
					if p.state == "queued" || p.state == "blocked" || p.state == "unknown" || p.state == "inflight" {
						desc = append(desc, fmt.Sprintf("rid=%d:%s(size %d)", p.rid, p.state, p.size))
					}
				}
				sort.Strings(desc)
				if w.relaxed {
					// unknown-state producers may legitimately have been cancelled/refused; check they returned
					stuck := false
					for _, p := range w.prods {
						if (p.state == "unknown" || p.state == "blocked") && !returned(p) {
							stuck = true
						} else if p.state == "unknown" || p.state == "blocked" {
							p.state = "refused"
						}
					}
					if !stuck {
						continue
					}
				}
				return stuckf("stalled", "nothing is in flight, yet requests are pending and nothing happens: %v (model size %d of %d)", desc, w.size, w.capUnits())
			}
			continue
		}
		if f := w.complete(c, 0, false); f != nil {
			return f
		}
		if time.Now().After(deadline) {
			return vt.Failf("harness/finish", "drain did not finish")
		}
	}
	// every accepted non-empty request handed exactly once, refused ones never
	w.mu.Lock()
	seen := map[int64]int{}
	for k, v := range w.seen {
		seen[k] = v
	}
	w.mu.Unlock()
	for rid, p := range w.prods {
		switch p.state {
		case "finished":
			if seen[rid] != 1 {
				return vt.Failf("handoff-count", "accepted request rid=%d was handed %d times", rid, seen[rid])
			}
		case "refused":
			if seen[rid] != 0 {
				return vt.Failf("handed-refused", "refused request rid=%d was handed to a consumer", rid)
			}
		}
		if !returned(p) {
			return vt.Failf("producer-stuck", "producer rid=%d (state %s) never returned", rid, p.state)
		}
	}
	if size, ok := w.gauge("otelcol_exporter_queue_size"); ok && size != 0 {
		deadline := time.Now().Add(watchdog)
		for size != 0 && time.Now().Before(deadline) {
			time.Sleep(200 * time.Microsecond)
			size, _ = w.gauge("otelcol_exporter_queue_size")
		}
		if size != 0 {
			return vt.Failf("size-not-zero", "every accepted request has finished but the reported queue size stays at %d", size)
		}
	}
	return nil
}

var cQ = vt.New("C02", "queue-model")

func run(s Script) (nontrivial bool, key string, f *vt.Finding) {
	b, _ := json.Marshal(s)
	h := sha256.Sum256(b)
	key = string(h[:])
	cQ.HangGuard(90*time.Second, s, "hang/queue", func() {
		nontrivial, f = runInner(&s)
	})
	return nontrivial, key, f
}

func runInner(s *Script) (bool, *vt.Finding) {
	w, f := newWorld(s.Cfg)
	if f != nil {
		return false, f
	}
	c := cQ
	fail := func(f *vt.Finding) (bool, *vt.Finding) {
		// release whatever is parked so that goroutines do not pile up
		go func() {
			for i := 0; i < 1000; i++ {
				w.mu.Lock()
				hs := w.park
				w.park = nil
				w.mu.Unlock()
				for _, h := range hs {
					h.ch <- nil
				}
				for _, p := range w.prods {
					p.cancel()
				}
				time.Sleep(2 * time.Millisecond)
			}
		}()
		go func() { _ = w.exp.Shutdown(context.Background()) }()
		return true, f
	}
	for i := range s.Ops {
		op := &s.Ops[i]
		w.step = i + 1
		var f *vt.Finding
		switch op.Kind {
		case "offer":
			f = w.doOffer(c, op.N, op.Cancelable)
		case "complete":
			f = w.complete(c, op.Pick, op.Fail)
		case "cancel":
			f = w.cancelOne(c, op.Pick)
		case "burst":
			f = w.burst(c, op)
		}
		if f == nil {
			f = w.reconcile(c)
		}
		if f != nil {
			f.Msg = fmt.Sprintf("step %d (%s): %s; cfg %+v", i, op.Kind, f.Msg, s.Cfg)
			return fail(f)
		}
	}
	w.step = len(s.Ops) + 1
	if f := w.finish(c); f != nil {
		f.Msg = fmt.Sprintf("drain: %s; cfg %+v", f.Msg, s.Cfg)
		return fail(f)
	}
	ok, _ := vt.WithWatchdog(watchdog, func() { _ = w.exp.Shutdown(context.Background()) })
	if !ok {
		return true, vt.Failf("shutdown-blocks", "Shutdown of a drained exporter did not return; cfg %+v", s.Cfg)
	}
	_ = w.tel.Shutdown(context.Background())
	nt := false
	for _, p := range w.prods {
		if p.state == "refused" || p.state == "zero" || p.canceled {
			nt = true
		}
	}
	c.Class("signal:" + s.Cfg.signal())
	if w.maxQueued >= 9 {
		c.Class("backlog>=9-pending")
		if s.Cfg.Consumers == 1 {
			c.Class("backlog>=9-pending&single-consumer")
		}
	}
	c.Class("sizer:"+s.Cfg.Sizer, fmt.Sprintf("persistent:%v", s.Cfg.Persistent), fmt.Sprintf("block:%v", s.Cfg.Block), fmt.Sprintf("wfr:%v", s.Cfg.WFR))
	return nt, nil
}

func gen(t *rapid.T) Script {
	var s Script
	s.Cfg.Persistent = rapid.IntRange(0, 3).Draw(t, "persistent") == 0
	s.Cfg.Sizer = "requests"
	if !s.Cfg.Persistent {
		s.Cfg.Sizer = rapid.SampledFrom([]string{"requests", "items", "items", "bytes"}).Draw(t, "sizer")
		s.Cfg.WFR = rapid.IntRange(0, 3).Draw(t, "wfr") == 0
	}
	s.Cfg.Cap = rapid.IntRange(1, 8).Draw(t, "cap")
	s.Cfg.Signal = rapid.SampledFrom([]string{"", "", "", "traces", "metrics", "profiles", "profiles"}).Draw(t, "signal")
	s.Cfg.Consumers = rapid.IntRange(1, 3).Draw(t, "consumers")
	s.Cfg.Block = rapid.Bool().Draw(t, "block")
	maxN := s.Cfg.Cap + 2
	n := rapid.IntRange(1, 40).Draw(t, "nops")
	// one script in five: a large capacity and many small offers, so that the backlog
	// grows to dozens of pending requests while consumers keep taking from its head
	// (growth of whatever holds the backlog happens with the head in the middle)
	deep := rapid.IntRange(0, 4).Draw(t, "deep") == 0
	if deep {
		s.Cfg.Cap = rapid.IntRange(9, 70).Draw(t, "deepcap")
		maxN = 3
		n = rapid.IntRange(20, 140).Draw(t, "deepnops")
	}
	for i := 0; i < n; i++ {
		k := rapid.IntRange(0, 11).Draw(t, "op")
		if deep && k >= 10 && rapid.Bool().Draw(t, "deepburst") {
			// a run of offers, then a few completions
			s.Ops = append(s.Ops, Op{Kind: "burst", Offers: rapid.SliceOfN(rapid.IntRange(0, maxN), 4, 14).Draw(t, "offers"),
				Completes: rapid.IntRange(0, 3).Draw(t, "completes")})
			continue
		}
		switch {
		case k <= 5:
			nn := rapid.IntRange(0, maxN).Draw(t, "n")
			if deep && rapid.IntRange(0, 19).Draw(t, "oversize") == 0 {
				nn = s.Cfg.Cap + 1
			}
			s.Ops = append(s.Ops, Op{Kind: "offer", N: nn, Cancelable: rapid.Bool().Draw(t, "cancelable")})
		case k <= 8:
			s.Ops = append(s.Ops, Op{Kind: "complete", Pick: rapid.IntRange(0, 2).Draw(t, "pick"), Fail: rapid.IntRange(0, 3).Draw(t, "fail") == 0})
		case k <= 9:
			s.Ops = append(s.Ops, Op{Kind: "cancel", Pick: rapid.IntRange(0, 3).Draw(t, "pick")})
		default:
			s.Ops = append(s.Ops, Op{Kind: "burst", Offers: rapid.SliceOfN(rapid.IntRange(0, maxN), 0, 4).Draw(t, "offers"),
				Completes: rapid.IntRange(0, 3).Draw(t, "completes"), Cancels: rapid.IntRange(0, 3).Draw(t, "cancels")})
		}
	}
	return s
}

func TestQueueModel(t *testing.T) {
	cQ.ReplayRepeat = 20
	vt.Run(t, cQ, vt.N(1600, 60000), gen, run)
}

// ---------------------------------------------------------------------------
// cancel storm: blocked producers are cancelled at the very moment completions
// free space.  Every producer must return (admitted, or with its context's
// error), and the queue must keep working afterwards.

// Storm is a script for the cancel-storm check.
type Storm struct {
	Cfg       Cfg `json:"cfg"`
	Blocked   int `json:"blocked"`   // producers blocked on a full queue
	Completes int `json:"completes"` // completions released together with the cancellations
	Cancels   int `json:"cancels"`   // how many of the blocked producers are cancelled
	Rounds    int `json:"rounds"`
}

var cStorm = vt.New("C02", "cancel-storm")

func genStorm(t *rapid.T) Storm {
	var s Storm
	s.Cfg.Sizer = "requests"
	s.Cfg.Persistent = rapid.Bool().Draw(t, "persistent")
	if s.Cfg.Persistent {
		s.Cfg.SlowStorageUS = rapid.SampledFrom([]int{0, 100, 400}).Draw(t, "slow_storage")
	}
	s.Cfg.Cap = rapid.IntRange(2, 4).Draw(t, "cap")
	s.Cfg.Consumers = s.Cfg.Cap
	s.Cfg.Block = true
	s.Blocked = rapid.IntRange(2, 4).Draw(t, "blocked")
	s.Completes = rapid.IntRange(1, s.Cfg.Cap).Draw(t, "completes")
	s.Cancels = rapid.IntRange(1, s.Blocked).Draw(t, "cancels")
	s.Rounds = rapid.IntRange(5, 40).Draw(t, "rounds")
	return s
}

func runStorm(s Storm) (nontrivial bool, key string, f *vt.Finding) {
	b, _ := json.Marshal(s)
	key = string(b)
	cStorm.HangGuard(120*time.Second, s, "hang/queue-storm", func() { f = runStormInner(&s) })
	return s.Cancels >= 2 && s.Completes >= 2, key, f
}

func runStormInner(s *Storm) *vt.Finding {
	w, f := newWorld(s.Cfg)
	if f != nil {
		return f
	}
	release := func() {
		for i := 0; i < 200; i++ {
			w.mu.Lock()
			hs := w.park
			w.park = nil
			w.mu.Unlock()
			for _, h := range hs {
				h.ch <- nil
			}
			for _, p := range w.prods {
				p.cancel()
			}
			time.Sleep(time.Millisecond)
		}
	}
	fail := func(f *vt.Finding) *vt.Finding {
		go release()
		go func() { _ = w.exp.Shutdown(context.Background()) }()
		return f
	}
	for round := 0; round < s.Rounds; round++ {
		// fill: cap requests in flight (one per consumer)
		var inflight []*producer
		for len(inflight) < s.Cfg.Cap {
			p := w.offer(1, false)
			if !waitReturn(p, watchdog) {
				buf := make([]byte, 1<<20)
				n := runtime.Stack(buf, true)
				return fail(stuckf("offer-stuck", "round %d: an offer into a queue in which every earlier request has finished did not return within %v; cfg %+v\n%s", round, watchdog, s.Cfg, queueStacks(string(buf[:n]))))
			}
			if p.err != nil {
				return fail(vt.Failf("storm/fill", "round %d: filling offer failed: %v", round, p.err))
			}
			inflight = append(inflight, p)
		}
		if !w.waitParked(s.Cfg.Cap, watchdog) {
			return fail(stuckf("consumer-idle", "round %d: %d requests accepted, %d consumers, only %d hand-offs", round, s.Cfg.Cap, s.Cfg.Consumers, w.parkedCount()))
		}
		// blocked producers
		var blocked []*producer
		for i := 0; i < s.Blocked; i++ {
			blocked = append(blocked, w.offer(1, true))
		}
		time.Sleep(300 * time.Microsecond)
		// storm
		start := make(chan struct{})
		var wg sync.WaitGroup
		w.mu.Lock()
		hs := append([]*handoff(nil), w.park[:s.Completes]...)
		w.park = w.park[s.Completes:]
		w.mu.Unlock()
		for _, h := range hs {
			wg.Add(1)
			go func(h *handoff) { defer wg.Done(); <-start; h.ch <- nil }(h)
		}
		for _, p := range blocked[:s.Cancels] {
			wg.Add(1)
			go func(p *producer) { defer wg.Done(); <-start; p.cancel() }(p)
		}
		close(start)
		wg.Wait()
		// every cancelled producer returns; the others get in as space frees up
		for _, p := range blocked[:s.Cancels] {
			if !waitReturn(p, watchdog) {
				return fail(stuckf("cancel-ignored", "round %d: blocked producer did not return within %v after its context was cancelled while %d completions were freeing space (%d blocked, %d cancelled); cfg %+v", round, watchdog, s.Completes, s.Blocked, s.Cancels, s.Cfg))
			}
			if p.err != nil && !errors.Is(p.err, p.endErr) {
				return fail(vt.Failf("blocked-offer-result", "round %d: cancelled producer returned %v", round, p.err))
			}
		}
		// drain everything: complete whatever is or gets in flight until all producers have returned
		deadline := time.Now().Add(watchdog)
		for {
			all := true
			for _, p := range blocked {
				if !returned(p) {
					all = false
				}
			}
			w.mu.Lock()
			hs := w.park
			w.park = nil
			w.mu.Unlock()
			for _, h := range hs {
				h.ch <- nil
			}
			if all && len(hs) == 0 && w.reportedSize() == 0 {
				// stable emptiness: nothing in flight, nothing queued, twice in a row across a pause that
				// is long compared with a (slow) storage operation
				time.Sleep(3*time.Millisecond + 6*time.Duration(s.Cfg.SlowStorageUS)*time.Microsecond)
				if w.parkedCount() == 0 && w.reportedSize() == 0 {
					break
				}
			}
			if time.Now().After(deadline) {
				return fail(stuckf("stalled", "round %d: after the storm the queue does not drain: producers returned=%v parked=%d; cfg %+v", round, all, w.parkedCount(), s.Cfg))
			}
			time.Sleep(100 * time.Microsecond)
		}
		w.mu.Lock()
		w.seen = map[int64]int{}
		w.order = nil
		w.mu.Unlock()
		w.prods = map[int64]*producer{}
	}
	// late hand-offs (slow storage) may still arrive: keep completing them while Shutdown runs
	stop := make(chan struct{})
	go func() {
		for {
			select {
			case <-stop:
				return
			case <-time.After(200 * time.Microsecond):
			}
			w.mu.Lock()
			hs := w.park
			w.park = nil
			w.mu.Unlock()
			for _, h := range hs {
				h.ch <- nil
			}
		}
	}()
	ok, st := vt.WithWatchdog(2*watchdog, func() { _ = w.exp.Shutdown(context.Background()) })
	close(stop)
	if !ok {
		return vt.Failf("shutdown-blocks", "Shutdown after the storms did not return; cfg %+v\n%s", s.Cfg, queueStacks(st))
	}
	_ = w.tel.Shutdown(context.Background())
	cStorm.ClassN("rounds", int64(s.Rounds))
	return nil
}

func TestCancelStorm(t *testing.T) {
	vt.Run(t, cStorm, vt.N(200, 6000), genStorm, runStorm)
}

// queueStacks keeps the goroutines that are inside the queue package.
func queueStacks(st string) string {
	var keep []string
	for _, blk := range strings.Split(st, "\n\n") {
		if strings.Contains(blk, "internal/queuebatch.") {
			lines := strings.Split(blk, "\n")
			var fn []string
			for i, l := range lines {
				if i == 0 || (strings.Contains(l, "queuebatch.") && !strings.HasPrefix(l, "\t")) {
					fn = append(fn, strings.TrimSpace(l))
				}
			}
			keep = append(keep, strings.Join(fn, " <- "))
		}
	}
	sort.Strings(keep)
	if len(keep) > 12 {
		keep = keep[:12]
	}
	return strings.Join(keep, "\n")
}

// stuckf is vt.Failf for liveness failures: it appends the goroutines that are inside the queue package.
func stuckf(sig, format string, args ...any) *vt.Finding {
	buf := make([]byte, 1<<20)
	n := runtime.Stack(buf, true)
	f := vt.Failf(sig, format, args...)
	f.Msg += "\nqueue goroutines:\n" + queueStacks(string(buf[:n]))
	return f
}
