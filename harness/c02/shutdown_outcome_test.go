package c02

import (
	"context"
	"crypto/sha256"
	"encoding/json"
	"errors"
	"fmt"
	"sync"
	"testing"
	"time"

	"go.opentelemetry.io/otel/sdk/metric/metricdata"
	"pgregory.net/rapid"

	"go.opentelemetry.io/collector/component/componenttest"
	"go.opentelemetry.io/collector/config/configretry"
	"go.opentelemetry.io/collector/consumer/consumererror"
	"go.opentelemetry.io/collector/exporter/exporterhelper"
	"go.opentelemetry.io/collector/verifharness/sig"
	"go.opentelemetry.io/collector/verifharness/vt"
	"go.opentelemetry.io/collector/verifharness/xh"
)

// The "and a shutdown" part of the quantifier: completions whose outcome is the
// shutdown itself.  The only public way to finish a hand-off with that outcome is
// the retry sender, which is stopped before the queue: a request waiting in
// back-off returns "interrupted due to shutdown" while other hand-offs are still
// running and the queue's size gauge is still readable.  The harness keeps one
// hand-off blocked in the export function while Shutdown runs and reads the
// gauges the whole time: every reading must be within [0, capacity], offers made
// in that window must be refused or fit, and nothing may be handed twice.

// SOScript is one shutdown-outcome scenario.
type SOScript struct {
	Persistent bool `json:"persistent"`
	Cap        int  `json:"cap"` // requests
	Consumers  int  `json:"consumers"`
	// Outcomes[i] decides what the export function does with the i-th hand-off:
	// "ok" | "perm" | "backoff" (a transient failure: the request then sits in a one-hour back-off) |
	// "park" (blocks until the harness releases it, which it does only after it has watched Shutdown for a while)
	Outcomes []string `json:"outcomes"`
	// Offers made before Shutdown is requested, and while it runs
	Before int `json:"before"`
	During int `json:"during"`
}

var cSO = vt.New("C02", "shutdown-outcome")

var errSOTransient = errors.New("scripted transient failure")

type soWorld struct {
	s        *SOScript
	mu       sync.Mutex
	handoffs int
	seen     map[int64]int
	parked   []chan struct{}
	note     chan struct{}
}

func (w *soWorld) push(_ context.Context, v any) error {
	rid := int64(0)
	for _, it := range sig.Items(v) {
		rid = it.ID
	}
	w.mu.Lock()
	i := w.handoffs
	w.handoffs++
	w.seen[rid]++
	attempt := w.seen[rid]
	out := "ok"
	if i < len(w.s.Outcomes) {
		out = w.s.Outcomes[i]
	}
	var gate chan struct{}
	if out == "park" {
		gate = make(chan struct{})
		w.parked = append(w.parked, gate)
	}
	w.mu.Unlock()
	select {
	case w.note <- struct{}{}:
	default:
	}
	_ = attempt
	switch out {
	case "park":
		<-gate
		return nil
	case "backoff":
		return errSOTransient
	case "perm":
		return consumererror.NewPermanent(errors.New("scripted permanent failure"))
	}
	return nil
}

func (w *soWorld) counts() (handoffs, parked int) {
	w.mu.Lock()
	defer w.mu.Unlock()
	return w.handoffs, len(w.parked)
}

func soGauge(tel *componenttest.Telemetry, name string) (int64, bool) {
	m, err := tel.GetMetric(name)
	if err != nil {
		return 0, false
	}
	g, ok := m.Data.(metricdata.Gauge[int64])
	if !ok || len(g.DataPoints) == 0 {
		return 0, false
	}
	return g.DataPoints[0].Value, true
}

func runSO(s SOScript) (nontrivial bool, key string, f *vt.Finding) {
	b, _ := json.Marshal(s)
	h := sha256.Sum256(b)
	key = string(h[:])
	cSO.HangGuard(60*time.Second, s, "hang/shutdown-outcome", func() {
		nontrivial, f = runSOInner(&s)
	})
	return nontrivial, key, f
}

func runSOInner(s *SOScript) (bool, *vt.Finding) {
	w := &soWorld{s: s, seen: map[int64]int{}, note: make(chan struct{}, 1)}
	tel := componenttest.NewTelemetry()
	q := exporterhelper.NewDefaultQueueConfig()
	q.Enabled = true
	q.Sizer = exporterhelper.RequestSizerTypeRequests
	q.QueueSize = int64(s.Cap)
	q.NumConsumers = s.Consumers
	rec := xh.NewRecorder(nil)
	if s.Persistent {
		sid := xh.StorageID
		q.StorageID = &sid
	}
	if err := q.Validate(); err != nil {
		return false, vt.Failf("harness/config", "generated config rejected: %v", err)
	}
	set := xh.NopSettings()
	set.TelemetrySettings = tel.NewTelemetrySettings()
	r := configretry.NewDefaultBackOffConfig()
	r.InitialInterval, r.MaxInterval, r.MaxElapsedTime, r.RandomizationFactor = time.Hour, time.Hour, 0, 0
	exp, err := xh.NewExporter(sig.Logs, set, w.push, exporterhelper.WithQueue(q), exporterhelper.WithRetry(r),
		exporterhelper.WithTimeout(exporterhelper.TimeoutConfig{Timeout: 0}))
	if err != nil {
		return false, vt.Failf("harness/new", "NewExporter: %v", err)
	}
	if err := xh.StartThenCancel(exp, xh.HostWith(rec)); err != nil {
		return false, vt.Failf("harness/start", "Start: %v", err)
	}
	release := func() {
		w.mu.Lock()
		gs := w.parked
		w.parked = nil
		w.mu.Unlock()
		for _, g := range gs {
			close(g)
		}
	}
	var next int64 = 1
	accepted := 0
	for i := 0; i < s.Before; i++ {
		if exp.Consume(context.Background(), sig.Simple(sig.Logs, next, 1)) == nil {
			accepted++
		}
		next++
	}
	// let the consumers pick up what they can: wait until the number of hand-offs is stable
	stable, last := 0, -1
	for stable < 3 {
		select {
		case <-w.note:
		case <-time.After(300 * time.Microsecond):
		}
		n, _ := w.counts()
		if n == last {
			stable++
		} else {
			stable, last = 0, n
		}
	}
	_, parkedBefore := w.counts()
	// Shutdown, watched
	type reading struct {
		size, capv int64
		at         string
	}
	var bad *reading
	check := func(at string) {
		if bad != nil {
			return
		}
		size, ok1 := soGauge(tel, "otelcol_exporter_queue_size")
		capv, ok2 := soGauge(tel, "otelcol_exporter_queue_capacity")
		if ok1 && (size < 0 || size > int64(s.Cap)) {
			bad = &reading{size, capv, at}
		}
		if ok2 && capv != int64(s.Cap) {
			bad = &reading{size, capv, at}
		}
	}
	check("before shutdown")
	done := make(chan error, 1)
	go func() { done <- exp.Shutdown(context.Background()) }()
	var dwg sync.WaitGroup
	for i := 0; i < s.During; i++ {
		dwg.Add(1)
		id := next
		next++
		go func() {
			defer dwg.Done()
			_ = exp.Consume(context.Background(), sig.Simple(sig.Logs, id, 1))
		}()
	}
	watched := 0
	deadline := time.After(4 * time.Millisecond)
	returnedEarly := false
watch:
	for {
		check("while Shutdown runs")
		watched++
		select {
		case err := <-done:
			done <- err
			returnedEarly = true
			break watch
		case <-deadline:
			break watch
		case <-time.After(50 * time.Microsecond):
		}
	}
	release()
	// hand-offs parked later (a consumer that picked up a request during the drain) are released as they come
	var sderr error
	fin := time.After(20 * time.Second)
wait:
	for {
		select {
		case sderr = <-done:
			break wait
		case <-time.After(200 * time.Microsecond):
			release()
			check("while Shutdown drains")
		case <-fin:
			release()
			return true, vt.Failf("shutdown-blocks", "Shutdown did not return within 20s although every export call was released; script %+v", *s)
		}
	}
	dwg.Wait()
	release()
	_ = tel.Shutdown(context.Background())
	if bad != nil {
		sigName := "size-negative"
		switch {
		case bad.capv != int64(s.Cap) && bad.size >= 0 && bad.size <= int64(s.Cap):
			sigName = "capacity-gauge"
		case bad.size > int64(s.Cap):
			sigName = "size-above-capacity"
		}
		return true, vt.Failf(sigName+"/during-shutdown", "%s the queue reported size %d, capacity %d (configured capacity %d); script %+v", bad.at, bad.size, bad.capv, s.Cap, *s)
	}
	if sderr != nil {
		return true, vt.Failf("shutdown-error", "Shutdown returned %v", sderr)
	}
	w.mu.Lock()
	defer w.mu.Unlock()
	for rid, n := range w.seen {
		if n > 1 {
			return true, vt.Failf("handed-twice", "request rid=%d reached the export function %d times although every retry interval is one hour", rid, n)
		}
	}
	nBackoff := 0
	for i, o := range s.Outcomes {
		if i < w.handoffs && o == "backoff" {
			nBackoff++
		}
	}
	cSO.Class(fmt.Sprintf("persistent:%v", s.Persistent))
	if nBackoff > 0 {
		cSO.Class("shutdown-outcome-completions")
	}
	if parkedBefore > 0 && !returnedEarly {
		cSO.Class("export-call-blocked-while-shutdown-runs")
	}
	if nBackoff > 0 && parkedBefore > 0 && !returnedEarly {
		cSO.Class("shutdown-outcome-while-another-hand-off-runs")
	}
	cSO.ClassN("gauge-readings-during-shutdown", int64(watched))
	_ = accepted
	return nBackoff > 0 && parkedBefore > 0 && !returnedEarly, nil
}

func genSO(t *rapid.T) SOScript {
	s := SOScript{
		Persistent: rapid.IntRange(0, 3).Draw(t, "persistent") != 0,
		Cap:        rapid.IntRange(1, 6).Draw(t, "cap"),
		Consumers:  rapid.IntRange(1, 4).Draw(t, "consumers"),
	}
	s.During = rapid.SampledFrom([]int{0, 0, 1, 3}).Draw(t, "during")
	if rapid.Bool().Draw(t, "targeted") {
		// every consumer busy with the last requests of the queue: some in back-off, at least one blocked in the export function
		s.Consumers = rapid.IntRange(2, 4).Draw(t, "consumers2")
		s.Cap = max(s.Cap, s.Consumers)
		s.Before = rapid.IntRange(s.Consumers, s.Cap).Draw(t, "before2")
		for i := 0; i < s.Before-s.Consumers; i++ {
			s.Outcomes = append(s.Outcomes, rapid.SampledFrom([]string{"ok", "perm"}).Draw(t, "early"))
		}
		k := rapid.IntRange(1, s.Consumers-1).Draw(t, "nbackoff")
		last := make([]string, 0, s.Consumers)
		for i := 0; i < s.Consumers; i++ {
			if i < k {
				last = append(last, "backoff")
			} else {
				last = append(last, "park")
			}
		}
		s.Outcomes = append(s.Outcomes, rapid.Permutation(last).Draw(t, "order")...)
		return s
	}
	s.Before = rapid.IntRange(1, s.Cap+1).Draw(t, "before")
	n := rapid.IntRange(1, s.Before+s.During).Draw(t, "noutcomes")
	for i := 0; i < n; i++ {
		s.Outcomes = append(s.Outcomes, rapid.SampledFrom([]string{"ok", "perm", "backoff", "backoff", "park", "park"}).Draw(t, "outcome"))
	}
	return s
}

func TestShutdownOutcome(t *testing.T) {
	vt.Run(t, cSO, vt.N(400, 20000), genSO, runSO)
}
