// Package xh holds helpers around the public exporterhelper API shared by the
// exporter-side checks (C01–C05, C19).
package xh

import (
	"go.opentelemetry.io/collector/exporter/exporterhelper"
	"go.opentelemetry.io/collector/exporter/exporterhelper/xexporterhelper"
	"go.opentelemetry.io/collector/verifharness/sig"
)

// Settings returns the signal's queue/batch settings (encoding + sizers).
func Settings(s string) exporterhelper.QueueBatchSettings {
	switch s {
	case sig.Logs:
		return exporterhelper.NewLogsQueueBatchSettings()
	case sig.Traces:
		return exporterhelper.NewTracesQueueBatchSettings()
	case sig.Metrics:
		return exporterhelper.NewMetricsQueueBatchSettings()
	case sig.Profiles:
		return xexporterhelper.NewProfilesQueueBatchSettings()
	}
	panic("xh: unknown signal")
}

// Request builds the helper's own request type from proto bytes.
func Request(s string, b []byte) exporterhelper.Request {
	r, err := Settings(s).Encoding.Unmarshal(b)
	if err != nil {
		panic(err)
	}
	return r
}

// Bytes returns the proto bytes of a helper request.
func Bytes(s string, r exporterhelper.Request) []byte {
	b, err := Settings(s).Encoding.Marshal(r)
	if err != nil {
		panic(err)
	}
	return b
}

// SizerType maps a name to the sizer type.
func SizerType(name string) exporterhelper.RequestSizerType {
	switch name {
	case "items":
		return exporterhelper.RequestSizerTypeItems
	case "bytes":
		return exporterhelper.RequestSizerTypeBytes
	case "requests":
		return exporterhelper.RequestSizerTypeRequests
	}
	panic("xh: unknown sizer " + name)
}
