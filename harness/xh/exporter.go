package xh

import (
	"context"

	"go.opentelemetry.io/collector/component"
	"go.opentelemetry.io/collector/exporter"
	"go.opentelemetry.io/collector/exporter/exporterhelper"
	"go.opentelemetry.io/collector/exporter/exportertest"
	"go.opentelemetry.io/collector/exporter/exporterhelper/xexporterhelper"
	"go.opentelemetry.io/collector/pdata/plog"
	"go.opentelemetry.io/collector/pdata/pmetric"
	"go.opentelemetry.io/collector/pdata/pprofile"
	"go.opentelemetry.io/collector/pdata/ptrace"
	"go.opentelemetry.io/collector/verifharness/sig"
)

// Type is the component type of every test exporter.
var Type = component.MustNewType("vt")

// Exporter is a signal-independent view of an exporter built with the helper.
type Exporter struct {
	component.Component
	Signal  string
	consume func(ctx context.Context, v any) error
}

// Consume hands one payload (a pdata root value of the exporter's signal) in.
func (e *Exporter) Consume(ctx context.Context, v any) error { return e.consume(ctx, v) }

// ConsumeBytes decodes proto bytes and hands the payload in.
func (e *Exporter) ConsumeBytes(ctx context.Context, b []byte) error {
	v, err := sig.Decode(e.Signal, b)
	if err != nil {
		panic(err)
	}
	return e.consume(ctx, v)
}

type emptyCfg struct{}

// NewExporter builds an exporter of the given signal through the public
// helper constructors; push receives the pdata root value.
func NewExporter(s string, set exporter.Settings, push func(ctx context.Context, v any) error, opts ...exporterhelper.Option) (*Exporter, error) {
	ctx := context.Background()
	cfg := &emptyCfg{}
	e := &Exporter{Signal: s}
	switch s {
	case sig.Logs:
		x, err := exporterhelper.NewLogs(ctx, set, cfg, func(ctx context.Context, ld plog.Logs) error { return push(ctx, ld) }, opts...)
		if err != nil {
			return nil, err
		}
		e.Component = x
		e.consume = func(ctx context.Context, v any) error { return x.ConsumeLogs(ctx, v.(plog.Logs)) }
	case sig.Traces:
		x, err := exporterhelper.NewTraces(ctx, set, cfg, func(ctx context.Context, td ptrace.Traces) error { return push(ctx, td) }, opts...)
		if err != nil {
			return nil, err
		}
		e.Component = x
		e.consume = func(ctx context.Context, v any) error { return x.ConsumeTraces(ctx, v.(ptrace.Traces)) }
	case sig.Metrics:
		x, err := exporterhelper.NewMetrics(ctx, set, cfg, func(ctx context.Context, md pmetric.Metrics) error { return push(ctx, md) }, opts...)
		if err != nil {
			return nil, err
		}
		e.Component = x
		e.consume = func(ctx context.Context, v any) error { return x.ConsumeMetrics(ctx, v.(pmetric.Metrics)) }
	case sig.Profiles:
		x, err := xexporterhelper.NewProfilesExporter(ctx, set, cfg, func(ctx context.Context, pd pprofile.Profiles) error { return push(ctx, pd) }, opts...)
		if err != nil {
			return nil, err
		}
		e.Component = x
		e.consume = func(ctx context.Context, v any) error { return x.ConsumeProfiles(ctx, v.(pprofile.Profiles)) }
	default:
		panic("xh: unknown signal")
	}
	return e, nil
}

// NopSettings returns exporter settings with a FIXED component id: incarnations
// of "the same exporter" must agree on it, because a storage extension names a
// component's storage after its id.
func NopSettings() exporter.Settings {
	set := exportertest.NewNopSettings(Type)
	set.ID = component.MustNewIDWithName(Type.String(), "fixed")
	return set
}
