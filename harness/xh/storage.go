package xh

import (
	"context"
	"sort"
	"sync"
	"sync/atomic"
	"time"

	"go.opentelemetry.io/collector/component"
	"go.opentelemetry.io/collector/extension/xextension/storage"
)

// StorageID is the component id of the fake storage extension.
var StorageID = component.MustNewIDWithName("vtstorage", "fake")

// Mut is one key mutation (Val == nil means delete).
type Mut struct {
	Key string `json:"key"`
	Val []byte `json:"val"`
	Del bool   `json:"del,omitempty"`
}

// Entry is one element of the totally ordered history kept by the recorder:
// either an atomic storage operation that mutated something (Muts non-empty)
// or a harness event (Event non-empty).
type Entry struct {
	Muts  []Mut  `json:"muts,omitempty"`
	Event string `json:"event,omitempty"` // accepted | handoff | final | start | started | shutdown | stopped | …
	ID    int64  `json:"id,omitempty"`
	Inc   int    `json:"inc,omitempty"`
}

// Recorder is an in-memory storage.Extension whose single client records every
// mutating operation; each Get/Set/Delete/Batch is atomic, as the
// storage.Client contract requires.
type Recorder struct {
	mu     sync.Mutex
	data   map[string][]byte
	log    []Entry
	notify chan struct{}
	// FailAfter, when >= 0, makes every mutating operation after that many
	// mutating operations fail (unused by default).
	closed   int
	closeErr error
	// getClientErr, when set, is returned by GetClient
	getClientErr error
	// delay makes every mutating operation take this long (a slow disk): it widens the windows in which
	// the queue holds its lock across a storage call.
	delay atomic.Int64
	// delDelay: the same for operations that delete something only (the completion of a hand-off): a slow
	// completion write next to fast dequeue writes
	delDelay atomic.Int64
}

// SetDeleteDelay makes every storage operation that deletes a key sleep for d first.
func (r *Recorder) SetDeleteDelay(d time.Duration) { r.delDelay.Store(int64(d)) }

// SetDelay makes every mutating storage operation sleep for d.
func (r *Recorder) SetDelay(d time.Duration) { r.delay.Store(int64(d)) }

// NewRecorder creates a recorder holding a copy of initial.
func NewRecorder(initial map[string][]byte) *Recorder {
	r := &Recorder{data: map[string][]byte{}, notify: make(chan struct{}, 1)}
	for k, v := range initial {
		r.data[k] = append([]byte(nil), v...)
	}
	return r
}

func (r *Recorder) Start(context.Context, component.Host) error { return nil }
func (r *Recorder) Shutdown(context.Context) error              { return nil }

// GetClient returns a client whose keys live in a namespace of their own, named
// after the component kind, the component id and the client name — as the
// storage.Extension contract says ("each component can have multiple storages",
// one per name) and as a file-backed storage extension does.  All namespaces
// share the recorder's single contents map and history (keys are prefixed).
func (r *Recorder) GetClient(_ context.Context, kind component.Kind, id component.ID, name string) (storage.Client, error) {
	r.mu.Lock()
	gerr := r.getClientErr
	r.mu.Unlock()
	if gerr != nil {
		return nil, gerr
	}
	return &recClient{rec: r, prefix: kind.String() + "_" + id.String() + "_" + name + "/"}, nil
}

type recClient struct {
	rec    *Recorder
	prefix string
}

func (c *recClient) r() *Recorder { return c.rec }

func (c *recClient) Get(ctx context.Context, key string) ([]byte, error) {
	if err := ctx.Err(); err != nil {
		return nil, err // a storage client honours its context, like a real one
	}
	r := c.r()
	r.mu.Lock()
	defer r.mu.Unlock()
	v, ok := r.data[c.prefix+key]
	if !ok {
		return nil, nil
	}
	return append([]byte(nil), v...), nil
}

func (c *recClient) Set(ctx context.Context, key string, value []byte) error {
	return c.Batch(ctx, storage.SetOperation(key, value))
}

func (c *recClient) Delete(ctx context.Context, key string) error {
	return c.Batch(ctx, storage.DeleteOperation(key))
}

func (c *recClient) Batch(ctx context.Context, ops ...*storage.Operation) error {
	if err := ctx.Err(); err != nil {
		return err // a storage client honours its context, like a real one
	}
	r := c.r()
	if d := r.delay.Load(); d > 0 {
		for _, op := range ops {
			if op.Type != storage.Get {
				time.Sleep(time.Duration(d))
				break
			}
		}
	}
	if d := r.delDelay.Load(); d > 0 {
		for _, op := range ops {
			if op.Type == storage.Delete {
				time.Sleep(time.Duration(d))
				break
			}
		}
	}
	r.mu.Lock()
	var muts []Mut
	for _, op := range ops {
		key := c.prefix + op.Key
		switch op.Type {
		case storage.Get:
			if v, ok := r.data[key]; ok {
				op.Value = append([]byte(nil), v...)
			} else {
				op.Value = nil
			}
		case storage.Set:
			r.data[key] = append([]byte(nil), op.Value...)
			muts = append(muts, Mut{Key: key, Val: append([]byte{}, op.Value...)})
		case storage.Delete:
			if _, ok := r.data[key]; ok {
				delete(r.data, key)
				muts = append(muts, Mut{Key: key, Del: true})
			}
		}
	}
	if len(muts) > 0 {
		r.log = append(r.log, Entry{Muts: muts})
	}
	r.mu.Unlock()
	r.ping()
	return nil
}

func (c *recClient) Close(context.Context) error {
	r := c.r()
	r.mu.Lock()
	r.closed++
	err := r.closeErr
	r.mu.Unlock()
	return err
}

// SetGetClientError makes GetClient fail with err (the storage extension cannot serve the component: its Start fails).
func (r *Recorder) SetGetClientError(err error) {
	r.mu.Lock()
	r.getClientErr = err
	r.mu.Unlock()
}

// SetCloseError makes every later Client.Close return err (a storage fault at shutdown).
func (r *Recorder) SetCloseError(err error) {
	r.mu.Lock()
	r.closeErr = err
	r.mu.Unlock()
}

func (r *Recorder) ping() {
	select {
	case r.notify <- struct{}{}:
	default:
	}
}

// Event appends a harness event to the history.
func (r *Recorder) Event(ev string, id int64, inc int) {
	r.mu.Lock()
	r.log = append(r.log, Entry{Event: ev, ID: id, Inc: inc})
	r.mu.Unlock()
	r.ping()
}

// Notify returns a channel that receives a token after history changes.
func (r *Recorder) Notify() <-chan struct{} { return r.notify }

// Log returns a copy of the history.
func (r *Recorder) Log() []Entry {
	r.mu.Lock()
	defer r.mu.Unlock()
	return append([]Entry(nil), r.log...)
}

// Len returns the history length.
func (r *Recorder) Len() int {
	r.mu.Lock()
	defer r.mu.Unlock()
	return len(r.log)
}

// Snapshot returns a copy of the current contents.
func (r *Recorder) Snapshot() map[string][]byte {
	r.mu.Lock()
	defer r.mu.Unlock()
	out := make(map[string][]byte, len(r.data))
	for k, v := range r.data {
		out[k] = append([]byte(nil), v...)
	}
	return out
}

// Replay applies the mutations of log[:n] to a copy of initial.
func Replay(initial map[string][]byte, log []Entry, n int) map[string][]byte {
	out := make(map[string][]byte, len(initial))
	for k, v := range initial {
		out[k] = v
	}
	for i := 0; i < n && i < len(log); i++ {
		for _, m := range log[i].Muts {
			if m.Del {
				delete(out, m.Key)
			} else {
				out[m.Key] = m.Val
			}
		}
	}
	return out
}

// Keys lists the keys of a snapshot, sorted.
func Keys(m map[string][]byte) []string {
	ks := make([]string, 0, len(m))
	for k := range m {
		ks = append(ks, k)
	}
	sort.Strings(ks)
	return ks
}

// Host is a component.Host that serves the given extensions.
type Host struct {
	Exts map[component.ID]component.Component
}

// GetExtensions implements component.Host.
func (h Host) GetExtensions() map[component.ID]component.Component { return h.Exts }

// HostWith returns a host serving the recorder under StorageID.
func HostWith(r *Recorder) Host {
	return Host{Exts: map[component.ID]component.Component{StorageID: r}}
}

// StartThenCancel starts a component with a context that is cancelled as soon
// as Start has returned — what component.Component documents ("that context
// will be cancelled soon"): nothing long-running may depend on it.
func StartThenCancel(c component.Component, host component.Host) error {
	ctx, cancel := context.WithCancel(context.Background())
	err := c.Start(ctx, host)
	cancel()
	return err
}
