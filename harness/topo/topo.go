// Package topo is shared by the C09 (routing) and C10 (lifecycle) checks: a
// plain-data description of a service configuration (pipelines, connectors,
// extensions), a rapid generator for it, an evaluator that derives — from the
// configuration alone, never from the collector's graph — what the service must
// do, and instrumented test components that observe what it really does.
package topo

import (
	"fmt"
	"sort"
	"strings"
)

// Component types used by the generated configurations.  Every kind has its
// own type so that an id can never be both a receiver/exporter and a connector.
const (
	RecvType       = "trecv" // one independent instance per signal
	SharedRecvType = "srecv" // one instance for all signals (internal/sharedcomponent)
	ProcType       = "tproc"
	ExpType        = "texp"
	SharedExpType  = "sexp"
	ExtType        = "text"
	connTypePrefix = "tconn" // tconn0, tconn1: one factory (and set of supported pairs) per connector
)

// Signals in the generated graphs; Signals4 adds profiles (feature gate
// service.profilesSupport, checked by config validation only).
var (
	Signals  = []string{"logs", "metrics", "traces"}
	Signals4 = []string{"logs", "metrics", "traces", "profiles"}
)

// Connector is one configured connector and the signal pairs its factory supports.
type Connector struct {
	ID    string   `json:"id"`
	Pairs []string `json:"pairs"` // "logs>traces"
	// Forward: same-signal instances pass the payload on untouched and declare
	// MutatesData=false (like the forward connector); they add nothing to the trail.
	Forward bool `json:"forward,omitempty"`
	// Route: "" — the connector just calls next.ConsumeX (everything listed as its receiver gets the
	// data).  Otherwise a routing-style connector: its create function requires next to be a
	// connector.<Signal>RouterAndConsumer (error otherwise, like contrib's routing connector) and every
	// payload goes to router.Consumer(ids...) for a subset of router.PipelineIDs() sorted by their string
	// form: "all", "one" (the first), "some" (every other one, starting with the first).
	Route string `json:"route,omitempty"`
	// Levels: pair ("logs>traces") → the stability level the factory declares for that supported pair
	// (LevelNames); a pair without entry is declared Stable.  Every defined level means "supported" — only
	// a pair that is not in Pairs (the factory answers Undefined) is unsupported — so the evaluator never
	// looks at it.  Connectors of one type share the factory: the generator copies Levels with Pairs.
	Levels map[string]string `json:"levels,omitempty"`
}

// LevelNames are the defined stability levels (component.StabilityLevel.String()), everything but
// Undefined.  "Stable" comes first: it is what every factory declared before levels were generated.
var LevelNames = []string{"Stable", "Deprecated", "Unmaintained", "Development", "Alpha", "Beta"}

// LevelOf returns the level name declared for the pair (Stable when nothing is said).
func (c Connector) LevelOf(from, to string) string {
	if l, ok := c.Levels[from+">"+to]; ok && l != "" {
		return l
	}
	return "Stable"
}

// RoutePick returns the indexes (into the sorted downstream pipeline ids) a
// routing-style connector sends to.
func RoutePick(mode string, n int) []int {
	var out []int
	for i := 0; i < n; i++ {
		switch mode {
		case "one":
			if i == 0 {
				out = append(out, i)
			}
		case "some":
			if i%2 == 0 {
				out = append(out, i)
			}
		default:
			out = append(out, i)
		}
	}
	return out
}

// Supports tells whether the connector factory supports from→to.
func (c Connector) Supports(from, to string) bool {
	for _, p := range c.Pairs {
		if p == from+">"+to {
			return true
		}
	}
	return false
}

// Pipeline is one service::pipelines entry.
type Pipeline struct {
	Signal     string   `json:"signal"`
	Name       string   `json:"name,omitempty"`
	Receivers  []string `json:"receivers"`
	Processors []string `json:"processors"`
	Exporters  []string `json:"exporters"`
}

// ID renders signal[/name].
func (p Pipeline) ID() string {
	if p.Name == "" {
		return p.Signal
	}
	return p.Signal + "/" + p.Name
}

// Extension is one configured service extension.
type Extension struct {
	ID   string   `json:"id"`
	Deps []string `json:"deps,omitempty"`
	// Plain: the instance does not implement extensioncapabilities.Dependent at
	// all (only meaningful without Deps).
	Plain bool `json:"plain,omitempty"`
	// PipelineWatcher / ConfigWatcher: the instance implements the capability
	// (Ready/NotReady, NotifyConfig).
	PipelineWatcher bool `json:"pipeline_watcher,omitempty"`
	ConfigWatcher   bool `json:"config_watcher,omitempty"`
}

// Topology is a complete generated configuration.
type Topology struct {
	Receivers  []string    `json:"receivers"`  // configured receivers (possibly unused)
	Processors []string    `json:"processors"` // configured processors
	Exporters  []string    `json:"exporters"`  // configured exporters
	Connectors []Connector `json:"connectors"`
	Pipelines  []Pipeline  `json:"pipelines"`
	Extensions []Extension `json:"extensions,omitempty"` // configured extensions
	// ExtList is service::extensions; it may mention an id more than once (no
	// validation rejects that).  Empty: the order of Extensions.
	ExtList []string `json:"ext_list,omitempty"`
	// Levels: "<component type>:<signal>" (e.g. "trecv:logs", "tproc:profiles", "texp:metrics") → the
	// stability level the receiver / processor / exporter factory declares for that signal (LevelNames);
	// without entry: Stable.  A level is documentation: it never changes what is built or how data flows.
	Levels map[string]string `json:"levels,omitempty"`
}

// LevelOf returns the level name the factory of the component type declares for the signal.
func (t Topology) LevelOf(ty, sig string) string {
	if l, ok := t.Levels[ty+":"+sig]; ok && l != "" {
		return l
	}
	return "Stable"
}

// Dedup returns the list without repeated entries (first occurrences, in order).
func Dedup(xs []string) []string {
	seen := make(map[string]bool, len(xs))
	out := make([]string, 0, len(xs))
	for _, x := range xs {
		if !seen[x] {
			seen[x] = true
			out = append(out, x)
		}
	}
	return out
}

// HasRepeat tells whether the list names an id more than once.
func HasRepeat(xs []string) bool { return len(Dedup(xs)) != len(xs) }

// Normalized returns the topology with every pipeline's receivers and exporters lists reduced to the SET
// of ids they name.  A pipeline "lists" a component or it does not: naming the same receiver, exporter or
// connector id twice in one list (legal — validation only rejects repeated processors) refers to the same
// single instance and adds no path.
func (t Topology) Normalized() Topology {
	out := t
	out.Pipelines = make([]Pipeline, len(t.Pipelines))
	for i, pl := range t.Pipelines {
		pl.Receivers = Dedup(pl.Receivers)
		pl.Exporters = Dedup(pl.Exporters)
		out.Pipelines[i] = pl
	}
	return out
}

// ServiceExtensions returns the service::extensions list.
func (t Topology) ServiceExtensions() []string {
	if len(t.ExtList) > 0 {
		return t.ExtList
	}
	out := make([]string, 0, len(t.Extensions))
	for _, x := range t.Extensions {
		out = append(out, x.ID)
	}
	return out
}

// Instance keys -------------------------------------------------------------

func RecvKey(sig, id string) string      { return "receiver:" + sig + ":" + id }
func ExpKey(sig, id string) string       { return "exporter:" + sig + ":" + id }
func ProcKey(pipeID, id string) string   { return "processor:" + pipeID + ":" + id }
func ConnKey(from, to, id string) string { return "connector:" + from + ">" + to + ":" + id }
func ExtKey(id string) string            { return "extension:" + id }

// SharedKey is the key of the single underlying instance of a cross-signal
// shared receiver/exporter.
func SharedKey(kind, id string) string { return kind + ":*:" + id }

// IsShared tells whether the id belongs to one of the sharedcomponent types.
func IsShared(id string) bool {
	return strings.HasPrefix(id, SharedRecvType+"/") || strings.HasPrefix(id, SharedExpType+"/")
}

// Canonical maps a node key to the key of the component instance behind it:
// itself, except for cross-signal shared receivers/exporters.
func Canonical(key string) string {
	parts := strings.SplitN(key, ":", 3)
	if len(parts) == 3 && (parts[0] == "receiver" || parts[0] == "exporter") && IsShared(parts[2]) {
		return SharedKey(parts[0], parts[2])
	}
	return key
}

// Plan ----------------------------------------------------------------------

// Delivery is one expected arrival at an exporter: the node key of the
// exporter and the instance keys (processors, connectors) passed on the way.
type Delivery struct {
	Exporter string
	// Trail: instances that leave a mark in the payload (processors, connectors
	// other than forwarding same-signal ones).
	Trail []string
	// Full: every processor and connector instance passed (what the context
	// carried hop list shows).
	Full []string
}

func (d Delivery) String() string { return d.Exporter + " via [" + strings.Join(d.Trail, " ") + "]" }

// Plan is what the configuration alone implies.
type Plan struct {
	// Class: valid | cycle | unsupported | unsupported+cycle
	Class  string
	Reason string
	// Node keys of the instances a valid configuration must have.
	Recv, Proc, Exp, Conn []string
	// Deliveries per receiver node key.
	Deliveries map[string][]Delivery
	// Edges are the data-flow edges between node keys (u sends to v).
	Edges [][2]string
	// Stats for classification.
	MaxDepth   int // longest chain of connectors on a path
	Paths      int // total number of deliveries
	SharedRecv int // receivers listed by ≥2 pipelines of one signal
	SharedExp  int
	SharedProc int // processor ids used by ≥2 pipelines
	XSignal    int // receiver/exporter ids used in ≥2 signals
}

type use struct {
	asExp []int // pipeline indexes
	asRec []int
}

// Evaluate derives the plan.  It is written against the documented semantics
// (README of service/connector, the property statement) and shares no code
// with the collector's graph package.
func Evaluate(t Topology) *Plan {
	// which components a pipeline lists is a set: a repeated id is the same instance, on the same path
	t = t.Normalized()
	p := &Plan{Deliveries: map[string][]Delivery{}}
	conn := map[string]Connector{}
	for _, c := range t.Connectors {
		conn[c.ID] = c
	}
	uses := map[string]*use{}
	get := func(id string) *use {
		u := uses[id]
		if u == nil {
			u = &use{}
			uses[id] = u
		}
		return u
	}
	for i, pl := range t.Pipelines {
		for _, r := range pl.Receivers {
			if _, ok := conn[r]; ok {
				get(r).asRec = append(get(r).asRec, i)
			}
		}
		for _, e := range pl.Exporters {
			if _, ok := conn[e]; ok {
				get(e).asExp = append(get(e).asExp, i)
			}
		}
	}
	// 1. every use of a connector needs a supported counterpart
	var unsupported []string
	for _, c := range t.Connectors {
		u := uses[c.ID]
		if u == nil {
			continue
		}
		for _, i := range u.asExp {
			ok := false
			for _, j := range u.asRec {
				if c.Supports(t.Pipelines[i].Signal, t.Pipelines[j].Signal) {
					ok = true
				}
			}
			if !ok {
				unsupported = append(unsupported, fmt.Sprintf("%s exporter in %s", c.ID, t.Pipelines[i].ID()))
			}
		}
		for _, j := range u.asRec {
			ok := false
			for _, i := range u.asExp {
				if c.Supports(t.Pipelines[i].Signal, t.Pipelines[j].Signal) {
					ok = true
				}
			}
			if !ok {
				unsupported = append(unsupported, fmt.Sprintf("%s receiver in %s", c.ID, t.Pipelines[j].ID()))
			}
		}
	}
	// 2. pipeline-level successor relation and cycles
	n := len(t.Pipelines)
	type hop struct {
		to   int
		conn string
	}
	succ := make([][]hop, n)
	for _, c := range t.Connectors {
		u := uses[c.ID]
		if u == nil {
			continue
		}
		for _, i := range u.asExp {
			for _, j := range u.asRec {
				if c.Supports(t.Pipelines[i].Signal, t.Pipelines[j].Signal) {
					succ[i] = append(succ[i], hop{j, c.ID})
				}
			}
		}
	}
	color := make([]int, n)
	cyclic := false
	var dfs func(i int)
	dfs = func(i int) {
		color[i] = 1
		for _, h := range succ[i] {
			if color[h.to] == 1 {
				cyclic = true
			} else if color[h.to] == 0 {
				dfs(h.to)
			}
		}
		color[i] = 2
	}
	for i := 0; i < n; i++ {
		if color[i] == 0 {
			dfs(i)
		}
	}
	switch {
	case len(unsupported) > 0 && cyclic:
		p.Class, p.Reason = "unsupported+cycle", strings.Join(unsupported, "; ")
		return p
	case len(unsupported) > 0:
		p.Class, p.Reason = "unsupported", strings.Join(unsupported, "; ")
		return p
	case cyclic:
		p.Class = "cycle"
		return p
	}
	p.Class = "valid"

	// 3. instances
	set := map[string]map[string]bool{"r": {}, "p": {}, "e": {}, "c": {}}
	recvPipes := map[string]int{}
	expPipes := map[string]int{}
	procPipes := map[string]int{}
	idSignals := map[string]map[string]bool{}
	for _, pl := range t.Pipelines {
		for _, r := range pl.Receivers {
			if _, ok := conn[r]; !ok {
				set["r"][RecvKey(pl.Signal, r)] = true
				recvPipes[RecvKey(pl.Signal, r)]++
				if idSignals[r] == nil {
					idSignals[r] = map[string]bool{}
				}
				idSignals[r][pl.Signal] = true
			}
		}
		for _, q := range pl.Processors {
			set["p"][ProcKey(pl.ID(), q)] = true
			procPipes[q]++
		}
		for _, e := range pl.Exporters {
			if _, ok := conn[e]; !ok {
				set["e"][ExpKey(pl.Signal, e)] = true
				expPipes[ExpKey(pl.Signal, e)]++
				if idSignals[e] == nil {
					idSignals[e] = map[string]bool{}
				}
				idSignals[e][pl.Signal] = true
			}
		}
	}
	for i := range succ {
		for _, h := range succ[i] {
			set["c"][ConnKey(t.Pipelines[i].Signal, t.Pipelines[h.to].Signal, h.conn)] = true
		}
	}
	p.Recv, p.Proc, p.Exp, p.Conn = keys(set["r"]), keys(set["p"]), keys(set["e"]), keys(set["c"])
	for _, c := range recvPipes {
		if c > 1 {
			p.SharedRecv++
		}
	}
	for _, c := range expPipes {
		if c > 1 {
			p.SharedExp++
		}
	}
	for _, c := range procPipes {
		if c > 1 {
			p.SharedProc++
		}
	}
	for _, s := range idSignals {
		if len(s) > 1 {
			p.XSignal++
		}
	}

	// 4. deliveries: walk the configuration from every receiver
	ext := func(xs []string, x string) []string { return append(xs[:len(xs):len(xs)], x) }
	var walk func(i int, trail, full []string, depth int, out *[]Delivery)
	walk = func(i int, trail, full []string, depth int, out *[]Delivery) {
		pl := t.Pipelines[i]
		if depth > p.MaxDepth {
			p.MaxDepth = depth
		}
		for _, q := range pl.Processors {
			trail = ext(trail, ProcKey(pl.ID(), q))
			full = ext(full, ProcKey(pl.ID(), q))
		}
		for _, e := range pl.Exporters {
			c, isConn := conn[e]
			if !isConn {
				*out = append(*out, Delivery{Exporter: ExpKey(pl.Signal, e), Trail: append([]string(nil), trail...), Full: append([]string(nil), full...)})
				continue
			}
			// downstream pipelines per destination signal (= per connector instance), in the order of their ids;
			// a routing-style connector sends to a subset of them
			byTo := map[string][]int{}
			for _, j := range uses[e].asRec {
				to := t.Pipelines[j].Signal
				if c.Supports(pl.Signal, to) {
					byTo[to] = append(byTo[to], j)
				}
			}
			var targets []int
			for _, js := range byTo {
				sort.Slice(js, func(a, b int) bool { return t.Pipelines[js[a]].ID() < t.Pipelines[js[b]].ID() })
				if c.Route == "" {
					targets = append(targets, js...)
					continue
				}
				for _, k := range RoutePick(c.Route, len(js)) {
					targets = append(targets, js[k])
				}
			}
			sort.Ints(targets)
			for _, j := range targets {
				to := t.Pipelines[j].Signal
				next := trail
				if !(c.Forward && pl.Signal == to) {
					next = ext(trail, ConnKey(pl.Signal, to, e))
				}
				walk(j, next, ext(full, ConnKey(pl.Signal, to, e)), depth+1, out)
			}
		}
	}
	for _, rk := range p.Recv {
		var out []Delivery
		for i, pl := range t.Pipelines {
			for _, r := range pl.Receivers {
				if _, ok := conn[r]; !ok && RecvKey(pl.Signal, r) == rk {
					walk(i, nil, nil, 0, &out)
				}
			}
		}
		p.Deliveries[rk] = out
		p.Paths += len(out)
	}

	// 5. data-flow edges between component instances
	edge := map[[2]string]bool{}
	for i, pl := range t.Pipelines {
		var src, dst []string
		for _, r := range pl.Receivers {
			if c, ok := conn[r]; ok {
				for _, k := range uses[r].asExp {
					if c.Supports(t.Pipelines[k].Signal, pl.Signal) {
						src = append(src, ConnKey(t.Pipelines[k].Signal, pl.Signal, r))
					}
				}
			} else {
				src = append(src, RecvKey(pl.Signal, r))
			}
		}
		for _, e := range pl.Exporters {
			if _, ok := conn[e]; ok {
				for _, h := range succ[i] {
					if h.conn == e {
						dst = append(dst, ConnKey(pl.Signal, t.Pipelines[h.to].Signal, e))
					}
				}
			} else {
				dst = append(dst, ExpKey(pl.Signal, e))
			}
		}
		prev := src
		for _, q := range pl.Processors {
			k := ProcKey(pl.ID(), q)
			for _, u := range prev {
				edge[[2]string{u, k}] = true
			}
			prev = []string{k}
		}
		for _, u := range prev {
			for _, v := range dst {
				edge[[2]string{u, v}] = true
			}
		}
	}
	for e := range edge {
		p.Edges = append(p.Edges, e)
	}
	sort.Slice(p.Edges, func(a, b int) bool {
		if p.Edges[a][0] != p.Edges[b][0] {
			return p.Edges[a][0] < p.Edges[b][0]
		}
		return p.Edges[a][1] < p.Edges[b][1]
	})
	return p
}

func keys(m map[string]bool) []string {
	out := make([]string, 0, len(m))
	for k := range m {
		out = append(out, k)
	}
	sort.Strings(out)
	return out
}

// Canon renders the topology canonically (used as the distinctness key).
func (t Topology) Canon() string {
	var b strings.Builder
	for _, c := range t.Connectors {
		ps := append([]string(nil), c.Pairs...)
		sort.Strings(ps)
		fmt.Fprintf(&b, "C %s %v %v %q", c.ID, ps, c.Forward, c.Route)
		if len(c.Levels) > 0 {
			for _, p := range ps {
				fmt.Fprintf(&b, " %s", c.LevelOf(strings.SplitN(p, ">", 2)[0], strings.SplitN(p, ">", 2)[1]))
			}
		}
		b.WriteString("\n")
	}
	pls := make([]string, 0, len(t.Pipelines))
	for _, p := range t.Pipelines {
		r := append([]string(nil), p.Receivers...)
		sort.Strings(r)
		e := append([]string(nil), p.Exporters...)
		sort.Strings(e)
		pls = append(pls, fmt.Sprintf("P %s r=%v p=%v e=%v", p.ID(), r, p.Processors, e))
	}
	sort.Strings(pls)
	b.WriteString(strings.Join(pls, "\n"))
	for _, x := range t.Extensions {
		d := append([]string(nil), x.Deps...)
		sort.Strings(d)
		fmt.Fprintf(&b, "\nX %s %v %v %v %v", x.ID, d, x.Plain, x.PipelineWatcher, x.ConfigWatcher)
	}
	if len(t.ExtList) > 0 {
		fmt.Fprintf(&b, "\nXL %v", t.ExtList)
	}
	if len(t.Levels) > 0 {
		fmt.Fprintf(&b, "\nL %v", t.Levels) // fmt prints maps in key order
	}
	return b.String()
}
