package topo

import (
	"fmt"

	"pgregory.net/rapid"
)

// GenOpts selects what the generator may produce.
type GenOpts struct {
	Shared     bool // some receivers/exporters are cross-signal shared (sharedcomponent) types
	Extensions bool // generate extensions with a dependency DAG, capabilities, repeated list entries
	Profiles   bool // profiles pipelines and 4×4 connector support matrices
	Routing    bool // routing-style connectors (need connector.XRouterAndConsumer, send to a subset)
	// Names: in half of the kinds of half of the cases, component names, connector types and pipeline
	// names come from a small alphabet of legal, easily confused spellings (ids that differ only in letter
	// case, names that are prefixes of one another, names containing '/', '_', '-', '.', non-ASCII letters
	// whose case mapping is special, names equal to a signal or type name, unnamed ids).
	Names bool
	// Repeats: the receivers / exporters list of a pipeline sometimes names an id it already names once or
	// twice more (a receiver, an exporter, or a connector on either side; anywhere in the list).  Legal:
	// validation only rejects repeated processors.
	Repeats bool
	// Levels: every supported cell of a connector factory's support matrix, and every signal of the
	// receiver / processor / exporter factories, declares a stability level drawn from all defined levels
	// (LevelNames) instead of Stable throughout.
	Levels bool
	// Invalid: probability (percent) per connector link of drawing an
	// unconstrained link (backward, self, unsupported pair) or a half use.
	Invalid int
}

func pick[T any](t *rapid.T, label string, xs []T) T { return rapid.SampledFrom(xs).Draw(t, label) }

// pct is true with probability ≈ p percent.  rapid's integer generators are
// deliberately biased towards small values, so the draw is assembled from fair
// coin flips; all-false (the shrink target) yields false.
func pct(t *rapid.T, label string, p int) bool {
	if p <= 0 {
		return false
	}
	v := 0
	for i := 0; i < 5; i++ {
		v <<= 1
		if rapid.Bool().Draw(t, label) {
			v |= 1
		}
	}
	return v >= 32-(p*32+50)/100
}

// subset draws an ordered duplicate-free selection of min..len(pool) elements.
func subset(t *rapid.T, label string, pool []string, min int) []string {
	if len(pool) == 0 {
		return nil
	}
	if min > len(pool) {
		min = len(pool)
	}
	k := rapid.IntRange(min, len(pool)).Draw(t, label+"-n")
	if k == 0 {
		return nil
	}
	perm := rapid.Permutation(pool).Draw(t, label)
	return append([]string(nil), perm[:k]...)
}

// nameGroups are legal component / pipeline names (component.ID and pipeline.ID accept any characters
// except whitespace, control characters and symbols; ':', ';', '|' and '>' are left out because the harness
// uses them as separators in its own keys).  The members of one group are easily confused with each other.
var nameGroups = [][]string{
	{"eu", "EU", "Eu", "eU"},                    // differ only in letter case
	{"a", "A", "aa", "aA", "a/a", "a/A", "A/a"}, // case variants, prefixes of one another, '/' inside the name
	{"a_b", "a-b", "a.b", "ab", "a/b", "A_B", "A-b"},
	{"\u00e4", "\u00c4", "a\u0308", "A\u0308"}, // ä, Ä precomposed and decomposed
	{"k", "K", "\u212a"},                       // KELVIN SIGN: lower-cases to k
	{"i", "I", "\u0131", "\u0130"},             // dotless i, I with dot
	{"logs", "LOGS", "Logs", "traces"},         // equal to a signal name
	{"trecv", "texp", "tproc", "Trecv"},        // equal to a component type
}

// connTypes are the component types of connectors under GenOpts.Names (one factory per connector, so the
// types of one configuration are distinct).
var connTypes = []string{"tconnA", "tconna", "tconnAa", "tconnaa", "tconn_a", "tconn_A"}

// drawNames draws n distinct names: as many as possible from one drawn group, the rest from the others.
func drawNames(t *rapid.T, label string, n int) []string {
	g := rapid.IntRange(0, len(nameGroups)-1).Draw(t, label+"-group")
	out := append([]string(nil), rapid.Permutation(nameGroups[g]).Draw(t, label+"-names")...)
	if len(out) >= n {
		return out[:n]
	}
	var rest []string
	for i, gr := range nameGroups {
		if i != g {
			rest = append(rest, gr...)
		}
	}
	for _, x := range rapid.Permutation(rest).Draw(t, label+"-more") {
		if len(out) < n && !contains(out, x) {
			out = append(out, x)
		}
	}
	return out
}

// idOf renders type[/name].
func idOf(ty, name string) string {
	if name == "" {
		return ty
	}
	return ty + "/" + name
}

// compNames returns the names of n components of one kind: r0, r1, … or (GenOpts.Names, every other
// time) drawn from the confusable alphabet, the last one sometimes left out altogether (an id that is
// just the type).
func compNames(t *rapid.T, o GenOpts, label, letter string, n int, unnamedOK bool) []string {
	out := make([]string, n)
	for i := range out {
		out[i] = fmt.Sprintf("%s%d", letter, i)
	}
	if !o.Names || n == 0 || !rapid.Bool().Draw(t, label+"-confusable") {
		return out
	}
	out = drawNames(t, label, n)
	if unnamedOK && pct(t, label+"-unnamed", 25) {
		out[rapid.IntRange(0, n-1).Draw(t, label+"-unnamed-at")] = ""
	}
	return out
}

func contains(xs []string, x string) bool {
	for _, y := range xs {
		if y == x {
			return true
		}
	}
	return false
}

// Gen draws a topology.  Connector links are mostly drawn forward (from a
// lower to a higher pipeline index) over supported signal pairs, which keeps
// most cases valid; the cross product of several links of one connector, and
// the deliberately unconstrained links, produce the cycle / unsupported
// classes.  Evaluate — not the generator — decides the class.
func Gen(t *rapid.T, o GenOpts) Topology {
	var tp Topology
	nr := rapid.IntRange(1, 3).Draw(t, "nrecv")
	np := rapid.IntRange(0, 3).Draw(t, "nproc")
	ne := rapid.IntRange(1, 3).Draw(t, "nexp")
	nc := pick(t, "nconn", []int{1, 2, 0, 1, 2, 3})
	// the unnamed form of an id is not generated together with the cross-signal shared types (IsShared
	// looks for "type/")
	rn := compNames(t, o, "recv", "r", nr, !o.Shared)
	pn := compNames(t, o, "proc", "p", np, true)
	en := compNames(t, o, "exp", "e", ne, !o.Shared)
	for i := 0; i < nr; i++ {
		ty := RecvType
		if o.Shared && pct(t, "shared-recv", 40) {
			ty = SharedRecvType
		}
		tp.Receivers = append(tp.Receivers, idOf(ty, rn[i]))
	}
	for i := 0; i < np; i++ {
		tp.Processors = append(tp.Processors, idOf(ProcType, pn[i]))
	}
	for i := 0; i < ne; i++ {
		ty := ExpType
		if o.Shared && pct(t, "shared-exp", 40) {
			ty = SharedExpType
		}
		tp.Exporters = append(tp.Exporters, idOf(ty, en[i]))
	}
	signals := Signals
	if o.Profiles {
		signals = Signals4
	}
	var allPairs []string
	for _, a := range signals {
		for _, b := range signals {
			allPairs = append(allPairs, a+">"+b)
		}
	}
	// connector ids: tconn<i>/c, or (GenOpts.Names) distinct types that differ in case / '_' only, with names
	// from the confusable alphabet that may coincide between connectors
	var cty, cn []string
	var sameAs []int // connector whose type (factory, support matrix) this one shares, or -1
	if o.Names && nc > 0 && rapid.Bool().Draw(t, "conn-confusable") {
		types := rapid.Permutation(connTypes).Draw(t, "conn-types")[:nc]
		pool := drawNames(t, "conn", nc)
		taken := map[string]bool{}
		for i := 0; i < nc; i++ {
			ty, same := types[i], -1
			// several connectors of one type (forward/a, forward/b …): one factory, ids differ in the name only
			if i > 0 && rapid.Bool().Draw(t, "conn-same-type") {
				same = rapid.IntRange(0, i-1).Draw(t, "conn-same-as")
				ty = cty[same]
			}
			k := rapid.IntRange(0, nc-1).Draw(t, "conn-name")
			for taken[idOf(ty, pool[k])] {
				k = (k + 1) % nc
			}
			taken[idOf(ty, pool[k])] = true
			cty, cn, sameAs = append(cty, ty), append(cn, pool[k]), append(sameAs, same)
		}
	}
	for i := 0; i < nc; i++ {
		c := Connector{ID: fmt.Sprintf("%s%d/c", connTypePrefix, i)}
		if cty != nil {
			c.ID = idOf(cty[i], cn[i])
		}
		// mostly an independently drawn support matrix (one fair coin per (from, to) cell, so asymmetric
		// matrices are the norm); sometimes everything, sometimes the diagonal only
		switch pick(t, "pairs-mode", []int{2, 0, 2, 1, 2}) {
		case 0:
			c.Pairs = append([]string(nil), allPairs...)
		case 1:
			for _, s := range signals {
				c.Pairs = append(c.Pairs, s+">"+s)
			}
		default:
			for _, p := range allPairs {
				if rapid.Bool().Draw(t, "pair") {
					c.Pairs = append(c.Pairs, p)
				}
			}
		}
		if sameAs != nil && sameAs[i] >= 0 {
			c.Pairs = append([]string(nil), tp.Connectors[sameAs[i]].Pairs...)
		}
		if o.Levels && len(c.Pairs) > 0 {
			if sameAs != nil && sameAs[i] >= 0 {
				c.Levels = tp.Connectors[sameAs[i]].Levels // one factory
			} else {
				c.Levels = drawLevels(t, "conn-level", c.Pairs)
			}
		}
		c.Forward = rapid.Bool().Draw(t, "forward")
		if o.Routing {
			c.Route = pick(t, "route", []string{"", "all", "one", "some", ""})
		}
		tp.Connectors = append(tp.Connectors, c)
	}

	// pipelines: signals drawn from a prefix of a permutation so that several
	// pipelines of one signal (shared receivers/exporters) are common
	npipe := pick(t, "npipe", []int{3, 2, 4, 1, 5, 6, 2, 3, 4})
	sigs := rapid.Permutation(signals).Draw(t, "sigperm")
	nsig := rapid.IntRange(1, len(signals)).Draw(t, "nsig")
	used := map[string]bool{}
	// pipeline names: n<i>, or (GenOpts.Names) from the confusable alphabet: distinct within a signal, often
	// equal between signals
	var plNames []string
	if o.Names && rapid.Bool().Draw(t, "pipe-confusable") {
		plNames = drawNames(t, "pipe", npipe)
	}
	for i := 0; i < npipe; i++ {
		pl := Pipeline{Signal: pick(t, "signal", sigs[:nsig])}
		if !used[pl.Signal] && rapid.Bool().Draw(t, "unnamed") {
			used[pl.Signal] = true
		} else if plNames != nil {
			j := rapid.IntRange(0, npipe-1).Draw(t, "pipe-name")
			for used[pl.Signal+"/"+plNames[j]] {
				j = (j + 1) % npipe
			}
			pl.Name = plNames[j]
			used[pl.Signal+"/"+pl.Name] = true
		} else {
			pl.Name = fmt.Sprintf("n%d", i)
		}
		pl.Processors = subset(t, "procs", tp.Processors, 0)
		tp.Pipelines = append(tp.Pipelines, pl)
	}

	// connector links.  "dag" mode: the connector is an exporter of some
	// pipelines below a split index and a receiver of some pipelines at or above
	// it (every cross pair points forward, so no cycle), then uses without a
	// supported counterpart are pruned.  "free" links are unconstrained.
	for _, c := range tp.Connectors {
		if npipe >= 2 && !pct(t, "skip-dag", 5) {
			k := rapid.IntRange(1, npipe-1).Draw(t, "split")
			var lo, hi []int
			for i := 0; i < npipe; i++ {
				if i < k {
					lo = append(lo, i)
				} else {
					hi = append(hi, i)
				}
			}
			es := intSubset(t, "conn-exp", lo)
			rs := intSubset(t, "conn-recv", hi)
			for _, i := range es {
				for _, j := range rs {
					if c.Supports(tp.Pipelines[i].Signal, tp.Pipelines[j].Signal) {
						addUnique(&tp.Pipelines[i].Exporters, c.ID)
						addUnique(&tp.Pipelines[j].Receivers, c.ID)
					}
				}
			}
		}
		if pct(t, "invalid", o.Invalid) {
			nl := rapid.IntRange(1, 2).Draw(t, "nfree")
			for l := 0; l < nl; l++ {
				switch pick(t, "badmode", []string{"any", "any", "half"}) {
				case "any":
					i := rapid.IntRange(0, npipe-1).Draw(t, "from")
					j := rapid.IntRange(0, npipe-1).Draw(t, "to")
					addUnique(&tp.Pipelines[i].Exporters, c.ID)
					addUnique(&tp.Pipelines[j].Receivers, c.ID)
				case "half":
					i := rapid.IntRange(0, npipe-1).Draw(t, "at")
					if rapid.Bool().Draw(t, "half-exp") {
						addUnique(&tp.Pipelines[i].Exporters, c.ID)
					} else {
						addUnique(&tp.Pipelines[i].Receivers, c.ID)
					}
				}
			}
		}
	}

	// real receivers / exporters; a pipeline fed (drained) by a connector may
	// have none
	for i := range tp.Pipelines {
		pl := &tp.Pipelines[i]
		min := 1
		if len(pl.Receivers) > 0 && rapid.Bool().Draw(t, "conn-only-recv") {
			min = 0
		}
		real := subset(t, "recvs", tp.Receivers, min)
		if rapid.Bool().Draw(t, "recv-first") {
			pl.Receivers = append(real, pl.Receivers...)
		} else {
			pl.Receivers = append(pl.Receivers, real...)
		}
		min = 1
		if len(pl.Exporters) > 0 && rapid.Bool().Draw(t, "conn-only-exp") {
			min = 0
		}
		real = subset(t, "exps", tp.Exporters, min)
		if rapid.Bool().Draw(t, "exp-first") {
			pl.Exporters = append(real, pl.Exporters...)
		} else {
			pl.Exporters = append(pl.Exporters, real...)
		}
	}

	// the same id named again in a list: the same single instance, no additional path
	if o.Repeats {
		for i := range tp.Pipelines {
			pl := &tp.Pipelines[i]
			if pct(t, "repeat-recv", 20) {
				pl.Receivers = repeatSome(t, "repeat-recv", pl.Receivers)
			}
			if pct(t, "repeat-exp", 20) {
				pl.Exporters = repeatSome(t, "repeat-exp", pl.Exporters)
			}
		}
	}

	// stability levels of the receiver / processor / exporter factories, per signal
	if o.Levels {
		var cells []string
		for _, ty := range []string{RecvType, ProcType, ExpType} {
			for _, sig := range signals {
				cells = append(cells, ty+":"+sig)
			}
		}
		if o.Shared {
			for _, ty := range []string{SharedRecvType, SharedExpType} {
				for _, sig := range signals {
					cells = append(cells, ty+":"+sig)
				}
			}
		}
		tp.Levels = drawLevels(t, "level", cells)
	}

	if o.Extensions {
		nx := rapid.IntRange(0, 4).Draw(t, "next")
		ids := make([]string, nx)
		for i := range ids {
			ids[i] = fmt.Sprintf("%s/x%d", ExtType, i)
		}
		// a hidden rank makes the dependency relation acyclic while the
		// configured order stays unrelated to it
		rank := rapid.Permutation(ids).Draw(t, "ext-rank")
		pos := map[string]int{}
		for i, id := range rank {
			pos[id] = i
		}
		for _, id := range ids {
			x := Extension{ID: id}
			for _, d := range ids {
				if pos[d] < pos[id] && pct(t, "dep", 40) {
					x.Deps = append(x.Deps, d)
				}
			}
			if len(x.Deps) == 0 {
				x.Plain = rapid.Bool().Draw(t, "plain")
			}
			x.PipelineWatcher = pct(t, "pipeline-watcher", 40)
			x.ConfigWatcher = pct(t, "config-watcher", 40)
			tp.Extensions = append(tp.Extensions, x)
		}
		// service::extensions may mention an id more than once
		if nx > 0 && pct(t, "ext-repeat", 25) {
			tp.ExtList = append([]string(nil), ids...)
			nrep := rapid.IntRange(1, 2).Draw(t, "ext-repeat-n")
			for r := 0; r < nrep; r++ {
				id := pick(t, "ext-repeat-id", ids)
				at := rapid.IntRange(0, len(tp.ExtList)).Draw(t, "ext-repeat-at")
				tp.ExtList = append(tp.ExtList[:at:at], append([]string{id}, tp.ExtList[at:]...)...)
			}
		}
	}
	return tp
}

// drawLevels draws a stability level for every cell: mostly cell by cell from all defined levels, sometimes
// one drawn level for all of them.  Cells left at Stable get no entry.
func drawLevels(t *rapid.T, label string, cells []string) map[string]string {
	out := map[string]string{}
	all := ""
	if pct(t, label+"-uniform", 20) {
		all = pick(t, label+"-all", LevelNames)
	}
	for _, c := range cells {
		l := all
		if l == "" {
			l = pick(t, label, LevelNames)
		}
		if l != "Stable" {
			out[c] = l
		}
	}
	if len(out) == 0 {
		return nil
	}
	return out
}

// repeatSome inserts one or two more mentions of ids the list already names, anywhere in the list.
func repeatSome(t *rapid.T, label string, xs []string) []string {
	if len(xs) == 0 {
		return xs
	}
	n := rapid.IntRange(1, 2).Draw(t, label+"-n")
	for r := 0; r < n; r++ {
		id := pick(t, label+"-id", xs)
		at := rapid.IntRange(0, len(xs)).Draw(t, label+"-at")
		xs = append(xs[:at:at], append([]string{id}, xs[at:]...)...)
	}
	return xs
}

// intSubset draws a non-empty subset, mostly of one or two elements.
func intSubset(t *rapid.T, label string, pool []int) []int {
	max := len(pool)
	if max > 2 && !pct(t, label+"-wide", 25) {
		max = 2
	}
	k := rapid.IntRange(1, max).Draw(t, label+"-n")
	perm := rapid.Permutation(pool).Draw(t, label)
	return perm[:k]
}

func addUnique(xs *[]string, x string) {
	if !contains(*xs, x) {
		*xs = append(*xs, x)
	}
}
