package topo

import (
	"context"
	"errors"
	"fmt"
	"sort"
	"strconv"
	"strings"
	"sync"

	"go.uber.org/zap"
	"go.uber.org/zap/zapcore"

	"go.opentelemetry.io/collector/component"
	"go.opentelemetry.io/collector/config/configtelemetry"
	"go.opentelemetry.io/collector/confmap"
	"go.opentelemetry.io/collector/connector"
	"go.opentelemetry.io/collector/connector/xconnector"
	"go.opentelemetry.io/collector/consumer"
	"go.opentelemetry.io/collector/consumer/consumererror"
	"go.opentelemetry.io/collector/consumer/xconsumer"
	"go.opentelemetry.io/collector/exporter"
	"go.opentelemetry.io/collector/exporter/xexporter"
	"go.opentelemetry.io/collector/extension"
	"go.opentelemetry.io/collector/internal/sharedcomponent"
	"go.opentelemetry.io/collector/otelcol"
	"go.opentelemetry.io/collector/pdata/pcommon"
	"go.opentelemetry.io/collector/pdata/plog"
	"go.opentelemetry.io/collector/pdata/pmetric"
	"go.opentelemetry.io/collector/pdata/pprofile"
	"go.opentelemetry.io/collector/pdata/ptrace"
	"go.opentelemetry.io/collector/pipeline"
	"go.opentelemetry.io/collector/pipeline/xpipeline"
	"go.opentelemetry.io/collector/processor"
	"go.opentelemetry.io/collector/processor/xprocessor"
	"go.opentelemetry.io/collector/receiver"
	"go.opentelemetry.io/collector/receiver/xreceiver"
	"go.opentelemetry.io/collector/service"
	"go.opentelemetry.io/collector/service/pipelines"
	"go.opentelemetry.io/collector/service/telemetry"
)

// Event is one entry of the global event log.
type Event struct {
	// Op: create | start | shutdown on a component instance; nstart | nshutdown
	// on the per-signal handle of a cross-signal shared instance.
	Op string
	// Key as far as the component itself can know it.  Processors are not told
	// their pipeline: "processor:?:<id>", told apart by Serial.
	Key    string
	Serial int
}

func (e Event) String() string { return fmt.Sprintf("%s(%s#%d)", e.Op, e.Key, e.Serial) }

// Record is one arrival at an exporter.
type Record struct {
	Exporter string // node key
	Tag      string
	Trail    string // payload trail when ConsumeX was called
	Hops     string // hop list carried by the context (every processor and connector passed)
	Late     string // trail read from the retained payload when Records() is called
	// Shape of the payload that arrived (see Shapes).  A payload without any resource ("empty") carries
	// neither tag nor trail: Tag is then the one carried by the request context (WithTag), Trail is "".
	Shape string
	data  any
}

// TrailElem is one parsed trail element.
type TrailElem struct {
	Kind   string // p | c
	ID     string
	Pair   string // connectors: from>to
	Serial int
}

// ParseTrail splits a trail attribute.
func ParseTrail(s string) ([]TrailElem, error) {
	if s == "" {
		return nil, nil
	}
	var out []TrailElem
	for _, e := range strings.Split(s, ";") {
		f := strings.Split(e, "|")
		switch {
		case len(f) == 3 && f[0] == "p":
			n, err := strconv.Atoi(f[2])
			if err != nil {
				return nil, fmt.Errorf("bad trail element %q", e)
			}
			out = append(out, TrailElem{Kind: "p", ID: f[1], Serial: n})
		case len(f) == 4 && f[0] == "c":
			n, err := strconv.Atoi(f[3])
			if err != nil {
				return nil, fmt.Errorf("bad trail element %q", e)
			}
			out = append(out, TrailElem{Kind: "c", Pair: f[1], ID: f[2], Serial: n})
		default:
			return nil, fmt.Errorf("bad trail element %q", e)
		}
	}
	return out, nil
}

// FaultErr is the error an instrumented component returns when told to fail.
type FaultErr struct {
	Op     string // start | shutdown | ready | notready | notifyconfig
	Key    string
	Serial int
	At     int    // index of the event (the call) that raised it
	Kind   string // how the error handed to the collector wraps this one (ErrKinds)
}

// ErrKinds are the shapes of injected errors: the FaultErr itself; wrapped
// together with context.DeadlineExceeded / context.Canceled (a component whose
// own drain timed out); joined with a second error; wrapped as a permanent
// (consumererror) error.
var ErrKinds = []string{"plain", "deadline", "canceled", "joined", "permanent"}

func wrapKind(e *FaultErr) error {
	switch e.Kind {
	case "deadline":
		return fmt.Errorf("%w: gave up draining: %w", e, context.DeadlineExceeded)
	case "canceled":
		return fmt.Errorf("%w: interrupted: %w", e, context.Canceled)
	case "joined":
		return errors.Join(e, errors.New("and a second problem"))
	case "permanent":
		return consumererror.NewPermanent(e)
	}
	return e
}

func (e *FaultErr) Error() string { return e.Token() + " (" + e.Key + ")" }

// Token is a string unique to this fault (within one World).
func (e *FaultErr) Token() string { return fmt.Sprintf("vtfault-%s-#%d#", e.Op, e.Serial) }

// World holds the instrumented factories and everything they observed for one
// service lifetime.
type World struct {
	T Topology
	// FailStart / FailStop: fault keys of the components that fail.  Fault key =
	// Canonical(node key), except processors: "processor:<id>" (all instances).
	FailStart, FailStop map[string]bool
	// FailCall: extension capability callbacks that fail: "ready:<ext key>",
	// "notready:<ext key>", "notifyconfig:<ext key>".
	FailCall map[string]bool
	// ErrKind: "<op>:<fault key>" → kind of the error returned (default plain).
	ErrKind map[string]string
	// FailExport: exporter node key → "plain" | "ctx": the exporter records the arrival and then returns
	// an error (ctx: the context's error when it has one).
	FailExport map[string]string
	// ShareSlices: pipelines with equal receiver / processor / exporter lists are given the very same
	// []component.ID slice in the service configuration.
	ShareSlices bool
	// OnStart, when set, is called at the beginning of every component Start.
	OnStart func(key string, serial int)

	mu      sync.Mutex
	events  []Event
	records []Record
	raised  []*FaultErr
	serial  int
	creates map[string]int
	next    map[string][]any // receiver node key → next consumers handed to the factory

	sharedR *sharedcomponent.Map[component.ID, *comp]
	sharedE *sharedcomponent.Map[component.ID, *comp]
}

// NewWorld prepares factories for t.
func NewWorld(t Topology) *World {
	return &World{T: t, FailStart: map[string]bool{}, FailStop: map[string]bool{}, FailCall: map[string]bool{}, ErrKind: map[string]string{}, FailExport: map[string]string{}, creates: map[string]int{}, next: map[string][]any{},
		sharedR: sharedcomponent.NewMap[component.ID, *comp](), sharedE: sharedcomponent.NewMap[component.ID, *comp]()}
}

func (w *World) event(op, key string, serial int) {
	w.mu.Lock()
	w.events = append(w.events, Event{Op: op, Key: key, Serial: serial})
	w.mu.Unlock()
}

// Events returns a copy of the event log.
func (w *World) Events() []Event {
	w.mu.Lock()
	defer w.mu.Unlock()
	return append([]Event(nil), w.events...)
}

// Raised returns the faults injected so far.
func (w *World) Raised() []*FaultErr {
	w.mu.Lock()
	defer w.mu.Unlock()
	return append([]*FaultErr(nil), w.raised...)
}

// Creates returns factory create-call counts: receiver/exporter node keys,
// connector node keys, "processor:<signal>:<id>", extension keys.
func (w *World) Creates() map[string]int {
	w.mu.Lock()
	defer w.mu.Unlock()
	out := map[string]int{}
	for k, v := range w.creates {
		out[k] = v
	}
	return out
}

// Records returns the exporter records; Late is read now from the payloads the
// exporters retained (they declared MutatesData=false, so nobody may have
// changed them since).
func (w *World) Records() []Record {
	w.mu.Lock()
	defer w.mu.Unlock()
	out := make([]Record, len(w.records))
	for i, r := range w.records {
		if _, ok := attrsOf(r.data); ok {
			_, r.Late = readPayload(r.data)
		} else {
			r.Late = ""
		}
		r.data = nil
		out[i] = r
	}
	return out
}

// ResetRecords forgets the exporter records.
func (w *World) ResetRecords() {
	w.mu.Lock()
	w.records = nil
	w.mu.Unlock()
}

func (w *World) count(key string) {
	w.mu.Lock()
	w.creates[key]++
	w.mu.Unlock()
}

// comp is the lifecycle part of every instrumented component.
type comp struct {
	w        *World
	key      string
	faultKey string
	serial   int
}

func (w *World) newComp(key, faultKey string) *comp {
	w.mu.Lock()
	w.serial++
	c := &comp{w: w, key: key, faultKey: faultKey, serial: w.serial}
	w.events = append(w.events, Event{Op: "create", Key: key, Serial: c.serial})
	w.mu.Unlock()
	return c
}

func (c *comp) fault(op string) error {
	e := &FaultErr{Op: op, Key: c.key, Serial: c.serial, Kind: c.w.ErrKind[op+":"+c.faultKey]}
	c.w.mu.Lock()
	e.At = len(c.w.events) - 1
	c.w.raised = append(c.w.raised, e)
	c.w.mu.Unlock()
	return wrapKind(e)
}

func (c *comp) Start(context.Context, component.Host) error {
	if c.w.OnStart != nil {
		c.w.OnStart(c.key, c.serial)
	}
	c.w.event("start", c.key, c.serial)
	if c.w.FailStart[c.faultKey] {
		return c.fault("start")
	}
	return nil
}

func (c *comp) Shutdown(context.Context) error {
	c.w.event("shutdown", c.key, c.serial)
	if c.w.FailStop[c.faultKey] {
		return c.fault("shutdown")
	}
	return nil
}

// handle is what the factory of a cross-signal shared type returns for one
// signal: it logs the call the graph makes on this node and delegates to the
// sharedcomponent wrapper, which starts/stops the single instance once.
type handle struct {
	w     *World
	key   string
	inner component.Component
}

func (h *handle) Start(ctx context.Context, host component.Host) error {
	h.w.event("nstart", h.key, 0)
	return h.inner.Start(ctx, host)
}

func (h *handle) Shutdown(ctx context.Context) error {
	h.w.event("nshutdown", h.key, 0)
	return h.inner.Shutdown(ctx)
}

// payloads ------------------------------------------------------------------

const (
	tagAttr   = "vt.tag"
	trailAttr = "vt.trail"
)

// Shapes of an emitted payload, from one item down to nothing at all: "item" (one resource, one scope,
// one log record / metric with a data point / span / profile with a sample), "hollow" (metrics: a metric
// without data points; profiles: a profile without samples; logs and traces: as "scope"), "scope" (one
// resource with one empty scope), "resource" (one resource without scopes), "empty" (no resource).  All
// but "empty" carry tag and trail in the resource attributes.
var Shapes = []string{"item", "hollow", "scope", "resource", "empty"}

func newPayload(sig, tag, trail string) any { return newPayloadShape(sig, tag, trail, "item") }

func newPayloadShape(sig, tag, trail, shape string) any {
	if shape == "" {
		shape = "item"
	}
	mark := func(m pcommon.Map) {
		m.PutStr(tagAttr, tag)
		m.PutStr(trailAttr, trail)
	}
	scope, item, full := shape != "resource", shape == "item" || shape == "hollow", shape == "item"
	switch sig {
	case "logs":
		v := plog.NewLogs()
		if shape == "empty" {
			return v
		}
		rl := v.ResourceLogs().AppendEmpty()
		mark(rl.Resource().Attributes())
		if scope {
			sl := rl.ScopeLogs().AppendEmpty()
			if full {
				sl.LogRecords().AppendEmpty().Body().SetStr(tag)
			}
		}
		return v
	case "metrics":
		v := pmetric.NewMetrics()
		if shape == "empty" {
			return v
		}
		rm := v.ResourceMetrics().AppendEmpty()
		mark(rm.Resource().Attributes())
		if scope {
			sm := rm.ScopeMetrics().AppendEmpty()
			if item {
				m := sm.Metrics().AppendEmpty()
				m.SetName(tag)
				g := m.SetEmptyGauge()
				if full {
					g.DataPoints().AppendEmpty().SetIntValue(1)
				}
			}
		}
		return v
	case "traces":
		v := ptrace.NewTraces()
		if shape == "empty" {
			return v
		}
		rs := v.ResourceSpans().AppendEmpty()
		mark(rs.Resource().Attributes())
		if scope {
			ss := rs.ScopeSpans().AppendEmpty()
			if full {
				ss.Spans().AppendEmpty().SetName(tag)
			}
		}
		return v
	case "profiles":
		v := pprofile.NewProfiles()
		if shape == "empty" {
			return v
		}
		rp := v.ResourceProfiles().AppendEmpty()
		mark(rp.Resource().Attributes())
		if scope {
			sp := rp.ScopeProfiles().AppendEmpty()
			if item {
				pr := sp.Profiles().AppendEmpty()
				if full {
					pr.Sample().AppendEmpty()
				}
			}
		}
		return v
	}
	panic("topo: unknown signal " + sig)
}

// ShapeOf classifies a payload (see Shapes).
func ShapeOf(v any) string {
	level := func(resources, scopes, items, leaves int) string {
		switch {
		case resources == 0:
			return "empty"
		case scopes == 0:
			return "resource"
		case items == 0:
			return "scope"
		case leaves == 0:
			return "hollow"
		}
		return "item"
	}
	switch x := v.(type) {
	case plog.Logs:
		n := 0
		for i := 0; i < x.ResourceLogs().Len(); i++ {
			n += x.ResourceLogs().At(i).ScopeLogs().Len()
		}
		return level(x.ResourceLogs().Len(), n, x.LogRecordCount(), x.LogRecordCount())
	case pmetric.Metrics:
		n := 0
		for i := 0; i < x.ResourceMetrics().Len(); i++ {
			n += x.ResourceMetrics().At(i).ScopeMetrics().Len()
		}
		return level(x.ResourceMetrics().Len(), n, x.MetricCount(), x.DataPointCount())
	case ptrace.Traces:
		n := 0
		for i := 0; i < x.ResourceSpans().Len(); i++ {
			n += x.ResourceSpans().At(i).ScopeSpans().Len()
		}
		return level(x.ResourceSpans().Len(), n, x.SpanCount(), x.SpanCount())
	case pprofile.Profiles:
		n, items := 0, 0
		for i := 0; i < x.ResourceProfiles().Len(); i++ {
			sps := x.ResourceProfiles().At(i).ScopeProfiles()
			n += sps.Len()
			for j := 0; j < sps.Len(); j++ {
				items += sps.At(j).Profiles().Len()
			}
		}
		return level(x.ResourceProfiles().Len(), n, items, x.SampleCount())
	}
	panic("topo: unknown payload type")
}

// NewPayload builds the payload a receiver of signal sig emits.
func NewPayload(sig, tag string) any { return newPayload(sig, tag, "") }

// NewPayloadShape builds a payload of the given shape (see Shapes).  An "empty" one carries nothing: emit
// it with a request context made by WithTag.
func NewPayloadShape(sig, tag, shape string) any { return newPayloadShape(sig, tag, "", shape) }

type tagKey struct{}

// WithTag makes the request context carry the tag of the emission, which is how arrivals of a payload
// without any resource are attributed (the test components hand the context on, as the collector's
// wiring does).
func WithTag(ctx context.Context, tag string) context.Context {
	return context.WithValue(ctx, tagKey{}, tag)
}

// MarkReadOnly marks the payload as shared.
func MarkReadOnly(v any) {
	switch x := v.(type) {
	case plog.Logs:
		x.MarkReadOnly()
	case pmetric.Metrics:
		x.MarkReadOnly()
	case ptrace.Traces:
		x.MarkReadOnly()
	case pprofile.Profiles:
		x.MarkReadOnly()
	}
}

// Untouched tells whether the payload still carries an empty trail (no
// processor changed it).  A payload without any resource is never changed by the test components.
func Untouched(v any) bool {
	if _, ok := attrsOf(v); !ok {
		return true
	}
	_, trail := readPayload(v)
	return trail == ""
}

// IsReadOnly tells whether the payload is marked as shared.
func IsReadOnly(v any) bool {
	switch x := v.(type) {
	case plog.Logs:
		return x.IsReadOnly()
	case pmetric.Metrics:
		return x.IsReadOnly()
	case ptrace.Traces:
		return x.IsReadOnly()
	case pprofile.Profiles:
		return x.IsReadOnly()
	}
	return false
}

func attrsOf(v any) (pcommon.Map, bool) {
	switch x := v.(type) {
	case plog.Logs:
		if x.ResourceLogs().Len() > 0 {
			return x.ResourceLogs().At(0).Resource().Attributes(), true
		}
	case pmetric.Metrics:
		if x.ResourceMetrics().Len() > 0 {
			return x.ResourceMetrics().At(0).Resource().Attributes(), true
		}
	case ptrace.Traces:
		if x.ResourceSpans().Len() > 0 {
			return x.ResourceSpans().At(0).Resource().Attributes(), true
		}
	case pprofile.Profiles:
		if x.ResourceProfiles().Len() > 0 {
			return x.ResourceProfiles().At(0).Resource().Attributes(), true
		}
	}
	return pcommon.Map{}, false
}

func readPayload(v any) (tag, trail string) {
	m, ok := attrsOf(v)
	if !ok {
		return "?", "?"
	}
	if a, ok := m.Get(tagAttr); ok {
		tag = a.Str()
	}
	if a, ok := m.Get(trailAttr); ok {
		trail = a.Str()
	}
	return tag, trail
}

type hopsKey struct{}

// withHop appends elem to the hop list carried by the context.
func withHop(ctx context.Context, elem string) context.Context {
	cur, _ := ctx.Value(hopsKey{}).(string)
	return context.WithValue(ctx, hopsKey{}, extend(cur, elem))
}

func extend(trail, elem string) string {
	if trail == "" {
		return elem
	}
	return trail + ";" + elem
}

func consumeAny(ctx context.Context, next any, v any) error {
	switch x := v.(type) {
	case plog.Logs:
		return next.(consumer.Logs).ConsumeLogs(ctx, x)
	case pmetric.Metrics:
		return next.(consumer.Metrics).ConsumeMetrics(ctx, x)
	case ptrace.Traces:
		return next.(consumer.Traces).ConsumeTraces(ctx, x)
	case pprofile.Profiles:
		return next.(xconsumer.Profiles).ConsumeProfiles(ctx, x)
	}
	panic("topo: unknown payload type")
}

// consumers builds the three consumer interfaces around one function.
type consumers struct {
	consumer.Logs
	consumer.Metrics
	consumer.Traces
	xconsumer.Profiles
}

func newConsumers(mutates bool, fn func(ctx context.Context, v any) error) consumers {
	o := consumer.WithCapabilities(consumer.Capabilities{MutatesData: mutates})
	l, _ := consumer.NewLogs(func(ctx context.Context, v plog.Logs) error { return fn(ctx, v) }, o)
	m, _ := consumer.NewMetrics(func(ctx context.Context, v pmetric.Metrics) error { return fn(ctx, v) }, o)
	t, _ := consumer.NewTraces(func(ctx context.Context, v ptrace.Traces) error { return fn(ctx, v) }, o)
	p, _ := xconsumer.NewProfiles(func(ctx context.Context, v pprofile.Profiles) error { return fn(ctx, v) }, o)
	return consumers{l, m, t, p}
}

type (
	logsComp struct {
		component.Component
		consumer.Logs
	}
	metricsComp struct {
		component.Component
		consumer.Metrics
	}
	tracesComp struct {
		component.Component
		consumer.Traces
	}
	profilesComp struct {
		component.Component
		xconsumer.Profiles
	}
)

var stable = component.StabilityLevelStable

var levelByName = map[string]component.StabilityLevel{
	"Unmaintained": component.StabilityLevelUnmaintained,
	"Deprecated":   component.StabilityLevelDeprecated,
	"Development":  component.StabilityLevelDevelopment,
	"Alpha":        component.StabilityLevelAlpha,
	"Beta":         component.StabilityLevelBeta,
	"Stable":       component.StabilityLevelStable,
}

// Level converts a level name (LevelNames) to the collector's constant; anything else is Stable —
// never Undefined: every cell the test factories register is a supported one.
func Level(name string) component.StabilityLevel {
	if l, ok := levelByName[name]; ok {
		return l
	}
	return stable
}

// lv is the stability level the factory of component type ty declares for the signal.
func (w *World) lv(ty, sig string) component.StabilityLevel { return Level(w.T.LevelOf(ty, sig)) }

func newCfg() component.Config { return &struct{}{} }

// receivers -------------------------------------------------------------------

func (w *World) registerNext(sig string, id component.ID, next any) string {
	key := RecvKey(sig, id.String())
	w.mu.Lock()
	w.creates[key]++
	w.next[key] = append(w.next[key], next)
	w.mu.Unlock()
	return key
}

func (w *World) receiverFactory() receiver.Factory {
	mk := func(sig string, id component.ID, next any) *comp {
		key := w.registerNext(sig, id, next)
		return w.newComp(key, key)
	}
	return xreceiver.NewFactory(component.MustNewType(RecvType), newCfg,
		xreceiver.WithProfiles(func(_ context.Context, s receiver.Settings, _ component.Config, n xconsumer.Profiles) (xreceiver.Profiles, error) {
			return mk("profiles", s.ID, n), nil
		}, w.lv(RecvType, "profiles")),
		xreceiver.WithLogs(func(_ context.Context, s receiver.Settings, _ component.Config, n consumer.Logs) (receiver.Logs, error) {
			return mk("logs", s.ID, n), nil
		}, w.lv(RecvType, "logs")),
		xreceiver.WithMetrics(func(_ context.Context, s receiver.Settings, _ component.Config, n consumer.Metrics) (receiver.Metrics, error) {
			return mk("metrics", s.ID, n), nil
		}, w.lv(RecvType, "metrics")),
		xreceiver.WithTraces(func(_ context.Context, s receiver.Settings, _ component.Config, n consumer.Traces) (receiver.Traces, error) {
			return mk("traces", s.ID, n), nil
		}, w.lv(RecvType, "traces")))
}

// sharedReceiverFactory mimics the OTLP receiver: one instance per component
// id for all signals, obtained through internal/sharedcomponent.
func (w *World) sharedReceiverFactory() receiver.Factory {
	mk := func(sig string, id component.ID, next any) (component.Component, error) {
		key := w.registerNext(sig, id, next)
		sc, err := w.sharedR.LoadOrStore(id, func() (*comp, error) {
			k := SharedKey("receiver", id.String())
			return w.newComp(k, k), nil
		})
		if err != nil {
			return nil, err
		}
		return &handle{w: w, key: key, inner: sc}, nil
	}
	return xreceiver.NewFactory(component.MustNewType(SharedRecvType), newCfg,
		xreceiver.WithProfiles(func(_ context.Context, s receiver.Settings, _ component.Config, n xconsumer.Profiles) (xreceiver.Profiles, error) {
			return mk("profiles", s.ID, n)
		}, w.lv(SharedRecvType, "profiles")),
		xreceiver.WithLogs(func(_ context.Context, s receiver.Settings, _ component.Config, n consumer.Logs) (receiver.Logs, error) {
			return mk("logs", s.ID, n)
		}, w.lv(SharedRecvType, "logs")),
		xreceiver.WithMetrics(func(_ context.Context, s receiver.Settings, _ component.Config, n consumer.Metrics) (receiver.Metrics, error) {
			return mk("metrics", s.ID, n)
		}, w.lv(SharedRecvType, "metrics")),
		xreceiver.WithTraces(func(_ context.Context, s receiver.Settings, _ component.Config, n consumer.Traces) (receiver.Traces, error) {
			return mk("traces", s.ID, n)
		}, w.lv(SharedRecvType, "traces")))
}

// Inject emits one fresh payload tagged tag from the receiver node (signal, id).
func (w *World) Inject(recvKey, tag string) error {
	return w.InjectPayload(recvKey, NewPayload(strings.SplitN(recvKey, ":", 3)[1], tag))
}

// InjectPayload emits v from the receiver node (signal, id).
func (w *World) InjectPayload(recvKey string, v any) error {
	return w.InjectPayloadCtx(context.Background(), recvKey, v)
}

// InjectPayloadCtx emits v with the given request context.
func (w *World) InjectPayloadCtx(ctx context.Context, recvKey string, v any) error {
	w.mu.Lock()
	nexts := append([]any(nil), w.next[recvKey]...)
	w.mu.Unlock()
	if len(nexts) == 0 {
		return fmt.Errorf("receiver %s was never created", recvKey)
	}
	for _, n := range nexts {
		if err := consumeAny(ctx, n, v); err != nil {
			return err
		}
	}
	return nil
}

// processors ------------------------------------------------------------------

func (w *World) processorFactory() processor.Factory {
	mk := func(sig string, id component.ID, next any) (*comp, consumers) {
		w.count("processor:" + sig + ":" + id.String())
		c := w.newComp("processor:?:"+id.String(), "processor:"+id.String())
		elem := fmt.Sprintf("p|%s|%d", id.String(), c.serial)
		return c, newConsumers(true, func(ctx context.Context, v any) error {
			if m, ok := attrsOf(v); ok {
				_, trail := readPayload(v)
				m.PutStr(trailAttr, extend(trail, elem)) // panics if the payload was handed over read-only
			}
			return consumeAny(withHop(ctx, elem), next, v)
		})
	}
	return xprocessor.NewFactory(component.MustNewType(ProcType), newCfg,
		xprocessor.WithProfiles(func(_ context.Context, s processor.Settings, _ component.Config, n xconsumer.Profiles) (xprocessor.Profiles, error) {
			c, cs := mk("profiles", s.ID, n)
			return profilesComp{c, cs.Profiles}, nil
		}, w.lv(ProcType, "profiles")),
		xprocessor.WithLogs(func(_ context.Context, s processor.Settings, _ component.Config, n consumer.Logs) (processor.Logs, error) {
			c, cs := mk("logs", s.ID, n)
			return logsComp{c, cs.Logs}, nil
		}, w.lv(ProcType, "logs")),
		xprocessor.WithMetrics(func(_ context.Context, s processor.Settings, _ component.Config, n consumer.Metrics) (processor.Metrics, error) {
			c, cs := mk("metrics", s.ID, n)
			return metricsComp{c, cs.Metrics}, nil
		}, w.lv(ProcType, "metrics")),
		xprocessor.WithTraces(func(_ context.Context, s processor.Settings, _ component.Config, n consumer.Traces) (processor.Traces, error) {
			c, cs := mk("traces", s.ID, n)
			return tracesComp{c, cs.Traces}, nil
		}, w.lv(ProcType, "traces")))
}

// exporters -------------------------------------------------------------------

func (w *World) recorder(key string) consumers {
	return newConsumers(false, func(ctx context.Context, v any) error {
		tag, trail := readPayload(v)
		if _, ok := attrsOf(v); !ok {
			// nothing in the payload: attributed through the request context
			tag, trail = "?", ""
			if ct, ok := ctx.Value(tagKey{}).(string); ok {
				tag = ct
			}
		}
		hops, _ := ctx.Value(hopsKey{}).(string)
		w.mu.Lock()
		w.records = append(w.records, Record{Exporter: key, Tag: tag, Trail: trail, Hops: hops, Shape: ShapeOf(v), data: v})
		w.mu.Unlock()
		switch w.FailExport[key] {
		case "ctx":
			if err := ctx.Err(); err != nil {
				return err
			}
			return errors.New("vt: export failed at " + key)
		case "plain":
			return errors.New("vt: export failed at " + key)
		}
		return nil
	})
}

func (w *World) exporterFactory() exporter.Factory {
	mk := func(sig string, id component.ID) (*comp, consumers) {
		key := ExpKey(sig, id.String())
		w.count(key)
		return w.newComp(key, key), w.recorder(key)
	}
	return xexporter.NewFactory(component.MustNewType(ExpType), newCfg,
		xexporter.WithProfiles(func(_ context.Context, s exporter.Settings, _ component.Config) (xexporter.Profiles, error) {
			c, cs := mk("profiles", s.ID)
			return profilesComp{c, cs.Profiles}, nil
		}, w.lv(ExpType, "profiles")),
		xexporter.WithLogs(func(_ context.Context, s exporter.Settings, _ component.Config) (exporter.Logs, error) {
			c, cs := mk("logs", s.ID)
			return logsComp{c, cs.Logs}, nil
		}, w.lv(ExpType, "logs")),
		xexporter.WithMetrics(func(_ context.Context, s exporter.Settings, _ component.Config) (exporter.Metrics, error) {
			c, cs := mk("metrics", s.ID)
			return metricsComp{c, cs.Metrics}, nil
		}, w.lv(ExpType, "metrics")),
		xexporter.WithTraces(func(_ context.Context, s exporter.Settings, _ component.Config) (exporter.Traces, error) {
			c, cs := mk("traces", s.ID)
			return tracesComp{c, cs.Traces}, nil
		}, w.lv(ExpType, "traces")))
}

func (w *World) sharedExporterFactory() exporter.Factory {
	mk := func(sig string, id component.ID) (component.Component, consumers, error) {
		key := ExpKey(sig, id.String())
		w.count(key)
		sc, err := w.sharedE.LoadOrStore(id, func() (*comp, error) {
			k := SharedKey("exporter", id.String())
			return w.newComp(k, k), nil
		})
		if err != nil {
			return nil, consumers{}, err
		}
		return &handle{w: w, key: key, inner: sc}, w.recorder(key), nil
	}
	return xexporter.NewFactory(component.MustNewType(SharedExpType), newCfg,
		xexporter.WithProfiles(func(_ context.Context, s exporter.Settings, _ component.Config) (xexporter.Profiles, error) {
			c, cs, err := mk("profiles", s.ID)
			return profilesComp{c, cs.Profiles}, err
		}, w.lv(SharedExpType, "profiles")),
		xexporter.WithLogs(func(_ context.Context, s exporter.Settings, _ component.Config) (exporter.Logs, error) {
			c, cs, err := mk("logs", s.ID)
			return logsComp{c, cs.Logs}, err
		}, w.lv(SharedExpType, "logs")),
		xexporter.WithMetrics(func(_ context.Context, s exporter.Settings, _ component.Config) (exporter.Metrics, error) {
			c, cs, err := mk("metrics", s.ID)
			return metricsComp{c, cs.Metrics}, err
		}, w.lv(SharedExpType, "metrics")),
		xexporter.WithTraces(func(_ context.Context, s exporter.Settings, _ component.Config) (exporter.Traces, error) {
			c, cs, err := mk("traces", s.ID)
			return tracesComp{c, cs.Traces}, err
		}, w.lv(SharedExpType, "traces")))
}

// connectors ------------------------------------------------------------------

func (w *World) connectorFactory(c Connector) connector.Factory {
	factoryOf := c
	mk := func(from, to string, id component.ID, next any) (*comp, consumers, error) {
		key := ConnKey(from, to, id.String())
		w.count(key)
		// several configured connectors may share the type, i.e. this factory (same support matrix): how the
		// instance behaves is that of the connector with this id
		c := factoryOf
		for _, x := range w.T.Connectors {
			if x.ID == id.String() {
				c = x
			}
		}
		if c.Route != "" {
			// routing style: the consumer handed to a connector must be a router
			if _, err := routed(next, to, c.Route); err != nil {
				return nil, consumers{}, err
			}
		}
		cp := w.newComp(key, key)
		elem := fmt.Sprintf("c|%s>%s|%s|%d", from, to, id.String(), cp.serial)
		return cp, newConsumers(false, func(ctx context.Context, v any) error {
			ctx = withHop(ctx, elem)
			dst := next
			if c.Route != "" {
				chosen, err := routed(next, to, c.Route)
				if err != nil {
					return err
				}
				dst = chosen
			}
			if c.Forward && from == to {
				return consumeAny(ctx, dst, v)
			}
			// a new payload for the destination signal, of the same shape (an item-less payload stays
			// item-less, one without any resource stays so and cannot carry the connector's mark)
			shape := ShapeOf(v)
			if shape == "empty" {
				return consumeAny(ctx, dst, newPayloadShape(to, "", "", shape))
			}
			tag, trail := readPayload(v)
			return consumeAny(ctx, dst, newPayloadShape(to, tag, extend(trail, elem), shape))
		}), nil
	}
	// A factory without any profiles pair is a plain connector.Factory (the graph must then treat every
	// profiles pair as unsupported); otherwise an xconnector.Factory with exactly the generated cells.
	usesProfiles := false
	for _, p := range c.Pairs {
		usesProfiles = usesProfiles || strings.Contains(p, "profiles")
	}
	// every supported cell declares the level generated for it (any defined level means "supported")
	lv := func(from, to string) component.StabilityLevel { return Level(factoryOf.LevelOf(from, to)) }
	var o []connector.FactoryOption
	var xo []xconnector.FactoryOption
	if c.Supports("logs", "logs") {
		fLogsToLogs := func(_ context.Context, s connector.Settings, _ component.Config, n consumer.Logs) (connector.Logs, error) {
			cp, cs, err := mk("logs", "logs", s.ID, n)
			if err != nil {
				return nil, err
			}
			return logsComp{cp, cs.Logs}, nil
		}
		if usesProfiles {
			xo = append(xo, xconnector.WithLogsToLogs(fLogsToLogs, lv("logs", "logs")))
		} else {
			o = append(o, connector.WithLogsToLogs(fLogsToLogs, lv("logs", "logs")))
		}
	}
	if c.Supports("logs", "metrics") {
		fLogsToMetrics := func(_ context.Context, s connector.Settings, _ component.Config, n consumer.Metrics) (connector.Logs, error) {
			cp, cs, err := mk("logs", "metrics", s.ID, n)
			if err != nil {
				return nil, err
			}
			return logsComp{cp, cs.Logs}, nil
		}
		if usesProfiles {
			xo = append(xo, xconnector.WithLogsToMetrics(fLogsToMetrics, lv("logs", "metrics")))
		} else {
			o = append(o, connector.WithLogsToMetrics(fLogsToMetrics, lv("logs", "metrics")))
		}
	}
	if c.Supports("logs", "traces") {
		fLogsToTraces := func(_ context.Context, s connector.Settings, _ component.Config, n consumer.Traces) (connector.Logs, error) {
			cp, cs, err := mk("logs", "traces", s.ID, n)
			if err != nil {
				return nil, err
			}
			return logsComp{cp, cs.Logs}, nil
		}
		if usesProfiles {
			xo = append(xo, xconnector.WithLogsToTraces(fLogsToTraces, lv("logs", "traces")))
		} else {
			o = append(o, connector.WithLogsToTraces(fLogsToTraces, lv("logs", "traces")))
		}
	}
	if c.Supports("logs", "profiles") {
		fLogsToProfiles := func(_ context.Context, s connector.Settings, _ component.Config, n xconsumer.Profiles) (connector.Logs, error) {
			cp, cs, err := mk("logs", "profiles", s.ID, n)
			if err != nil {
				return nil, err
			}
			return logsComp{cp, cs.Logs}, nil
		}
		xo = append(xo, xconnector.WithLogsToProfiles(fLogsToProfiles, lv("logs", "profiles")))
	}
	if c.Supports("metrics", "logs") {
		fMetricsToLogs := func(_ context.Context, s connector.Settings, _ component.Config, n consumer.Logs) (connector.Metrics, error) {
			cp, cs, err := mk("metrics", "logs", s.ID, n)
			if err != nil {
				return nil, err
			}
			return metricsComp{cp, cs.Metrics}, nil
		}
		if usesProfiles {
			xo = append(xo, xconnector.WithMetricsToLogs(fMetricsToLogs, lv("metrics", "logs")))
		} else {
			o = append(o, connector.WithMetricsToLogs(fMetricsToLogs, lv("metrics", "logs")))
		}
	}
	if c.Supports("metrics", "metrics") {
		fMetricsToMetrics := func(_ context.Context, s connector.Settings, _ component.Config, n consumer.Metrics) (connector.Metrics, error) {
			cp, cs, err := mk("metrics", "metrics", s.ID, n)
			if err != nil {
				return nil, err
			}
			return metricsComp{cp, cs.Metrics}, nil
		}
		if usesProfiles {
			xo = append(xo, xconnector.WithMetricsToMetrics(fMetricsToMetrics, lv("metrics", "metrics")))
		} else {
			o = append(o, connector.WithMetricsToMetrics(fMetricsToMetrics, lv("metrics", "metrics")))
		}
	}
	if c.Supports("metrics", "traces") {
		fMetricsToTraces := func(_ context.Context, s connector.Settings, _ component.Config, n consumer.Traces) (connector.Metrics, error) {
			cp, cs, err := mk("metrics", "traces", s.ID, n)
			if err != nil {
				return nil, err
			}
			return metricsComp{cp, cs.Metrics}, nil
		}
		if usesProfiles {
			xo = append(xo, xconnector.WithMetricsToTraces(fMetricsToTraces, lv("metrics", "traces")))
		} else {
			o = append(o, connector.WithMetricsToTraces(fMetricsToTraces, lv("metrics", "traces")))
		}
	}
	if c.Supports("metrics", "profiles") {
		fMetricsToProfiles := func(_ context.Context, s connector.Settings, _ component.Config, n xconsumer.Profiles) (connector.Metrics, error) {
			cp, cs, err := mk("metrics", "profiles", s.ID, n)
			if err != nil {
				return nil, err
			}
			return metricsComp{cp, cs.Metrics}, nil
		}
		xo = append(xo, xconnector.WithMetricsToProfiles(fMetricsToProfiles, lv("metrics", "profiles")))
	}
	if c.Supports("traces", "logs") {
		fTracesToLogs := func(_ context.Context, s connector.Settings, _ component.Config, n consumer.Logs) (connector.Traces, error) {
			cp, cs, err := mk("traces", "logs", s.ID, n)
			if err != nil {
				return nil, err
			}
			return tracesComp{cp, cs.Traces}, nil
		}
		if usesProfiles {
			xo = append(xo, xconnector.WithTracesToLogs(fTracesToLogs, lv("traces", "logs")))
		} else {
			o = append(o, connector.WithTracesToLogs(fTracesToLogs, lv("traces", "logs")))
		}
	}
	if c.Supports("traces", "metrics") {
		fTracesToMetrics := func(_ context.Context, s connector.Settings, _ component.Config, n consumer.Metrics) (connector.Traces, error) {
			cp, cs, err := mk("traces", "metrics", s.ID, n)
			if err != nil {
				return nil, err
			}
			return tracesComp{cp, cs.Traces}, nil
		}
		if usesProfiles {
			xo = append(xo, xconnector.WithTracesToMetrics(fTracesToMetrics, lv("traces", "metrics")))
		} else {
			o = append(o, connector.WithTracesToMetrics(fTracesToMetrics, lv("traces", "metrics")))
		}
	}
	if c.Supports("traces", "traces") {
		fTracesToTraces := func(_ context.Context, s connector.Settings, _ component.Config, n consumer.Traces) (connector.Traces, error) {
			cp, cs, err := mk("traces", "traces", s.ID, n)
			if err != nil {
				return nil, err
			}
			return tracesComp{cp, cs.Traces}, nil
		}
		if usesProfiles {
			xo = append(xo, xconnector.WithTracesToTraces(fTracesToTraces, lv("traces", "traces")))
		} else {
			o = append(o, connector.WithTracesToTraces(fTracesToTraces, lv("traces", "traces")))
		}
	}
	if c.Supports("traces", "profiles") {
		fTracesToProfiles := func(_ context.Context, s connector.Settings, _ component.Config, n xconsumer.Profiles) (connector.Traces, error) {
			cp, cs, err := mk("traces", "profiles", s.ID, n)
			if err != nil {
				return nil, err
			}
			return tracesComp{cp, cs.Traces}, nil
		}
		xo = append(xo, xconnector.WithTracesToProfiles(fTracesToProfiles, lv("traces", "profiles")))
	}
	if c.Supports("profiles", "logs") {
		fProfilesToLogs := func(_ context.Context, s connector.Settings, _ component.Config, n consumer.Logs) (xconnector.Profiles, error) {
			cp, cs, err := mk("profiles", "logs", s.ID, n)
			if err != nil {
				return nil, err
			}
			return profilesComp{cp, cs.Profiles}, nil
		}
		xo = append(xo, xconnector.WithProfilesToLogs(fProfilesToLogs, lv("profiles", "logs")))
	}
	if c.Supports("profiles", "metrics") {
		fProfilesToMetrics := func(_ context.Context, s connector.Settings, _ component.Config, n consumer.Metrics) (xconnector.Profiles, error) {
			cp, cs, err := mk("profiles", "metrics", s.ID, n)
			if err != nil {
				return nil, err
			}
			return profilesComp{cp, cs.Profiles}, nil
		}
		xo = append(xo, xconnector.WithProfilesToMetrics(fProfilesToMetrics, lv("profiles", "metrics")))
	}
	if c.Supports("profiles", "traces") {
		fProfilesToTraces := func(_ context.Context, s connector.Settings, _ component.Config, n consumer.Traces) (xconnector.Profiles, error) {
			cp, cs, err := mk("profiles", "traces", s.ID, n)
			if err != nil {
				return nil, err
			}
			return profilesComp{cp, cs.Profiles}, nil
		}
		xo = append(xo, xconnector.WithProfilesToTraces(fProfilesToTraces, lv("profiles", "traces")))
	}
	if c.Supports("profiles", "profiles") {
		fProfilesToProfiles := func(_ context.Context, s connector.Settings, _ component.Config, n xconsumer.Profiles) (xconnector.Profiles, error) {
			cp, cs, err := mk("profiles", "profiles", s.ID, n)
			if err != nil {
				return nil, err
			}
			return profilesComp{cp, cs.Profiles}, nil
		}
		xo = append(xo, xconnector.WithProfilesToProfiles(fProfilesToProfiles, lv("profiles", "profiles")))
	}
	if usesProfiles {
		return xconnector.NewFactory(component.MustNewType(typeOf(c.ID)), newCfg, xo...)
	}
	return connector.NewFactory(component.MustNewType(typeOf(c.ID)), newCfg, o...)
}

// routed asserts that next is the router the graph hands to connectors and
// returns the consumer for the subset of downstream pipelines the mode picks.
func routed(next any, to, mode string) (any, error) {
	pick := func(ids []pipeline.ID) []pipeline.ID {
		sort.Slice(ids, func(a, b int) bool { return ids[a].String() < ids[b].String() })
		var out []pipeline.ID
		for _, k := range RoutePick(mode, len(ids)) {
			out = append(out, ids[k])
		}
		return out
	}
	errNoRouter := fmt.Errorf("expected consumer to be a connector router (%s)", to)
	switch to {
	case "logs":
		r, ok := next.(connector.LogsRouterAndConsumer)
		if !ok {
			return nil, errNoRouter
		}
		return r.Consumer(pick(r.PipelineIDs())...)
	case "metrics":
		r, ok := next.(connector.MetricsRouterAndConsumer)
		if !ok {
			return nil, errNoRouter
		}
		return r.Consumer(pick(r.PipelineIDs())...)
	case "traces":
		r, ok := next.(connector.TracesRouterAndConsumer)
		if !ok {
			return nil, errNoRouter
		}
		return r.Consumer(pick(r.PipelineIDs())...)
	case "profiles":
		r, ok := next.(xconnector.ProfilesRouterAndConsumer)
		if !ok {
			return nil, errNoRouter
		}
		return r.Consumer(pick(r.PipelineIDs())...)
	}
	return nil, fmt.Errorf("topo: unknown signal %s", to)
}

// extensions ------------------------------------------------------------------

type capDep struct{ deps []component.ID }

func (d capDep) Dependencies() []component.ID { return d.deps }

// capPW implements extensioncapabilities.PipelineWatcher.
type capPW struct{ c *comp }

func (p capPW) Ready() error    { return p.c.call("ready") }
func (p capPW) NotReady() error { return p.c.call("notready") }

// capCW implements extensioncapabilities.ConfigWatcher.
type capCW struct{ c *comp }

func (p capCW) NotifyConfig(context.Context, *confmap.Conf) error { return p.c.call("notifyconfig") }

// call logs a capability callback and fails it when told to.
func (c *comp) call(op string) error {
	c.w.event(op, c.key, c.serial)
	if c.w.FailCall[op+":"+c.faultKey] {
		return c.fault(op)
	}
	return nil
}

func (w *World) extensionFactory() extension.Factory {
	return extension.NewFactory(component.MustNewType(ExtType), newCfg,
		func(_ context.Context, s extension.Settings, _ component.Config) (extension.Extension, error) {
			key := ExtKey(s.ID.String())
			w.count(key)
			c := w.newComp(key, key)
			for _, x := range w.T.Extensions {
				if x.ID != s.ID.String() {
					continue
				}
				d := capDep{}
				for _, dep := range x.Deps {
					d.deps = append(d.deps, MustID(dep))
				}
				dep := !(x.Plain && len(x.Deps) == 0)
				pw, cw := capPW{c}, capCW{c}
				switch {
				case dep && x.PipelineWatcher && x.ConfigWatcher:
					return struct {
						*comp
						capDep
						capPW
						capCW
					}{c, d, pw, cw}, nil
				case dep && x.PipelineWatcher:
					return struct {
						*comp
						capDep
						capPW
					}{c, d, pw}, nil
				case dep && x.ConfigWatcher:
					return struct {
						*comp
						capDep
						capCW
					}{c, d, cw}, nil
				case dep:
					return struct {
						*comp
						capDep
					}{c, d}, nil
				case x.PipelineWatcher && x.ConfigWatcher:
					return struct {
						*comp
						capPW
						capCW
					}{c, pw, cw}, nil
				case x.PipelineWatcher:
					return struct {
						*comp
						capPW
					}{c, pw}, nil
				case x.ConfigWatcher:
					return struct {
						*comp
						capCW
					}{c, cw}, nil
				}
				return c, nil
			}
			return c, nil
		}, stable)
}

// settings --------------------------------------------------------------------

func typeOf(id string) string { return strings.SplitN(id, "/", 2)[0] }

// MustID parses "type/name".
func MustID(s string) component.ID {
	var id component.ID
	if err := id.UnmarshalText([]byte(s)); err != nil {
		panic(err)
	}
	return id
}

func cfgMap(ids []string) map[component.ID]component.Config {
	m := map[component.ID]component.Config{}
	for _, s := range ids {
		m[MustID(s)] = newCfg()
	}
	return m
}

// Factories returns the instrumented factories.
func (w *World) Factories() otelcol.Factories {
	f := otelcol.Factories{
		Receivers: map[component.Type]receiver.Factory{
			component.MustNewType(RecvType):       w.receiverFactory(),
			component.MustNewType(SharedRecvType): w.sharedReceiverFactory(),
		},
		Processors: map[component.Type]processor.Factory{component.MustNewType(ProcType): w.processorFactory()},
		Exporters: map[component.Type]exporter.Factory{
			component.MustNewType(ExpType):       w.exporterFactory(),
			component.MustNewType(SharedExpType): w.sharedExporterFactory(),
		},
		Extensions: map[component.Type]extension.Factory{component.MustNewType(ExtType): w.extensionFactory()},
		Connectors: map[component.Type]connector.Factory{},
	}
	for _, c := range w.T.Connectors {
		f.Connectors[component.MustNewType(typeOf(c.ID))] = w.connectorFactory(c)
	}
	return f
}

// NopLogging discards everything the service logs.
func NopLogging() []zap.Option {
	return []zap.Option{zap.WrapCore(func(zapcore.Core) zapcore.Core { return zapcore.NewNopCore() })}
}

// Settings builds service.Settings with the instrumented factories.
func (w *World) Settings() service.Settings {
	f := w.Factories()
	var conns, exts []string
	for _, c := range w.T.Connectors {
		conns = append(conns, c.ID)
	}
	for _, x := range w.T.Extensions {
		exts = append(exts, x.ID)
	}
	return service.Settings{
		BuildInfo:           component.NewDefaultBuildInfo(),
		ReceiversConfigs:    cfgMap(w.T.Receivers),
		ReceiversFactories:  f.Receivers,
		ProcessorsConfigs:   cfgMap(w.T.Processors),
		ProcessorsFactories: f.Processors,
		ExportersConfigs:    cfgMap(w.T.Exporters),
		ExportersFactories:  f.Exporters,
		ConnectorsConfigs:   cfgMap(conns),
		ConnectorsFactories: f.Connectors,
		ExtensionsConfigs:   cfgMap(exts),
		ExtensionsFactories: f.Extensions,
		AsyncErrorChannel:   make(chan error, 16),
		LoggingOptions:      NopLogging(),
		CollectorConf:       confmap.New(), // extensions implementing ConfigWatcher are notified

	}
}

func ids(ss []string) []component.ID {
	out := make([]component.ID, 0, len(ss))
	for _, s := range ss {
		out = append(out, MustID(s))
	}
	return out
}

// PipelineID converts to the collector's pipeline id.
func PipelineID(p Pipeline) pipeline.ID {
	var s pipeline.Signal
	switch p.Signal {
	case "logs":
		s = pipeline.SignalLogs
	case "metrics":
		s = pipeline.SignalMetrics
	case "traces":
		s = pipeline.SignalTraces
	case "profiles":
		s = xpipeline.SignalProfiles
	default:
		panic("topo: unknown signal " + p.Signal)
	}
	if p.Name == "" {
		return pipeline.NewID(s)
	}
	return pipeline.NewIDWithName(s, p.Name)
}

// Config builds the service configuration: telemetry metrics off, logs at
// error level into /dev/null.
func (w *World) Config() service.Config {
	cfg := service.Config{
		Telemetry: telemetry.Config{
			Logs: telemetry.LogsConfig{
				Level:            zapcore.ErrorLevel,
				Encoding:         "json",
				OutputPaths:      []string{"/dev/null"},
				ErrorOutputPaths: []string{"/dev/null"},
				DisableCaller:    true, DisableStacktrace: true,
			},
			Metrics: telemetry.MetricsConfig{Level: configtelemetry.LevelNone},
		},
		Pipelines: pipelines.Config{},
	}
	for _, x := range w.T.ServiceExtensions() {
		cfg.Extensions = append(cfg.Extensions, MustID(x))
	}
	shared := map[string][]component.ID{}
	list := func(ss []string) []component.ID {
		if !w.ShareSlices {
			return ids(ss)
		}
		k := strings.Join(ss, ",")
		if s, ok := shared[k]; ok {
			return s
		}
		shared[k] = ids(ss)
		return shared[k]
	}
	for _, p := range w.T.Pipelines {
		cfg.Pipelines[PipelineID(p)] = &pipelines.PipelineConfig{
			Receivers: list(p.Receivers), Processors: list(p.Processors), Exporters: list(p.Exporters),
		}
	}
	return cfg
}

// YAML renders the configuration for otelcol.
func (w *World) YAML() string {
	var b strings.Builder
	section := func(name string, ids []string) {
		if len(ids) == 0 {
			return
		}
		fmt.Fprintf(&b, "%s:\n", name)
		s := append([]string(nil), ids...)
		sort.Strings(s)
		for _, id := range s {
			fmt.Fprintf(&b, "  %s: {}\n", id)
		}
	}
	section("receivers", w.T.Receivers)
	section("processors", w.T.Processors)
	section("exporters", w.T.Exporters)
	var conns, exts []string
	for _, c := range w.T.Connectors {
		conns = append(conns, c.ID)
	}
	for _, x := range w.T.Extensions {
		exts = append(exts, x.ID)
	}
	section("connectors", conns)
	section("extensions", exts)
	b.WriteString("service:\n  telemetry:\n    metrics: {level: none}\n    logs: {level: error, encoding: json, output_paths: [/dev/null], error_output_paths: [/dev/null]}\n")
	if len(exts) > 0 {
		fmt.Fprintf(&b, "  extensions: [%s]\n", strings.Join(w.T.ServiceExtensions(), ", "))
	}
	b.WriteString("  pipelines:\n")
	for _, p := range w.T.Pipelines {
		fmt.Fprintf(&b, "    %s:\n      receivers: [%s]\n      processors: [%s]\n      exporters: [%s]\n", p.ID(),
			strings.Join(p.Receivers, ", "), strings.Join(p.Processors, ", "), strings.Join(p.Exporters, ", "))
	}
	return b.String()
}
