package topo

import (
	"context"
	"fmt"
	"sort"
	"strconv"
	"strings"
	"sync"

	"go.uber.org/zap"
	"go.uber.org/zap/zapcore"

	"go.opentelemetry.io/collector/component"
	"go.opentelemetry.io/collector/config/configtelemetry"
	"go.opentelemetry.io/collector/connector"
	"go.opentelemetry.io/collector/consumer"
	"go.opentelemetry.io/collector/exporter"
	"go.opentelemetry.io/collector/extension"
	"go.opentelemetry.io/collector/internal/sharedcomponent"
	"go.opentelemetry.io/collector/otelcol"
	"go.opentelemetry.io/collector/pdata/pcommon"
	"go.opentelemetry.io/collector/pdata/plog"
	"go.opentelemetry.io/collector/pdata/pmetric"
	"go.opentelemetry.io/collector/pdata/ptrace"
	"go.opentelemetry.io/collector/pipeline"
	"go.opentelemetry.io/collector/processor"
	"go.opentelemetry.io/collector/receiver"
	"go.opentelemetry.io/collector/service"
	"go.opentelemetry.io/collector/service/pipelines"
	"go.opentelemetry.io/collector/service/telemetry"
)

// Event is one entry of the global event log.
type Event struct {
	// Op: create | start | shutdown on a component instance; nstart | nshutdown
	// on the per-signal handle of a cross-signal shared instance.
	Op string
	// Key as far as the component itself can know it.  Processors are not told
	// their pipeline: "processor:?:<id>", told apart by Serial.
	Key    string
	Serial int
}

func (e Event) String() string { return fmt.Sprintf("%s(%s#%d)", e.Op, e.Key, e.Serial) }

// Record is one arrival at an exporter.
type Record struct {
	Exporter string // node key
	Tag      string
	Trail    string // payload trail when ConsumeX was called
	Hops     string // hop list carried by the context (every processor and connector passed)
	Late     string // trail read from the retained payload when Records() is called
	data     any
}

// TrailElem is one parsed trail element.
type TrailElem struct {
	Kind   string // p | c
	ID     string
	Pair   string // connectors: from>to
	Serial int
}

// ParseTrail splits a trail attribute.
func ParseTrail(s string) ([]TrailElem, error) {
	if s == "" {
		return nil, nil
	}
	var out []TrailElem
	for _, e := range strings.Split(s, ";") {
		f := strings.Split(e, "|")
		switch {
		case len(f) == 3 && f[0] == "p":
			n, err := strconv.Atoi(f[2])
			if err != nil {
				return nil, fmt.Errorf("bad trail element %q", e)
			}
			out = append(out, TrailElem{Kind: "p", ID: f[1], Serial: n})
		case len(f) == 4 && f[0] == "c":
			n, err := strconv.Atoi(f[3])
			if err != nil {
				return nil, fmt.Errorf("bad trail element %q", e)
			}
			out = append(out, TrailElem{Kind: "c", Pair: f[1], ID: f[2], Serial: n})
		default:
			return nil, fmt.Errorf("bad trail element %q", e)
		}
	}
	return out, nil
}

// FaultErr is the error an instrumented component returns when told to fail.
type FaultErr struct {
	Op     string // start | shutdown
	Key    string
	Serial int
}

func (e *FaultErr) Error() string { return e.Token() + " (" + e.Key + ")" }

// Token is a string unique to this fault (within one World).
func (e *FaultErr) Token() string { return fmt.Sprintf("vtfault-%s-#%d#", e.Op, e.Serial) }

// World holds the instrumented factories and everything they observed for one
// service lifetime.
type World struct {
	T Topology
	// FailStart / FailStop: fault keys of the components that fail.  Fault key =
	// Canonical(node key), except processors: "processor:<id>" (all instances).
	FailStart, FailStop map[string]bool
	// OnStart, when set, is called at the beginning of every component Start.
	OnStart func(key string, serial int)

	mu      sync.Mutex
	events  []Event
	records []Record
	raised  []*FaultErr
	serial  int
	creates map[string]int
	next    map[string][]any // receiver node key → next consumers handed to the factory

	sharedR *sharedcomponent.Map[component.ID, *comp]
	sharedE *sharedcomponent.Map[component.ID, *comp]
}

// NewWorld prepares factories for t.
func NewWorld(t Topology) *World {
	return &World{T: t, FailStart: map[string]bool{}, FailStop: map[string]bool{}, creates: map[string]int{}, next: map[string][]any{},
		sharedR: sharedcomponent.NewMap[component.ID, *comp](), sharedE: sharedcomponent.NewMap[component.ID, *comp]()}
}

func (w *World) event(op, key string, serial int) {
	w.mu.Lock()
	w.events = append(w.events, Event{Op: op, Key: key, Serial: serial})
	w.mu.Unlock()
}

// Events returns a copy of the event log.
func (w *World) Events() []Event {
	w.mu.Lock()
	defer w.mu.Unlock()
	return append([]Event(nil), w.events...)
}

// Raised returns the faults injected so far.
func (w *World) Raised() []*FaultErr {
	w.mu.Lock()
	defer w.mu.Unlock()
	return append([]*FaultErr(nil), w.raised...)
}

// Creates returns factory create-call counts: receiver/exporter node keys,
// connector node keys, "processor:<signal>:<id>", extension keys.
func (w *World) Creates() map[string]int {
	w.mu.Lock()
	defer w.mu.Unlock()
	out := map[string]int{}
	for k, v := range w.creates {
		out[k] = v
	}
	return out
}

// Records returns the exporter records; Late is read now from the payloads the
// exporters retained (they declared MutatesData=false, so nobody may have
// changed them since).
func (w *World) Records() []Record {
	w.mu.Lock()
	defer w.mu.Unlock()
	out := make([]Record, len(w.records))
	for i, r := range w.records {
		_, r.Late = readPayload(r.data)
		r.data = nil
		out[i] = r
	}
	return out
}

// ResetRecords forgets the exporter records.
func (w *World) ResetRecords() {
	w.mu.Lock()
	w.records = nil
	w.mu.Unlock()
}

func (w *World) count(key string) {
	w.mu.Lock()
	w.creates[key]++
	w.mu.Unlock()
}

// comp is the lifecycle part of every instrumented component.
type comp struct {
	w        *World
	key      string
	faultKey string
	serial   int
}

func (w *World) newComp(key, faultKey string) *comp {
	w.mu.Lock()
	w.serial++
	c := &comp{w: w, key: key, faultKey: faultKey, serial: w.serial}
	w.events = append(w.events, Event{Op: "create", Key: key, Serial: c.serial})
	w.mu.Unlock()
	return c
}

func (c *comp) fault(op string) error {
	e := &FaultErr{Op: op, Key: c.key, Serial: c.serial}
	c.w.mu.Lock()
	c.w.raised = append(c.w.raised, e)
	c.w.mu.Unlock()
	return e
}

func (c *comp) Start(context.Context, component.Host) error {
	if c.w.OnStart != nil {
		c.w.OnStart(c.key, c.serial)
	}
	c.w.event("start", c.key, c.serial)
	if c.w.FailStart[c.faultKey] {
		return c.fault("start")
	}
	return nil
}

func (c *comp) Shutdown(context.Context) error {
	c.w.event("shutdown", c.key, c.serial)
	if c.w.FailStop[c.faultKey] {
		return c.fault("shutdown")
	}
	return nil
}

// handle is what the factory of a cross-signal shared type returns for one
// signal: it logs the call the graph makes on this node and delegates to the
// sharedcomponent wrapper, which starts/stops the single instance once.
type handle struct {
	w     *World
	key   string
	inner component.Component
}

func (h *handle) Start(ctx context.Context, host component.Host) error {
	h.w.event("nstart", h.key, 0)
	return h.inner.Start(ctx, host)
}

func (h *handle) Shutdown(ctx context.Context) error {
	h.w.event("nshutdown", h.key, 0)
	return h.inner.Shutdown(ctx)
}

// payloads ------------------------------------------------------------------

const (
	tagAttr   = "vt.tag"
	trailAttr = "vt.trail"
)

func newPayload(sig, tag, trail string) any {
	switch sig {
	case "logs":
		v := plog.NewLogs()
		rl := v.ResourceLogs().AppendEmpty()
		rl.Resource().Attributes().PutStr(tagAttr, tag)
		rl.Resource().Attributes().PutStr(trailAttr, trail)
		rl.ScopeLogs().AppendEmpty().LogRecords().AppendEmpty().Body().SetStr(tag)
		return v
	case "metrics":
		v := pmetric.NewMetrics()
		rm := v.ResourceMetrics().AppendEmpty()
		rm.Resource().Attributes().PutStr(tagAttr, tag)
		rm.Resource().Attributes().PutStr(trailAttr, trail)
		m := rm.ScopeMetrics().AppendEmpty().Metrics().AppendEmpty()
		m.SetName(tag)
		m.SetEmptyGauge().DataPoints().AppendEmpty().SetIntValue(1)
		return v
	case "traces":
		v := ptrace.NewTraces()
		rs := v.ResourceSpans().AppendEmpty()
		rs.Resource().Attributes().PutStr(tagAttr, tag)
		rs.Resource().Attributes().PutStr(trailAttr, trail)
		rs.ScopeSpans().AppendEmpty().Spans().AppendEmpty().SetName(tag)
		return v
	}
	panic("topo: unknown signal " + sig)
}

func attrsOf(v any) (pcommon.Map, bool) {
	switch x := v.(type) {
	case plog.Logs:
		if x.ResourceLogs().Len() > 0 {
			return x.ResourceLogs().At(0).Resource().Attributes(), true
		}
	case pmetric.Metrics:
		if x.ResourceMetrics().Len() > 0 {
			return x.ResourceMetrics().At(0).Resource().Attributes(), true
		}
	case ptrace.Traces:
		if x.ResourceSpans().Len() > 0 {
			return x.ResourceSpans().At(0).Resource().Attributes(), true
		}
	}
	return pcommon.Map{}, false
}

func readPayload(v any) (tag, trail string) {
	m, ok := attrsOf(v)
	if !ok {
		return "?", "?"
	}
	if a, ok := m.Get(tagAttr); ok {
		tag = a.Str()
	}
	if a, ok := m.Get(trailAttr); ok {
		trail = a.Str()
	}
	return tag, trail
}

type hopsKey struct{}

// withHop appends elem to the hop list carried by the context.
func withHop(ctx context.Context, elem string) context.Context {
	cur, _ := ctx.Value(hopsKey{}).(string)
	return context.WithValue(ctx, hopsKey{}, extend(cur, elem))
}

func extend(trail, elem string) string {
	if trail == "" {
		return elem
	}
	return trail + ";" + elem
}

func consumeAny(ctx context.Context, next any, v any) error {
	switch x := v.(type) {
	case plog.Logs:
		return next.(consumer.Logs).ConsumeLogs(ctx, x)
	case pmetric.Metrics:
		return next.(consumer.Metrics).ConsumeMetrics(ctx, x)
	case ptrace.Traces:
		return next.(consumer.Traces).ConsumeTraces(ctx, x)
	}
	panic("topo: unknown payload type")
}

// consumers builds the three consumer interfaces around one function.
type consumers struct {
	consumer.Logs
	consumer.Metrics
	consumer.Traces
}

func newConsumers(mutates bool, fn func(ctx context.Context, v any) error) consumers {
	o := consumer.WithCapabilities(consumer.Capabilities{MutatesData: mutates})
	l, _ := consumer.NewLogs(func(ctx context.Context, v plog.Logs) error { return fn(ctx, v) }, o)
	m, _ := consumer.NewMetrics(func(ctx context.Context, v pmetric.Metrics) error { return fn(ctx, v) }, o)
	t, _ := consumer.NewTraces(func(ctx context.Context, v ptrace.Traces) error { return fn(ctx, v) }, o)
	return consumers{l, m, t}
}

type (
	logsComp struct {
		component.Component
		consumer.Logs
	}
	metricsComp struct {
		component.Component
		consumer.Metrics
	}
	tracesComp struct {
		component.Component
		consumer.Traces
	}
)

var stable = component.StabilityLevelStable

func newCfg() component.Config { return &struct{}{} }

// receivers -------------------------------------------------------------------

func (w *World) registerNext(sig string, id component.ID, next any) string {
	key := RecvKey(sig, id.String())
	w.mu.Lock()
	w.creates[key]++
	w.next[key] = append(w.next[key], next)
	w.mu.Unlock()
	return key
}

func (w *World) receiverFactory() receiver.Factory {
	mk := func(sig string, id component.ID, next any) *comp {
		key := w.registerNext(sig, id, next)
		return w.newComp(key, key)
	}
	return receiver.NewFactory(component.MustNewType(RecvType), newCfg,
		receiver.WithLogs(func(_ context.Context, s receiver.Settings, _ component.Config, n consumer.Logs) (receiver.Logs, error) {
			return mk("logs", s.ID, n), nil
		}, stable),
		receiver.WithMetrics(func(_ context.Context, s receiver.Settings, _ component.Config, n consumer.Metrics) (receiver.Metrics, error) {
			return mk("metrics", s.ID, n), nil
		}, stable),
		receiver.WithTraces(func(_ context.Context, s receiver.Settings, _ component.Config, n consumer.Traces) (receiver.Traces, error) {
			return mk("traces", s.ID, n), nil
		}, stable))
}

// sharedReceiverFactory mimics the OTLP receiver: one instance per component
// id for all signals, obtained through internal/sharedcomponent.
func (w *World) sharedReceiverFactory() receiver.Factory {
	mk := func(sig string, id component.ID, next any) (component.Component, error) {
		key := w.registerNext(sig, id, next)
		sc, err := w.sharedR.LoadOrStore(id, func() (*comp, error) {
			k := SharedKey("receiver", id.String())
			return w.newComp(k, k), nil
		})
		if err != nil {
			return nil, err
		}
		return &handle{w: w, key: key, inner: sc}, nil
	}
	return receiver.NewFactory(component.MustNewType(SharedRecvType), newCfg,
		receiver.WithLogs(func(_ context.Context, s receiver.Settings, _ component.Config, n consumer.Logs) (receiver.Logs, error) {
			return mk("logs", s.ID, n)
		}, stable),
		receiver.WithMetrics(func(_ context.Context, s receiver.Settings, _ component.Config, n consumer.Metrics) (receiver.Metrics, error) {
			return mk("metrics", s.ID, n)
		}, stable),
		receiver.WithTraces(func(_ context.Context, s receiver.Settings, _ component.Config, n consumer.Traces) (receiver.Traces, error) {
			return mk("traces", s.ID, n)
		}, stable))
}

// Inject emits one payload tagged tag from the receiver node (signal, id).
func (w *World) Inject(recvKey, tag string) error {
	parts := strings.SplitN(recvKey, ":", 3)
	w.mu.Lock()
	nexts := append([]any(nil), w.next[recvKey]...)
	w.mu.Unlock()
	if len(nexts) == 0 {
		return fmt.Errorf("receiver %s was never created", recvKey)
	}
	for _, n := range nexts {
		if err := consumeAny(context.Background(), n, newPayload(parts[1], tag, "")); err != nil {
			return err
		}
	}
	return nil
}

// processors ------------------------------------------------------------------

func (w *World) processorFactory() processor.Factory {
	mk := func(sig string, id component.ID, next any) (*comp, consumers) {
		w.count("processor:" + sig + ":" + id.String())
		c := w.newComp("processor:?:"+id.String(), "processor:"+id.String())
		elem := fmt.Sprintf("p|%s|%d", id.String(), c.serial)
		return c, newConsumers(true, func(ctx context.Context, v any) error {
			if m, ok := attrsOf(v); ok {
				_, trail := readPayload(v)
				m.PutStr(trailAttr, extend(trail, elem)) // panics if the payload was handed over read-only
			}
			return consumeAny(withHop(ctx, elem), next, v)
		})
	}
	return processor.NewFactory(component.MustNewType(ProcType), newCfg,
		processor.WithLogs(func(_ context.Context, s processor.Settings, _ component.Config, n consumer.Logs) (processor.Logs, error) {
			c, cs := mk("logs", s.ID, n)
			return logsComp{c, cs.Logs}, nil
		}, stable),
		processor.WithMetrics(func(_ context.Context, s processor.Settings, _ component.Config, n consumer.Metrics) (processor.Metrics, error) {
			c, cs := mk("metrics", s.ID, n)
			return metricsComp{c, cs.Metrics}, nil
		}, stable),
		processor.WithTraces(func(_ context.Context, s processor.Settings, _ component.Config, n consumer.Traces) (processor.Traces, error) {
			c, cs := mk("traces", s.ID, n)
			return tracesComp{c, cs.Traces}, nil
		}, stable))
}

// exporters -------------------------------------------------------------------

func (w *World) recorder(key string) consumers {
	return newConsumers(false, func(ctx context.Context, v any) error {
		tag, trail := readPayload(v)
		hops, _ := ctx.Value(hopsKey{}).(string)
		w.mu.Lock()
		w.records = append(w.records, Record{Exporter: key, Tag: tag, Trail: trail, Hops: hops, data: v})
		w.mu.Unlock()
		return nil
	})
}

func (w *World) exporterFactory() exporter.Factory {
	mk := func(sig string, id component.ID) (*comp, consumers) {
		key := ExpKey(sig, id.String())
		w.count(key)
		return w.newComp(key, key), w.recorder(key)
	}
	return exporter.NewFactory(component.MustNewType(ExpType), newCfg,
		exporter.WithLogs(func(_ context.Context, s exporter.Settings, _ component.Config) (exporter.Logs, error) {
			c, cs := mk("logs", s.ID)
			return logsComp{c, cs.Logs}, nil
		}, stable),
		exporter.WithMetrics(func(_ context.Context, s exporter.Settings, _ component.Config) (exporter.Metrics, error) {
			c, cs := mk("metrics", s.ID)
			return metricsComp{c, cs.Metrics}, nil
		}, stable),
		exporter.WithTraces(func(_ context.Context, s exporter.Settings, _ component.Config) (exporter.Traces, error) {
			c, cs := mk("traces", s.ID)
			return tracesComp{c, cs.Traces}, nil
		}, stable))
}

func (w *World) sharedExporterFactory() exporter.Factory {
	mk := func(sig string, id component.ID) (component.Component, consumers, error) {
		key := ExpKey(sig, id.String())
		w.count(key)
		sc, err := w.sharedE.LoadOrStore(id, func() (*comp, error) {
			k := SharedKey("exporter", id.String())
			return w.newComp(k, k), nil
		})
		if err != nil {
			return nil, consumers{}, err
		}
		return &handle{w: w, key: key, inner: sc}, w.recorder(key), nil
	}
	return exporter.NewFactory(component.MustNewType(SharedExpType), newCfg,
		exporter.WithLogs(func(_ context.Context, s exporter.Settings, _ component.Config) (exporter.Logs, error) {
			c, cs, err := mk("logs", s.ID)
			return logsComp{c, cs.Logs}, err
		}, stable),
		exporter.WithMetrics(func(_ context.Context, s exporter.Settings, _ component.Config) (exporter.Metrics, error) {
			c, cs, err := mk("metrics", s.ID)
			return metricsComp{c, cs.Metrics}, err
		}, stable),
		exporter.WithTraces(func(_ context.Context, s exporter.Settings, _ component.Config) (exporter.Traces, error) {
			c, cs, err := mk("traces", s.ID)
			return tracesComp{c, cs.Traces}, err
		}, stable))
}

// connectors ------------------------------------------------------------------

func (w *World) connectorFactory(c Connector) connector.Factory {
	mk := func(from, to string, id component.ID, next any) (*comp, consumers) {
		key := ConnKey(from, to, id.String())
		w.count(key)
		cp := w.newComp(key, key)
		elem := fmt.Sprintf("c|%s>%s|%s|%d", from, to, id.String(), cp.serial)
		return cp, newConsumers(false, func(ctx context.Context, v any) error {
			ctx = withHop(ctx, elem)
			if c.Forward && from == to {
				return consumeAny(ctx, next, v)
			}
			tag, trail := readPayload(v)
			return consumeAny(ctx, next, newPayload(to, tag, extend(trail, elem)))
		})
	}
	var o []connector.FactoryOption
	if c.Supports("logs", "logs") {
		o = append(o, connector.WithLogsToLogs(func(_ context.Context, s connector.Settings, _ component.Config, n consumer.Logs) (connector.Logs, error) {
			cp, cs := mk("logs", "logs", s.ID, n)
			return logsComp{cp, cs.Logs}, nil
		}, stable))
	}
	if c.Supports("logs", "metrics") {
		o = append(o, connector.WithLogsToMetrics(func(_ context.Context, s connector.Settings, _ component.Config, n consumer.Metrics) (connector.Logs, error) {
			cp, cs := mk("logs", "metrics", s.ID, n)
			return logsComp{cp, cs.Logs}, nil
		}, stable))
	}
	if c.Supports("logs", "traces") {
		o = append(o, connector.WithLogsToTraces(func(_ context.Context, s connector.Settings, _ component.Config, n consumer.Traces) (connector.Logs, error) {
			cp, cs := mk("logs", "traces", s.ID, n)
			return logsComp{cp, cs.Logs}, nil
		}, stable))
	}
	if c.Supports("metrics", "logs") {
		o = append(o, connector.WithMetricsToLogs(func(_ context.Context, s connector.Settings, _ component.Config, n consumer.Logs) (connector.Metrics, error) {
			cp, cs := mk("metrics", "logs", s.ID, n)
			return metricsComp{cp, cs.Metrics}, nil
		}, stable))
	}
	if c.Supports("metrics", "metrics") {
		o = append(o, connector.WithMetricsToMetrics(func(_ context.Context, s connector.Settings, _ component.Config, n consumer.Metrics) (connector.Metrics, error) {
			cp, cs := mk("metrics", "metrics", s.ID, n)
			return metricsComp{cp, cs.Metrics}, nil
		}, stable))
	}
	if c.Supports("metrics", "traces") {
		o = append(o, connector.WithMetricsToTraces(func(_ context.Context, s connector.Settings, _ component.Config, n consumer.Traces) (connector.Metrics, error) {
			cp, cs := mk("metrics", "traces", s.ID, n)
			return metricsComp{cp, cs.Metrics}, nil
		}, stable))
	}
	if c.Supports("traces", "logs") {
		o = append(o, connector.WithTracesToLogs(func(_ context.Context, s connector.Settings, _ component.Config, n consumer.Logs) (connector.Traces, error) {
			cp, cs := mk("traces", "logs", s.ID, n)
			return tracesComp{cp, cs.Traces}, nil
		}, stable))
	}
	if c.Supports("traces", "metrics") {
		o = append(o, connector.WithTracesToMetrics(func(_ context.Context, s connector.Settings, _ component.Config, n consumer.Metrics) (connector.Traces, error) {
			cp, cs := mk("traces", "metrics", s.ID, n)
			return tracesComp{cp, cs.Traces}, nil
		}, stable))
	}
	if c.Supports("traces", "traces") {
		o = append(o, connector.WithTracesToTraces(func(_ context.Context, s connector.Settings, _ component.Config, n consumer.Traces) (connector.Traces, error) {
			cp, cs := mk("traces", "traces", s.ID, n)
			return tracesComp{cp, cs.Traces}, nil
		}, stable))
	}
	return connector.NewFactory(component.MustNewType(typeOf(c.ID)), newCfg, o...)
}

// extensions ------------------------------------------------------------------

type depExt struct {
	*comp
	deps []component.ID
}

func (d *depExt) Dependencies() []component.ID { return d.deps }

func (w *World) extensionFactory() extension.Factory {
	return extension.NewFactory(component.MustNewType(ExtType), newCfg,
		func(_ context.Context, s extension.Settings, _ component.Config) (extension.Extension, error) {
			key := ExtKey(s.ID.String())
			w.count(key)
			c := w.newComp(key, key)
			for _, x := range w.T.Extensions {
				if x.ID != s.ID.String() {
					continue
				}
				if x.Plain && len(x.Deps) == 0 {
					return c, nil
				}
				d := &depExt{comp: c}
				for _, dep := range x.Deps {
					d.deps = append(d.deps, MustID(dep))
				}
				return d, nil
			}
			return c, nil
		}, stable)
}

// settings --------------------------------------------------------------------

func typeOf(id string) string { return strings.SplitN(id, "/", 2)[0] }

// MustID parses "type/name".
func MustID(s string) component.ID {
	var id component.ID
	if err := id.UnmarshalText([]byte(s)); err != nil {
		panic(err)
	}
	return id
}

func cfgMap(ids []string) map[component.ID]component.Config {
	m := map[component.ID]component.Config{}
	for _, s := range ids {
		m[MustID(s)] = newCfg()
	}
	return m
}

// Factories returns the instrumented factories.
func (w *World) Factories() otelcol.Factories {
	f := otelcol.Factories{
		Receivers: map[component.Type]receiver.Factory{
			component.MustNewType(RecvType):       w.receiverFactory(),
			component.MustNewType(SharedRecvType): w.sharedReceiverFactory(),
		},
		Processors: map[component.Type]processor.Factory{component.MustNewType(ProcType): w.processorFactory()},
		Exporters: map[component.Type]exporter.Factory{
			component.MustNewType(ExpType):       w.exporterFactory(),
			component.MustNewType(SharedExpType): w.sharedExporterFactory(),
		},
		Extensions: map[component.Type]extension.Factory{component.MustNewType(ExtType): w.extensionFactory()},
		Connectors: map[component.Type]connector.Factory{},
	}
	for _, c := range w.T.Connectors {
		f.Connectors[component.MustNewType(typeOf(c.ID))] = w.connectorFactory(c)
	}
	return f
}

// NopLogging discards everything the service logs.
func NopLogging() []zap.Option {
	return []zap.Option{zap.WrapCore(func(zapcore.Core) zapcore.Core { return zapcore.NewNopCore() })}
}

// Settings builds service.Settings with the instrumented factories.
func (w *World) Settings() service.Settings {
	f := w.Factories()
	var conns, exts []string
	for _, c := range w.T.Connectors {
		conns = append(conns, c.ID)
	}
	for _, x := range w.T.Extensions {
		exts = append(exts, x.ID)
	}
	return service.Settings{
		BuildInfo:           component.NewDefaultBuildInfo(),
		ReceiversConfigs:    cfgMap(w.T.Receivers),
		ReceiversFactories:  f.Receivers,
		ProcessorsConfigs:   cfgMap(w.T.Processors),
		ProcessorsFactories: f.Processors,
		ExportersConfigs:    cfgMap(w.T.Exporters),
		ExportersFactories:  f.Exporters,
		ConnectorsConfigs:   cfgMap(conns),
		ConnectorsFactories: f.Connectors,
		ExtensionsConfigs:   cfgMap(exts),
		ExtensionsFactories: f.Extensions,
		AsyncErrorChannel:   make(chan error, 16),
		LoggingOptions:      NopLogging(),
	}
}

func ids(ss []string) []component.ID {
	out := make([]component.ID, 0, len(ss))
	for _, s := range ss {
		out = append(out, MustID(s))
	}
	return out
}

// PipelineID converts to the collector's pipeline id.
func PipelineID(p Pipeline) pipeline.ID {
	var s pipeline.Signal
	switch p.Signal {
	case "logs":
		s = pipeline.SignalLogs
	case "metrics":
		s = pipeline.SignalMetrics
	case "traces":
		s = pipeline.SignalTraces
	default:
		panic("topo: unknown signal " + p.Signal)
	}
	if p.Name == "" {
		return pipeline.NewID(s)
	}
	return pipeline.NewIDWithName(s, p.Name)
}

// Config builds the service configuration: telemetry metrics off, logs at
// error level into /dev/null.
func (w *World) Config() service.Config {
	cfg := service.Config{
		Telemetry: telemetry.Config{
			Logs: telemetry.LogsConfig{
				Level:            zapcore.ErrorLevel,
				Encoding:         "json",
				OutputPaths:      []string{"/dev/null"},
				ErrorOutputPaths: []string{"/dev/null"},
				DisableCaller:    true, DisableStacktrace: true,
			},
			Metrics: telemetry.MetricsConfig{Level: configtelemetry.LevelNone},
		},
		Pipelines: pipelines.Config{},
	}
	for _, x := range w.T.Extensions {
		cfg.Extensions = append(cfg.Extensions, MustID(x.ID))
	}
	for _, p := range w.T.Pipelines {
		cfg.Pipelines[PipelineID(p)] = &pipelines.PipelineConfig{
			Receivers: ids(p.Receivers), Processors: ids(p.Processors), Exporters: ids(p.Exporters),
		}
	}
	return cfg
}

// YAML renders the configuration for otelcol.
func (w *World) YAML() string {
	var b strings.Builder
	section := func(name string, ids []string) {
		if len(ids) == 0 {
			return
		}
		fmt.Fprintf(&b, "%s:\n", name)
		s := append([]string(nil), ids...)
		sort.Strings(s)
		for _, id := range s {
			fmt.Fprintf(&b, "  %s: {}\n", id)
		}
	}
	section("receivers", w.T.Receivers)
	section("processors", w.T.Processors)
	section("exporters", w.T.Exporters)
	var conns, exts []string
	for _, c := range w.T.Connectors {
		conns = append(conns, c.ID)
	}
	for _, x := range w.T.Extensions {
		exts = append(exts, x.ID)
	}
	section("connectors", conns)
	section("extensions", exts)
	b.WriteString("service:\n  telemetry:\n    metrics: {level: none}\n    logs: {level: error, encoding: json, output_paths: [/dev/null], error_output_paths: [/dev/null]}\n")
	if len(exts) > 0 {
		fmt.Fprintf(&b, "  extensions: [%s]\n", strings.Join(exts, ", "))
	}
	b.WriteString("  pipelines:\n")
	for _, p := range w.T.Pipelines {
		fmt.Fprintf(&b, "    %s:\n      receivers: [%s]\n      processors: [%s]\n      exporters: [%s]\n", p.ID(),
			strings.Join(p.Receivers, ", "), strings.Join(p.Processors, ", "), strings.Join(p.Exporters, ", "))
	}
	return b.String()
}
