package topo

import (
	"fmt"
	"sort"
	"strings"
)

// Match is the result of comparing exporter records with the plan.
type Match struct {
	// Stage is empty when everything matched, otherwise the first level that
	// did not: delivery (which exporter, how often), trail (component ids
	// passed, in order), instances (no one-to-one mapping between creation
	// serials and expected instances).
	Stage string
	Msg   string
	// Decided is false when the instance search ran out of budget.
	Decided bool
	// SerialKey maps the creation serial of every processor / connector instance
	// seen in a trail to the expected instance key it was matched with.
	SerialKey map[int]string
}

type obs struct {
	exporter string
	elems    []TrailElem // context hop list
}

func shapeOfKeys(trail []string) string {
	out := make([]string, len(trail))
	for i, k := range trail {
		f := strings.SplitN(k, ":", 3)
		if f[0] == "processor" {
			out[i] = "p|" + f[2]
		} else {
			out[i] = "c|" + f[1] + "|" + f[2]
		}
	}
	return strings.Join(out, ";")
}

func shapeOfElems(tr []TrailElem) string {
	out := make([]string, len(tr))
	for i, e := range tr {
		if e.Kind == "p" {
			out[i] = "p|" + e.ID
		} else {
			out[i] = "c|" + e.Pair + "|" + e.ID
		}
	}
	return strings.Join(out, ";")
}

func diffCounts(exp, got map[string]int) string {
	var ks []string
	for k := range exp {
		ks = append(ks, k)
	}
	for k := range got {
		if _, ok := exp[k]; !ok {
			ks = append(ks, k)
		}
	}
	sort.Strings(ks)
	var out []string
	for _, k := range ks {
		if exp[k] != got[k] {
			out = append(out, fmt.Sprintf("%s: %d/%d", k, exp[k], got[k]))
		}
	}
	return strings.Join(out, ", ")
}

// MatchRecords compares what the exporters recorded with the plan's
// deliveries.  tagOf maps receiver node keys to the tag of the payload that was
// injected there.
func MatchRecords(plan *Plan, tagOf map[string]string, recs []Record, budget int) Match {
	return MatchRecordsBare(plan, tagOf, nil, recs, budget)
}

// MatchRecordsBare is MatchRecords where the payloads of the tags in bare were emitted without any
// resource: nobody on the way can leave a mark in them, so their expected payload trail is empty and only
// the hop list carried by the context tells the path.
func MatchRecordsBare(plan *Plan, tagOf map[string]string, bare map[string]bool, recs []Record, budget int) Match {
	byTag := map[string][]Record{}
	known := map[string]bool{}
	for _, t := range tagOf {
		known[t] = true
	}
	for _, r := range recs {
		if !known[r.Tag] {
			return Match{Stage: "delivery", Msg: fmt.Sprintf("arrival with unknown tag %q at %s", r.Tag, r.Exporter)}
		}
		byTag[r.Tag] = append(byTag[r.Tag], r)
	}
	var allExp []Delivery
	var allObs []obs
	type group struct{ obs, exp []int }
	var groups []group
	// a tag may have been emitted at several receivers (the same payload object re-emitted): its expected
	// arrivals are the sum over those receivers
	var tags []string
	recvOf := map[string][]string{}
	for _, rk := range plan.Recv {
		tag, ok := tagOf[rk]
		if !ok {
			continue
		}
		if _, seen := recvOf[tag]; !seen {
			tags = append(tags, tag)
		}
		recvOf[tag] = append(recvOf[tag], rk)
	}
	for _, tag := range tags {
		rk := strings.Join(recvOf[tag], "+")
		var exp []Delivery
		for _, r := range recvOf[tag] {
			for _, d := range plan.Deliveries[r] {
				if bare[tag] {
					d.Trail = nil
				}
				exp = append(exp, d)
			}
		}
		got := byTag[tag]
		ce, co := map[string]int{}, map[string]int{}
		for _, d := range exp {
			ce[d.Exporter]++
		}
		for _, r := range got {
			co[r.Exporter]++
		}
		if d := diffCounts(ce, co); d != "" {
			return Match{Stage: "delivery", Msg: fmt.Sprintf("payload from %s: arrivals per exporter differ from the configuration (exporter: expected/observed): %s", rk, d)}
		}
		ce, co = map[string]int{}, map[string]int{}
		gExp, gObs := map[string][]int{}, map[string][]int{}
		for _, d := range exp {
			k := d.Exporter + " <- " + shapeOfKeys(d.Trail) + " / " + shapeOfKeys(d.Full)
			ce[k]++
			gExp[k] = append(gExp[k], len(allExp))
			allExp = append(allExp, d)
		}
		for _, r := range got {
			el, err := ParseTrail(r.Trail)
			if err != nil {
				return Match{Stage: "trail", Msg: fmt.Sprintf("payload from %s at %s: %v", rk, r.Exporter, err)}
			}
			hops, err := ParseTrail(r.Hops)
			if err != nil {
				return Match{Stage: "trail", Msg: fmt.Sprintf("payload from %s at %s: %v", rk, r.Exporter, err)}
			}
			// the payload trail must be the hop list minus the hops that leave no mark, serials included
			j := 0
			for _, h := range hops {
				if j < len(el) && el[j] == h {
					j++
				}
			}
			if j != len(el) {
				return Match{Stage: "trail", Msg: fmt.Sprintf("payload from %s at %s: payload trail %q is not a subsequence of the hops the context saw %q", rk, r.Exporter, r.Trail, r.Hops)}
			}
			k := r.Exporter + " <- " + shapeOfElems(el) + " / " + shapeOfElems(hops)
			co[k]++
			gObs[k] = append(gObs[k], len(allObs))
			allObs = append(allObs, obs{exporter: r.Exporter, elems: hops})
		}
		if d := diffCounts(ce, co); d != "" {
			return Match{Stage: "trail", Msg: fmt.Sprintf("payload from %s: processors/connectors passed differ from the configuration (exporter <- payload trail / all hops: expected/observed): %s", rk, d)}
		}
		var gk []string
		for k := range gExp {
			gk = append(gk, k)
		}
		sort.Strings(gk)
		for _, k := range gk {
			groups = append(groups, group{gObs[k], gExp[k]})
		}
	}

	// instances: look for a one-to-one assignment of observed arrivals to
	// expected deliveries under which "creation serial ↔ expected instance" is a
	// bijection over the whole case
	ser2key := map[int]string{}
	key2ser := map[string]int{}
	type slot struct {
		o     int
		cands []int
	}
	var slots []slot
	for _, g := range groups {
		for _, o := range g.obs {
			slots = append(slots, slot{o, g.exp})
		}
	}
	used := make([]bool, len(allExp))
	steps := 0
	var rec func(i int) bool
	rec = func(i int) bool {
		if i == len(slots) {
			return true
		}
		steps++
		if steps > budget {
			return false
		}
		s := slots[i]
		for _, e := range s.cands {
			if used[e] {
				continue
			}
			var addedS []int
			var addedK []string
			ok := true
			for j, el := range allObs[s.o].elems {
				k := allExp[e].Full[j]
				if cur, has := ser2key[el.Serial]; has {
					if cur != k {
						ok = false
						break
					}
					continue
				}
				if _, has := key2ser[k]; has {
					ok = false
					break
				}
				ser2key[el.Serial] = k
				key2ser[k] = el.Serial
				addedS = append(addedS, el.Serial)
				addedK = append(addedK, k)
			}
			if ok {
				used[e] = true
				if rec(i + 1) {
					return true
				}
				used[e] = false
			}
			for _, x := range addedS {
				delete(ser2key, x)
			}
			for _, x := range addedK {
				delete(key2ser, x)
			}
			if steps > budget {
				return false
			}
		}
		return false
	}
	found := rec(0)
	if steps > budget {
		return Match{Decided: false}
	}
	if !found {
		var b strings.Builder
		for i, o := range allObs {
			if i > 12 {
				b.WriteString(" …")
				break
			}
			fmt.Fprintf(&b, " [%s <-", o.exporter)
			for _, e := range o.elems {
				fmt.Fprintf(&b, " %s%s#%d", e.Pair, e.ID, e.Serial)
			}
			b.WriteString("]")
		}
		return Match{Stage: "instances", Decided: true, Msg: "no one-to-one mapping between created instances and (pipeline, processor) / (signal pair, connector); observed" + b.String()}
	}
	return Match{Decided: true, SerialKey: ser2key}
}
