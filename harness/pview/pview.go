// Package pview turns any pdata value into a plain Go tree using only the
// public getter API.  The tree is the reference representation used by every
// oracle that needs "equal content".
//
// Tree shapes:
//
//	message   *Node{Type, Fields: ordered []Field{Name, Val}}
//	slice     []any
//	map       []any of KV{Key, Val} (insertion order, duplicates preserved)
//	scalars   int64 / uint64 / string / bool / F{bits} / B(hex of bytes)
//	optional  nil when HasX() is false
package pview

import (
	"encoding/hex"
	"fmt"
	"math"
	"reflect"
	"sort"
	"strings"

	"go.opentelemetry.io/collector/pdata/pcommon"
)

// F is a float64 compared by bit pattern (so NaN == NaN, +0 != -0).
type F struct{ Bits uint64 }

// B is a byte string.
type B string

// KV is one map entry.
type KV struct {
	Key string
	Val any
}

// Field is one getter of a message.
type Field struct {
	Name string
	Val  any
}

// Node is a message.
type Node struct {
	Type   string
	Fields []Field
}

// Get returns the field value by name (nil, false when absent).
func (n *Node) Get(name string) (any, bool) {
	for i := range n.Fields {
		if n.Fields[i].Name == name {
			return n.Fields[i].Val, true
		}
	}
	return nil, false
}

// Set replaces a field value.
func (n *Node) Set(name string, v any) {
	for i := range n.Fields {
		if n.Fields[i].Name == name {
			n.Fields[i].Val = v
			return
		}
	}
	n.Fields = append(n.Fields, Field{name, v})
}

var (
	mapType   = reflect.TypeOf(pcommon.Map{})
	valueType = reflect.TypeOf(pcommon.Value{})
	tsType    = reflect.TypeOf(pcommon.TraceState{})
)

// skipped getter-shaped methods (0 in / 1 out) that are not content.
var skipMethods = map[string]bool{
	"IsReadOnly": true, "Len": true, "AsRaw": true, "AsString": true, "String": true,
	"AppendEmpty": true, "All": true, "IsEmpty": true, "Type": true, "ValueType": true,
	"LogRecordCount": true, "SpanCount": true, "MetricCount": true, "DataPointCount": true,
	"SampleCount": true, "ResourceCount": true, "Capacity": true,
}

// one-of messages: discriminator method, and map from discriminator's String()
// to the accessor to follow.  Everything else in "alts" is skipped.
type oneof struct {
	disc string
	alts map[string]string // accessor -> discriminator string it is valid for
}

// OneofAlt reports, for a message type name ("pmetric.Metric") and a field /
// accessor name, the discriminator field name and the discriminator value the
// accessor belongs to (ok=false when typ.field is not a one-of alternative).
func OneofAlt(typ, field string) (discField, discValue string, ok bool) {
	o, is := oneofs[typ]
	if !is {
		return "", "", false
	}
	v, is := o.alts[field]
	return o.disc, v, is
}

// OneofAlts lists all alternative accessor names of a one-of message type.
func OneofAlts(typ string) []string {
	o, is := oneofs[typ]
	if !is {
		return nil
	}
	return SortedKeys(o.alts)
}

var oneofs = map[string]oneof{
	"pmetric.Metric": {"Type", map[string]string{"Gauge": "Gauge", "Sum": "Sum", "Histogram": "Histogram",
		"ExponentialHistogram": "ExponentialHistogram", "Summary": "Summary"}},
	"pmetric.NumberDataPoint": {"ValueType", map[string]string{"IntValue": "Int", "DoubleValue": "Double"}},
	"pmetric.Exemplar":        {"ValueType", map[string]string{"IntValue": "Int", "DoubleValue": "Double"}},
}

// Of converts a pdata value (passed by value, e.g. plog.Logs, pcommon.Map,
// plog.LogRecordSlice, pcommon.Value …) into its tree.
func Of(v any) any { return walk(reflect.ValueOf(v)) }

func isMutatorName(n string) bool {
	for _, p := range []string{"Set", "Put", "Remove", "Append", "Move", "Copy", "Mark", "Ensure", "From", "New", "Sort", "Range", "Get", "Has", "Equal"} {
		if strings.HasPrefix(n, p) {
			return true
		}
	}
	return false
}

func scalar(rv reflect.Value) (any, bool) {
	switch rv.Kind() {
	case reflect.Bool:
		return rv.Bool(), true
	case reflect.Int, reflect.Int8, reflect.Int16, reflect.Int32, reflect.Int64:
		return rv.Int(), true
	case reflect.Uint, reflect.Uint8, reflect.Uint16, reflect.Uint32, reflect.Uint64:
		return rv.Uint(), true
	case reflect.Float32, reflect.Float64:
		return F{math.Float64bits(rv.Float())}, true
	case reflect.String:
		return rv.String(), true
	case reflect.Array:
		if rv.Type().Elem().Kind() == reflect.Uint8 {
			b := make([]byte, rv.Len())
			for i := range b {
				b[i] = byte(rv.Index(i).Uint())
			}
			return B(hex.EncodeToString(b)), true
		}
	case reflect.Slice:
		if rv.Type().Elem().Kind() == reflect.Uint8 {
			return B(hex.EncodeToString(rv.Bytes())), true
		}
	}
	return nil, false
}

func walk(rv reflect.Value) any {
	if s, ok := scalar(rv); ok {
		return s
	}
	t := rv.Type()
	switch t {
	case mapType:
		return walkMap(rv.Interface().(pcommon.Map))
	case valueType:
		return walkValue(rv.Interface().(pcommon.Value))
	case tsType:
		return &Node{Type: "pcommon.TraceState", Fields: []Field{{"AsRaw", rv.Interface().(pcommon.TraceState).AsRaw()}}}
	}
	if t.Kind() != reflect.Struct {
		panic(fmt.Sprintf("pview: unsupported kind %v (%v)", t.Kind(), t))
	}
	// slice-like?
	if _, ok := t.MethodByName("At"); ok {
		n := rv.MethodByName("Len").Call(nil)[0].Int()
		out := make([]any, 0, n)
		at := rv.MethodByName("At")
		for i := int64(0); i < n; i++ {
			out = append(out, walk(at.Call([]reflect.Value{reflect.ValueOf(int(i))})[0]))
		}
		return out
	}
	name := typeName(t)
	node := &Node{Type: name}
	of, isOneof := oneofs[name]
	var disc string
	if isOneof {
		d := rv.MethodByName(of.disc).Call(nil)[0]
		disc = fmt.Sprint(d.Interface())
		node.Fields = append(node.Fields, Field{of.disc, disc})
	}
	for i := 0; i < t.NumMethod(); i++ {
		m := t.Method(i)
		if m.Type.NumIn() != 1 || m.Type.NumOut() != 1 { // receiver only
			continue
		}
		if strings.HasPrefix(m.Name, "Has") && m.Type.Out(0).Kind() == reflect.Bool {
			if _, isOpt := t.MethodByName(m.Name[3:]); isOpt {
				continue // optional marker, handled with the field itself
			}
		} else if skipMethods[m.Name] || isMutatorName(m.Name) {
			continue
		}
		if isOneof {
			if want, ok := of.alts[m.Name]; ok && want != disc {
				continue
			}
		}
		if has, ok := t.MethodByName("Has" + m.Name); ok && has.Type.NumIn() == 1 {
			if !rv.Method(has.Index).Call(nil)[0].Bool() {
				node.Fields = append(node.Fields, Field{m.Name, nil})
				continue
			}
		}
		node.Fields = append(node.Fields, Field{m.Name, walk(rv.Method(i).Call(nil)[0])})
	}
	return node
}

func typeName(t reflect.Type) string {
	p := t.PkgPath()
	if i := strings.LastIndex(p, "/"); i >= 0 {
		p = p[i+1:]
	}
	return p + "." + t.Name()
}

func walkMap(m pcommon.Map) any {
	out := make([]any, 0, m.Len())
	m.Range(func(k string, v pcommon.Value) bool {
		out = append(out, KV{k, walkValue(v)})
		return true
	})
	return out
}

func walkValue(v pcommon.Value) any {
	n := &Node{Type: "pcommon.Value", Fields: []Field{{"Type", v.Type().String()}}}
	switch v.Type() {
	case pcommon.ValueTypeEmpty:
	case pcommon.ValueTypeStr:
		n.Fields = append(n.Fields, Field{"Str", v.Str()})
	case pcommon.ValueTypeInt:
		n.Fields = append(n.Fields, Field{"Int", v.Int()})
	case pcommon.ValueTypeDouble:
		n.Fields = append(n.Fields, Field{"Double", F{math.Float64bits(v.Double())}})
	case pcommon.ValueTypeBool:
		n.Fields = append(n.Fields, Field{"Bool", v.Bool()})
	case pcommon.ValueTypeBytes:
		n.Fields = append(n.Fields, Field{"Bytes", B(hex.EncodeToString(v.Bytes().AsRaw()))})
	case pcommon.ValueTypeMap:
		n.Fields = append(n.Fields, Field{"Map", walkMap(v.Map())})
	case pcommon.ValueTypeSlice:
		s := v.Slice()
		out := make([]any, 0, s.Len())
		for i := 0; i < s.Len(); i++ {
			out = append(out, walkValue(s.At(i)))
		}
		n.Fields = append(n.Fields, Field{"Slice", out})
	default:
		panic("pview: unknown value type")
	}
	return n
}

// Equal compares two trees.
func Equal(a, b any) bool { return reflect.DeepEqual(a, b) }

// Clone deep-copies a tree.
func Clone(a any) any {
	switch x := a.(type) {
	case *Node:
		if x == nil {
			return (*Node)(nil)
		}
		n := &Node{Type: x.Type, Fields: make([]Field, len(x.Fields))}
		for i, f := range x.Fields {
			n.Fields[i] = Field{f.Name, Clone(f.Val)}
		}
		return n
	case []any:
		out := make([]any, len(x))
		for i := range x {
			out[i] = Clone(x[i])
		}
		return out
	case KV:
		return KV{x.Key, Clone(x.Val)}
	default:
		return a
	}
}

// String renders a tree compactly and canonically (used for hashing, multiset
// keys and diffs).
func String(a any) string {
	var sb strings.Builder
	render(&sb, a)
	return sb.String()
}

func render(sb *strings.Builder, a any) {
	switch x := a.(type) {
	case nil:
		sb.WriteString("∅")
	case *Node:
		sb.WriteString(x.Type)
		sb.WriteByte('{')
		for i, f := range x.Fields {
			if i > 0 {
				sb.WriteByte(',')
			}
			sb.WriteString(f.Name)
			sb.WriteByte(':')
			render(sb, f.Val)
		}
		sb.WriteByte('}')
	case []any:
		sb.WriteByte('[')
		for i := range x {
			if i > 0 {
				sb.WriteByte(',')
			}
			render(sb, x[i])
		}
		sb.WriteByte(']')
	case KV:
		fmt.Fprintf(sb, "%q=", x.Key)
		render(sb, x.Val)
	case F:
		fmt.Fprintf(sb, "f%x", x.Bits)
	case B:
		sb.WriteString("x'" + string(x) + "'")
	case string:
		fmt.Fprintf(sb, "%q", x)
	default:
		fmt.Fprintf(sb, "%v", x)
	}
}

// Diff returns a short description of the first difference between two trees
// ("" when equal).
func Diff(a, b any) string { return diff("", a, b) }

func diff(path string, a, b any) string {
	if reflect.DeepEqual(a, b) {
		return ""
	}
	switch x := a.(type) {
	case *Node:
		y, ok := b.(*Node)
		if !ok || x == nil || y == nil || x.Type != y.Type || len(x.Fields) != len(y.Fields) {
			return fmt.Sprintf("%s: %s != %s", path, short(a), short(b))
		}
		for i := range x.Fields {
			if x.Fields[i].Name != y.Fields[i].Name {
				return fmt.Sprintf("%s: field %s vs %s", path, x.Fields[i].Name, y.Fields[i].Name)
			}
			if d := diff(path+"."+x.Fields[i].Name, x.Fields[i].Val, y.Fields[i].Val); d != "" {
				return d
			}
		}
	case []any:
		y, ok := b.([]any)
		if !ok {
			return fmt.Sprintf("%s: %s != %s", path, short(a), short(b))
		}
		if len(x) != len(y) {
			return fmt.Sprintf("%s: len %d != %d (%s vs %s)", path, len(x), len(y), short(a), short(b))
		}
		for i := range x {
			if d := diff(fmt.Sprintf("%s[%d]", path, i), x[i], y[i]); d != "" {
				return d
			}
		}
	case KV:
		y, ok := b.(KV)
		if !ok || x.Key != y.Key {
			return fmt.Sprintf("%s: %s != %s", path, short(a), short(b))
		}
		return diff(path+"{"+x.Key+"}", x.Val, y.Val)
	}
	return fmt.Sprintf("%s: %s != %s", path, short(a), short(b))
}

func short(a any) string {
	s := String(a)
	if len(s) > 160 {
		s = s[:160] + "…"
	}
	return s
}

// SortedKeys is a helper for deterministic iteration over string-keyed maps.
func SortedKeys[V any](m map[string]V) []string {
	ks := make([]string, 0, len(m))
	for k := range m {
		ks = append(ks, k)
	}
	sort.Strings(ks)
	return ks
}
