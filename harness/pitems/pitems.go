// Package pitems flattens payloads into telemetry items with their full
// context, for conservation oracles (C04, C17, C06 …), and tags generated
// payloads with unique item ids.
package pitems

import (
	"fmt"
	"sort"
	"strings"

	"go.opentelemetry.io/collector/pdata/pcommon"
	"go.opentelemetry.io/collector/pdata/plog"
	"go.opentelemetry.io/collector/pdata/pmetric"
	"go.opentelemetry.io/collector/pdata/pprofile"
	"go.opentelemetry.io/collector/pdata/ptrace"
	"go.opentelemetry.io/collector/verifharness/pview"
)

// IDKey is the attribute that carries the unique item id.
const IDKey = "vid"

// Item is one telemetry item (log record, span, data point, sample).
type Item struct {
	ID   int64  // -1 when the item carries no id
	Body string // canonical rendering of the item itself
	Ctx  string // canonical rendering of everything the item inherits
}

func (i Item) Key() string { return fmt.Sprintf("%d|%s|%s", i.ID, i.Ctx, i.Body) }

func id(m pcommon.Map) int64 {
	v, ok := m.Get(IDKey)
	if !ok || v.Type() != pcommon.ValueTypeInt {
		return -1
	}
	return v.Int()
}

func resCtx(res pcommon.Resource, schema string) string {
	return "res=" + pview.String(pview.Of(res)) + ";rschema=" + fmt.Sprintf("%q", schema)
}

func scopeCtx(sc pcommon.InstrumentationScope, schema string) string {
	return ";scope=" + pview.String(pview.Of(sc)) + ";sschema=" + fmt.Sprintf("%q", schema)
}

// TagLogs assigns consecutive ids starting at *next.
func TagLogs(ld plog.Logs, next *int64) {
	for i := 0; i < ld.ResourceLogs().Len(); i++ {
		rl := ld.ResourceLogs().At(i)
		for j := 0; j < rl.ScopeLogs().Len(); j++ {
			sl := rl.ScopeLogs().At(j)
			for k := 0; k < sl.LogRecords().Len(); k++ {
				sl.LogRecords().At(k).Attributes().PutInt(IDKey, *next)
				*next++
			}
		}
	}
}

// Logs flattens.
func Logs(ld plog.Logs) []Item {
	var out []Item
	for i := 0; i < ld.ResourceLogs().Len(); i++ {
		rl := ld.ResourceLogs().At(i)
		rc := resCtx(rl.Resource(), rl.SchemaUrl())
		for j := 0; j < rl.ScopeLogs().Len(); j++ {
			sl := rl.ScopeLogs().At(j)
			ctx := rc + scopeCtx(sl.Scope(), sl.SchemaUrl())
			for k := 0; k < sl.LogRecords().Len(); k++ {
				lr := sl.LogRecords().At(k)
				out = append(out, Item{id(lr.Attributes()), pview.String(pview.Of(lr)), ctx})
			}
		}
	}
	return out
}

// TagTraces assigns ids.
func TagTraces(td ptrace.Traces, next *int64) {
	for i := 0; i < td.ResourceSpans().Len(); i++ {
		rs := td.ResourceSpans().At(i)
		for j := 0; j < rs.ScopeSpans().Len(); j++ {
			ss := rs.ScopeSpans().At(j)
			for k := 0; k < ss.Spans().Len(); k++ {
				ss.Spans().At(k).Attributes().PutInt(IDKey, *next)
				*next++
			}
		}
	}
}

// Traces flattens.
func Traces(td ptrace.Traces) []Item {
	var out []Item
	for i := 0; i < td.ResourceSpans().Len(); i++ {
		rs := td.ResourceSpans().At(i)
		rc := resCtx(rs.Resource(), rs.SchemaUrl())
		for j := 0; j < rs.ScopeSpans().Len(); j++ {
			ss := rs.ScopeSpans().At(j)
			ctx := rc + scopeCtx(ss.Scope(), ss.SchemaUrl())
			for k := 0; k < ss.Spans().Len(); k++ {
				sp := ss.Spans().At(k)
				out = append(out, Item{id(sp.Attributes()), pview.String(pview.Of(sp)), ctx})
			}
		}
	}
	return out
}

func forEachPointAttrs(m pmetric.Metric, f func(attrs pcommon.Map, body func() string)) {
	switch m.Type() {
	case pmetric.MetricTypeGauge:
		dps := m.Gauge().DataPoints()
		for i := 0; i < dps.Len(); i++ {
			dp := dps.At(i)
			f(dp.Attributes(), func() string { return pview.String(pview.Of(dp)) })
		}
	case pmetric.MetricTypeSum:
		dps := m.Sum().DataPoints()
		for i := 0; i < dps.Len(); i++ {
			dp := dps.At(i)
			f(dp.Attributes(), func() string { return pview.String(pview.Of(dp)) })
		}
	case pmetric.MetricTypeHistogram:
		dps := m.Histogram().DataPoints()
		for i := 0; i < dps.Len(); i++ {
			dp := dps.At(i)
			f(dp.Attributes(), func() string { return pview.String(pview.Of(dp)) })
		}
	case pmetric.MetricTypeExponentialHistogram:
		dps := m.ExponentialHistogram().DataPoints()
		for i := 0; i < dps.Len(); i++ {
			dp := dps.At(i)
			f(dp.Attributes(), func() string { return pview.String(pview.Of(dp)) })
		}
	case pmetric.MetricTypeSummary:
		dps := m.Summary().DataPoints()
		for i := 0; i < dps.Len(); i++ {
			dp := dps.At(i)
			f(dp.Attributes(), func() string { return pview.String(pview.Of(dp)) })
		}
	}
}

// MetricHeader renders the identity of a metric without its data points.
func MetricHeader(m pmetric.Metric) string {
	var sb strings.Builder
	fmt.Fprintf(&sb, ";metric{name=%q,unit=%q,desc=%q,type=%s,meta=%s", m.Name(), m.Unit(), m.Description(), m.Type(), pview.String(pview.Of(m.Metadata())))
	switch m.Type() {
	case pmetric.MetricTypeSum:
		fmt.Fprintf(&sb, ",temp=%d,mono=%v", m.Sum().AggregationTemporality(), m.Sum().IsMonotonic())
	case pmetric.MetricTypeHistogram:
		fmt.Fprintf(&sb, ",temp=%d", m.Histogram().AggregationTemporality())
	case pmetric.MetricTypeExponentialHistogram:
		fmt.Fprintf(&sb, ",temp=%d", m.ExponentialHistogram().AggregationTemporality())
	}
	sb.WriteString("}")
	return sb.String()
}

// TagMetrics assigns ids to every data point.
func TagMetrics(md pmetric.Metrics, next *int64) {
	for i := 0; i < md.ResourceMetrics().Len(); i++ {
		rm := md.ResourceMetrics().At(i)
		for j := 0; j < rm.ScopeMetrics().Len(); j++ {
			sm := rm.ScopeMetrics().At(j)
			for k := 0; k < sm.Metrics().Len(); k++ {
				forEachPointAttrs(sm.Metrics().At(k), func(a pcommon.Map, _ func() string) {
					a.PutInt(IDKey, *next)
					*next++
				})
			}
		}
	}
}

// Metrics flattens into data points.
func Metrics(md pmetric.Metrics) []Item {
	var out []Item
	for i := 0; i < md.ResourceMetrics().Len(); i++ {
		rm := md.ResourceMetrics().At(i)
		rc := resCtx(rm.Resource(), rm.SchemaUrl())
		for j := 0; j < rm.ScopeMetrics().Len(); j++ {
			sm := rm.ScopeMetrics().At(j)
			sc := rc + scopeCtx(sm.Scope(), sm.SchemaUrl())
			for k := 0; k < sm.Metrics().Len(); k++ {
				m := sm.Metrics().At(k)
				ctx := sc + MetricHeader(m)
				forEachPointAttrs(m, func(a pcommon.Map, body func() string) {
					out = append(out, Item{id(a), body(), ctx})
				})
			}
		}
	}
	return out
}

// TagProfiles assigns ids to every sample (appended to the sample's values).
func TagProfiles(pd pprofile.Profiles, next *int64) {
	for i := 0; i < pd.ResourceProfiles().Len(); i++ {
		rp := pd.ResourceProfiles().At(i)
		for j := 0; j < rp.ScopeProfiles().Len(); j++ {
			sp := rp.ScopeProfiles().At(j)
			for k := 0; k < sp.Profiles().Len(); k++ {
				ss := sp.Profiles().At(k).Sample()
				for l := 0; l < ss.Len(); l++ {
					ss.At(l).Value().FromRaw([]int64{*next})
					*next++
				}
			}
		}
	}
}

// Profiles flattens into samples; the context holds the whole owning profile
// minus its samples (a sample is meaningless without its profile's tables).
func Profiles(pd pprofile.Profiles) []Item {
	var out []Item
	for i := 0; i < pd.ResourceProfiles().Len(); i++ {
		rp := pd.ResourceProfiles().At(i)
		rc := resCtx(rp.Resource(), rp.SchemaUrl())
		for j := 0; j < rp.ScopeProfiles().Len(); j++ {
			sp := rp.ScopeProfiles().At(j)
			sc := rc + scopeCtx(sp.Scope(), sp.SchemaUrl())
			for k := 0; k < sp.Profiles().Len(); k++ {
				p := sp.Profiles().At(k)
				tree := pview.Of(p).(*pview.Node)
				hdr := &pview.Node{Type: tree.Type}
				for _, f := range tree.Fields {
					if f.Name != "Sample" {
						hdr.Fields = append(hdr.Fields, f)
					}
				}
				ctx := sc + ";profile=" + pview.String(hdr)
				ss := p.Sample()
				for l := 0; l < ss.Len(); l++ {
					s := ss.At(l)
					sid := int64(-1)
					if s.Value().Len() == 1 {
						sid = s.Value().At(0)
					}
					out = append(out, Item{sid, pview.String(pview.Of(s)), ctx})
				}
			}
		}
	}
	return out
}

// Multiset compares two item lists as multisets and describes the first
// difference ("" when equal).  It distinguishes a lost/invented item from an
// item whose body or context changed.
func Multiset(in, out []Item) string {
	count := map[string]int{}
	for _, it := range in {
		count[it.Key()]++
	}
	for _, it := range out {
		count[it.Key()]--
	}
	var bad []string
	for k, n := range count {
		if n != 0 {
			bad = append(bad, k)
		}
	}
	if len(bad) == 0 {
		return ""
	}
	sort.Strings(bad)
	// classify by id
	inByID, outByID := map[int64][]Item{}, map[int64][]Item{}
	for _, it := range in {
		inByID[it.ID] = append(inByID[it.ID], it)
	}
	for _, it := range out {
		outByID[it.ID] = append(outByID[it.ID], it)
	}
	for idv, a := range inByID {
		b := outByID[idv]
		if idv >= 0 && len(a) == 1 {
			switch {
			case len(b) == 0:
				return fmt.Sprintf("LOST item id=%d", idv)
			case len(b) > 1:
				return fmt.Sprintf("DUPLICATED item id=%d (%d copies)", idv, len(b))
			case a[0].Body != b[0].Body:
				return fmt.Sprintf("BODY of item id=%d changed: %s", idv, strDiff(a[0].Body, b[0].Body))
			case a[0].Ctx != b[0].Ctx:
				return fmt.Sprintf("CONTEXT[%s] of item id=%d changed: %s", ctxPart(a[0].Ctx, b[0].Ctx), idv, strDiff(a[0].Ctx, b[0].Ctx))
			}
		}
	}
	for idv := range outByID {
		if _, ok := inByID[idv]; !ok {
			return fmt.Sprintf("INVENTED item id=%d", idv)
		}
	}
	return fmt.Sprintf("multisets differ (in=%d out=%d): %s", len(in), len(out), trunc(bad[0], 300))
}

func trunc(s string, n int) string {
	if len(s) > n {
		return s[:n] + "…"
	}
	return s
}

func strDiff(a, b string) string {
	i := 0
	for i < len(a) && i < len(b) && a[i] == b[i] {
		i++
	}
	s := i - 60
	if s < 0 {
		s = 0
	}
	return fmt.Sprintf("at byte %d: in=…%s  out=…%s", i, trunc(a[s:], 200), trunc(b[s:], 200))
}

// ctxPart names the first context component that differs: resource,
// resource-schema, scope, scope-schema, metric-header or profile-header.
func ctxPart(a, b string) string {
	pa, pb := splitCtx(a), splitCtx(b)
	for _, k := range []string{"res", "rschema", "scope", "sschema", "metric", "profile"} {
		if pa[k] != pb[k] {
			return map[string]string{"res": "resource", "rschema": "resource-schema", "scope": "scope", "sschema": "scope-schema",
				"metric": "metric-header", "profile": "profile-header"}[k]
		}
	}
	return "other"
}

func splitCtx(c string) map[string]string {
	out := map[string]string{}
	marks := []struct{ k, m string }{{"res", "res="}, {"rschema", ";rschema="}, {"scope", ";scope="}, {"sschema", ";sschema="}, {"metric", ";metric{"}, {"profile", ";profile="}}
	pos := make([]int, len(marks))
	for i, m := range marks {
		pos[i] = strings.Index(c, m.m)
	}
	for i, m := range marks {
		if pos[i] < 0 {
			continue
		}
		end := len(c)
		for j := i + 1; j < len(marks); j++ {
			if pos[j] > pos[i] {
				end = pos[j]
				break
			}
		}
		out[m.k] = c[pos[i]:end]
	}
	return out
}

// DiffKind extracts the leading classification word of a Multiset message
// (LOST, DUPLICATED, BODY, CONTEXT[part], INVENTED, multisets).
func DiffKind(d string) string {
	if i := strings.IndexAny(d, " "); i > 0 {
		return strings.ToLower(d[:i])
	}
	return d
}

// StripMetricHeader returns a copy of items whose context no longer contains
// the metric header (used to keep checking conservation of everything else
// once a listed header-loss finding has been recorded for the case).
func StripMetricHeader(items []Item) []Item {
	out := make([]Item, len(items))
	for i, it := range items {
		if j := strings.Index(it.Ctx, ";metric{"); j >= 0 {
			it.Ctx = it.Ctx[:j]
		}
		out[i] = it
	}
	return out
}
