// Package vt is the shared runtime of every property check: it wraps
// rapid.Check, collects coverage statistics, dumps failing scripts as JSON
// replay files, recognises listed known findings, and provides watchdogs.
//
// Contract with the driver (/verif/check), all through environment variables:
//
//	VT_OUT     directory for this process' output (stats.json, fail-*.json)
//	VT_TIER    quick | thorough
//	VT_REPLAY  path of a replay file: run only that script, no generation
//	VT_KNOWN   path of KNOWN_FINDINGS.txt
//	VT_SCALE   float multiplier applied to every case budget (sharding)
package vt

import (
	"crypto/sha256"
	"encoding/hex"
	"encoding/json"
	"fmt"
	"os"
	"path/filepath"
	"runtime"
	"runtime/debug"
	"sort"
	"strconv"
	"strings"
	"sync"
	"sync/atomic"
	"testing"
	"time"

	"pgregory.net/rapid"
)

// Finding is returned by an oracle when the property is violated.
type Finding struct {
	// Sig is a structural signature: failures with the same root cause share
	// it, different root causes must not.  It is matched against the sig= field
	// of "known:" lines in KNOWN_FINDINGS.txt.
	Sig string
	// Msg describes the violation.
	Msg string
}

func (f *Finding) Error() string { return f.Sig + ": " + f.Msg }

// Failf builds a Finding.
func Failf(sig, format string, args ...any) *Finding {
	return &Finding{Sig: sig, Msg: fmt.Sprintf(format, args...)}
}

// Stats is what one check process measured.
type Stats struct {
	Property     string            `json:"property"`
	Check        string            `json:"check"`
	Tier         string            `json:"tier"`
	Seed         uint64            `json:"seed"`
	Requested    int               `json:"requested"`
	Evaluations  int64             `json:"evaluations"`
	NonTrivial   int64             `json:"nontrivial"`
	Distinct     int               `json:"distinct_nontrivial"`
	Hashes       []string          `json:"hashes,omitempty"`
	Classes      map[string]int64  `json:"classes"`
	Excluded     map[string]int64  `json:"excluded"`
	Known        map[string]int64  `json:"known"`
	KnownMsg     map[string]string `json:"known_msg"`
	Samples      []any             `json:"samples"`
	Violations   []Violation       `json:"violations"`
	Notes        []string          `json:"notes"`
	Exhaustive   bool              `json:"exhaustive"`
	Inconclusive []string          `json:"inconclusive"`
	WallS        float64           `json:"wall_s"`
}

// Violation is one unlisted failure.
type Violation struct {
	Sig    string `json:"sig"`
	Msg    string `json:"msg"`
	Replay string `json:"replay"`
}

// C is the per-check collector.
type C struct {
	mu       sync.Mutex
	st       Stats
	hashes   map[string]struct{}
	known    map[string]bool
	start    time.Time
	out      string
	failN    int
	maxHash  int
	sampleN  int
	lastFail *Finding
	// ReplayRepeat: how many times a replayed script is executed before it is
	// declared passing (for checks whose outcome depends on goroutine scheduling).
	ReplayRepeat int
}

var (
	regMu sync.Mutex
	reg   []*C
)

// Tier returns quick or thorough.
func Tier() string {
	if t := os.Getenv("VT_TIER"); t != "" {
		return t
	}
	return "quick"
}

// Thorough reports whether the thorough tier is running.
func Thorough() bool { return Tier() == "thorough" }

// N picks the case budget for the tier, scaled by VT_SCALE.
func N(quick, thorough int) int {
	n := quick
	if Thorough() {
		n = thorough
	}
	if s := os.Getenv("VT_SCALE"); s != "" {
		if f, err := strconv.ParseFloat(s, 64); err == nil && f > 0 {
			n = int(float64(n) * f)
		}
	}
	if n < 1 {
		n = 1
	}
	return n
}

// Seed returns the rapid seed in use (never 0).
func Seed() uint64 {
	if s := os.Getenv("VT_SEED"); s != "" {
		if v, err := strconv.ParseUint(s, 10, 64); err == nil && v != 0 {
			return v
		}
	}
	return 1
}

// New creates the collector for one named check of one property.
func New(property, check string) *C {
	c := &C{hashes: map[string]struct{}{}, known: loadKnown(property), start: time.Now(), out: os.Getenv("VT_OUT"), maxHash: 2_000_000}
	c.st = Stats{Property: property, Check: check, Tier: Tier(), Seed: Seed(),
		Classes: map[string]int64{}, Excluded: map[string]int64{}, Known: map[string]int64{}, KnownMsg: map[string]string{}}
	regMu.Lock()
	reg = append(reg, c)
	regMu.Unlock()
	return c
}

func loadKnown(property string) map[string]bool {
	m := map[string]bool{}
	p := os.Getenv("VT_KNOWN")
	if p == "" {
		p = "/verif/KNOWN_FINDINGS.txt"
	}
	b, err := os.ReadFile(p)
	if err != nil {
		return m
	}
	for _, ln := range strings.Split(string(b), "\n") {
		ln = strings.TrimSpace(ln)
		if !strings.HasPrefix(ln, "known:") {
			continue
		}
		var prop, sig string
		for _, f := range strings.Fields(ln) {
			if strings.HasPrefix(f, "property=") {
				prop = strings.TrimPrefix(f, "property=")
			}
			if strings.HasPrefix(f, "sig=") {
				sig = strings.TrimPrefix(f, "sig=")
			}
		}
		if prop == property && sig != "" {
			m[sig] = true
		}
	}
	return m
}

// IsKnown tells whether sig is a listed finding.
func (c *C) IsKnown(sig string) bool { return c.known[sig] }

// Class counts a class label.
func (c *C) Class(labels ...string) {
	c.mu.Lock()
	for _, l := range labels {
		c.st.Classes[l]++
	}
	c.mu.Unlock()
}

// ClassN adds n to a class label.
func (c *C) ClassN(label string, n int64) {
	c.mu.Lock()
	c.st.Classes[label] += n
	c.mu.Unlock()
}

// Exclude counts a case shape excluded by construction.
func (c *C) Exclude(label string) {
	c.mu.Lock()
	c.st.Excluded[label]++
	c.mu.Unlock()
}

// Eval counts one evaluated case; nontrivial with its canonical hash key.
func (c *C) Eval(nontrivial bool, key string) {
	c.mu.Lock()
	c.st.Evaluations++
	if nontrivial {
		c.st.NonTrivial++
		if len(c.hashes) < c.maxHash {
			h := sha256.Sum256([]byte(key))
			c.hashes[hex.EncodeToString(h[:8])] = struct{}{}
		}
	}
	c.mu.Unlock()
}

// Sample keeps up to 6 samples, spread: the 1st, then every time the count of
// offered samples doubles.
func (c *C) Sample(v any) {
	c.mu.Lock()
	defer c.mu.Unlock()
	c.sampleN++
	n := c.sampleN
	if n&(n-1) != 0 { // keep powers of two only
		return
	}
	b, err := json.Marshal(v)
	if err != nil {
		return
	}
	if len(b) > 4000 {
		b, _ = json.Marshal(string(b[:4000]) + "…(truncated)")
	}
	var raw any = json.RawMessage(b)
	if len(c.st.Samples) < 6 {
		c.st.Samples = append(c.st.Samples, raw)
	} else {
		c.st.Samples[2+(n%4)] = raw
	}
}

// Note appends a free-text note.
func (c *C) Note(format string, args ...any) {
	c.mu.Lock()
	c.st.Notes = append(c.st.Notes, fmt.Sprintf(format, args...))
	c.mu.Unlock()
}

// SetExhaustive marks the enumeration as complete.
func (c *C) SetExhaustive(b bool) { c.mu.Lock(); c.st.Exhaustive = b; c.mu.Unlock() }

// Inconclusive records a harness-side problem (exit 2 material).
func (c *C) Inconclusive(format string, args ...any) {
	c.mu.Lock()
	c.st.Inconclusive = append(c.st.Inconclusive, fmt.Sprintf(format, args...))
	c.mu.Unlock()
	c.Flush()
}

// Report handles an oracle verdict for a script.  It returns true when the
// failure is an unlisted violation (the caller should then fail the rapid
// case so that shrinking starts); listed findings are recorded and false is
// returned so that the search continues.
func (c *C) Report(f *Finding, script any) bool {
	if f == nil {
		return false
	}
	c.mu.Lock()
	if c.known[f.Sig] {
		c.st.Known[f.Sig]++
		if _, ok := c.st.KnownMsg[f.Sig]; !ok {
			c.st.KnownMsg[f.Sig] = f.Msg
		}
		c.mu.Unlock()
		return false
	}
	c.mu.Unlock()
	c.dump(f, script)
	return true
}

// dump writes the failing script: fail-<check>-first.json once, and
// fail-<check>-last.json on every failure (rapid re-runs the minimal case
// last, so "last" ends up being the shrunk one).
func (c *C) dump(f *Finding, script any) {
	if c.out == "" {
		return
	}
	c.mu.Lock()
	defer c.mu.Unlock()
	c.failN++
	env := map[string]any{"property": c.st.Property, "check": c.st.Check, "sig": f.Sig, "msg": f.Msg, "script": script}
	b, err := json.MarshalIndent(env, "", " ")
	if err != nil {
		b, _ = json.Marshal(map[string]any{"property": c.st.Property, "check": c.st.Check, "sig": f.Sig, "msg": f.Msg, "script_error": err.Error()})
	}
	if c.failN == 1 {
		_ = os.WriteFile(filepath.Join(c.out, "fail-"+c.st.Check+"-first.json"), b, 0o644)
	}
	_ = os.WriteFile(filepath.Join(c.out, "fail-"+c.st.Check+"-last.json"), b, 0o644)
}

// Violation records an unlisted violation directly (used by loops that are
// not driven by rapid, e.g. exhaustive enumerations and replay).
func (c *C) Violation(f *Finding, script any) {
	c.dump(f, script)
	c.mu.Lock()
	c.st.Violations = append(c.st.Violations, Violation{Sig: f.Sig, Msg: f.Msg, Replay: filepath.Join(c.out, "fail-"+c.st.Check+"-last.json")})
	c.mu.Unlock()
	c.Flush()
}

// Flush writes stats-<check>.json.
func (c *C) Flush() {
	if c.out == "" {
		return
	}
	c.mu.Lock()
	c.st.Distinct = len(c.hashes)
	c.st.WallS = time.Since(c.start).Seconds()
	st := c.st
	if os.Getenv("VT_HASHES") != "" {
		st.Hashes = make([]string, 0, len(c.hashes))
		for h := range c.hashes {
			st.Hashes = append(st.Hashes, h)
		}
		sort.Strings(st.Hashes)
	}
	b, _ := json.MarshalIndent(&st, "", " ")
	c.mu.Unlock()
	tmp := filepath.Join(c.out, "stats-"+st.Check+".json.tmp")
	_ = os.WriteFile(tmp, b, 0o644)
	_ = os.Rename(tmp, filepath.Join(c.out, "stats-"+st.Check+".json"))
}

// ReplayPath returns the replay file to run, if the process was started in
// replay mode for this check.
func ReplayPath() string { return os.Getenv("VT_REPLAY") }

// LoadReplay decodes a replay file's script into v and returns the check name.
func LoadReplay(path string, v any) (check string, err error) {
	b, err := os.ReadFile(path)
	if err != nil {
		return "", err
	}
	var env struct {
		Check  string          `json:"check"`
		Script json.RawMessage `json:"script"`
	}
	if err := json.Unmarshal(b, &env); err != nil {
		return "", err
	}
	if err := json.Unmarshal(env.Script, v); err != nil {
		return env.Check, err
	}
	return env.Check, nil
}

// ReplayCheck peeks at the check name of the replay file.
func ReplayCheck() string {
	p := ReplayPath()
	if p == "" {
		return ""
	}
	b, err := os.ReadFile(p)
	if err != nil {
		return ""
	}
	var env struct {
		Check string `json:"check"`
	}
	_ = json.Unmarshal(b, &env)
	return env.Check
}

// Run is the standard shape of a generated check.
//
//	gen    draws a script (plain data, JSON-serialisable)
//	run    executes it against the real code and evaluates the oracle; it
//	       returns (nontrivial, canonical key, finding)
//
// In replay mode gen is bypassed: the script is loaded from the replay file.
func Run[S any](t *testing.T, c *C, checks int, gen func(*rapid.T) S, run func(S) (bool, string, *Finding)) {
	t.Helper()
	defer c.Flush()
	if p := ReplayPath(); p != "" {
		if rc := ReplayCheck(); rc != c.st.Check {
			t.Skipf("replay file is for check %q", rc)
		}
		var s S
		if _, err := LoadReplay(p, &s); err != nil {
			c.Inconclusive("cannot load replay %s: %v", p, err)
			t.Fatalf("cannot load replay: %v", err)
		}
		nt, key, f := run(s)
		for i := 1; i < c.ReplayRepeat && f == nil; i++ { // schedule-dependent checks: try the script several times
			nt, key, f = run(s)
		}
		c.Eval(nt, key)
		if f != nil {
			if c.known[f.Sig] {
				c.Report(f, s)
				return
			}
			c.Violation(f, s)
			t.Fatalf("replay fails: %v", f)
		}
		return
	}
	c.mu.Lock()
	c.st.Requested += checks
	c.mu.Unlock()
	var last atomic.Value
	rapidCheck(t, c.st.Check, checks, func(rt *rapid.T) {
		s := gen(rt)
		nt, key, f := run(s)
		c.Eval(nt, key)
		if nt {
			c.Sample(s)
		}
		if c.Report(f, s) {
			last.Store(f)
			rt.Fatalf("%v", f)
		}
	})
	if v := last.Load(); v != nil {
		f := v.(*Finding)
		c.mu.Lock()
		c.st.Violations = append(c.st.Violations, Violation{Sig: f.Sig, Msg: f.Msg, Replay: filepath.Join(c.out, "fail-"+c.st.Check+"-last.json")})
		c.mu.Unlock()
	}
}

// rapidCheck runs rapid.Check with an explicit number of checks by running it
// in a sub-test whose flags we control through the -rapid.* command line (the
// driver passes -rapid.checks=1 as base; we loop ourselves so that a single
// process can host several checks with different budgets).
func rapidCheck(t *testing.T, check string, checks int, prop func(*rapid.T)) {
	t.Helper()
	setRapidSeed(check)
	setRapidChecks(checks)
	rapid.Check(t, prop)
}

var (
	curMu sync.Mutex
	cur   struct {
		c      *C
		script any
		sig    string
	}
)

// dumpCurrent records the script running under a HangGuard as a failure (used
// when the heap guard trips: runaway allocation is how non-termination shows
// first for code that builds data while it spins).
func dumpCurrent(why string) {
	curMu.Lock()
	c, script, sig := cur.c, cur.script, cur.sig
	curMu.Unlock()
	if c == nil {
		return
	}
	f := Failf(sig, "%s", why)
	if c.IsKnown(sig) {
		c.Report(f, script)
		return
	}
	c.dump(f, script)
	c.mu.Lock()
	c.st.Violations = append(c.st.Violations, Violation{Sig: f.Sig, Msg: f.Msg})
	c.mu.Unlock()
}

// HeapGuard starts a goroutine that aborts the process (exit 3, after calling
// onTrip) when the Go heap exceeds limit bytes.
func HeapGuard(limit uint64, onTrip func()) {
	go func() {
		var ms runtime.MemStats
		for {
			time.Sleep(200 * time.Millisecond)
			runtime.ReadMemStats(&ms)
			if ms.HeapAlloc > limit {
				dumpCurrent(fmt.Sprintf("runaway memory use (heap %d MiB) while the case was running", ms.HeapAlloc>>20))
				if onTrip != nil {
					onTrip()
				}
				fmt.Fprintf(os.Stderr, "vt: heap guard tripped (%d MiB)\n", ms.HeapAlloc>>20)
				os.Exit(3)
			}
		}
	}()
}

// WithWatchdog runs fn; if it does not return within d, onTrip is called with
// a goroutine dump and ok=false is returned (fn keeps running in its
// goroutine; callers that cannot tolerate that must exit the process).
func WithWatchdog(d time.Duration, fn func()) (ok bool, stacks string) {
	done := make(chan struct{})
	go func() {
		defer close(done)
		fn()
	}()
	select {
	case <-done:
		return true, ""
	case <-time.After(d):
		buf := make([]byte, 1<<20)
		n := runtime.Stack(buf, true)
		return false, string(buf[:n])
	}
}

// Recover runs fn and converts a panic into (value, stack).
func Recover(fn func()) (p any, stack string) {
	defer func() {
		if r := recover(); r != nil {
			p = r
			stack = string(debug.Stack())
		}
	}()
	fn()
	return nil, ""
}

// FlushAll flushes every collector (used from TestMain).
func FlushAll() {
	regMu.Lock()
	cs := append([]*C(nil), reg...)
	regMu.Unlock()
	for _, c := range cs {
		c.Flush()
	}
}

// Main is the TestMain body shared by all property packages.
func Main(m *testing.M) {
	limit := uint64(6 << 30)
	if os.Getenv("VT_CHILD") != "" {
		limit = 2 << 30
	}
	HeapGuard(limit, FlushAll)
	code := m.Run()
	FlushAll()
	os.Exit(code)
}

// HangGuard runs fn; if it does not return within d the script is dumped as a
// failure with signature sig and the process exits with status 4 (the runaway
// goroutine cannot be stopped any other way).  The driver then confirms the
// hang by replaying the dump in a fresh process.
func (c *C) HangGuard(d time.Duration, script any, sig string, fn func()) {
	curMu.Lock()
	cur.c, cur.script, cur.sig = c, script, sig
	curMu.Unlock()
	defer func() {
		curMu.Lock()
		cur.c = nil
		curMu.Unlock()
	}()
	ok, stacks := WithWatchdog(d, fn)
	if ok {
		return
	}
	f := Failf(sig, "no return after %v", d)
	if c.IsKnown(sig) {
		// a listed non-terminating shape reached the main pass: the process is lost, but it is not a violation
		c.Report(f, script)
		c.Inconclusive("listed non-terminating shape %s reached the in-process pass (should be excluded by construction)", sig)
	} else {
		c.dump(f, script)
		c.mu.Lock()
		c.st.Violations = append(c.st.Violations, Violation{Sig: f.Sig, Msg: f.Msg})
		c.mu.Unlock()
	}
	FlushAll()
	if c.out != "" {
		_ = os.WriteFile(filepath.Join(c.out, "hang-stacks.txt"), []byte(stacks), 0o644)
	}
	os.Exit(4)
}

// Child re-executes the test binary in replay mode on script (in a child
// process, under a wall-clock limit) and returns what happened: the finding
// the child reported (nil when it passed), or hung=true when it had to be
// killed.
func (c *C) Child(testName string, script any, limit time.Duration) (f *Finding, hung bool, err error) {
	dir, err := os.MkdirTemp(c.out, "child-")
	if err != nil {
		return nil, false, err
	}
	defer os.RemoveAll(dir)
	env := map[string]any{"property": c.st.Property, "check": c.st.Check, "script": script}
	b, err := json.Marshal(env)
	if err != nil {
		return nil, false, err
	}
	rp := filepath.Join(dir, "probe.json")
	if err := os.WriteFile(rp, b, 0o644); err != nil {
		return nil, false, err
	}
	cmd := execCommand(os.Args[0], "-test.run", "^"+testName+"$", "-test.count=1", "-test.timeout", "600s")
	cmd.Dir = dir
	cmd.Env = append(os.Environ(), "VT_REPLAY="+rp, "VT_OUT="+dir, "VT_KNOWN=/dev/null", "VT_CHILD=1")
	out, rc, timedOut := runLimited(cmd, limit)
	if timedOut {
		return nil, true, nil
	}
	if rc == 0 {
		return nil, false, nil
	}
	if rc == 3 || rc == 4 { // heap guard / in-process hang guard of the child
		return nil, true, nil
	}
	fb, rerr := os.ReadFile(filepath.Join(dir, "fail-"+c.st.Check+"-last.json"))
	if rerr != nil {
		return nil, false, fmt.Errorf("child exited %d without a fail file: %s", rc, tailStr(out, 1500))
	}
	var fe struct{ Sig, Msg string }
	if jerr := json.Unmarshal(fb, &fe); jerr != nil {
		return nil, false, jerr
	}
	return &Finding{Sig: fe.Sig, Msg: fe.Msg}, false, nil
}

func tailStr(s string, n int) string {
	if len(s) > n {
		return s[len(s)-n:]
	}
	return s
}

// IsChild reports whether this process is a probe child.
func IsChild() bool { return os.Getenv("VT_CHILD") != "" }

// Check runs a free-form rapid property under this collector: prop does its
// own Eval/Sample bookkeeping and reports failures through c.Fail.
func (c *C) Check(t *testing.T, n int, prop func(rt *rapid.T)) {
	t.Helper()
	defer c.Flush()
	c.mu.Lock()
	c.st.Requested += n
	c.lastFail = nil
	c.mu.Unlock()
	rapidCheck(t, c.st.Check, n, prop)
	c.mu.Lock()
	if f := c.lastFail; f != nil {
		c.st.Violations = append(c.st.Violations, Violation{Sig: f.Sig, Msg: f.Msg, Replay: filepath.Join(c.out, "fail-"+c.st.Check+"-last.json")})
	}
	c.mu.Unlock()
}

// Fail reports f for script; a listed finding is recorded and the case
// continues, anything else fails the rapid case (so that shrinking starts).
func (c *C) Fail(rt *rapid.T, f *Finding, script any) {
	if f == nil {
		return
	}
	if c.Report(f, script) {
		c.mu.Lock()
		c.lastFail = f
		c.mu.Unlock()
		rt.Fatalf("%v", f)
	}
}

// Soft records f when it is a listed finding and returns true (the caller
// keeps evaluating the rest of its oracle); for anything else it returns false
// and the caller must return f.
func (c *C) Soft(f *Finding, script any) bool {
	if f == nil {
		return true
	}
	if c.IsKnown(f.Sig) {
		c.Report(f, script)
		return true
	}
	return false
}
