package c16

import (
	"bytes"
	"context"
	"crypto/sha256"
	"encoding/hex"
	"fmt"
	"io"
	"net/http"
	"strings"
	"sync"
	"testing"
	"time"

	"pgregory.net/rapid"

	"go.opentelemetry.io/collector/verifharness/vt"
)

// CScript is a history on ONE server instance: Warm requests are sent one
// after the other, then every burst sends its requests concurrently.  State
// that a request leaves behind in the middleware (pooled readers/writers,
// connections) meets overlapping requests here.
type CScript struct {
	Limit  int64
	Warm   []CReq
	Bursts [][]CReq
}

// CReq is one request of a history.  Its body is "c16-req-<k>|" + Body, k
// being its position in the script, so that every body of a script is unique
// and names its owner.
type CReq struct {
	Comp    string
	Level   int
	Body    BodySpec
	Handler string // "" (read all, never close) | read-close | read-close-twice | partial-close
	ReadBuf int
	Chunked bool `json:",omitempty"`
}

var (
	concFocus    = []string{"snappy", "zstd", "gzip", "lz4", "zlib", "deflate", "mixed", "mixed", "mixed", ""}
	concHandlers = []string{"read-close", "", "read-close-twice", "partial-close"}
	concComps    = []string{"snappy", "zstd", "gzip", "lz4", "zlib", "deflate", "", "none"}
)

func genCReq(t *rapid.T, focus, hfocus string) CReq {
	r := CReq{Comp: focus, Handler: hfocus}
	if focus == "mixed" {
		r.Comp = rapid.SampledFrom(concComps).Draw(t, "comp")
	}
	if hfocus == "mixed" {
		r.Handler = rapid.SampledFrom(concHandlers).Draw(t, "handler")
	}
	switch r.Comp {
	case "gzip", "zlib", "deflate":
		r.Level = rapid.SampledFrom([]int{0, 1, 9, -2, 6}).Draw(t, "level")
	case "zstd":
		r.Level = rapid.SampledFrom([]int{0, 1, 6, 11}).Draw(t, "level")
	}
	r.Body.Kind = rapid.SampledFrom([]string{"mixed", "mixed", "periodic", "random", "zeros", "literal"}).Draw(t, "kind")
	switch r.Body.Kind {
	case "literal":
		r.Body.Lit = rapid.SliceOfN(rapid.Byte(), 0, 100).Draw(t, "lit")
	default:
		switch c := rapid.IntRange(0, 9).Draw(t, "sizeClass"); {
		case c < 3:
			r.Body.Size = rapid.IntRange(4096, 70_000).Draw(t, "sizeMid")
		case c < 5:
			r.Body.Size = rapid.SampledFrom([]int{65536, 65537, 65535, 131072, 131073, 4096, 4097}).Draw(t, "sizeBlock")
		case c < 7:
			r.Body.Size = rapid.IntRange(70_001, 300_000).Draw(t, "sizeBig")
		case c < 9:
			r.Body.Size = rapid.IntRange(65, 4095).Draw(t, "sizeSmall")
		default:
			r.Body.Size = rapid.IntRange(1, 64).Draw(t, "sizeTiny")
		}
		if r.Body.Kind != "zeros" {
			r.Body.Seed = rapid.Uint64().Draw(t, "seed")
		}
		if r.Body.Kind == "periodic" {
			r.Body.Period = rapid.SampledFrom(periods).Draw(t, "period")
		}
	}
	r.ReadBuf = rapid.SampledFrom([]int{512, 4096, 32768, 7, 65536}).Draw(t, "readBuf")
	if r.ReadBuf < 512 && r.Body.Len() > 16<<10 {
		r.ReadBuf = 512
	}
	r.Chunked = rapid.IntRange(0, 5).Draw(t, "chunked") == 0
	return r
}

func genConc(t *rapid.T) CScript {
	s := CScript{Limit: rapid.SampledFrom([]int64{0, 0, 1 << 20, 0, 65536, 4096}).Draw(t, "limit")}
	focus := rapid.SampledFrom(concFocus).Draw(t, "focus")
	hfocus := rapid.SampledFrom([]string{"read-close", "mixed", "mixed", "", "read-close-twice", "partial-close"}).Draw(t, "handlerFocus")
	for i, n := 0, rapid.IntRange(0, 4).Draw(t, "nwarm"); i < n; i++ {
		s.Warm = append(s.Warm, genCReq(t, focus, hfocus))
	}
	for i, n := 0, rapid.SampledFrom([]int{2, 1, 3}).Draw(t, "nbursts"); i < n; i++ {
		var b []CReq
		for j, m := 0, rapid.SampledFrom([]int{2, 3, 4, 6, 8, 12}).Draw(t, "burst"); j < m; j++ {
			b = append(b, genCReq(t, focus, hfocus))
		}
		s.Bursts = append(s.Bursts, b)
	}
	return s
}

func (s *CScript) effLimit() int64 {
	if s.Limit <= 0 {
		return defaultMaxBytes
	}
	return s.Limit
}

// cOut is what was observed for one request of a history.
type cOut struct {
	k         int // position in the script
	req       *CReq
	id        string
	plain     []byte
	wireLen   int64
	wireKnown bool
	wireCE    []string
	status    int
	respBody  string
	clientErr error
	panicked  string
	rec       *record
}

func concPlain(k int, r *CReq) []byte {
	return append([]byte(fmt.Sprintf("c16-req-%03d|", k)), r.Body.Bytes()...)
}

func sendConc(srv *server, s *CScript, o *cOut, g *gate, start <-chan struct{}) error {
	r := o.req
	cl, err := cache.client(r.Comp, r.Level)
	if err != nil {
		return fmt.Errorf("client %q/%d: %w", r.Comp, r.Level, err)
	}
	o.id = nextID()
	rec := &record{readBuf: r.ReadBuf, limit: s.effLimit(), keep: len(o.plain) + 64, done: make(chan struct{}), mode: r.Handler, gate: g}
	o.rec = rec
	srv.recs.Store(o.id, rec)
	defer srv.recs.Delete(o.id)
	var body io.Reader = bytes.NewReader(o.plain)
	if r.Chunked {
		body = chunkedBody{bytes.NewReader(o.plain)}
	}
	wc := &wireCap{}
	req, err := http.NewRequestWithContext(context.WithValue(bgCtx, capKey{}, wc), http.MethodPost, srv.url, body)
	if err != nil {
		return err
	}
	req.Header.Set(hdrID, o.id)
	req.Header.Set("Content-Type", "application/octet-stream")
	if start != nil {
		<-start
	}
	var resp *http.Response
	if p, _ := vt.Recover(func() { resp, err = cl.c.Do(req) }); p != nil {
		o.panicked = fmt.Sprint(p)
		err = fmt.Errorf("client panicked: %v", p)
	}
	if err != nil {
		o.clientErr = err
	} else {
		o.status = resp.StatusCode
		b, _ := io.ReadAll(io.LimitReader(resp.Body, 4096))
		_, _ = io.Copy(io.Discard, resp.Body)
		_ = resp.Body.Close()
		o.respBody = string(b)
	}
	if wc.got > 0 {
		o.wireCE = wc.ce
		switch {
		case wc.have:
			o.wireLen, o.wireKnown = int64(len(wc.body)), true
		case len(wc.ce) == 0:
			o.wireLen, o.wireKnown = int64(len(o.plain)), true
		}
	}
	entered := func() bool { rec.mu.Lock(); defer rec.mu.Unlock(); return rec.entered > 0 }
	if !entered() && err != nil && wc.got > 0 {
		for i := 0; i < 50 && !entered(); i++ {
			time.Sleep(10 * time.Millisecond)
		}
	}
	if entered() {
		<-rec.done
	}
	rec.arrive(false) // never got to the server: do not keep the rest of the burst waiting
	return nil
}

var cConc = vt.New("C16", "concurrent-roundtrip")

func init() { cConc.ReplayRepeat = 25 }

func runConc(s CScript) (nontrivial bool, key string, f *vt.Finding) {
	key = func() string {
		h := sha256.New()
		fmt.Fprintf(h, "%d|", s.Limit)
		for _, r := range s.Warm {
			fmt.Fprintf(h, "w%+v", r)
		}
		for _, b := range s.Bursts {
			fmt.Fprintf(h, "|b")
			for _, r := range b {
				fmt.Fprintf(h, "%+v", r)
			}
		}
		return string(h.Sum(nil))
	}()
	cConc.HangGuard(120*time.Second, s, "hang/concurrent-http-roundtrip", func() {
		nontrivial, f = runConcInner(&s)
	})
	return nontrivial, key, f
}

func runConcInner(s *CScript) (nontrivial bool, f *vt.Finding) {
	srv, err := cache.server(s.Limit, true, nil)
	if err != nil {
		cConc.Inconclusive("cannot build server: %v", err)
		return false, nil
	}
	used := map[*client]bool{}
	defer func() {
		for cl := range used {
			cl.obs.closeIdle()
		}
	}()
	note := func(r *CReq) error {
		cl, err := cache.client(r.Comp, r.Level)
		if err == nil {
			used[cl] = true
		}
		return err
	}
	k := 0
	var all []*cOut
	var labels []string
	// sequential warm-up
	for i := range s.Warm {
		r := &s.Warm[i]
		if err := note(r); err != nil {
			cConc.Inconclusive("cannot build client: %v", err)
			return false, nil
		}
		o := &cOut{k: k, req: r, plain: concPlain(k, r)}
		k++
		if err := sendConc(srv, s, o, nil, nil); err != nil {
			cConc.Inconclusive("harness: %v", err)
			return false, nil
		}
		all = append(all, o)
	}
	overlapped := 0
	for bi := range s.Bursts {
		b := s.Bursts[bi]
		g := newGate(len(b))
		start := make(chan struct{})
		outs := make([]*cOut, len(b))
		errs := make([]error, len(b))
		var wg sync.WaitGroup
		for i := range b {
			if err := note(&b[i]); err != nil {
				cConc.Inconclusive("cannot build client: %v", err)
				return false, nil
			}
			outs[i] = &cOut{k: k, req: &b[i], plain: concPlain(k, &b[i])}
			k++
		}
		for i := range b {
			wg.Add(1)
			go func(i int) {
				defer wg.Done()
				errs[i] = sendConc(srv, s, outs[i], g, start)
			}(i)
		}
		close(start)
		wg.Wait()
		for _, e := range errs {
			if e != nil {
				cConc.Inconclusive("harness: %v", e)
				return false, nil
			}
		}
		g.mu.Lock()
		full := g.timedOut == 0
		g.mu.Unlock()
		if full {
			overlapped++
			labels = append(labels, fmt.Sprintf("burst/n=%d/all-handlers-overlapped", len(b)))
			nc := 0
			for _, o := range outs {
				if o.req.Comp != "" && o.req.Comp != "none" {
					nc++
				}
			}
			if nc >= 2 {
				nontrivial = true
			}
		} else {
			labels = append(labels, fmt.Sprintf("burst/n=%d/gate-timed-out", len(b)))
		}
		all = append(all, outs...)
	}
	for _, o := range all {
		if o.clientErr != nil && isDialError(o.clientErr) {
			cConc.Inconclusive("harness: dial failed: %v", o.clientErr)
			return false, nil
		}
	}
	for _, o := range all {
		ls, ff := evalConc(s, o, all)
		labels = append(labels, ls...)
		if ff != nil {
			return nontrivial, ff
		}
	}
	labels = append(labels, fmt.Sprintf("warm=%d", len(s.Warm)), fmt.Sprintf("bursts=%d", len(s.Bursts)))
	cConc.Class(labels...)
	return nontrivial, nil
}

// owner tells which request of the script the bytes belong to (by their tag).
func owner(data []byte, all []*cOut) string {
	for _, o := range all {
		if len(data) > 0 && bytes.HasPrefix(o.plain, data) {
			return fmt.Sprintf("a prefix of request %d's body", o.k)
		}
	}
	if i := bytes.Index(data, []byte("c16-req-")); i >= 0 && i+11 <= len(data) {
		return fmt.Sprintf("a mix carrying the tag of request %s at offset %d", data[i+8:i+11], i)
	}
	return "not a prefix of any request's body"
}

// evalConc: every handler invocation sees its own client's bytes and nothing
// else, and every response is the one its own handler wrote.
func evalConc(s *CScript, o *cOut, all []*cOut) (labels []string, f *vt.Finding) {
	L := s.effLimit()
	r := o.req
	rec := o.rec
	rec.mu.Lock()
	defer rec.mu.Unlock()
	P := o.plain
	algo := r.Comp
	if algo == "" || algo == "none" {
		algo = "identity"
	}
	phase := "burst"
	if rec.gate == nil {
		phase = "warm-up"
	}
	desc := func() string {
		return fmt.Sprintf("request %d (%s) limit=%d client=%q/%d handler=%q body=%s chunked=%v readbuf=%d | wire=%d plain=%d wireCE=%q | status=%d resp=%q clientErr=%v | entered=%d ran=%d read=%d(+%d) readErr=%q sum=%s panic=%q",
			o.k, phase, s.Limit, r.Comp, r.Level, r.Handler, r.Body, r.Chunked, r.ReadBuf, o.wireLen, len(P), o.wireCE, o.status, o.respBody, o.clientErr,
			rec.entered, rec.ran, rec.n, rec.extra, rec.readErr, rec.sum, rec.chainPanic)
	}
	hl := r.Handler
	if hl == "" {
		hl = "read"
	}
	labels = append(labels, phase+"/enc="+algo, phase+"/handler="+hl, "size="+sizeBucket(len(P)))
	if o.panicked != "" {
		return labels, vt.Failf("concurrent/client-panic/"+algo, "the client panicked: %s: %s", o.panicked, desc())
	}
	if got := rec.n + rec.extra; got > L {
		return labels, vt.Failf("concurrent/limit-exceeded/"+algo, "handler obtained %d bytes > max_request_body_size %d: %s", got, L, desc())
	}
	if rec.entered > 1 || rec.ran > 1 {
		labels = append(labels, "out=request-seen-twice")
		return labels, nil
	}
	if rec.ran > 0 {
		if !bytes.HasPrefix(P, rec.data) {
			return labels, vt.Failf("concurrent/roundtrip-mismatch/"+algo, "handler bytes are not the bytes its client sent (first difference at %d; what it read is %s): %s", firstDiff(P, rec.data), owner(rec.data, all), desc())
		}
		if rec.readErr == "" && rec.n != int64(len(P)) {
			return labels, vt.Failf("concurrent/silent-truncation/"+algo, "handler saw a clean EOF after %d of %d bytes: %s", rec.n, len(P), desc())
		}
	}
	// the response the client got is the one its own handler wrote
	if o.status == http.StatusOK {
		fs := strings.Fields(o.respBody)
		sum := sha256.Sum256(P[:min64(rec.n, int64(len(P)))])
		want := fmt.Sprintf("%s %d %s", o.id, rec.n, hex.EncodeToString(sum[:8]))
		if len(fs) != 4 || strings.Join(fs[1:], " ") != want || rec.ran == 0 {
			return labels, vt.Failf("concurrent/response-mismatch/"+algo, "the client got a response that is not its handler's (want \"ok|partial %s\"): %s", want, desc())
		}
	}
	if !o.wireKnown || int64(len(P)) > L || o.wireLen > L {
		labels = append(labels, "out=over-limit-or-unsent/capped")
		if !o.wireKnown && o.clientErr != nil && int64(len(P)) <= L {
			return labels, vt.Failf("concurrent/roundtrip-refused/"+algo, "the client could not send a body within the limit: %s", desc())
		}
		return labels, nil
	}
	// plain and wire within the limit
	if rec.ran == 0 {
		return labels, vt.Failf("concurrent/roundtrip-refused/"+algo, "body within the limit did not reach the handler: %s", desc())
	}
	if r.Handler == "partial-close" && rec.partial {
		labels = append(labels, "out=partial-prefix/"+algo)
		return labels, nil // the response is not guaranteed when the handler abandons the body
	}
	if rec.readErr != "" || rec.n != int64(len(P)) {
		return labels, vt.Failf("concurrent/roundtrip-refused/"+algo, "handler read %d of %d bytes (err %q): %s", rec.n, len(P), rec.readErr, desc())
	}
	if o.clientErr != nil || o.status != http.StatusOK {
		return labels, vt.Failf("concurrent/roundtrip-refused/"+algo, "handler read everything but the client got no 200: %s", desc())
	}
	labels = append(labels, "out=exact/"+algo)
	return labels, nil
}

func min64(a, b int64) int64 {
	if a < b {
		return a
	}
	return b
}

func TestConcurrentRoundTrip(t *testing.T) {
	vt.Run(t, cConc, vt.N(1600, 48000), genConc, runConc)
}
