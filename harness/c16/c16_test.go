package c16

import (
	"bytes"
	"compress/gzip"
	"context"
	"crypto/sha256"
	"encoding/json"
	"fmt"
	"io"
	"math"
	"net/http"
	"strings"
	"testing"
	"time"

	"pgregory.net/rapid"

	"go.opentelemetry.io/collector/verifharness/vt"
)

func TestMain(m *testing.M) { vt.Main(m) }

// Script is one server configuration and a short sequence of requests sent to
// it over one keep-alive connection.
type Script struct {
	// Limit is ServerConfig.MaxRequestBodySize as configured (<= 0: default, 20 MiB).
	Limit int64
	// DefaultEnabled leaves ServerConfig.CompressionAlgorithms nil (default list);
	// otherwise Enabled is configured verbatim (possibly empty).
	DefaultEnabled bool
	Enabled        []string
	Reqs           []Req
}

// Req is one request.
type Req struct {
	// Comp/Level: ClientConfig.Compression / CompressionParams.Level of the client
	// (from ClientConfig.ToClient) that sends the request.
	Comp  string
	Level int
	// Header != "": a hand-made request.  The Content-Encoding header is set by
	// the caller, the body is pre-encoded by the harness in Format (reference
	// libraries) and optionally damaged; Comp is then "" or "none".
	Header string `json:",omitempty"`
	Format string `json:",omitempty"`
	// Damage: "" | trunc (drop Cut bytes at the end) | flip (invert the byte at Cut mod len) | tail (append Cut junk bytes)
	Damage string `json:",omitempty"`
	Cut    int    `json:",omitempty"`
	Body   BodySpec
	// EmptyCE (probe only, never generated): the caller's request already carries a
	// Content-Encoding header whose value is the empty string.
	EmptyCE bool `json:",omitempty"`
	// NilBody: http.NewRequest(…, nil) instead of an empty reader (empty bodies only).
	NilBody bool `json:",omitempty"`
	// Chunked hides the body length from net/http.
	Chunked bool `json:",omitempty"`
	// Resend: the client was given no tracer / meter provider, and after a 200 the SAME *http.Request is sent a second
	// time with its body rewound (what a retrying caller does): the handler must read the same bytes again
	Resend bool `json:",omitempty"`
	// ReadBuf is the read size the handler uses.
	ReadBuf int
}

func (s *Script) effLimit() int64 {
	if s.Limit <= 0 {
		return defaultMaxBytes
	}
	return s.Limit
}

func (s *Script) effEnabled() map[string]bool {
	m := map[string]bool{}
	l := s.Enabled
	if s.DefaultEnabled {
		l = defaultEnabled
	}
	for _, e := range l {
		if formatOf(e) != "" { // a name without decoder cannot be enabled, whatever the list says
			m[e] = true
		}
	}
	return m
}

// listedWithoutDecoder: compression_algorithms names e but no decoder exists for it.
func (s *Script) listedWithoutDecoder(e string) bool {
	if s.DefaultEnabled || formatOf(e) != "" {
		return false
	}
	for _, x := range s.Enabled {
		if x == e {
			return true
		}
	}
	return false
}

// ---- generator ----

var (
	supported   = []string{"gzip", "zstd", "zlib", "snappy", "deflate", "lz4"}
	limitsFixed = []int64{4096, 65536, 1 << 20, 4097, 65537, 1<<20 + 1, 4095, 65535, 1<<20 - 1, 32768, 131072, 1000, 100, 17, 2, 1}
	blockBases  = []int{4096, 32768, 65536, 131072, 262144, 1 << 20}
	flateLevels = []int{0, -1, -2, 1, 2, 3, 4, 5, 6, 7, 8, 9}
	zstdLevels  = []int{0, -1, 1, 2, 3, 4, 5, 6, 7, 9, 10, 11, 19, 22, -7, 1000}
	periods     = []int{1, 2, 3, 7, 64, 255, 256, 4096, 32767, 32768, 32769, 65536, 65537}
	readBufs    = []int{1, 7, 512, 4096, 4096, 32768, 32768, 65536, 1 << 20}
	// values no decoder is registered for
	unknownNames = []string{"br", "compress", "foo", "gzip, zstd", "gzip,gzip", "none", "*", "zstd;q=1", "snappy-raw"}
	// values that RFC 9110 treats as another spelling of a supported coding; the
	// property does not say whether they count as "enabled", so both refusing
	// them and decoding them correctly is accepted
	aliasNames = []string{"GZIP", "Gzip", "x-gzip", "identity", "ZSTD", "Deflate", "Snappy", "LZ4"}
)

func canonical(h string) string {
	switch h {
	case "x-gzip":
		return "gzip"
	case "identity":
		return ""
	}
	return strings.ToLower(h)
}

func maxPlain() int {
	if vt.Thorough() {
		return 6 << 20
	}
	return 3 << 19 // 1.5 MiB
}

func maxBomb() int {
	if vt.Thorough() {
		return 24 << 20
	}
	return 4 << 20
}

func genLimit(t *rapid.T) int64 {
	switch c := rapid.IntRange(0, 19).Draw(t, "limitClass"); {
	case c < 8:
		return rapid.SampledFrom(limitsFixed).Draw(t, "limitFixed")
	case c < 12:
		return int64(rapid.IntRange(257, 200_000).Draw(t, "limitMid"))
	case c < 14:
		return int64(rapid.IntRange(200_001, 2<<20).Draw(t, "limitBig"))
	case c < 17:
		return int64(rapid.IntRange(1, 256).Draw(t, "limitTiny"))
	case c < 19:
		return rapid.SampledFrom([]int64{0, -1}).Draw(t, "limitDefault")
	default:
		// "unlimited" the way people write it, and its neighbours: arithmetic on the limit must not wrap
		return rapid.SampledFrom([]int64{math.MaxInt64, math.MaxInt64 - 1, math.MaxInt64 / 2, math.MaxInt32, math.MaxInt32 + 1, math.MaxUint32}).Draw(t, "limitHuge")
	}
}

// (rapid's samplers lean towards the first alternatives: the interesting
// classes are listed first)
func genBody(t *rapid.T, limit int64) BodySpec {
	kind := rapid.SampledFrom([]string{"mixed", "mixed", "mixed", "periodic", "periodic", "random", "random", "zeros", "literal", "empty", "magic", "magic"}).Draw(t, "kind")
	b := BodySpec{Kind: kind}
	switch kind {
	case "magic":
		// an opaque body that looks like compressed data: the magic number of a coding alone, followed by noise, or
		// a complete stream.  Sent without Content-Encoding it has to arrive untouched; sent with one it is a body
		// like any other.
		b.Kind = "literal"
		head := rapid.SampledFrom([][]byte{{0x1f, 0x8b, 0x08}, {0x1f, 0x8b, 0x08, 0, 0, 0, 0, 0, 0, 0xff}, {0x1f, 0x8b}, {0x78, 0x9c}, {0x78, 0x01}, {0x78, 0xda},
			{0x28, 0xb5, 0x2f, 0xfd}, {0xff, 0x06, 0x00, 0x00, 0x73, 0x4e, 0x61, 0x50, 0x70, 0x59}, {0x04, 0x22, 0x4d, 0x18}}).Draw(t, "magic")
		tail := rapid.SliceOfN(rapid.Byte(), 0, 64).Draw(t, "magictail")
		switch rapid.IntRange(0, 3).Draw(t, "magicform") {
		case 0:
			b.Lit = append([]byte{}, head...)
		case 1:
			b.Lit = append(append([]byte{}, head...), tail...)
		default:
			var buf bytes.Buffer
			zw := gzip.NewWriter(&buf)
			_, _ = zw.Write(tail)
			_ = zw.Close()
			b.Lit = buf.Bytes()
		}
		return b
	case "empty":
		return b
	case "literal":
		b.Lit = rapid.SliceOfN(rapid.Byte(), 0, 200).Draw(t, "lit")
		return b
	}
	mp := maxPlain()
	switch c := rapid.IntRange(0, 19).Draw(t, "sizeClass"); {
	case c < 6: // around the configured limit
		d := rapid.SampledFrom([]int64{0, 1, -1, 0, 1, -1, -2, 2}).Draw(t, "limitDelta")
		sz := limit + d
		if sz > int64(mp) || (limit == defaultMaxBytes && !vt.Thorough()) {
			sz = int64(rapid.IntRange(4097, 300_000).Draw(t, "sizeMidAlt"))
		}
		if sz < 0 {
			sz = 0
		}
		b.Size = int(sz)
	case c < 11: // 2^k ± 1 around block / window / buffer boundaries
		bases := blockBases
		if vt.Thorough() {
			bases = append(append([]int{}, bases...), 4<<20) // lz4 default block
		}
		b.Size = rapid.SampledFrom(bases).Draw(t, "sizeBase") + rapid.SampledFrom([]int{1, -1, 0, 1, -1, 0, -2, 2, -17, 33}).Draw(t, "sizeDelta")
	case c < 13: // bomb: a multiple of the limit, highly compressible
		b.Kind = rapid.SampledFrom([]string{"zeros", "periodic"}).Draw(t, "bombKind")
		mb := int64(maxBomb())
		sz := limit * int64(rapid.IntRange(2, 2000).Draw(t, "bombFactor"))
		if sz > mb {
			sz = mb
		}
		if sz <= limit { // limit too large for this tier's bomb budget: just a big compressible body
			sz = int64(rapid.IntRange(300_001, mp).Draw(t, "sizeLargeAlt"))
		}
		b.Size = int(sz)
	case c < 15:
		b.Size = rapid.IntRange(4097, 300_000).Draw(t, "sizeMid")
	case c < 16:
		b.Size = rapid.IntRange(300_001, mp).Draw(t, "sizeLarge")
	case c < 18:
		b.Size = rapid.IntRange(65, 4095).Draw(t, "sizeSmall")
	default:
		b.Size = rapid.IntRange(1, 64).Draw(t, "sizeTiny")
	}
	if b.Kind != "zeros" {
		b.Seed = rapid.Uint64().Draw(t, "seed")
	}
	if b.Kind == "periodic" {
		if rapid.IntRange(0, 3).Draw(t, "periodClass") == 0 {
			b.Period = rapid.IntRange(1, 70_000).Draw(t, "periodAny")
		} else {
			b.Period = rapid.SampledFrom(periods).Draw(t, "period")
		}
	}
	return b
}

func genReq(t *rapid.T, limit int64) Req {
	r := Req{Body: genBody(t, limit)}
	n := r.Body.Len()
	r.Chunked = rapid.IntRange(0, 4).Draw(t, "chunked") == 0
	r.ReadBuf = rapid.SampledFrom(readBufs).Draw(t, "readBuf")
	if r.ReadBuf < 512 && n > 64<<10 { // byte-wise reads of a megabyte only burn time
		r.ReadBuf = 512
	}
	if rapid.IntRange(0, 99).Draw(t, "mode") < 65 {
		// the client compresses
		if n == 0 && rapid.IntRange(0, 3).Draw(t, "nilBody") == 0 {
			r.NilBody, r.Chunked = true, false
		}
		r.Comp = rapid.SampledFrom([]string{"", "none", "gzip", "gzip", "zlib", "deflate", "zstd", "zstd", "snappy", "snappy", "lz4", "lz4"}).Draw(t, "comp")
		r.Resend = !r.Chunked && !r.NilBody && rapid.IntRange(0, 5).Draw(t, "resend") == 0
		switch r.Comp {
		case "gzip", "zlib", "deflate":
			r.Level = rapid.SampledFrom(flateLevels).Draw(t, "level")
		case "zstd": // Validate accepts any level for zstd
			if rapid.IntRange(0, 3).Draw(t, "zstdLevelClass") == 3 {
				r.Level = rapid.IntRange(-50, 50).Draw(t, "levelAny")
			} else {
				r.Level = rapid.SampledFrom(zstdLevels).Draw(t, "level")
			}
		}
		return r
	}
	// hand-made request through a non-compressing client
	r.Comp = rapid.SampledFrom([]string{"", "none"}).Draw(t, "compPlain")
	switch c := rapid.IntRange(0, 99).Draw(t, "headerClass"); {
	case c < 70:
		r.Header = rapid.SampledFrom(supported).Draw(t, "header")
		r.Format = formatOf(r.Header)
		switch d := rapid.IntRange(0, 99).Draw(t, "damage"); {
		case d < 6:
			r.Format = rapid.SampledFrom([]string{"plain", "rawflate", "gzip", "zlib", "snappy", "zstd", "lz4"}).Draw(t, "otherFormat")
		case d < 12:
			r.Damage = "trunc"
			r.Cut = rapid.IntRange(1, 64).Draw(t, "cut")
		case d < 16:
			r.Damage = "flip"
			r.Cut = rapid.IntRange(0, 1<<20).Draw(t, "cut")
		case d < 20:
			r.Damage = "tail"
			r.Cut = rapid.IntRange(1, 64).Draw(t, "cut")
		}
	case c < 85:
		r.Header = rapid.SampledFrom(unknownNames).Draw(t, "unknown")
		r.Format = rapid.SampledFrom([]string{"plain", "gzip", "zstd"}).Draw(t, "anyFormat")
	default:
		r.Header = rapid.SampledFrom(aliasNames).Draw(t, "alias")
		r.Format = formatOf(canonical(r.Header))
	}
	return r
}

func gen(t *rapid.T) Script {
	s := Script{Limit: genLimit(t)}
	switch c := rapid.IntRange(0, 19).Draw(t, "enabledClass"); {
	case c < 7:
		s.DefaultEnabled = true
	case c < 18:
		s.Enabled = []string{}
		for _, i := range rapid.Permutation([]int{0, 1, 2, 3, 4, 5, 6}).Draw(t, "enabledOrder") {
			if rapid.IntRange(0, 9).Draw(t, "enabledBit") < 7 {
				s.Enabled = append(s.Enabled, defaultEnabled[i])
			}
		}
	case c == 18: // a single entry
		s.Enabled = []string{rapid.SampledFrom(defaultEnabled).Draw(t, "enabledOne")}
	default: // configured but empty: nothing is enabled, not even identity
		s.Enabled = []string{}
	}
	n := rapid.SampledFrom([]int{1, 1, 1, 1, 2, 2, 3}).Draw(t, "nreq")
	for i := 0; i < n; i++ {
		s.Reqs = append(s.Reqs, genReq(t, s.effLimit()))
	}
	return s
}

// ---- execution ----

// outcome is everything observed for one request.
type outcome struct {
	plain       []byte
	wire        []byte // body bytes handed to the transport
	wireKnown   bool
	encoding    string // Content-Encoding on the wire
	status      int    // 0: no response
	wireCE      []string
	clientErr   error
	clientPanic string
	rec         *record
	resendDiff  string // the second exchange of a resent request differed from the first
}

func (r *Req) handMade() bool { return r.Header != "" }

func damage(r *Req, wire []byte) []byte {
	switch r.Damage {
	case "trunc":
		cut := r.Cut
		if cut > len(wire) {
			cut = len(wire)
		}
		return wire[:len(wire)-cut]
	case "flip":
		if len(wire) == 0 {
			return wire
		}
		w := append([]byte{}, wire...)
		w[r.Cut%len(w)] ^= 0xff
		return w
	case "tail":
		junk := make([]byte, r.Cut)
		newPrng(uint64(r.Cut)).fill(junk)
		return append(append([]byte{}, wire...), junk...)
	}
	return wire
}

func send(srv *server, s *Script, r *Req) (*outcome, error) {
	o := &outcome{plain: r.Body.Bytes()}
	cl, err := cache.clientOf(r.Comp, r.Level, r.Resend)
	if err != nil {
		return nil, fmt.Errorf("client %q/%d: %w", r.Comp, r.Level, err)
	}
	payload := o.plain
	if r.handMade() {
		payload = damage(r, refEncode(r.Format, o.plain))
	}
	var body io.Reader
	switch {
	case r.NilBody:
		body = nil
	case r.Chunked:
		body = chunkedBody{bytes.NewReader(payload)}
	default:
		body = bytes.NewReader(payload)
	}
	id := nextID()
	rec := &record{readBuf: r.ReadBuf, limit: s.effLimit(), keep: len(o.plain) + 64, done: make(chan struct{})}
	srv.recs.Store(id, rec)
	defer srv.recs.Delete(id)
	o.rec = rec

	wc := &wireCap{}
	ctx := context.WithValue(bgCtx, capKey{}, wc)
	req, err := http.NewRequestWithContext(ctx, http.MethodPost, srv.url, body)
	if err != nil {
		return nil, err
	}
	req.Header.Set(hdrID, id)
	req.Header.Set("Content-Type", "application/octet-stream")
	if r.handMade() {
		req.Header.Set("Content-Encoding", r.Header)
	} else if r.EmptyCE {
		req.Header["Content-Encoding"] = []string{""}
	}
	var resp *http.Response
	if p, _ := vt.Recover(func() { resp, err = cl.c.Do(req) }); p != nil {
		o.clientPanic = fmt.Sprint(p)
		err = fmt.Errorf("client panicked: %v", p)
	}
	if err != nil {
		o.clientErr = err
	} else {
		o.status = resp.StatusCode
		_, _ = io.Copy(io.Discard, resp.Body)
		_ = resp.Body.Close()
	}
	// what went to the transport
	if wc.got > 0 {
		for _, v := range wc.ce { // RFC 9110: empty list members do not name a coding
			if v != "" {
				o.encoding = v
				break
			}
		}
		o.wireCE = wc.ce
		if wc.have {
			o.wire, o.wireKnown = wc.body, true
		} else if o.encoding == "" || r.handMade() {
			o.wire, o.wireKnown = payload, true // sent as is
		}
	}
	// the server side: wait for the chain to return when it was entered
	entered := func() bool { rec.mu.Lock(); defer rec.mu.Unlock(); return rec.entered > 0 }
	if !entered() && err != nil && wc.got > 0 {
		// the client gave up before the server got to the request (or it never
		// arrived): give the server a moment; only sensitivity depends on it
		for i := 0; i < 50 && !entered(); i++ {
			time.Sleep(10 * time.Millisecond)
		}
	}
	if entered() {
		<-rec.done // bounded by the caller's hang guard
	}
	if r.Resend && err == nil && o.status == http.StatusOK && req.GetBody != nil {
		id2 := nextID()
		rec2 := &record{readBuf: r.ReadBuf, limit: s.effLimit(), keep: len(o.plain) + 64, done: make(chan struct{})}
		srv.recs.Store(id2, rec2)
		defer srv.recs.Delete(id2)
		req.Header.Set(hdrID, id2)
		req.Body, _ = req.GetBody()
		var resp2 *http.Response
		var err2 error
		if p, _ := vt.Recover(func() { resp2, err2 = cl.c.Do(req) }); p != nil {
			err2 = fmt.Errorf("client panicked: %v", p)
		}
		status2 := 0
		if err2 == nil {
			status2 = resp2.StatusCode
			_, _ = io.Copy(io.Discard, resp2.Body)
			_ = resp2.Body.Close()
		}
		entered2 := func() bool { rec2.mu.Lock(); defer rec2.mu.Unlock(); return rec2.entered > 0 }
		if entered2() {
			<-rec2.done
		}
		rec.mu.Lock()
		n1, sum1 := rec.n, rec.sum
		rec.mu.Unlock()
		rec2.mu.Lock()
		n2, sum2, ran2 := rec2.n, rec2.sum, rec2.ran
		rec2.mu.Unlock()
		if err2 != nil || status2 != http.StatusOK || n2 != n1 || sum2 != sum1 {
			o.resendDiff = fmt.Sprintf("first exchange: 200, handler read %d bytes (sum %s); second exchange of the same request: err=%v status=%d handler ran %d times and read %d bytes (sum %s)", n1, sum1, err2, status2, ran2, n2, sum2)
		}
	}
	return o, nil
}

var c16 = vt.New("C16", "compression-roundtrip")

func scriptKey(s *Script) string {
	b, _ := json.Marshal(s)
	h := sha256.Sum256(b)
	return string(h[:])
}

func run(s Script) (nontrivial bool, key string, f *vt.Finding) {
	key = scriptKey(&s)
	c16.HangGuard(90*time.Second, s, "hang/http-roundtrip", func() {
		nontrivial, f = runInner(&s)
	})
	return nontrivial, key, f
}

func runInner(s *Script) (nontrivial bool, f *vt.Finding) { return runInnerWith(c16, s) }

func runInnerWith(c16 *vt.C, s *Script) (nontrivial bool, f *vt.Finding) {
	srv, err := cache.server(s.Limit, s.DefaultEnabled, s.Enabled)
	if err != nil {
		c16.Inconclusive("cannot build server: %v", err)
		return false, nil
	}
	used := map[*client]bool{}
	defer func() {
		for cl := range used {
			cl.obs.closeIdle()
		}
	}()
	var labels []string
	for i := range s.Reqs {
		r := &s.Reqs[i]
		cl, err := cache.client(r.Comp, r.Level)
		if err != nil {
			c16.Inconclusive("cannot build client %q/%d: %v", r.Comp, r.Level, err)
			return false, nil
		}
		used[cl] = true
		o, err := send(srv, s, r)
		if err != nil {
			c16.Inconclusive("harness: %v", err)
			return false, nil
		}
		if o.clientErr != nil && isDialError(o.clientErr) {
			c16.Inconclusive("harness: dial failed: %v", o.clientErr)
			return false, nil
		}
		nt, ls, ff := evaluate(s, r, o)
		labels = append(labels, ls...)
		nontrivial = nontrivial || nt
		if ff != nil {
			ff.Msg = fmt.Sprintf("request %d/%d: %s", i+1, len(s.Reqs), ff.Msg)
			return nontrivial, ff
		}
	}
	c16.Class(labels...)
	c16.Class(fmt.Sprintf("script/reqs=%d", len(s.Reqs)), "limit="+limitBucket(s), "enabled="+enabledClass(s))
	return nontrivial, nil
}

func limitBucket(s *Script) string {
	switch l := s.Limit; {
	case l <= 0:
		return "default(20MiB)"
	case l <= 256:
		return "1-256"
	case l < 4096:
		return "257-4095"
	case l <= 65537:
		return "4KiB-64KiB+1"
	case l <= 1<<20+1:
		return "64KiB-1MiB+1"
	}
	return ">1MiB"
}

func enabledClass(s *Script) string {
	if s.DefaultEnabled {
		return "default-list"
	}
	if len(s.Enabled) == 0 {
		return "empty-list"
	}
	if !s.effEnabled()[""] {
		return "subset-without-identity"
	}
	if len(s.Enabled) == len(defaultEnabled) {
		return "explicit-all"
	}
	return "subset"
}

func sizeBucket(n int) string {
	switch {
	case n == 0:
		return "0"
	case n < 64:
		return "1-63"
	case n < 4096:
		return "64-4095"
	case n < 65536:
		return "4KiB-64KiB"
	case n < 1<<20:
		return "64KiB-1MiB"
	}
	return ">=1MiB"
}

func nearPow2(n int) bool {
	for _, b := range []int{4096, 32768, 65536, 131072, 262144, 1 << 20, 4 << 20} {
		if d := n - b; d >= -1 && d <= 1 {
			return true
		}
	}
	return false
}

func levelLabel(r *Req) string {
	switch r.Comp {
	case "gzip", "zlib", "deflate", "zstd":
		return fmt.Sprintf("client=%s/level=%d", r.Comp, r.Level)
	case "", "none":
		return "client=uncompressed(" + r.Comp + ")"
	}
	return "client=" + r.Comp
}

func firstDiff(a, b []byte) int {
	n := len(a)
	if len(b) < n {
		n = len(b)
	}
	for i := 0; i < n; i++ {
		if a[i] != b[i] {
			return i
		}
	}
	return n
}

func algoName(e string) string {
	if e == "" {
		return "identity"
	}
	if c := canonical(e); formatOf(c) != "" && c != e {
		return "alias"
	}
	if formatOf(e) == "" {
		return "unknown"
	}
	return e
}

// evaluate is the oracle for one request.
func evaluate(s *Script, r *Req, o *outcome) (nontrivial bool, labels []string, f *vt.Finding) {
	L := s.effLimit()
	S := s.effEnabled()
	rec := o.rec
	rec.mu.Lock()
	defer rec.mu.Unlock()

	P := o.plain
	E := o.encoding
	if !o.wireKnown && o.status != 0 {
		// a response came back although the observer never saw the request: harness trouble
		c16.Inconclusive("no wire capture for a request that got status %d", o.status)
		return false, nil, nil
	}
	if !o.wireKnown {
		// the request never reached the transport: the client failed on its own
		if r.handMade() {
			E = r.Header
		} else if r.Comp != "" && r.Comp != "none" {
			E = r.Comp
		}
	}
	W := int64(len(o.wire))
	algo := algoName(E)
	switch {
	case r.EmptyCE:
		algo = "empty-content-encoding-value"
	case s.listedWithoutDecoder(E):
		algo = "listed-without-decoder"
	}
	desc := func() string {
		return fmt.Sprintf("limit=%d enabled=%v default=%v | client=%q/%d header=%q format=%q damage=%q/%d body=%s chunked=%v nilbody=%v readbuf=%d | wire=%d bytes wireCE=%q plain=%d bytes | status=%d clientErr=%v | entered=%d ran=%d read=%d(+%d) readErr=%q panic=%q",
			s.Limit, s.Enabled, s.DefaultEnabled, r.Comp, r.Level, r.Header, r.Format, r.Damage, r.Cut, r.Body, r.Chunked, r.NilBody, r.ReadBuf,
			W, o.wireCE, len(P), o.status, o.clientErr, rec.entered, rec.ran, rec.n, rec.extra, rec.readErr, rec.chainPanic)
	}

	labels = append(labels, "body="+r.Body.Kind, "size="+sizeBucket(len(P)), "readbuf="+fmt.Sprint(r.ReadBuf))
	if r.handMade() {
		labels = append(labels, "hand-made/"+algo)
		if r.Damage != "" {
			labels = append(labels, "hand-made/damage="+r.Damage)
		}
	} else {
		labels = append(labels, levelLabel(r))
	}
	if r.Chunked {
		labels = append(labels, "chunked")
	}
	if r.NilBody {
		labels = append(labels, "nil-body")
	}
	if d := int64(len(P)) - L; d >= -1 && d <= 1 {
		labels = append(labels, fmt.Sprintf("size@limit%+d", d))
	}
	if nearPow2(len(P)) {
		labels = append(labels, "size@2^k±1")
	}
	compressed := E != ""
	if compressed && (len(P) >= 4096 || (int64(len(P))-L >= -1 && int64(len(P))-L <= 1)) {
		nontrivial = true
	}

	if o.resendDiff != "" {
		return nontrivial, labels, vt.Failf("resend-differs/"+algo, "%s: %s", o.resendDiff, desc())
	}
	if o.clientPanic != "" {
		return nontrivial, labels, vt.Failf("client-panic/"+algo, "the client panicked while sending: %s: %s", o.clientPanic, desc())
	}
	// (1) in every case: the handler never obtains more than the limit, counted after decompression
	if got := rec.n + rec.extra; got > L {
		return nontrivial, labels, vt.Failf("limit-exceeded/"+algo, "handler obtained %d bytes > max_request_body_size %d: %s", got, L, desc())
	}
	if rec.entered > 1 {
		labels = append(labels, "out=request-seen-twice")
		return nontrivial, labels, nil
	}

	// classification of what the property promises for this request
	// (a hand-made request without any body is not a valid stream of any coding)
	undamaged := !r.handMade() || (r.Damage == "" && !r.NilBody && r.Format == formatOf(canonical(E)))
	enabled := S[E]
	lenient := false
	if !enabled {
		switch {
		case E == "":
			// identity left out of compression_algorithms: "not enabled ⇒ refused" and
			// "no encoding ⇒ untouched" both apply; either is accepted
			lenient = true
			labels = append(labels, "identity-not-listed")
		case algo == "alias" && S[canonical(E)]:
			lenient = true
		}
	}
	if !enabled && !(lenient && rec.ran > 0) {
		// (2) not enabled ⇒ client error, handler did not run
		if rec.chainPanic != "" {
			return nontrivial, labels, vt.Failf("middleware-panic/"+algo, "Content-Encoding %q cannot be decoded; instead of a 4xx the middleware panicked (net/http then drops the connection): %s", E, desc())
		}
		if rec.ran > 0 {
			return nontrivial, labels, vt.Failf("handler-ran-on-disabled-encoding/"+algo, "Content-Encoding %q is not enabled but the handler ran: %s", E, desc())
		}
		if o.status == 0 {
			if W <= 128<<10 {
				return nontrivial, labels, vt.Failf("no-response-on-disabled-encoding/"+algo, "Content-Encoding %q is not enabled; expected a 4xx response, the client got none: %s", E, desc())
			}
			labels = append(labels, "out=refused(not-enabled)/no-response(large-body)")
			return nontrivial, labels, nil
		}
		if o.status < 400 || o.status > 499 {
			return nontrivial, labels, vt.Failf("status-on-disabled-encoding/"+algo, "Content-Encoding %q is not enabled; expected 4xx, got %d: %s", E, o.status, desc())
		}
		labels = append(labels, "out=refused(not-enabled)/"+algo)
		return nontrivial, labels, nil
	}
	if lenient {
		labels = append(labels, "out=lenient-accepted/"+algo)
	}
	if !undamaged {
		labels = append(labels, "out=damaged-or-mismatched/capped")
		if rec.ran > 0 && rec.readErr == "" {
			labels = append(labels, "out=damaged/handler-saw-clean-eof")
		}
		return nontrivial, labels, nil
	}

	// undamaged request with an enabled (or leniently accepted) encoding
	if rec.ran > 0 {
		// whatever the handler obtained is a prefix of the client's bytes …
		if !bytes.HasPrefix(P, rec.data) {
			i := firstDiff(P, rec.data)
			return nontrivial, labels, vt.Failf("roundtrip-mismatch/"+algo, "handler bytes differ from the client's at offset %d (handler kept %d): %s", i, len(rec.data), desc())
		}
		// … and a clean EOF means it has all of them
		if rec.readErr == "" && rec.n != int64(len(P)) {
			return nontrivial, labels, vt.Failf("silent-truncation/"+algo, "handler saw a clean EOF after %d of %d bytes: %s", rec.n, len(P), desc())
		}
	}
	switch {
	case int64(len(P)) > L:
		labels = append(labels, "out=plain-over-limit/capped")
		if compressed && W <= L {
			labels = append(labels, "out=bomb(wire<=limit<plain)/capped")
			if int64(len(P)) >= 16*W {
				labels = append(labels, "out=bomb(ratio>=16)/capped")
			}
		}
		return nontrivial, labels, nil
	case W > L:
		// the raw body is capped too, so a body that grows past the limit on the
		// wire may be refused: either outcome is fine
		if rec.ran > 0 && rec.readErr == "" {
			labels = append(labels, "out=wire-over-limit/accepted")
		} else {
			labels = append(labels, "out=wire-over-limit/refused")
		}
		return nontrivial, labels, nil
	}
	// (3) plain ≤ limit and wire ≤ limit ⇒ exact round trip
	if o.clientErr != nil || rec.ran == 0 || o.status != http.StatusOK {
		return nontrivial, labels, vt.Failf("roundtrip-refused/"+algo, "body within the limit was not delivered: %s", desc())
	}
	if rec.readErr != "" || rec.n != int64(len(P)) || !bytes.Equal(rec.data, P) {
		return nontrivial, labels, vt.Failf("roundtrip-mismatch/"+algo, "handler read %d bytes (err %q), client gave %d; first difference at %d: %s", rec.n, rec.readErr, len(P), firstDiff(P, rec.data), desc())
	}
	labels = append(labels, "out=exact/"+algo)
	if compressed && W > int64(len(P)) {
		labels = append(labels, "out=exact/wire-larger-than-plain")
	}
	return nontrivial, labels, nil
}

func TestRoundTrip(t *testing.T) {
	vt.Run(t, c16, vt.N(14000, 360000), gen, run)
}
