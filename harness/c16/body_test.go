package c16

import (
	"bytes"
	"compress/flate"
	"compress/gzip"
	"compress/zlib"
	"fmt"

	"github.com/golang/snappy"
	"github.com/klauspost/compress/zstd"
	"github.com/pierrec/lz4/v4"
)

// BodySpec describes a request body compactly (replay files stay small and
// rapid shrinks Size/Seed/Period instead of a megabyte of raw bytes).  The
// expansion is a pure function of the spec.
type BodySpec struct {
	// Kind: empty | literal | random | zeros | periodic | mixed
	Kind   string
	Size   int    `json:",omitempty"`
	Seed   uint64 `json:",omitempty"`
	Period int    `json:",omitempty"`
	Lit    []byte `json:",omitempty"`
}

// prng is xorshift64* — a fixed, seed-determined byte stream (the seed itself
// is drawn by rapid; nothing here depends on time or global state).
type prng uint64

func newPrng(seed uint64) *prng {
	p := prng(seed*0x9E3779B97F4A7C15 + 0x2545F4914F6CDD1D)
	if p == 0 {
		p = 0x1234567
	}
	return &p
}

func (p *prng) next() uint64 {
	x := uint64(*p)
	x ^= x >> 12
	x ^= x << 25
	x ^= x >> 27
	*p = prng(x)
	return x * 0x2545F4914F6CDD1D
}

func (p *prng) fill(b []byte) {
	i := 0
	for ; i+8 <= len(b); i += 8 {
		v := p.next()
		b[i], b[i+1], b[i+2], b[i+3] = byte(v), byte(v>>8), byte(v>>16), byte(v>>24)
		b[i+4], b[i+5], b[i+6], b[i+7] = byte(v>>32), byte(v>>40), byte(v>>48), byte(v>>56)
	}
	if i < len(b) {
		v := p.next()
		for ; i < len(b); i++ {
			b[i] = byte(v)
			v >>= 8
		}
	}
}

// Bytes expands the spec.
func (b BodySpec) Bytes() []byte {
	switch b.Kind {
	case "empty":
		return []byte{}
	case "literal":
		return append([]byte{}, b.Lit...)
	case "zeros":
		return make([]byte, b.Size)
	case "random":
		out := make([]byte, b.Size)
		newPrng(b.Seed).fill(out)
		return out
	case "periodic":
		per := b.Period
		if per < 1 {
			per = 1
		}
		pat := make([]byte, per)
		newPrng(b.Seed).fill(pat)
		out := make([]byte, b.Size)
		for i := 0; i < len(out); i += per {
			copy(out[i:], pat)
		}
		return out
	case "mixed":
		// alternating segments: a run of one byte, an incompressible chunk, low-entropy text
		r := newPrng(b.Seed)
		out := make([]byte, 0, b.Size)
		for len(out) < b.Size {
			v := r.next()
			seg := int(v>>8)%8192 + 1
			if seg > b.Size-len(out) {
				seg = b.Size - len(out)
			}
			switch v % 3 {
			case 0:
				out = append(out, bytes.Repeat([]byte{byte(v >> 40)}, seg)...)
			case 1:
				chunk := make([]byte, seg)
				r.fill(chunk)
				out = append(out, chunk...)
			default:
				const alpha = "{\"resourceSpans\":[ ]}aeiou0123,"
				chunk := make([]byte, seg)
				r.fill(chunk)
				for i := range chunk {
					chunk[i] = alpha[int(chunk[i])%len(alpha)]
				}
				out = append(out, chunk...)
			}
		}
		return out
	}
	panic("c16: unknown body kind " + b.Kind)
}

func (b BodySpec) String() string {
	switch b.Kind {
	case "literal":
		return fmt.Sprintf("literal[%d]", len(b.Lit))
	case "periodic":
		return fmt.Sprintf("periodic[%d,p=%d]", b.Size, b.Period)
	case "empty":
		return "empty"
	}
	return fmt.Sprintf("%s[%d]", b.Kind, b.Size)
}

// Len is the expanded length without expanding.
func (b BodySpec) Len() int {
	switch b.Kind {
	case "empty":
		return 0
	case "literal":
		return len(b.Lit)
	}
	return b.Size
}

// refEncode is the harness' own encoder for hand-made requests: the formats
// are the public wire formats named by the Content-Encoding values, produced
// with the reference libraries directly (not through confighttp).
func refEncode(format string, plain []byte) []byte {
	var buf bytes.Buffer
	switch format {
	case "gzip":
		w := gzip.NewWriter(&buf)
		_, _ = w.Write(plain)
		_ = w.Close()
	case "zlib":
		w := zlib.NewWriter(&buf)
		_, _ = w.Write(plain)
		_ = w.Close()
	case "rawflate":
		w, _ := flate.NewWriter(&buf, flate.DefaultCompression)
		_, _ = w.Write(plain)
		_ = w.Close()
	case "snappy": // framing format, what Content-Encoding: snappy means for this server
		w := snappy.NewBufferedWriter(&buf)
		_, _ = w.Write(plain)
		_ = w.Close()
	case "zstd":
		w, _ := zstd.NewWriter(&buf, zstd.WithEncoderConcurrency(1))
		_, _ = w.Write(plain)
		_ = w.Close()
	case "lz4":
		w := lz4.NewWriter(&buf)
		_, _ = w.Write(plain)
		_ = w.Close()
	case "plain":
		buf.Write(plain)
	default:
		panic("c16: unknown reference format " + format)
	}
	return buf.Bytes()
}

// formatOf maps a supported Content-Encoding value to the wire format it names.
func formatOf(encoding string) string {
	switch encoding {
	case "gzip", "zstd", "snappy", "lz4", "zlib":
		return encoding
	case "deflate": // RFC 9110: "deflate" is the zlib container
		return "zlib"
	case "":
		return "plain"
	}
	return ""
}
