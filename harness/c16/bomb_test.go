package c16

import (
	"bytes"
	"compress/gzip"
	"compress/zlib"
	"context"
	"fmt"
	"io"
	"net/http"
	"os"
	"runtime"
	"testing"
	"time"

	"github.com/golang/snappy"
	"github.com/klauspost/compress/zstd"
	"github.com/pierrec/lz4/v4"

	"go.opentelemetry.io/collector/verifharness/vt"
)

// BombScript is one decompression bomb: a body that is small on the wire and
// Expand bytes when decoded, sent to a server whose limit is far below Expand.
// What is observed is not the handler (the other checks do that) but what the
// SERVER spends on the request: "a small compressed body cannot expand without
// bound" means the limit bounds the work, not only what the handler sees.
type BombScript struct {
	Coding string // Content-Encoding
	Kind   string // zeros | pattern (a 251-byte pattern repeated)
	Expand int64  // decoded size
	Limit  int64  // ServerConfig.MaxRequestBodySize
}

var cBomb = vt.New("C16", "bomb-memory")

// allowance is what one request may allocate in the whole process: a generous
// multiple of the limit plus room for what the decoder allocates whatever the
// body (zstd: window and block buffers, ~9.5 MiB measured; lz4: 4 MiB blocks,
// ~4.2 MiB; the others < 0.5 MiB), the transport's buffers and the harness'
// own handler.  Measured on the unchanged tree (see NOTES.md) the largest clean
// case is below 40 % of its allowance; a decoder that materialises the
// expansion needs Expand (20 MiB and more) and with a growing buffer 2-3x that.
func (b *BombScript) allowance() uint64 {
	slack := uint64(6 << 20)
	switch b.Coding {
	case "zstd":
		slack = 24 << 20
	case "lz4":
		slack = 16 << 20
	}
	return uint64(b.Limit)*8 + slack
}

// bombWire builds the compressed form by streaming a 1 MiB chunk through the
// reference encoder: the harness never holds the expansion.
var bombWires = map[string][]byte{}

func bombWire(coding, kind string, expand int64) []byte {
	key := fmt.Sprintf("%s|%s|%d", formatOf(coding), kind, expand)
	if w, ok := bombWires[key]; ok {
		return w
	}
	chunk := make([]byte, 1<<20)
	if kind == "pattern" {
		pat := make([]byte, 251)
		newPrng(251).fill(pat)
		for i := 0; i < len(chunk); i += len(pat) {
			copy(chunk[i:], pat)
		}
	}
	var buf bytes.Buffer
	var w io.WriteCloser
	switch formatOf(coding) {
	case "gzip":
		w, _ = gzip.NewWriterLevel(&buf, gzip.DefaultCompression)
	case "zlib":
		w, _ = zlib.NewWriterLevel(&buf, zlib.DefaultCompression)
	case "zstd":
		w, _ = zstd.NewWriter(&buf, zstd.WithEncoderConcurrency(1))
	case "snappy":
		w = snappy.NewBufferedWriter(&buf)
	case "lz4":
		w = lz4.NewWriter(&buf)
	default:
		panic("c16: no bomb for " + coding)
	}
	// (the 251-byte pattern does not divide the chunk: consecutive chunks are not
	// phase-aligned, which does not matter for a bomb)
	for left := expand; left > 0; {
		n := int64(len(chunk))
		if n > left {
			n = left
		}
		_, _ = w.Write(chunk[:n])
		left -= n
	}
	_ = w.Close()
	out := append([]byte{}, buf.Bytes()...)
	bombWires[key] = out
	return out
}

type bombObs struct {
	alloc     uint64 // TotalAlloc delta of the whole process around the request
	handlerN  int64
	ran       int
	status    int
	clientErr error
	readErr   string
}

// bombOnce sends the bomb once and measures what the process allocated meanwhile.
func bombOnce(srv *server, cl *client, b *BombScript, wire []byte) bombObs {
	id := nextID()
	rec := &record{readBuf: 32768, limit: b.Limit, keep: 0, done: make(chan struct{})}
	srv.recs.Store(id, rec)
	defer srv.recs.Delete(id)
	req, _ := http.NewRequestWithContext(context.WithValue(bgCtx, capKey{}, &wireCap{}), http.MethodPost, srv.url, bytes.NewReader(wire))
	req.GetBody = nil // nothing to replay, nothing to copy
	req.Header.Set(hdrID, id)
	req.Header.Set("Content-Encoding", b.Coding)
	var o bombObs
	var m0, m1 runtime.MemStats
	runtime.GC() // settle what earlier work left behind; TotalAlloc itself only grows, GC does not lower it
	runtime.ReadMemStats(&m0)
	resp, err := cl.c.Do(req)
	if err != nil {
		o.clientErr = err
	} else {
		o.status = resp.StatusCode
		_, _ = io.Copy(io.Discard, resp.Body)
		_ = resp.Body.Close()
	}
	entered := func() bool { rec.mu.Lock(); defer rec.mu.Unlock(); return rec.entered > 0 }
	for i := 0; i < 100 && !entered() && err != nil; i++ {
		time.Sleep(10 * time.Millisecond)
	}
	if entered() {
		<-rec.done
	}
	runtime.ReadMemStats(&m1)
	o.alloc = m1.TotalAlloc - m0.TotalAlloc
	rec.mu.Lock()
	o.handlerN, o.ran, o.readErr = rec.n+rec.extra, rec.ran, rec.readErr
	rec.mu.Unlock()
	cl.obs.closeIdle()
	return o
}

func runBomb(b *BombScript) (f *vt.Finding, min uint64, labels []string) {
	wire := bombWire(b.Coding, b.Kind, b.Expand)
	srv, err := cache.server(b.Limit, true, nil)
	if err != nil {
		cBomb.Inconclusive("cannot build server: %v", err)
		return nil, 0, nil
	}
	cl, err := cache.client("", 0)
	if err != nil {
		cBomb.Inconclusive("cannot build client: %v", err)
		return nil, 0, nil
	}
	labels = append(labels, "coding="+b.Coding, "kind="+b.Kind, fmt.Sprintf("expand=%dMiB", b.Expand>>20), fmt.Sprintf("limit=%dKiB", b.Limit>>10))
	if int64(len(wire)) <= b.Limit {
		labels = append(labels, "wire<=limit/"+b.Coding)
	} else {
		labels = append(labels, "wire>limit(outer-cap-bounds-the-input)/"+b.Coding)
	}
	// The measurement is process-wide, so anything else allocating at the same
	// moment inflates it; it can never deflate it.  Minimum over repetitions:
	// 3, and up to 3 more when the minimum is still over the allowance.
	var obs bombObs
	min = ^uint64(0)
	for rep := 0; rep < 6; rep++ {
		o := bombOnce(srv, cl, b, wire)
		if o.clientErr != nil && isDialError(o.clientErr) {
			cBomb.Inconclusive("harness: dial failed: %v", o.clientErr)
			return nil, 0, labels
		}
		if o.handlerN > b.Limit {
			return vt.Failf("limit-exceeded/"+b.Coding, "handler obtained %d bytes > max_request_body_size %d from a %d-byte %s body expanding to %d", o.handlerN, b.Limit, len(wire), b.Coding, b.Expand), o.alloc, labels
		}
		if o.alloc < min {
			min, obs = o.alloc, o
		}
		if rep >= 2 && min <= b.allowance() {
			break
		}
	}
	if min > b.allowance() {
		return vt.Failf("bomb-memory/"+b.Coding, "serving one %s request (%d bytes on the wire, %d MiB of %s when expanded) with max_request_body_size %d made the process allocate at least %d bytes (%.1f MiB, minimum of 6 runs; allowance = %.1f MiB): the expansion is not bounded by the limit. handler ran=%d read=%d err=%q status=%d clientErr=%v",
			b.Coding, len(wire), b.Expand>>20, b.Kind, b.Limit, min, float64(min)/(1<<20), float64(b.allowance())/(1<<20), obs.ran, obs.handlerN, obs.readErr, obs.status, obs.clientErr), min, labels
	}
	return nil, min, labels
}

func bombCases() []BombScript {
	var out []BombScript
	type c struct {
		exp, lim int64
		kind     string
	}
	// (snappy tops out near 21:1, so only the 20 MiB case fits its wire form into the limit)
	cases := []c{{128 << 20, 1 << 20, "zeros"}, {64 << 20, 512 << 10, "pattern"}, {64 << 20, 64 << 10, "zeros"}, {20 << 20, 1 << 20, "zeros"}}
	if vt.Thorough() {
		cases = append(cases, c{256 << 20, 1 << 20, "pattern"}, c{256 << 20, 1 << 20, "zeros"}, c{192 << 20, 256 << 10, "zeros"}, c{64 << 20, 128 << 10, "pattern"})
	}
	for _, coding := range supported {
		for _, k := range cases {
			out = append(out, BombScript{Coding: coding, Kind: k.kind, Expand: k.exp, Limit: k.lim})
		}
	}
	return out
}

// TestBombMemory is enumerated and deterministic.  It must run alone in its
// process (no t.Parallel anywhere in this package; the other shards are other
// processes) — and a disturbed measurement can only be too high, which the
// minimum over repetitions absorbs.
func TestBombMemory(t *testing.T) {
	if p := vt.ReplayPath(); p != "" {
		if vt.ReplayCheck() != "bomb-memory" {
			t.Skip()
		}
		defer cBomb.Flush()
		var b BombScript
		if _, err := vt.LoadReplay(p, &b); err != nil {
			t.Fatal(err)
		}
		if f, _, _ := runBomb(&b); f != nil {
			cBomb.Violation(f, b)
			t.Fatalf("replay fails: %v", f)
		}
		return
	}
	// one shard is enough; shard 0 already carries the enumerated sweep
	if sh, n := os.Getenv("VT_SHARD"), os.Getenv("VT_SHARDS"); sh != "" && n != "1" && sh != "1" {
		t.Skip("bomb-memory runs on shard 1 only")
	}
	defer cBomb.Flush()
	worst := map[string]uint64{}
	for _, b := range bombCases() {
		b := b
		var f *vt.Finding
		var min uint64
		var labels []string
		cBomb.HangGuard(180*time.Second, b, "hang/bomb", func() { f, min, labels = runBomb(&b) })
		cBomb.Eval(true, fmt.Sprintf("%+v", b))
		cBomb.Class(labels...)
		cBomb.Sample(b)
		if min > worst[b.Coding] {
			worst[b.Coding] = min
		}
		if f != nil && !cBomb.Soft(f, b) {
			cBomb.Violation(f, b)
			t.Fatalf("%v", f)
		}
	}
	for _, coding := range supported {
		cBomb.Note("largest per-request allocation seen for %s: %.2f MiB", coding, float64(worst[coding])/(1<<20))
	}
}
