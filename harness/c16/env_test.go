package c16

import (
	"context"
	"crypto/sha256"
	"encoding/hex"
	"errors"
	"fmt"
	"io"
	"math"
	"net"
	"net/http"
	"strconv"
	"strings"
	"sync"
	"sync/atomic"
	"time"

	"go.opentelemetry.io/collector/component"
	"go.opentelemetry.io/collector/component/componenttest"
	"go.opentelemetry.io/collector/config/configcompression"
	"go.opentelemetry.io/collector/config/confighttp"
	"go.opentelemetry.io/collector/config/configmiddleware"
)

const (
	hdrID           = "X-C16-Id"
	defaultMaxBytes = 20 * 1024 * 1024 // documented default of max_request_body_size
	// the handler stops pulling once it is this far past the limit: that is
	// already a violation, and an uncapped bomb must not exhaust memory
	overrunStop = 1 << 20
)

// documented default of compression_algorithms
var defaultEnabled = []string{"", "gzip", "zstd", "zlib", "snappy", "deflate", "lz4"}

// record is what the server side observed for one request.
type record struct {
	readBuf int
	limit   int64
	keep    int // keep at most this many of the bytes read

	// mode is what the handler does with the body ("" = read to the end, never close):
	// read-close | read-close-twice | partial-close (one read, then close)
	mode string
	// gate, when set, makes the handler wait after its first read until every
	// request of the burst reached that point (or left the chain): overlap by
	// construction instead of by luck
	gate    *gate
	arrived sync.Once

	mu         sync.Mutex
	entered    int // the server's handler chain was entered
	returned   int
	done       chan struct{} // closed when the chain returned
	ran        int           // the innermost handler was called
	n          int64         // bytes the innermost handler obtained before the first error/EOF
	extra      int64         // bytes obtained by further reads after a non-EOF error
	data       []byte
	readErr    string // "" = clean io.EOF
	partial    bool   // the handler stopped on purpose after its first read
	sum        string // hex sha256 (first 8 bytes) of everything the handler obtained
	stopped    bool   // gave up pulling (overrunStop)
	seenCE     string
	seenCL     int64
	chainPanic string
}

// server is one confighttp server (ServerConfig.ToServer + ToListener) on loopback.
type server struct {
	srv  *http.Server
	url  string
	recs sync.Map // id -> *record
	used int
}

var bgCtx = context.Background()

// buildServer runs ServerConfig.ToServer with the recording handler innermost.
func buildServer(limit int64, defaultList bool, enabled []string) (*server, *confighttp.ServerConfig, error) {
	cfg := confighttp.NewDefaultServerConfig()
	cfg.Endpoint = "127.0.0.1:0"
	cfg.TLSSetting = nil // plain TCP
	cfg.MaxRequestBodySize = limit
	if !defaultList {
		cfg.CompressionAlgorithms = append([]string{}, enabled...) // non-nil, possibly empty
	}
	// A neighbour: another server of the same process, built first, whose owner replaced every built-in decoder
	// with one of its own (ToServer's WithDecoder option).  It is never started; what one server was given must not
	// change what the next one does.
	nb := confighttp.NewDefaultServerConfig()
	nb.Endpoint = "127.0.0.1:0"
	nb.TLSSetting = nil
	var nbOpts []confighttp.ToServerOption
	for _, name := range []string{"gzip", "zstd", "zlib", "snappy", "deflate", "lz4", "x-c16"} {
		nbOpts = append(nbOpts, confighttp.WithDecoder(name, func(io.ReadCloser) (io.ReadCloser, error) {
			return io.NopCloser(strings.NewReader("decoded by the neighbour's decoder")), nil
		}))
	}
	if _, err := nb.ToServer(bgCtx, componenttest.NewNopHost(), componenttest.NewNopTelemetrySettings(), http.NotFoundHandler(), nbOpts...); err != nil {
		return nil, nil, err
	}
	s := &server{}
	srv, err := cfg.ToServer(bgCtx, componenttest.NewNopHost(), componenttest.NewNopTelemetrySettings(), http.HandlerFunc(s.inner))
	if err != nil {
		return nil, nil, err
	}
	chain := srv.Handler
	srv.Handler = http.HandlerFunc(func(w http.ResponseWriter, r *http.Request) { s.outer(chain, w, r) })
	s.srv = srv
	return s, &cfg, nil
}

func newServer(limit int64, defaultList bool, enabled []string) (*server, error) {
	s, cfg, err := buildServer(limit, defaultList, enabled)
	if err != nil {
		return nil, err
	}
	ln, err := cfg.ToListener(bgCtx)
	if err != nil {
		return nil, err
	}
	s.url = "http://" + ln.Addr().String() + "/v1/c16"
	go func() { _ = s.srv.Serve(ln) }()
	return s, nil
}

func (s *server) close() { _ = s.srv.Close() }

func (s *server) lookup(r *http.Request) *record {
	v, ok := s.recs.Load(r.Header.Get(hdrID))
	if !ok {
		return nil
	}
	return v.(*record)
}

// outer brackets the whole chain ToServer built: it only observes.
func (s *server) outer(chain http.Handler, w http.ResponseWriter, r *http.Request) {
	rec := s.lookup(r)
	if rec == nil {
		chain.ServeHTTP(w, r)
		return
	}
	rec.mu.Lock()
	rec.entered++
	rec.mu.Unlock()
	defer func() {
		p := recover()
		rec.mu.Lock()
		if p != nil {
			rec.chainPanic = fmt.Sprint(p)
		}
		rec.returned++
		first := rec.returned == 1
		rec.mu.Unlock()
		rec.arrive(false)
		if first {
			close(rec.done)
		}
		if p != nil {
			panic(p) // net/http decides what a panicking handler means
		}
	}()
	chain.ServeHTTP(w, r)
}

// inner is the handler "behind the server middleware": it pulls the body
// until EOF or error with the read size the script asks for.
func (s *server) inner(w http.ResponseWriter, r *http.Request) {
	rec := s.lookup(r)
	if rec == nil {
		http.Error(w, "c16: no record", http.StatusInternalServerError)
		return
	}
	rec.mu.Lock()
	rec.ran++
	rec.seenCE = r.Header.Get("Content-Encoding")
	rec.seenCL = r.ContentLength
	bufN, keep, limit, mode := rec.readBuf, rec.keep, rec.limit, rec.mode
	rec.mu.Unlock()
	if bufN < 1 {
		bufN = 4096
	}
	buf := make([]byte, bufN)
	var (
		n, extra int64
		data     []byte
		rerr     error
		stopped  bool
		partial  bool
	)
	h := sha256.New()
	for first := true; ; first = false {
		k, err := r.Body.Read(buf)
		if room := keep - len(data); room > 0 {
			if k < room {
				room = k
			}
			data = append(data, buf[:room]...)
		}
		h.Write(buf[:k])
		n += int64(k)
		if first {
			rec.arrive(true)
		}
		if err != nil {
			rerr = err
			break
		}
		if first && mode == "partial-close" {
			partial = true
			break
		}
		if limit < math.MaxInt64-overrunStop && n > limit+overrunStop { // (no wrap-around for limits near MaxInt64)
			stopped = true
			break
		}
	}
	switch mode {
	case "read-close", "partial-close":
		_ = r.Body.Close()
	case "read-close-twice":
		_ = r.Body.Close()
		_ = r.Body.Close()
	default:
		if rerr != nil && rerr != io.EOF { // a refused body must stay refused
			for i := 0; i < 2; i++ {
				k, _ := r.Body.Read(buf)
				extra += int64(k)
			}
		}
	}
	sum := hex.EncodeToString(h.Sum(nil)[:8])
	rec.mu.Lock()
	rec.n, rec.extra, rec.data, rec.stopped, rec.partial, rec.sum = n, extra, data, stopped, partial, sum
	switch {
	case rerr == io.EOF:
		rec.readErr = ""
	case rerr != nil:
		rec.readErr = rerr.Error()
	case partial:
		rec.readErr = "c16: partial read on purpose"
	default:
		rec.readErr = "c16: stopped pulling"
	}
	rec.mu.Unlock()
	// the response names the request it answers and what its handler obtained
	echo := r.Header.Get(hdrID) + " " + strconv.FormatInt(n, 10) + " " + sum
	switch {
	case rerr == io.EOF:
		w.WriteHeader(http.StatusOK)
		_, _ = io.WriteString(w, "ok "+echo)
	case partial:
		w.WriteHeader(http.StatusOK)
		_, _ = io.WriteString(w, "partial "+echo)
	default:
		// deliberately not a 4xx: a 4xx can then only come from the middleware
		w.WriteHeader(http.StatusInsufficientStorage)
	}
}

// gate is a rendezvous for the handlers of one burst.
type gate struct {
	mu       sync.Mutex
	n, cnt   int
	open     chan struct{}
	timedOut int
}

func newGate(n int) *gate { return &gate{n: n, open: make(chan struct{})} }

func (g *gate) arrive(wait bool) {
	g.mu.Lock()
	g.cnt++
	if g.cnt == g.n {
		close(g.open)
	}
	g.mu.Unlock()
	if !wait {
		return
	}
	select {
	case <-g.open:
	case <-time.After(250 * time.Millisecond): // a member never got here (client-side failure): go on, only overlap is lost
		g.mu.Lock()
		g.timedOut++
		g.mu.Unlock()
	}
}

// arrive reports this request at its burst's gate exactly once.
func (rec *record) arrive(wait bool) {
	if rec.gate == nil {
		return
	}
	rec.arrived.Do(func() { rec.gate.arrive(wait) })
}

// ---- client side ----

// wireCap is filled by the client middleware with what actually goes to the
// transport (i.e. after the compression round tripper).
type wireCap struct {
	got  int
	ce   []string
	cl   int64
	body []byte
	have bool // body captured
}

type capKey struct{}

var mwID = component.MustNewID("c16observer")

// observer is a client middleware extension (ClientConfig.Middlewares): it sits
// between the compression round tripper and the transport, records the wire
// form of the request and forwards it unchanged.
type observer struct {
	base atomic.Value // http.RoundTripper
}

func (*observer) Start(context.Context, component.Host) error { return nil }
func (*observer) Shutdown(context.Context) error              { return nil }

func (o *observer) GetHTTPRoundTripper(base http.RoundTripper) (http.RoundTripper, error) {
	o.base.Store(&base)
	return rtFunc(func(req *http.Request) (*http.Response, error) {
		if c, ok := req.Context().Value(capKey{}).(*wireCap); ok {
			c.got++
			c.ce = append([]string{}, req.Header.Values("Content-Encoding")...)
			c.cl = req.ContentLength
			if req.GetBody != nil {
				if rc, err := req.GetBody(); err == nil {
					if b, err := io.ReadAll(rc); err == nil {
						c.body, c.have = b, true
					}
					_ = rc.Close()
				}
			} else if req.Body == nil || req.Body == http.NoBody {
				c.body, c.have = []byte{}, true
			}
		}
		return base.RoundTrip(req)
	}), nil
}

func (o *observer) closeIdle() {
	if p, ok := o.base.Load().(*http.RoundTripper); ok {
		if ci, ok := (*p).(interface{ CloseIdleConnections() }); ok {
			ci.CloseIdleConnections()
		}
	}
}

type rtFunc func(*http.Request) (*http.Response, error)

func (f rtFunc) RoundTrip(r *http.Request) (*http.Response, error) { return f(r) }

type extHost struct {
	component.Host
	exts map[component.ID]component.Component
}

func (h extHost) GetExtensions() map[component.ID]component.Component { return h.exts }

type client struct {
	c   *http.Client
	obs *observer
}

// newClient builds an HTTP client exactly as a component would:
// ClientConfig{Compression, CompressionParams}.Validate + ToClient.
func newClient(comp string, level int, bare bool) (*client, error) {
	var ct configcompression.Type
	if err := ct.UnmarshalText([]byte(comp)); err != nil {
		return nil, err
	}
	cc := confighttp.NewDefaultClientConfig()
	cc.Compression = ct
	cc.CompressionParams = configcompression.CompressionParams{Level: configcompression.Level(level)}
	cc.Middlewares = []configmiddleware.Config{{ID: mwID}}
	cc.Timeout = 60 * time.Second
	if err := cc.Validate(); err != nil {
		return nil, fmt.Errorf("validate: %w", err)
	}
	obs := &observer{}
	host := extHost{Host: componenttest.NewNopHost(), exts: map[component.ID]component.Component{mwID: obs}}
	set := componenttest.NewNopTelemetrySettings()
	if bare {
		// an embedder that hands over no tracer / meter provider: the compressing round tripper then sits directly
		// on the caller's request (no instrumentation layer in between that would clone it)
		set.TracerProvider, set.MeterProvider = nil, nil
	}
	hc, err := cc.ToClient(bgCtx, host, set)
	if err != nil {
		return nil, err
	}
	return &client{c: hc, obs: obs}, nil
}

// ---- per-configuration caches ----
//
// Servers and clients are immutable once built; what a request leaves behind
// is (a) its record, deleted by the caller, and (b) pooled connections, which
// every script drops at its end (closeIdle) — so a script always starts on a
// fresh connection and keep-alive reuse only happens between the requests of
// one script, where it is replayable.

type envCache struct {
	mu      sync.Mutex
	servers map[string]*server
	clients map[string]*client
}

var cache = &envCache{servers: map[string]*server{}, clients: map[string]*client{}}

const maxServers = 64

func (e *envCache) server(limit int64, defaultList bool, enabled []string) (*server, error) {
	key := fmt.Sprintf("%d|%v|%q", limit, defaultList, enabled)
	e.mu.Lock()
	defer e.mu.Unlock()
	if s, ok := e.servers[key]; ok {
		return s, nil
	}
	if len(e.servers) >= maxServers {
		for k, s := range e.servers { // all of them: no order dependence
			s.close()
			delete(e.servers, k)
		}
	}
	s, err := newServer(limit, defaultList, enabled)
	if err != nil {
		return nil, err
	}
	e.servers[key] = s
	return s, nil
}

func (e *envCache) client(comp string, level int) (*client, error) {
	return e.clientOf(comp, level, false)
}

func (e *envCache) clientOf(comp string, level int, bare bool) (*client, error) {
	key := fmt.Sprintf("%s|%d|%v", comp, level, bare)
	e.mu.Lock()
	defer e.mu.Unlock()
	if c, ok := e.clients[key]; ok {
		return c, nil
	}
	c, err := newClient(comp, level, bare)
	if err != nil {
		return nil, err
	}
	e.clients[key] = c
	return c, nil
}

var idSeq atomic.Int64

func nextID() string { return "c" + strconv.FormatInt(idSeq.Add(1), 10) }

func isDialError(err error) bool {
	var oe *net.OpError
	return errors.As(err, &oe) && oe.Op == "dial"
}

// chunkedBody hides the length of the body from net/http (unknown length ⇒
// Transfer-Encoding: chunked when it is sent as is).
type chunkedBody struct{ io.Reader }
