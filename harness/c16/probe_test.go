package c16

import (
	"fmt"
	"os"
	"testing"
	"time"

	"go.opentelemetry.io/collector/verifharness/vt"
)

var cProbe = vt.New("C16", "fixed-probes")

// TestFixedProbes is a small enumerated sweep (not generated): every client
// algorithm × every level ClientConfig.Validate accepts × a fixed ladder of
// body sizes against the default server, so that each (algorithm, level) pair
// is exercised in every run whatever the seed; plus one observation about a
// configuration the property does not cover.
func TestFixedProbes(t *testing.T) {
	if vt.ReplayPath() != "" && vt.ReplayCheck() != "fixed-probes" {
		t.Skip()
	}
	if sh := os.Getenv("VT_SHARD"); sh != "" && sh != "0" && vt.ReplayPath() == "" {
		t.Skip("enumeration runs on shard 0 only")
	}
	defer cProbe.Flush()
	if p := vt.ReplayPath(); p != "" {
		var s Script
		if _, err := vt.LoadReplay(p, &s); err != nil {
			t.Fatal(err)
		}
		if _, f := runInner(&s); f != nil {
			cProbe.Violation(f, s)
			t.Fatalf("replay fails: %v", f)
		}
		return
	}
	type cl struct {
		comp   string
		levels []int
	}
	all := []cl{{"", []int{0}}, {"none", []int{0}}, {"gzip", flateLevels}, {"zlib", flateLevels}, {"deflate", flateLevels},
		{"zstd", zstdLevels}, {"snappy", []int{0}}, {"lz4", []int{0}}}
	sizes := []int{0, 1, 4095, 4097, 65535, 65536, 65537, 131073, 1<<20 + 1}
	n := 0
	for _, c := range all {
		for _, lv := range c.levels {
			for i, sz := range sizes {
				kind := []string{"mixed", "random", "periodic"}[(i+n)%3]
				s := Script{Limit: 0, DefaultEnabled: true, Reqs: []Req{{Comp: c.comp, Level: lv, ReadBuf: 32768,
					Body: BodySpec{Kind: kind, Size: sz, Seed: uint64(n*131 + i), Period: 32769}}}}
				if sz == 0 {
					s.Reqs[0].Body = BodySpec{Kind: "empty"}
				}
				var f *vt.Finding
				var nt bool
				cProbe.HangGuard(90*time.Second, s, "hang/http-roundtrip", func() { nt, f = runInnerWith(cProbe, &s) })
				cProbe.Eval(nt, scriptKey(&s))
				if f != nil && !cProbe.Soft(f, s) {
					cProbe.Violation(f, s)
					t.Fatalf("%v", f)
				}
				n++
			}
		}
	}
	// the default limit (20 MiB) at limit-1 / limit / limit+1: too heavy for the
	// generated pass, so it is enumerated here
	comps := []string{"", "gzip", "zstd", "snappy", "lz4"}
	if vt.Thorough() {
		comps = append(comps, "zlib", "deflate")
	}
	for _, comp := range comps {
		for _, d := range []int{-1, 0, 1} {
			for _, lim := range []int64{0, -1} {
				if lim == -1 && (d != 1 || !vt.Thorough()) {
					continue
				}
				s := Script{Limit: lim, DefaultEnabled: true, Reqs: []Req{{Comp: comp, ReadBuf: 65536,
					Body: BodySpec{Kind: "mixed", Size: defaultMaxBytes + d, Seed: uint64(n)}}}}
				var f *vt.Finding
				var nt bool
				cProbe.HangGuard(180*time.Second, s, "hang/http-roundtrip", func() { nt, f = runInnerWith(cProbe, &s) })
				cProbe.Eval(nt, scriptKey(&s))
				if f != nil && !cProbe.Soft(f, s) {
					cProbe.Violation(f, s)
					t.Fatalf("%v", f)
				}
				n++
			}
		}
	}
	// two defects this check found, since repaired in /repo (501dbcff6, 7f3a42cd5):
	// regression probes — they are no longer listed, a recurrence is a violation (see NOTES.md)
	var known []Script
	for _, name := range []string{"none", "br"} {
		known = append(known, Script{Limit: 1000, Enabled: []string{"", name, "gzip"}, Reqs: []Req{{Header: name, Format: "plain", ReadBuf: 512,
			Body: BodySpec{Kind: "literal", Lit: []byte("hello")}}}})
	}
	for _, comp := range []string{"gzip", "snappy"} {
		known = append(known, Script{DefaultEnabled: true, Reqs: []Req{{Comp: comp, EmptyCE: true, ReadBuf: 4096,
			Body: BodySpec{Kind: "mixed", Size: 5000, Seed: 1}}}})
	}
	for _, s := range known {
		var f *vt.Finding
		var nt bool
		cProbe.HangGuard(90*time.Second, s, "hang/http-roundtrip", func() { nt, f = runInnerWith(cProbe, &s) })
		cProbe.Eval(nt, scriptKey(&s))
		if f != nil && !cProbe.Soft(f, s) {
			cProbe.Violation(f, s)
			t.Fatalf("%v", f)
		}
		n++
	}
	cProbe.Note("enumerated %d (algorithm, level, size) combinations against the default server configuration, including 20 MiB-1/20 MiB/20 MiB+1 bodies", n)
}

// TestDescribe prints a replay script in readable form (debug aid).
func TestDescribe(t *testing.T) {
	p := os.Getenv("VT_DESCRIBE")
	if p == "" {
		t.Skip()
	}
	var s Script
	if _, err := vt.LoadReplay(p, &s); err != nil {
		t.Fatal(err)
	}
	t.Logf("limit=%d (effective %d) default-list=%v enabled=%q", s.Limit, s.effLimit(), s.DefaultEnabled, s.Enabled)
	for i, r := range s.Reqs {
		plain := r.Body.Bytes()
		line := fmt.Sprintf("req %d: client=%q/%d body=%s (%d bytes) chunked=%v nil=%v readbuf=%d", i, r.Comp, r.Level, r.Body, len(plain), r.Chunked, r.NilBody, r.ReadBuf)
		if r.handMade() {
			w := damage(&r, refEncode(r.Format, plain))
			line += fmt.Sprintf(" | hand-made Content-Encoding=%q format=%s damage=%s/%d wire=%d bytes", r.Header, r.Format, r.Damage, r.Cut, len(w))
		}
		t.Log(line)
	}
}
