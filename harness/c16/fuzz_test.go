package c16

import (
	"bytes"
	"flag"
	"net/http"
	"net/http/httptest"
	"sync"
	"testing"
	"time"

	"go.opentelemetry.io/collector/verifharness/vt"
)

// FuzzServerLimit (thorough tier, native fuzzing): arbitrary wire bytes under
// every supported Content-Encoding, straight into the handler chain
// ServerConfig.ToServer built (no socket).  Only the part of the property
// that speaks about arbitrary requests is asserted: the handler never obtains
// more than max_request_body_size bytes, a clean EOF never follows more than
// that, and the chain returns.  The seed corpus contains valid streams and
// bombs so that mutation starts from decodable input.
var (
	fuzzMu      sync.Mutex
	fuzzServers = map[int64]*server{}
)

func fuzzServer(limit int64) (*server, error) {
	fuzzMu.Lock()
	defer fuzzMu.Unlock()
	if s, ok := fuzzServers[limit]; ok {
		return s, nil
	}
	if len(fuzzServers) > 4096 {
		fuzzServers = map[int64]*server{}
	}
	s, _, err := buildServer(limit, true, nil)
	if err == nil {
		fuzzServers[limit] = s
	}
	return s, err
}

func fuzzing() bool {
	for _, name := range []string{"test.fuzz", "test.fuzzworker"} {
		if fl := flag.Lookup(name); fl != nil && fl.Value.String() != "" && fl.Value.String() != "false" {
			return true
		}
	}
	return false
}

func FuzzServerLimit(f *testing.F) {
	if !fuzzing() {
		// as a plain test the seed corpus adds nothing to the generated pass, and a
		// failure here would not leave a replay file
		f.Skip("seed corpus only runs under -fuzz")
	}
	bodies := [][]byte{{}, []byte("hello, world"), make([]byte, 300_000), BodySpec{Kind: "mixed", Size: 70_000, Seed: 7}.Bytes(), BodySpec{Kind: "periodic", Size: 140_000, Seed: 3, Period: 255}.Bytes()}
	for i, enc := range supported {
		for j, b := range bodies {
			f.Add(uint8(i), uint32(1000*(j+1)), uint16(512), refEncode(formatOf(enc), b))
		}
	}
	f.Add(uint8(0), uint32(10), uint16(1), []byte("not a stream"))
	f.Fuzz(func(t *testing.T, encIdx uint8, lim uint32, readBuf uint16, wire []byte) {
		enc := supported[int(encIdx)%len(supported)]
		limit := int64(lim%(1<<18)) + 1
		s, err := fuzzServer(limit)
		if err != nil {
			t.Skip(err)
		}
		id := nextID()
		rec := &record{readBuf: int(readBuf%8192) + 1, limit: limit, keep: 0, done: make(chan struct{})}
		s.recs.Store(id, rec)
		defer s.recs.Delete(id)
		req := httptest.NewRequest(http.MethodPost, "/v1/c16", bytes.NewReader(wire))
		req.Header.Set(hdrID, id)
		req.Header.Set("Content-Encoding", enc)
		rr := httptest.NewRecorder()
		ok, _ := vt.WithWatchdog(60*time.Second, func() {
			// a panicking decoder is net/http's business (it aborts the request), not this property's
			_, _ = vt.Recover(func() { s.srv.Handler.ServeHTTP(rr, req) })
		})
		if !ok {
			t.Fatalf("hang/http-roundtrip: chain did not return within 60s (encoding %s, limit %d, %d wire bytes)", enc, limit, len(wire))
		}
		rec.mu.Lock()
		defer rec.mu.Unlock()
		if got := rec.n + rec.extra; got > limit {
			t.Fatalf("limit-exceeded/%s: handler obtained %d bytes > max_request_body_size %d from %d wire bytes", enc, got, limit, len(wire))
		}
	})
}
