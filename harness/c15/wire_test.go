package c15

import (
	"bytes"
	"compress/gzip"
	"compress/zlib"
	"context"
	"encoding/json"
	"fmt"
	"io"
	"mime"
	"net/http"
	"time"

	"google.golang.org/genproto/googleapis/rpc/errdetails"
	spb "google.golang.org/genproto/googleapis/rpc/status"
	"google.golang.org/grpc"
	"google.golang.org/grpc/metadata"
	"google.golang.org/grpc/status"
	"google.golang.org/protobuf/encoding/protojson"
	"google.golang.org/protobuf/proto"

	"go.opentelemetry.io/collector/pdata/plog"
	"go.opentelemetry.io/collector/pdata/plog/plogotlp"
	"go.opentelemetry.io/collector/pdata/pmetric"
	"go.opentelemetry.io/collector/pdata/pmetric/pmetricotlp"
	"go.opentelemetry.io/collector/pdata/pprofile"
	"go.opentelemetry.io/collector/pdata/pprofile/pprofileotlp"
	"go.opentelemetry.io/collector/pdata/ptrace"
	"go.opentelemetry.io/collector/pdata/ptrace/ptraceotlp"
	"go.opentelemetry.io/collector/verifharness/sig"
)

const (
	ctProto = "application/x-protobuf"
	ctJSON  = "application/json"
)

var urlPath = map[string]string{
	sig.Logs:     "/v1/logs",
	sig.Traces:   "/v1/traces",
	sig.Metrics:  "/v1/metrics",
	sig.Profiles: "/v1development/profiles",
}

// encodeReq renders the OTLP export request of a payload (public pdata API).
func encodeReq(v any, json bool) ([]byte, error) {
	switch x := v.(type) {
	case plog.Logs:
		r := plogotlp.NewExportRequestFromLogs(x)
		if json {
			return r.MarshalJSON()
		}
		return r.MarshalProto()
	case ptrace.Traces:
		r := ptraceotlp.NewExportRequestFromTraces(x)
		if json {
			return r.MarshalJSON()
		}
		return r.MarshalProto()
	case pmetric.Metrics:
		r := pmetricotlp.NewExportRequestFromMetrics(x)
		if json {
			return r.MarshalJSON()
		}
		return r.MarshalProto()
	case pprofile.Profiles:
		r := pprofileotlp.NewExportRequestFromProfiles(x)
		if json {
			return r.MarshalJSON()
		}
		return r.MarshalProto()
	}
	panic("encodeReq: unknown root type")
}

// decodeReq is the reference decoder for a request body: the public pdata
// request unmarshaler.  An error means the body is malformed.
func decodeReq(signal string, body []byte, json bool) (any, error) {
	switch signal {
	case sig.Logs:
		r := plogotlp.NewExportRequest()
		if json {
			err := r.UnmarshalJSON(body)
			return r.Logs(), err
		}
		err := r.UnmarshalProto(body)
		return r.Logs(), err
	case sig.Traces:
		r := ptraceotlp.NewExportRequest()
		if json {
			err := r.UnmarshalJSON(body)
			return r.Traces(), err
		}
		err := r.UnmarshalProto(body)
		return r.Traces(), err
	case sig.Metrics:
		r := pmetricotlp.NewExportRequest()
		if json {
			err := r.UnmarshalJSON(body)
			return r.Metrics(), err
		}
		err := r.UnmarshalProto(body)
		return r.Metrics(), err
	case sig.Profiles:
		r := pprofileotlp.NewExportRequest()
		if json {
			err := r.UnmarshalJSON(body)
			return r.Profiles(), err
		}
		err := r.UnmarshalProto(body)
		return r.Profiles(), err
	}
	panic("decodeReq: unknown signal " + signal)
}

// wireStatus is what a raw client saw.
type wireStatus struct {
	// gRPC: Code/RetryInfo of the status; HTTP: HTTP status, Retry-After, and
	// the Status message of the body (BodyCode -1 when it does not decode).
	Code       uint32
	HTTP       int
	RetryAfter []string
	HasRetry   bool
	RetryDelay time.Duration
	NDetails   int
	BodyCT     string
	BodyErr    string
	Raw        string
	// LooseJSON: the JSON body is not proto3-JSON (protojson rejects it) and was read with encoding/json
	LooseJSON bool
	Msg       string
}

func retryInfoOf(details []any) (bool, time.Duration) {
	for _, d := range details {
		if ri, ok := d.(*errdetails.RetryInfo); ok {
			return true, ri.GetRetryDelay().AsDuration()
		}
	}
	return false, 0
}

// rawGRPC sends the payload with a plain gRPC client (no exporter involved).
func (e *env) rawGRPC(auth bool, credValue, signal string, v any, compression string) wireStatus {
	cc := e.conns[auth]
	ctx, cancel := context.WithTimeout(context.Background(), 60*time.Second)
	defer cancel()
	if credValue != "" {
		ctx = metadata.AppendToOutgoingContext(ctx, "authorization", credValue)
	}
	var opts []grpc.CallOption
	if compression != "" {
		opts = append(opts, grpc.UseCompressor(compression))
	}
	var err error
	switch signal {
	case sig.Logs:
		_, err = plogotlp.NewGRPCClient(cc).Export(ctx, plogotlp.NewExportRequestFromLogs(v.(plog.Logs)), opts...)
	case sig.Traces:
		_, err = ptraceotlp.NewGRPCClient(cc).Export(ctx, ptraceotlp.NewExportRequestFromTraces(v.(ptrace.Traces)), opts...)
	case sig.Metrics:
		_, err = pmetricotlp.NewGRPCClient(cc).Export(ctx, pmetricotlp.NewExportRequestFromMetrics(v.(pmetric.Metrics)), opts...)
	case sig.Profiles:
		_, err = pprofileotlp.NewGRPCClient(cc).Export(ctx, pprofileotlp.NewExportRequestFromProfiles(v.(pprofile.Profiles)), opts...)
	}
	st := status.Convert(err)
	w := wireStatus{Code: uint32(st.Code()), Msg: st.Message(), NDetails: len(st.Details())}
	w.HasRetry, w.RetryDelay = retryInfoOf(st.Details())
	return w
}

// compressBody compresses with the standard library (the harness' own
// encoders, independent of confighttp's).
func compressBody(enc string, b []byte) ([]byte, error) {
	var buf bytes.Buffer
	switch enc {
	case "":
		return b, nil
	case "gzip":
		w := gzip.NewWriter(&buf)
		if _, err := w.Write(b); err != nil {
			return nil, err
		}
		if err := w.Close(); err != nil {
			return nil, err
		}
	case "zlib", "deflate":
		w := zlib.NewWriter(&buf)
		if _, err := w.Write(b); err != nil {
			return nil, err
		}
		if err := w.Close(); err != nil {
			return nil, err
		}
	default:
		return nil, fmt.Errorf("harness cannot compress %q", enc)
	}
	return buf.Bytes(), nil
}

type rawReq struct {
	Auth            bool
	Method          string
	Path            string
	ContentType     string
	ContentEncoding string
	CredValue       string
	Body            []byte
}

// rawHTTP performs one HTTP request with net/http.
func (e *env) rawHTTP(q rawReq) (wireStatus, error) {
	mk := func() (*http.Request, error) {
		req, err := http.NewRequest(q.Method, "http://"+e.rcv(q.Auth).httpAddr+q.Path, bytes.NewReader(q.Body))
		if err != nil {
			return nil, err
		}
		if q.ContentType != "" {
			req.Header.Set("Content-Type", q.ContentType)
		}
		if q.ContentEncoding != "" {
			req.Header.Set("Content-Encoding", q.ContentEncoding)
		}
		if q.CredValue != "" {
			req.Header.Set("Authorization", q.CredValue)
		}
		return req, nil
	}
	req, err := mk()
	if err != nil {
		return wireStatus{}, err
	}
	before, _ := e.rcv(q.Auth).sink.snapshot()
	resp, err := e.httpc.Do(req)
	if err != nil {
		// A kept-alive connection the server had closed after an earlier rejected
		// request (net/http does not resend a POST by itself).  Retried once on a
		// fresh connection, and only if the request did not reach the consumer.
		e.httpc.CloseIdleConnections()
		if after, _ := e.rcv(q.Auth).sink.snapshot(); after != before {
			return wireStatus{}, err
		}
		if req, err = mk(); err != nil {
			return wireStatus{}, err
		}
		if resp, err = e.httpc.Do(req); err != nil {
			return wireStatus{}, err
		}
	}
	defer resp.Body.Close()
	body, err := io.ReadAll(io.LimitReader(resp.Body, 1<<20))
	if err != nil {
		return wireStatus{}, err
	}
	w := wireStatus{HTTP: resp.StatusCode, RetryAfter: resp.Header.Values("Retry-After"), BodyCT: resp.Header.Get("Content-Type")}
	if resp.StatusCode >= 400 {
		st := &spb.Status{}
		mt, _, _ := mime.ParseMediaType(w.BodyCT)
		switch mt {
		case ctProto:
			err = proto.Unmarshal(body, st)
		case ctJSON:
			err = protojson.Unmarshal(body, st)
		default:
			err = fmt.Errorf("content type %q", w.BodyCT)
		}
		w.Raw = string(body)
		if len(w.Raw) > 300 {
			w.Raw = w.Raw[:300] + "…"
		}
		if err != nil && mt == ctJSON {
			var loose struct {
				Code    uint32            `json:"code"`
				Message string            `json:"message"`
				Details []json.RawMessage `json:"details"`
			}
			if jerr := json.Unmarshal(body, &loose); jerr == nil {
				w.LooseJSON, w.Code, w.Msg, w.NDetails = true, loose.Code, loose.Message, len(loose.Details)
				return w, nil
			}
		}
		if err != nil {
			w.BodyErr = err.Error()
		} else {
			gs := status.FromProto(st)
			w.Code, w.Msg, w.NDetails = uint32(gs.Code()), gs.Message(), len(st.GetDetails())
			w.HasRetry, w.RetryDelay = retryInfoOf(gs.Details())
		}
	}
	return w, nil
}
