package c15

import (
	"context"
	"crypto/sha256"
	"encoding/base64"
	"encoding/hex"
	"fmt"
	"strconv"
	"testing"
	"time"

	"google.golang.org/grpc/codes"
	"google.golang.org/grpc/status"
	"pgregory.net/rapid"

	"go.opentelemetry.io/collector/consumer/consumererror"
	"go.opentelemetry.io/collector/pdata/plog"
	"go.opentelemetry.io/collector/pdata/pmetric"
	"go.opentelemetry.io/collector/pdata/pprofile"
	"go.opentelemetry.io/collector/pdata/ptrace"
	"go.opentelemetry.io/collector/verifharness/pgen"
	"go.opentelemetry.io/collector/verifharness/pview"
	"go.opentelemetry.io/collector/verifharness/sig"
	"go.opentelemetry.io/collector/verifharness/vt"
)

// HopScript: one payload through one exporter configuration into one of the
// two receivers whose consumer answers with a scripted outcome; followed by the
// same payload sent by a raw client of the same transport (wire observation).
type HopScript struct {
	Signal      string
	Payload     []byte // proto bytes (pdata marshaler) of the payload
	Transport   string // grpc | http-proto | http-json
	Compression string
	Level       int    // compression_params.level of the HTTP exporter (0 = not set)
	BulkItems   int    // > 0: an id-tagged resource with this many items ...
	BulkBytes   int    // ... of this many bytes each travels in front of Payload (bodies of 100 kB - 3 MB)
	Auth        bool   // receiver with the authenticator extension
	Cred        string // good | bad | none (only meaningful with Auth)
	Outcome     Outcome
}

var cHop = vt.New("C15", "hop")

// E is the live environment of the running test function.
var E *env

// stripItems removes every item but keeps the containers (resources, scopes,
// metric headers, profiles): a request "with no items" that is not empty on
// the wire.
func stripItems(v any) {
	switch x := v.(type) {
	case plog.Logs:
		for i := 0; i < x.ResourceLogs().Len(); i++ {
			sl := x.ResourceLogs().At(i).ScopeLogs()
			for j := 0; j < sl.Len(); j++ {
				sl.At(j).LogRecords().RemoveIf(func(plog.LogRecord) bool { return true })
			}
		}
	case ptrace.Traces:
		for i := 0; i < x.ResourceSpans().Len(); i++ {
			ss := x.ResourceSpans().At(i).ScopeSpans()
			for j := 0; j < ss.Len(); j++ {
				ss.At(j).Spans().RemoveIf(func(ptrace.Span) bool { return true })
			}
		}
	case pmetric.Metrics:
		for i := 0; i < x.ResourceMetrics().Len(); i++ {
			sm := x.ResourceMetrics().At(i).ScopeMetrics()
			for j := 0; j < sm.Len(); j++ {
				ms := sm.At(j).Metrics()
				for k := 0; k < ms.Len(); k++ {
					m := ms.At(k)
					switch m.Type() {
					case pmetric.MetricTypeGauge:
						m.Gauge().DataPoints().RemoveIf(func(pmetric.NumberDataPoint) bool { return true })
					case pmetric.MetricTypeSum:
						m.Sum().DataPoints().RemoveIf(func(pmetric.NumberDataPoint) bool { return true })
					case pmetric.MetricTypeHistogram:
						m.Histogram().DataPoints().RemoveIf(func(pmetric.HistogramDataPoint) bool { return true })
					case pmetric.MetricTypeExponentialHistogram:
						m.ExponentialHistogram().DataPoints().RemoveIf(func(pmetric.ExponentialHistogramDataPoint) bool { return true })
					case pmetric.MetricTypeSummary:
						m.Summary().DataPoints().RemoveIf(func(pmetric.SummaryDataPoint) bool { return true })
					}
				}
			}
		}
	case pprofile.Profiles:
		for i := 0; i < x.ResourceProfiles().Len(); i++ {
			sp := x.ResourceProfiles().At(i).ScopeProfiles()
			for j := 0; j < sp.Len(); j++ {
				ps := sp.At(j).Profiles()
				for k := 0; k < ps.Len(); k++ {
					ps.At(k).Sample().RemoveIf(func(pprofile.Sample) bool { return true })
				}
			}
		}
	}
}

func genRoot(t *rapid.T, signal string, o pgen.Opts) any {
	switch signal {
	case sig.Logs:
		return pgen.Logs(t, o)
	case sig.Traces:
		return pgen.Traces(t, o)
	case sig.Metrics:
		return pgen.Metrics(t, o)
	case sig.Profiles:
		return pgen.Profiles(t, o)
	}
	panic("unknown signal " + signal)
}

func newRoot(signal string) any {
	switch signal {
	case sig.Logs:
		return plog.NewLogs()
	case sig.Traces:
		return ptrace.NewTraces()
	case sig.Metrics:
		return pmetric.NewMetrics()
	case sig.Profiles:
		return pprofile.NewProfiles()
	}
	panic("unknown signal " + signal)
}

// genPayload draws a payload; shape: items (normal), stripped (containers
// without items), empty (nothing at all).
func genPayload(t *rapid.T, signal string, shapes []string) []byte {
	shape := rapid.SampledFrom(shapes).Draw(t, "shape")
	if shape == "empty" {
		return sig.Encode(newRoot(signal))
	}
	o := pgen.Structural()
	if rapid.IntRange(0, 2).Draw(t, "wide") == 0 {
		o = pgen.Wide()
	}
	if shape == "items" {
		if rapid.IntRange(0, 7).Draw(t, "minlist") > 0 {
			o.MinList = 1
		}
	}
	v := genRoot(t, signal, o)
	if shape == "stripped" {
		stripItems(v)
	}
	return sig.Encode(v)
}

// 12/14 normal payloads, 1/14 containers without items, 1/14 nothing at all
// (normal payloads turn out item-less now and then by themselves).
var hopShapes = []string{"items", "items", "items", "items", "items", "items", "items", "items", "items", "items", "items", "items", "stripped", "empty"}

func genHop(t *rapid.T) HopScript {
	s := HopScript{
		Signal:    rapid.SampledFrom(sig.All).Draw(t, "signal"),
		Transport: rapid.SampledFrom(transports).Draw(t, "transport"),
	}
	s.Compression = rapid.SampledFrom(compressionsOf(s.Transport)).Draw(t, "compression")
	s.Level = rapid.SampledFrom(levelsOf(s.Transport, s.Compression)).Draw(t, "level")
	if rapid.IntRange(0, 19).Draw(t, "bulk") == 7 { // (a middle value: rapid favours the ends of a range)
		s.BulkItems = rapid.IntRange(300, 1500).Draw(t, "bulk_items")
		s.BulkBytes = rapid.IntRange(300, 2000).Draw(t, "bulk_bytes")
	}
	s.Auth = rapid.Bool().Draw(t, "auth")
	s.Cred = "none"
	if s.Auth {
		s.Cred = rapid.SampledFrom([]string{"good", "good", "good", "good", "bad", "none"}).Draw(t, "cred")
	}
	s.Outcome = genOutcome(t)
	s.Payload = genPayload(t, s.Signal, hopShapes)
	return s
}

func credValue(cred string) string {
	switch cred {
	case "good":
		return goodCred
	case "bad":
		return badCred
	}
	return ""
}

func scriptKey(parts ...any) string {
	h := sha256.New()
	for _, p := range parts {
		switch x := p.(type) {
		case []byte:
			h.Write(x)
			h.Write([]byte{0xff})
		default:
			fmt.Fprintf(h, "%v|", x)
		}
	}
	return string(h.Sum(nil))
}

// ---------------------------------------------------------------------------
// Known, listed codec defects that surface on the JSON leg of the hop (they
// are decoder defects of pdata, found and minimised under property C08).  The
// sent tree is rewritten to what the defective decoder yields, the defect is
// recorded as a listed finding, and the comparison continues on everything
// else.
// ---------------------------------------------------------------------------

type jsonDefect struct {
	sig, typ, field string
	rewrite         func(any) any
}

var jsonDefects = []jsonDefect{
	{"payload/json-reader-drops/LogRecord.EventName", "plog.LogRecord", "EventName", func(any) any { return "" }},
	{"payload/json-reader-drops/ExponentialHistogramDataPoint.ZeroThreshold", "pmetric.ExponentialHistogramDataPoint", "ZeroThreshold", func(any) any { return pview.F{Bits: 0} }},
	{"payload/json-reader-no-base64/Profile.OriginalPayload", "pprofile.Profile", "OriginalPayload", func(v any) any {
		b, ok := v.(pview.B)
		if !ok {
			return v
		}
		raw, err := hex.DecodeString(string(b))
		if err != nil {
			return v
		}
		return pview.B(hex.EncodeToString([]byte(base64.StdEncoding.EncodeToString(raw))))
	}},
}

func rewriteField(tree any, typ, field string, fn func(any) any) (any, bool) {
	changed := false
	var walk func(a any) any
	walk = func(a any) any {
		switch x := a.(type) {
		case *pview.Node:
			if x == nil {
				return x
			}
			n := &pview.Node{Type: x.Type, Fields: make([]pview.Field, len(x.Fields))}
			for i, f := range x.Fields {
				v := walk(f.Val)
				if x.Type == typ && f.Name == field {
					nv := fn(v)
					if !pview.Equal(nv, v) {
						changed = true
					}
					v = nv
				}
				n.Fields[i] = pview.Field{Name: f.Name, Val: v}
			}
			return n
		case []any:
			out := make([]any, len(x))
			for i := range x {
				out[i] = walk(x[i])
			}
			return out
		case pview.KV:
			return pview.KV{Key: x.Key, Val: walk(x.Val)}
		}
		return a
	}
	out := walk(tree)
	return out, changed
}

// comparePayload checks received == sent.  On the JSON leg the listed decoder
// defects are accounted for one by one (each recorded through Soft).
func comparePayload(c *vt.C, script any, where, signal, transport string, sent, got any) *vt.Finding {
	if pview.Equal(sent, got) {
		return nil
	}
	if transport == trHTTPJSON {
		cur := sent
		for _, d := range jsonDefects {
			nt, changed := rewriteField(cur, d.typ, d.field, d.rewrite)
			if !changed {
				continue
			}
			// does the received tree show exactly this defect at this field?
			if fieldsEqualAt(nt, got, d.typ, d.field) && !fieldsEqualAt(cur, got, d.typ, d.field) {
				f := vt.Failf(d.sig, "%s %s over %s: %s.%s does not survive the JSON leg: %s", where, signal, transport, d.typ, d.field, pview.Diff(cur, got))
				if !c.Soft(f, script) {
					return f
				}
				cur = nt
			}
		}
		if pview.Equal(cur, got) {
			return nil
		}
		sent = cur
	}
	return vt.Failf("payload-diff/"+transport+"/"+signal, "%s: %s over %s: consumer received a payload different from the one sent: %s", where, signal, transport, pview.Diff(sent, got))
}

// fieldsEqualAt reports whether the projections of a and b on typ.field (in
// document order) are equal.
func fieldsEqualAt(a, b any, typ, field string) bool {
	return pview.Equal(project(a, typ, field), project(b, typ, field))
}

func project(tree any, typ, field string) []any {
	var out []any
	var walk func(a any)
	walk = func(a any) {
		switch x := a.(type) {
		case *pview.Node:
			if x == nil {
				return
			}
			for _, f := range x.Fields {
				if x.Type == typ && f.Name == field {
					out = append(out, f.Val)
				}
				walk(f.Val)
			}
		case []any:
			for i := range x {
				walk(x[i])
			}
		case pview.KV:
			walk(x.Val)
		}
	}
	walk(tree)
	return out
}

// ---------------------------------------------------------------------------

func isHTTP(transport string) bool { return transport != trGRPC }

func runHop(s HopScript) (nontrivial bool, key string, f *vt.Finding) {
	key = scriptKey(s.Signal, s.Transport, s.Compression, s.Level, s.BulkItems, s.BulkBytes, s.Auth, s.Cred, s.Outcome, s.Payload)
	cHop.HangGuard(180*time.Second, s, "hang/hop", func() {
		nontrivial, f = runHopInner(cHop, &s)
	})
	return nontrivial, key, f
}

func runHopInner(c *vt.C, s *HopScript) (bool, *vt.Finding) {
	payload := s.Payload
	if s.BulkItems > 0 {
		bv, berr := buildBurstPayload(s.Signal, 7, s.BulkItems, s.BulkBytes, s.Payload)
		if berr != nil {
			return false, vt.Failf("harness/payload", "script payload does not decode: %v", berr)
		}
		payload = sig.Encode(bv)
	}
	v0, err := sig.Decode(s.Signal, payload)
	if err != nil {
		return false, vt.Failf("harness/payload", "script payload does not decode: %v", err)
	}
	sent := pview.Of(v0)
	items := sig.Count(v0)
	fresh := func() any {
		v, _ := sig.Decode(s.Signal, payload)
		return v
	}
	r := E.rcv(s.Auth)
	cred := "none"
	if s.Auth {
		cred = s.Cred
	}
	authorised := !s.Auth || cred == "good"
	send, err := E.exporter(expKey{transport: s.Transport, compression: s.Compression, level: s.Level, auth: s.Auth, cred: cred, signal: s.Signal})
	if err != nil {
		return false, vt.Failf("harness/exporter", "cannot create exporter %s/%s level %d: %v", s.Transport, s.Compression, s.Level, err)
	}
	o := s.Outcome
	tk := "grpc"
	if isHTTP(s.Transport) {
		tk = "http"
	}

	// ---- leg 1: the exporter -------------------------------------------------
	r.sink.resetCarry(o.err(), o.Carry)
	sendErr := send(context.Background(), fresh())
	calls, trees := r.sink.snapshot()

	labels := []string{"signal:" + s.Signal, "transport:" + s.Transport, "compression:" + s.Transport + "/" + orNone(s.Compression)}
	if s.Level != 0 {
		labels = append(labels, fmt.Sprintf("level:%s/%d", s.Compression, s.Level))
	}
	if len(payload) > 128<<10 {
		labels = append(labels, "body>128KiB", "body>128KiB:"+s.Transport+"/"+orNone(s.Compression))
		if len(payload) > 1<<20 {
			labels = append(labels, "body>1MiB")
		}
	}
	switch {
	case !authorised:
		labels = append(labels, "unauthenticated:"+cred+"/"+tk)
	case items == 0:
		if len(payload) == 0 {
			labels = append(labels, "no-items:empty-request")
		} else {
			labels = append(labels, "no-items:containers-only")
		}
	default:
		labels = append(labels, "outcome:"+o.Kind)
		if o.Kind == "status" {
			labels = append(labels, "code:"+codes.Code(o.Code).String())
			if o.Retry {
				labels = append(labels, "status+retryinfo")
				if o.Extra {
					labels = append(labels, "status+retryinfo+other-detail")
				}
			}
			if o.Wrap != "" {
				labels = append(labels, "status-wrapped:"+o.Wrap)
			}
		}
	}
	if s.Auth && authorised {
		labels = append(labels, "authenticated")
	}
	c.Class(labels...)

	// ---- leg 2: raw client of the same transport (wire observation) ----------
	r.sink.resetCarry(o.err(), o.Carry)
	var w wireStatus
	if s.Transport == trGRPC {
		w = E.rawGRPC(s.Auth, credValue(cred), s.Signal, fresh(), s.Compression)
	} else {
		body, eerr := encodeReq(fresh(), s.Transport == trHTTPJSON)
		if eerr != nil {
			return false, vt.Failf("harness/encode", "encodeReq: %v", eerr)
		}
		enc := ""
		switch s.Compression {
		case "gzip", "zlib", "deflate":
			enc = s.Compression
		}
		cb, cerr := compressBody(enc, body)
		if cerr != nil {
			return false, vt.Failf("harness/compress", "%v", cerr)
		}
		ct := ctProto
		if s.Transport == trHTTPJSON {
			ct = ctJSON
		}
		var herr error
		w, herr = E.rawHTTP(rawReq{Auth: s.Auth, Method: "POST", Path: urlPath[s.Signal], ContentType: ct, ContentEncoding: enc, CredValue: credValue(cred), Body: cb})
		if herr != nil {
			return true, vt.Failf("wire/http-transport-error", "raw POST failed: %v", herr)
		}
	}
	calls2, trees2 := r.sink.snapshot()

	// ---- oracle: what was on the wire (raw leg) first, then what the exporter concluded ----
	switch {
	case !authorised:
		if calls2 != 0 {
			return true, vt.Failf("unauthenticated/reached-consumer/"+tk, "%s: raw request with credentials %q reached the consumer", s.Transport, cred)
		}
		if s.Transport == trGRPC {
			if codes.Code(w.Code) != codes.Unauthenticated {
				return true, vt.Failf("unauthenticated/wire-status/grpc", "raw gRPC request with credentials %q answered with %s", cred, codes.Code(w.Code))
			}
		} else if w.HTTP != 401 {
			return true, vt.Failf("unauthenticated/wire-status/http", "raw HTTP request with credentials %q answered with %d", cred, w.HTTP)
		}
	case items == 0:
		if calls2 != 0 {
			return true, vt.Failf("no-items/consumer-invoked/"+tk, "%s %s: raw request without items invoked the consumer", s.Signal, s.Transport)
		}
		if s.Transport == trGRPC && codes.Code(w.Code) != codes.OK || s.Transport != trGRPC && w.HTTP != 200 {
			return true, vt.Failf("no-items/not-acknowledged/"+tk, "%s %s: raw request without items answered with grpc=%s http=%d", s.Signal, s.Transport, codes.Code(w.Code), w.HTTP)
		}
	default:
		if calls2 != 1 {
			return true, vt.Failf("consumer-calls/"+tk, "%s %s: one raw request produced %d consumer calls", s.Signal, s.Transport, calls2)
		}
		if f := comparePayload(c, s, "raw leg", s.Signal, s.Transport, sent, trees2[0]); f != nil {
			return true, f
		}
		if f := checkWire(c, s.Transport, o, w); f != nil {
			return true, f
		}
	}
	// ---- oracle: the exporter leg ---------------------------------------------------------

	switch {
	case !authorised:
		// never reaches the consumer, client-error status, not to be retried
		if calls != 0 {
			return true, vt.Failf("unauthenticated/reached-consumer/"+tk, "%s: request with credentials %q reached the consumer (%d calls) behind a receiver with an authenticator", s.Transport, cred, calls)
		}
		if sendErr == nil {
			return true, vt.Failf("unauthenticated/sender-saw-success/"+tk, "%s: exporter with credentials %q got success from a receiver with an authenticator", s.Transport, cred)
		}
		if !consumererror.IsPermanent(sendErr) {
			return true, vt.Failf("sender/"+tk+"/unauthenticated-not-permanent", "%s: exporter classifies the unauthenticated answer as retryable: %v", s.Transport, sendErr)
		}
		if tk == "grpc" { // over HTTP the status lives in the HTTP response only; how the exporter words its error is its own business
			if st, ok := status.FromError(sendErr); !ok || st.Code() != codes.Unauthenticated {
				return true, vt.Failf("sender/grpc/unauthenticated-code", "%s: exporter error does not carry Unauthenticated: %v", s.Transport, sendErr)
			}
		}
	case items == 0:
		if calls != 0 {
			return true, vt.Failf("no-items/consumer-invoked/"+tk, "%s %s: request without items invoked the consumer %d times", s.Signal, s.Transport, calls)
		}
		if sendErr != nil {
			return true, vt.Failf("no-items/not-acknowledged/"+tk, "%s %s: request without items was answered with %v", s.Signal, s.Transport, sendErr)
		}
	default:
		if calls != 1 {
			return true, vt.Failf("consumer-calls/"+tk, "%s %s/%s level %d (%d bytes): one export produced %d consumer calls (exporter returned %v)", s.Signal, s.Transport, orNone(s.Compression), s.Level, len(payload), calls, sendErr)
		}
		if f := comparePayload(c, s, "exporter leg", s.Signal, s.Transport, sent, trees[0]); f != nil {
			return true, f
		}
		if f := checkSender(c, s, tk, sendErr); f != nil {
			return true, f
		}
	}

	nt := o.Kind != "nil" || s.Compression != "" || !authorised
	return nt, nil
}

func b2i(b bool) int {
	if b {
		return 1
	}
	return 0
}

func orNone(s string) string {
	if s == "" {
		return "none"
	}
	return s
}

// checkWire: what the receiver put on the wire for a consumer outcome.
func checkWire(c *vt.C, transport string, o Outcome, w wireStatus) *vt.Finding {
	code, explicit := o.explicit()
	if transport == trGRPC {
		got := codes.Code(w.Code)
		switch {
		case o.Kind == "nil":
			if got != codes.OK {
				return vt.Failf("success-iff/wire-failure-consumer-ok/grpc", "consumer accepted, gRPC answer is %s (%s)", got, w.Msg)
			}
		case got == codes.OK:
			return vt.Failf("success-iff/wire-ok-consumer-failed/grpc", "consumer returned %s, gRPC answer is OK", o)
		case explicit:
			if got != code {
				return vt.Failf("wire/grpc-code", "consumer returned %s, gRPC answer carries %s", o, got)
			}
			if o.Retry && (!w.HasRetry || w.RetryDelay != o.delay()) {
				return vt.Failf("wire/grpc-retryinfo", "consumer returned %s, gRPC answer carries RetryInfo=%v delay=%v", o, w.HasRetry, w.RetryDelay)
			}
			if want := b2i(o.Retry) + b2i(o.Extra); w.NDetails != want {
				return vt.Failf("wire/grpc-details", "consumer returned %s (%d details), gRPC answer carries %d details", o, want, w.NDetails)
			}
			if !o.Retry && w.HasRetry {
				return vt.Failf("wire/grpc-retryinfo-invented", "consumer returned %s, gRPC answer carries RetryInfo delay=%v", o, w.RetryDelay)
			}
		case o.Kind == "permanent":
			if grpcRetryable(got, w.HasRetry) {
				return vt.Failf("wire/grpc-class/permanent-as-retryable", "consumer returned %s, gRPC answer %s is retryable by the OTLP table", o, got)
			}
		default:
			if !grpcRetryable(got, w.HasRetry) {
				return vt.Failf("wire/grpc-class/transient-as-permanent", "consumer returned %s, gRPC answer %s is not retryable by the OTLP table", o, got)
			}
		}
		return nil
	}
	switch {
	case o.Kind == "nil":
		if w.HTTP != 200 {
			return vt.Failf("success-iff/wire-failure-consumer-ok/http", "consumer accepted, HTTP answer is %d", w.HTTP)
		}
		return nil
	case w.HTTP < 400:
		return vt.Failf("success-iff/wire-ok-consumer-failed/http", "consumer returned %s, HTTP answer is %d", o, w.HTTP)
	case explicit:
		if want := httpImage(code); w.HTTP != want {
			return vt.Failf("wire/http-status-image/"+transport, "consumer returned %s, HTTP answer is %d, the table image of %s is %d (Retry-After %v)", o, w.HTTP, code, want, w.RetryAfter)
		}
	case o.Kind == "permanent":
		if httpRetryable(w.HTTP) {
			return vt.Failf("wire/http-class/permanent-as-retryable", "consumer returned %s, HTTP answer %d is retryable by the OTLP table", o, w.HTTP)
		}
	default:
		if !httpRetryable(w.HTTP) {
			return vt.Failf("wire/http-class/transient-as-permanent", "consumer returned %s, HTTP answer %d is not retryable by the OTLP table", o, w.HTTP)
		}
	}
	// "The response body for all HTTP 4xx and HTTP 5xx responses MUST be a Status message"
	if w.BodyErr != "" {
		return vt.Failf("wire/http-body-not-status/"+transport, "consumer returned %s, HTTP %d body is not a Status message (%s): %s; body=%q", o, w.HTTP, w.BodyCT, w.BodyErr, w.Raw)
	}
	if w.LooseJSON {
		// outside the statement: details are rendered {"typeUrl","value"} instead of proto3-JSON Any
		c.Class("observation:http-json-status-details-not-proto3-json")
	}
	if explicit && codes.Code(w.Code) != code {
		return vt.Failf("wire/http-body-code/"+transport, "consumer returned %s, Status message in the HTTP %d body carries %s", o, w.HTTP, codes.Code(w.Code))
	}
	// Retry-After
	if want := o.httpThrottle(); explicit && o.Retry && httpCarriesRetryAfter(w.HTTP) {
		if o.delay() != want {
			// accepted (Retry-After is whole seconds); counted so that the evidence shows it
			c.Class("observation:http-retry-after-drops-subsecond-part")
		}
		if len(w.RetryAfter) != 1 {
			return vt.Failf("wire/http-retry-after/missing", "consumer returned %s, HTTP %d carries Retry-After %v", o, w.HTTP, w.RetryAfter)
		}
		n, perr := strconv.ParseInt(w.RetryAfter[0], 10, 64)
		if perr != nil {
			return vt.Failf("wire/http-retry-after/format", "consumer returned %s, HTTP %d carries Retry-After %q", o, w.HTTP, w.RetryAfter[0])
		}
		if time.Duration(n)*time.Second < want {
			return vt.Failf("wire/http-retry-after/short", "consumer returned %s, Retry-After %d s is shorter than the requested whole seconds %v", o, n, want)
		}
		if time.Duration(n)*time.Second > want+time.Second {
			return vt.Failf("wire/http-retry-after/long", "consumer returned %s, Retry-After %d s exceeds the requested delay rounded up", o, n)
		}
	} else if len(w.RetryAfter) != 0 && !(explicit && o.Retry) {
		return vt.Failf("wire/http-retry-after/invented", "consumer returned %s (no delay requested), HTTP %d carries Retry-After %v", o, w.HTTP, w.RetryAfter)
	}
	return nil
}

// checkSender: what the exporter concluded (consumer was reached, items > 0).
func checkSender(c *vt.C, s *HopScript, tk string, sendErr error) *vt.Finding {
	o := s.Outcome
	if o.Kind == "nil" {
		if sendErr != nil {
			return vt.Failf("success-iff/sender-failed-consumer-ok/"+tk, "%s %s: consumer accepted but the exporter returned %v", s.Signal, s.Transport, sendErr)
		}
		return nil
	}
	if sendErr == nil {
		return vt.Failf("success-iff/sender-ok-consumer-failed/"+tk, "%s %s: consumer returned %s but the exporter returned nil", s.Signal, s.Transport, o)
	}
	wantPerm, throttle := o.grpcWantPermanent(), o.grpcThrottle()
	if tk == "http" {
		wantPerm, throttle = o.httpWantPermanent(), o.httpThrottle()
	}
	isPerm := consumererror.IsPermanent(sendErr)
	if wantPerm && !isPerm {
		return vt.Failf("sender/"+tk+"/retryable-but-table-says-permanent", "%s: consumer returned %s; the exporter's error is not permanent: %v", s.Transport, o, sendErr)
	}
	if !wantPerm && isPerm {
		return vt.Failf("sender/"+tk+"/permanent-but-table-says-retryable", "%s: consumer returned %s; the exporter's error is permanent: %v", s.Transport, o, sendErr)
	}
	if tk == "grpc" {
		if code, explicit := o.explicit(); explicit {
			if st, ok := status.FromError(sendErr); !ok || st.Code() != code {
				return vt.Failf("sender/grpc/code-lost", "consumer returned %s; the exporter's error does not carry that code: %v", o, sendErr)
			}
		}
	}
	return probeSender(c, tk, o.String(), sendErr, wantPerm, throttle)
}

// probeSender replays the exporter's error under the real retry sender.
func probeSender(c *vt.C, tk, what string, sendErr error, wantPerm bool, throttle time.Duration) *vt.Finding {
	switch {
	case wantPerm:
		n, res := E.probe.attempts(sendErr, time.Now().Add(30*time.Second))
		if n != 1 || res == nil {
			return vt.Failf("sender/"+tk+"/behaves-retryable", "%s: a retrying sender made %d attempts (verdict %v) on an error the table calls permanent: %v", what, n, res, sendErr)
		}
		c.Class("probe:permanent")
	case throttle > 0:
		// a sender that honours the delay cannot make its second attempt before now+throttle
		slack := throttle / 4
		if slack > 250*time.Millisecond {
			slack = 250 * time.Millisecond
		}
		n, res := E.probe.attempts(sendErr, time.Now().Add(throttle-slack))
		if n > 1 || res == nil { // (0 attempts: the deadline had passed before the first one; still no early retry)
			return vt.Failf("sender/"+tk+"/throttle-not-honoured", "%s: requested delay %v, but a retrying sender made %d attempts before the delay had passed: %v", what, throttle, n, sendErr)
		}
		c.Class("probe:throttle-honoured")
	default:
		start := time.Now()
		n, res := E.probe.attempts(sendErr, start.Add(30*time.Second))
		if n != 2 || res != nil {
			return vt.Failf("sender/"+tk+"/behaves-permanent", "%s: a retrying sender made %d attempts (verdict %v) on an error the table calls retryable: %v", what, n, res, sendErr)
		}
		c.Class("probe:retried")
	}
	return nil
}

func TestHop(t *testing.T) {
	E = newEnv(t)
	vt.Run(t, cHop, vt.N(10000, 400000), genHop, runHop)
}
