package c15

import (
	"testing"

	"go.opentelemetry.io/collector/pdata/plog"
	"go.opentelemetry.io/collector/pdata/pmetric"
	"go.opentelemetry.io/collector/pdata/pprofile"
	"go.opentelemetry.io/collector/pdata/ptrace"
	"go.opentelemetry.io/collector/verifharness/sig"
	"go.opentelemetry.io/collector/verifharness/vt"
)

// FuzzRawBody (thorough tier): coverage-guided request bodies against the live
// receiver, same oracle as the raw-requests check: the reference decoder of
// the declared content type decides between "400 and the consumer is not
// reached" and "200 and the consumer gets exactly the decoded payload (or is
// not invoked when there are no items)".

func fuzzSeedPayloads() map[string]any {
	l := plog.NewLogs()
	lr := l.ResourceLogs().AppendEmpty().ScopeLogs().AppendEmpty().LogRecords().AppendEmpty()
	lr.Body().SetStr("b")
	lr.Attributes().PutInt("k", 7)
	tr := ptrace.NewTraces()
	sp := tr.ResourceSpans().AppendEmpty().ScopeSpans().AppendEmpty().Spans().AppendEmpty()
	sp.SetName("s")
	sp.Events().AppendEmpty().SetName("e")
	m := pmetric.NewMetrics()
	mm := m.ResourceMetrics().AppendEmpty().ScopeMetrics().AppendEmpty().Metrics().AppendEmpty()
	mm.SetName("m")
	mm.SetEmptySum().DataPoints().AppendEmpty().SetIntValue(3)
	p := pprofile.NewProfiles()
	pp := p.ResourceProfiles().AppendEmpty().ScopeProfiles().AppendEmpty().Profiles().AppendEmpty()
	pp.Sample().AppendEmpty().Value().Append(1)
	return map[string]any{sig.Logs: l, sig.Traces: tr, sig.Metrics: m, sig.Profiles: p}
}

var cFuzz = vt.New("C15", "fuzz-raw-body")

func FuzzRawBody(f *testing.F) {
	if vt.ReplayPath() != "" {
		f.Skip("replay mode")
	}
	defer cFuzz.Flush()
	// one environment per process (coordinator and every fuzz worker), shut down with it
	fe, ferr := buildEnv()
	if ferr != nil {
		f.Skipf("environment: %v", ferr)
	}
	f.Cleanup(func() { fe.close(f) })
	for i, s := range sig.All {
		v := fuzzSeedPayloads()[s]
		pb, _ := encodeReq(v, false)
		js, _ := encodeReq(v, true)
		f.Add(uint8(i), false, pb)
		f.Add(uint8(i), true, js)
		f.Add(uint8(i), true, pb)
		f.Add(uint8(i), false, js)
	}
	for _, seed := range jsonSeeds {
		f.Add(uint8(0), true, []byte(seed))
	}
	f.Fuzz(func(t *testing.T, si uint8, json bool, body []byte) {
		if len(body) > 1<<16 {
			return
		}
		E = fe
		s := RawScript{Wire: "http", Signal: sig.All[int(si)%len(sig.All)], Method: "POST", Cred: "none", ContentType: ctProto, Plain: body, Origin: "fuzz"}
		if json {
			s.ContentType = ctJSON
		}
		nt, fd := runRawInner(&s)
		cFuzz.Eval(nt, scriptKey(s.Signal, json, body))
		if fd != nil && !cFuzz.IsKnown(fd.Sig) {
			t.Fatalf("%v", fd)
		}
	})
}
