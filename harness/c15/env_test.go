package c15

import (
	"context"
	"errors"
	"fmt"
	"net"
	"net/http"
	"strings"
	"sync"
	"testing"
	"time"

	"google.golang.org/grpc"
	"google.golang.org/grpc/credentials/insecure"

	"go.opentelemetry.io/collector/component"
	"go.opentelemetry.io/collector/component/componenttest"
	"go.opentelemetry.io/collector/config/configauth"
	"go.opentelemetry.io/collector/config/configcompression"
	"go.opentelemetry.io/collector/config/confighttp"
	"go.opentelemetry.io/collector/config/configopaque"
	"go.opentelemetry.io/collector/config/configretry"
	"go.opentelemetry.io/collector/config/configtls"
	"go.opentelemetry.io/collector/consumer"
	"go.opentelemetry.io/collector/consumer/xconsumer"
	"go.opentelemetry.io/collector/exporter"
	"go.opentelemetry.io/collector/exporter/exporterhelper"
	"go.opentelemetry.io/collector/exporter/exportertest"
	"go.opentelemetry.io/collector/exporter/otlpexporter"
	"go.opentelemetry.io/collector/exporter/otlphttpexporter"
	"go.opentelemetry.io/collector/exporter/xexporter"
	"go.opentelemetry.io/collector/pdata/plog"
	"go.opentelemetry.io/collector/pdata/pmetric"
	"go.opentelemetry.io/collector/pdata/pprofile"
	"go.opentelemetry.io/collector/pdata/ptrace"
	"go.opentelemetry.io/collector/receiver/otlpreceiver"
	"go.opentelemetry.io/collector/receiver/receivertest"
	"go.opentelemetry.io/collector/receiver/xreceiver"
	"go.opentelemetry.io/collector/verifharness/pview"
	"go.opentelemetry.io/collector/verifharness/sig"
	"go.opentelemetry.io/collector/verifharness/vt"
)

func TestMain(m *testing.M) { vt.Main(m) }

// ---------------------------------------------------------------------------
// The scripted next consumer behind a receiver.
// ---------------------------------------------------------------------------

type sink struct {
	mu      sync.Mutex
	outcome error
	carry   string
	calls   int
	trees   []any
	// hook, when set, replaces the scripted behaviour (concurrent bursts: the
	// outcome is decided by the id found inside the received payload).
	hook func(v any) error
}

func (s *sink) setHook(h func(v any) error) {
	s.mu.Lock()
	s.hook = h
	s.mu.Unlock()
}

func (s *sink) reset(outcome error) {
	s.mu.Lock()
	s.outcome, s.calls, s.trees, s.carry = outcome, 0, nil, ""
	s.mu.Unlock()
}

// resetCarry: like reset, and the error names (part of) the received payload as the data that failed.
func (s *sink) resetCarry(outcome error, carry string) {
	s.mu.Lock()
	s.outcome, s.calls, s.trees, s.carry = outcome, 0, nil, carry
	s.mu.Unlock()
}

func (s *sink) take(v any) error {
	s.mu.Lock()
	h := s.hook
	s.mu.Unlock()
	if h != nil {
		return h(v)
	}
	t := pview.Of(v) // rendered inside the call: the payload belongs to the caller afterwards
	s.mu.Lock()
	defer s.mu.Unlock()
	s.calls++
	s.trees = append(s.trees, t)
	return carried(s.outcome, v, s.carry)
}

func (s *sink) snapshot() (int, []any) {
	s.mu.Lock()
	defer s.mu.Unlock()
	return s.calls, append([]any(nil), s.trees...)
}

// ---------------------------------------------------------------------------
// Fake server-side authenticator extension.
// ---------------------------------------------------------------------------

const (
	goodCred = "Bearer c15-good"
	badCred  = "Bearer c15-bad"
)

var authID = component.MustNewIDWithName("c15auth", "srv")

type fakeAuth struct {
	component.StartFunc
	component.ShutdownFunc
	mu    sync.Mutex
	calls int
}

var errBadCred = errors.New("c15: credentials rejected")

// Authenticate accepts exactly one credential, under the header name either
// transport delivers it with (HTTP canonical form, gRPC metadata lower case).
func (a *fakeAuth) Authenticate(ctx context.Context, sources map[string][]string) (context.Context, error) {
	a.mu.Lock()
	a.calls++
	a.mu.Unlock()
	for k, vs := range sources {
		if strings.EqualFold(k, "authorization") {
			for _, v := range vs {
				if v == goodCred {
					return ctx, nil
				}
			}
		}
	}
	return ctx, errBadCred
}

type extHost struct {
	ext map[component.ID]component.Component
}

func (h extHost) GetExtensions() map[component.ID]component.Component { return h.ext }

// ---------------------------------------------------------------------------
// A live receiver (gRPC + HTTP) on loopback.
// ---------------------------------------------------------------------------

type rcv struct {
	auth     bool
	grpcAddr string
	httpAddr string
	sink     *sink
	comps    []component.Component
}

func freePort() (string, error) {
	l, err := net.Listen("tcp", "127.0.0.1:0")
	if err != nil {
		return "", err
	}
	a := l.Addr().String()
	return a, l.Close()
}

func startReceiver(auth bool) (*rcv, error) {
	var last error
	for attempt := 0; attempt < 30; attempt++ {
		r, err := tryStartReceiver(auth)
		if err == nil {
			return r, nil
		}
		last = err
		if !strings.Contains(err.Error(), "address already in use") {
			break
		}
	}
	return nil, last
}

func tryStartReceiver(auth bool) (*rcv, error) {
	ga, err := freePort()
	if err != nil {
		return nil, err
	}
	ha, err := freePort()
	if err != nil {
		return nil, err
	}
	f := otlpreceiver.NewFactory()
	cfg := f.CreateDefaultConfig().(*otlpreceiver.Config)
	cfg.GRPC.NetAddr.Endpoint = ga
	cfg.HTTP.ServerConfig.Endpoint = ha
	h := extHost{ext: map[component.ID]component.Component{}}
	if auth {
		cfg.GRPC.Auth = &configauth.Authentication{AuthenticatorID: authID}
		cfg.HTTP.ServerConfig.Auth = &confighttp.AuthConfig{Authentication: configauth.Authentication{AuthenticatorID: authID}}
		h.ext[authID] = &fakeAuth{}
	}
	if err := cfg.Validate(); err != nil {
		return nil, err
	}
	r := &rcv{auth: auth, grpcAddr: ga, httpAddr: ha, sink: &sink{}}
	set := receivertest.NewNopSettings(f.Type())
	ctx := context.Background()
	lc, err := consumer.NewLogs(func(_ context.Context, v plog.Logs) error { return r.sink.take(v) })
	if err != nil {
		return nil, err
	}
	tc, err := consumer.NewTraces(func(_ context.Context, v ptrace.Traces) error { return r.sink.take(v) })
	if err != nil {
		return nil, err
	}
	mc, err := consumer.NewMetrics(func(_ context.Context, v pmetric.Metrics) error { return r.sink.take(v) })
	if err != nil {
		return nil, err
	}
	pc, err := xconsumer.NewProfiles(func(_ context.Context, v pprofile.Profiles) error { return r.sink.take(v) })
	if err != nil {
		return nil, err
	}
	rl, err := f.CreateLogs(ctx, set, cfg, lc)
	if err != nil {
		return nil, err
	}
	rt, err := f.CreateTraces(ctx, set, cfg, tc)
	if err != nil {
		return nil, err
	}
	rm, err := f.CreateMetrics(ctx, set, cfg, mc)
	if err != nil {
		return nil, err
	}
	xf, ok := f.(xreceiver.Factory)
	if !ok {
		return nil, errors.New("otlpreceiver factory does not offer profiles")
	}
	rp, err := xf.CreateProfiles(ctx, set, cfg, pc)
	if err != nil {
		return nil, err
	}
	r.comps = []component.Component{rl, rt, rm, rp}
	for i, c := range r.comps {
		if err := c.Start(ctx, h); err != nil {
			for _, d := range r.comps[:i+1] {
				_ = d.Shutdown(ctx)
			}
			return nil, err
		}
	}
	return r, nil
}

func (r *rcv) shutdown() error {
	var errs []error
	for _, c := range r.comps {
		errs = append(errs, c.Shutdown(context.Background()))
	}
	return errors.Join(errs...)
}

// ---------------------------------------------------------------------------
// Environment: two receivers, cached exporters, raw clients, retry probe.
// ---------------------------------------------------------------------------

type expKey struct {
	transport, compression string
	level                  int // compression_params.level (HTTP exporter; 0 = not set)
	auth                   bool
	cred                   string
	signal                 string
	endpoint               string // override (scripted HTTP server); "" = the receiver
}

type sendFunc func(ctx context.Context, v any) error

type env struct {
	mu       sync.Mutex
	plain    *rcv
	authed   *rcv
	exps     map[expKey]sendFunc
	shutdown []func(context.Context) error
	httpc    *http.Client
	conns    map[bool]*grpc.ClientConn
	probe    *retryProbe
	fake     *fakeHTTP
}

func (e *env) rcv(auth bool) *rcv {
	if auth {
		return e.authed
	}
	return e.plain
}

func buildEnv() (*env, error) {
	e := &env{exps: map[expKey]sendFunc{}, conns: map[bool]*grpc.ClientConn{}}
	var err error
	if e.plain, err = startReceiver(false); err != nil {
		return nil, fmt.Errorf("cannot start receiver: %w", err)
	}
	if e.authed, err = startReceiver(true); err != nil {
		_ = e.plain.shutdown()
		return nil, fmt.Errorf("cannot start receiver with authenticator: %w", err)
	}
	e.httpc = &http.Client{Timeout: 60 * time.Second, Transport: &http.Transport{MaxIdleConnsPerHost: 4, DisableCompression: true}}
	for _, a := range []bool{false, true} {
		cc, cerr := grpc.NewClient(e.rcv(a).grpcAddr, grpc.WithTransportCredentials(insecure.NewCredentials()))
		if cerr != nil {
			return nil, fmt.Errorf("grpc.NewClient: %w", cerr)
		}
		e.conns[a] = cc
	}
	if e.probe, err = newRetryProbe(); err != nil {
		return nil, fmt.Errorf("retry probe: %w", err)
	}
	return e, nil
}

// newEnv starts the environment of one test function and registers its
// orderly shutdown (exporters, clients, both receivers) as a cleanup.
func newEnv(t *testing.T) *env {
	t.Helper()
	e, err := buildEnv()
	if err != nil {
		t.Fatalf("%v", err)
	}
	t.Cleanup(func() { e.close(t) })
	return e
}

func (e *env) close(t testing.TB) {
	ctx := context.Background()
	for _, cc := range e.conns {
		_ = cc.Close()
	}
	e.httpc.CloseIdleConnections()
	for _, f := range e.shutdown {
		if err := f(ctx); err != nil {
			t.Errorf("exporter shutdown: %v", err)
		}
	}
	if e.fake != nil {
		e.fake.close()
	}
	_ = e.probe.exp.Shutdown(ctx)
	if err := e.plain.shutdown(); err != nil {
		t.Errorf("receiver shutdown: %v", err)
	}
	if err := e.authed.shutdown(); err != nil {
		t.Errorf("receiver shutdown (auth): %v", err)
	}
}

func credHeader(cred string) map[string]configopaque.String {
	switch cred {
	case "good":
		return map[string]configopaque.String{"authorization": goodCred}
	case "bad":
		return map[string]configopaque.String{"authorization": badCred}
	}
	return nil
}

// exporter returns the cached exporter for the configuration, creating and
// starting it on first use.
func (e *env) exporter(k expKey) (sendFunc, error) {
	e.mu.Lock()
	defer e.mu.Unlock()
	if s, ok := e.exps[k]; ok {
		return s, nil
	}
	send, stop, err := buildExporter(k, e.rcv(k.auth))
	if err != nil {
		return nil, err
	}
	e.shutdown = append(e.shutdown, stop)
	e.exps[k] = send
	return send, nil
}

// buildExporter creates and starts one exporter aimed at receiver r.
func buildExporter(k expKey, r *rcv) (sendFunc, func(context.Context) error, error) {
	ctx := context.Background()
	var f exporter.Factory
	var cfg component.Config
	switch k.transport {
	case trGRPC:
		f = otlpexporter.NewFactory()
		c := f.CreateDefaultConfig().(*otlpexporter.Config)
		c.ClientConfig.Endpoint = r.grpcAddr
		c.ClientConfig.TLSSetting = configtls.ClientConfig{Insecure: true}
		c.ClientConfig.Compression = configcompression.Type(k.compression)
		c.ClientConfig.Headers = credHeader(k.cred)
		c.QueueConfig.Enabled = false
		c.RetryConfig.Enabled = false
		c.TimeoutConfig.Timeout = 60 * time.Second
		if err := c.Validate(); err != nil {
			return nil, nil, err
		}
		cfg = c
	case trHTTPProto, trHTTPJSON:
		f = otlphttpexporter.NewFactory()
		c := f.CreateDefaultConfig().(*otlphttpexporter.Config)
		c.ClientConfig.Endpoint = "http://" + r.httpAddr
		if k.endpoint != "" {
			c.ClientConfig.Endpoint = k.endpoint
		}
		c.ClientConfig.Compression = configcompression.Type(k.compression)
		c.ClientConfig.CompressionParams = configcompression.CompressionParams{Level: configcompression.Level(k.level)}
		c.ClientConfig.Headers = credHeader(k.cred)
		c.ClientConfig.Timeout = 60 * time.Second
		c.QueueConfig.Enabled = false
		c.RetryConfig.Enabled = false
		c.Encoding = otlphttpexporter.EncodingProto
		if k.transport == trHTTPJSON {
			c.Encoding = otlphttpexporter.EncodingJSON
		}
		if err := c.Validate(); err != nil {
			return nil, nil, err
		}
		if err := c.ClientConfig.Validate(); err != nil { // (what component validation would run: compression params)
			return nil, nil, err
		}
		cfg = c
	default:
		return nil, nil, fmt.Errorf("unknown transport %q", k.transport)
	}
	set := exportertest.NewNopSettings(f.Type())
	var comp component.Component
	var send sendFunc
	switch k.signal {
	case sig.Logs:
		x, err := f.CreateLogs(ctx, set, cfg)
		if err != nil {
			return nil, nil, err
		}
		comp, send = x, func(ctx context.Context, v any) error { return x.ConsumeLogs(ctx, v.(plog.Logs)) }
	case sig.Traces:
		x, err := f.CreateTraces(ctx, set, cfg)
		if err != nil {
			return nil, nil, err
		}
		comp, send = x, func(ctx context.Context, v any) error { return x.ConsumeTraces(ctx, v.(ptrace.Traces)) }
	case sig.Metrics:
		x, err := f.CreateMetrics(ctx, set, cfg)
		if err != nil {
			return nil, nil, err
		}
		comp, send = x, func(ctx context.Context, v any) error { return x.ConsumeMetrics(ctx, v.(pmetric.Metrics)) }
	case sig.Profiles:
		xf, ok := f.(xexporter.Factory)
		if !ok {
			return nil, nil, errors.New("exporter factory does not offer profiles")
		}
		x, err := xf.CreateProfiles(ctx, set, cfg)
		if err != nil {
			return nil, nil, err
		}
		comp, send = x, func(ctx context.Context, v any) error { return x.ConsumeProfiles(ctx, v.(pprofile.Profiles)) }
	default:
		return nil, nil, fmt.Errorf("unknown signal %q", k.signal)
	}
	if err := comp.Start(ctx, componenttest.NewNopHost()); err != nil {
		return nil, nil, err
	}
	return send, comp.Shutdown, nil
}

// ---------------------------------------------------------------------------
// Retry probe: what does a retrying sender DO with this error?  The error an
// OTLP exporter returned is replayed as the first outcome of a push function
// behind the real exporterhelper retry sender (public API); the second attempt
// succeeds.  Observed: the number of attempts before the request's deadline.
//   - permanent          => 1 attempt, error returned
//   - retryable          => 2 attempts, nil
//   - throttle(delay>=D) => with a deadline earlier than now+D: 1 attempt
//     (a retry sender that honours the delay cannot retry before the
//     deadline).  One-sided and sound: the retry instant is computed after the
//     deadline was fixed, so delay >= D implies no second attempt whatever the
//     scheduling.
// ---------------------------------------------------------------------------

type retryProbe struct {
	exp   exporter.Logs
	mu    sync.Mutex
	err   error
	calls int
}

func newRetryProbe() (*retryProbe, error) {
	p := &retryProbe{}
	push := func(context.Context, plog.Logs) error {
		p.mu.Lock()
		defer p.mu.Unlock()
		p.calls++
		if p.calls == 1 {
			return p.err
		}
		return nil
	}
	bo := configretry.NewDefaultBackOffConfig()
	bo.Enabled = true
	bo.InitialInterval = time.Microsecond
	bo.RandomizationFactor = 0
	bo.Multiplier = 1
	bo.MaxInterval = time.Microsecond
	bo.MaxElapsedTime = 0
	q := exporterhelper.NewDefaultQueueConfig()
	q.Enabled = false
	x, err := exporterhelper.NewLogs(context.Background(), exportertest.NewNopSettings(component.MustNewType("c15probe")), &struct{}{}, push,
		exporterhelper.WithRetry(bo), exporterhelper.WithQueue(q), exporterhelper.WithTimeout(exporterhelper.TimeoutConfig{Timeout: 0}))
	if err != nil {
		return nil, err
	}
	if err := x.Start(context.Background(), componenttest.NewNopHost()); err != nil {
		return nil, err
	}
	p.exp = x
	return p, nil
}

var probePayload = func() plog.Logs {
	l := plog.NewLogs()
	l.ResourceLogs().AppendEmpty().ScopeLogs().AppendEmpty().LogRecords().AppendEmpty().Body().SetStr("probe")
	return l
}

// attempts replays err under a request deadline and returns the number of
// attempts made and the final verdict.
func (p *retryProbe) attempts(err error, deadline time.Time) (int, error) {
	p.mu.Lock()
	p.err, p.calls = err, 0
	p.mu.Unlock()
	ctx, cancel := context.WithDeadline(context.Background(), deadline)
	defer cancel()
	res := p.exp.ConsumeLogs(ctx, probePayload())
	p.mu.Lock()
	defer p.mu.Unlock()
	return p.calls, res
}
