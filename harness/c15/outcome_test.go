package c15

import (
	"errors"
	"fmt"
	"time"

	"google.golang.org/genproto/googleapis/rpc/errdetails"
	"google.golang.org/grpc/codes"
	"google.golang.org/grpc/status"
	"google.golang.org/protobuf/types/known/durationpb"
	"pgregory.net/rapid"

	"go.opentelemetry.io/collector/consumer/consumererror"
	"go.opentelemetry.io/collector/consumer/consumererror/xconsumererror"
	"go.opentelemetry.io/collector/pdata/plog"
	"go.opentelemetry.io/collector/pdata/pmetric"
	"go.opentelemetry.io/collector/pdata/pprofile"
	"go.opentelemetry.io/collector/pdata/ptrace"
)

// Outcome scripts what the receiver's next consumer answers.
type Outcome struct {
	Kind    string // nil | plain | permanent | status
	Code    uint32 // status: 1..16
	Retry   bool   // status: attach RetryInfo{DelayMS}
	DelayMS int64
	Extra   bool   // status: an unrelated detail (ErrorInfo) travels in front of RetryInfo
	Wrap    string // "" | fmt | permanent — how the error is wrapped before it is returned
	// Carry: the error additionally names the data that failed, the way processors and exporters report a partial
	// failure (consumererror.New{Logs,Traces,Metrics}, xconsumererror.NewProfiles around the error): "" | first (the
	// first item of the received payload only) | whole | empty.  It does not change what the error means: the consumer
	// did not accept the request.
	Carry string `json:",omitempty"`
}

func (o Outcome) String() string {
	switch o.Kind {
	case "status":
		s := fmt.Sprintf("status(%s", codes.Code(o.Code))
		if o.Retry {
			s += fmt.Sprintf(",retry=%dms", o.DelayMS)
		}
		if o.Extra {
			s += ",extra"
		}
		if o.Wrap != "" {
			s += ",wrap=" + o.Wrap
		}
		if o.Carry != "" {
			s += ",carry=" + o.Carry
		}
		return s + ")"
	}
	k := o.Kind
	if o.Carry != "" {
		k += "+carry:" + o.Carry
	}
	if o.Wrap != "" {
		return k + "/" + o.Wrap
	}
	return k
}

func (o Outcome) delay() time.Duration { return time.Duration(o.DelayMS) * time.Millisecond }

// err builds the Go error the consumer returns.
func (o Outcome) err() error {
	var e error
	switch o.Kind {
	case "nil":
		return nil
	case "plain":
		e = errors.New("scripted transient failure")
	case "permanent":
		e = consumererror.NewPermanent(errors.New("scripted permanent failure"))
	case "status":
		st := status.New(codes.Code(o.Code), "scripted status")
		if o.Extra {
			st2, derr := st.WithDetails(&errdetails.ErrorInfo{Reason: "c15", Domain: "verif"})
			if derr != nil {
				panic(derr)
			}
			st = st2
		}
		if o.Retry {
			st2, derr := st.WithDetails(&errdetails.RetryInfo{RetryDelay: durationpb.New(o.delay())})
			if derr != nil {
				panic(derr)
			}
			st = st2
		}
		e = st.Err()
	default:
		panic("unknown outcome kind " + o.Kind)
	}
	switch o.Wrap {
	case "":
	case "fmt":
		e = fmt.Errorf("wrapped by a processor: %w", e)
	case "permanent":
		e = consumererror.NewPermanent(e)
	default:
		panic("unknown wrap " + o.Wrap)
	}
	return e
}

// Classification of the outcome according to the property statement: an
// explicit status wins, then permanent, then everything else.
func (o Outcome) explicit() (codes.Code, bool) {
	if o.Kind == "status" {
		return codes.Code(o.Code), true
	}
	return codes.OK, false
}

// grpcWantPermanent: what the gRPC sender must conclude (OTLP/gRPC table).
func (o Outcome) grpcWantPermanent() bool {
	switch o.Kind {
	case "status":
		return !grpcRetryable(codes.Code(o.Code), o.Retry)
	case "permanent":
		return true
	}
	return false
}

// httpWantPermanent: what the HTTP sender must conclude (OTLP/HTTP table
// applied to the table image of the status).
func (o Outcome) httpWantPermanent() bool {
	switch o.Kind {
	case "status":
		return !httpRetryable(httpImage(codes.Code(o.Code)))
	case "permanent":
		return true
	}
	return false
}

// grpcThrottle: the delay a gRPC sender must honour (0 = none requested).
func (o Outcome) grpcThrottle() time.Duration {
	if o.Kind == "status" && o.Retry && grpcRetryable(codes.Code(o.Code), true) {
		return o.delay()
	}
	return 0
}

// httpThrottle: the delay an HTTP sender must honour: Retry-After carries
// whole seconds and exists for 429/503 only.
func (o Outcome) httpThrottle() time.Duration {
	if o.Kind == "status" && o.Retry && httpCarriesRetryAfter(httpImage(codes.Code(o.Code))) {
		return o.delay().Truncate(time.Second)
	}
	return 0
}

var delaysMS = []int64{0, 1, 40, 250, 999, 1000, 1001, 1500, 2000, 2999, 3000, 7000, 60000, 3600000}

func genOutcome(t *rapid.T) Outcome {
	o := genOutcomeBase(t)
	if o.Kind != "nil" && rapid.IntRange(0, 3).Draw(t, "carry") == 0 {
		o.Carry = rapid.SampledFrom([]string{"first", "first", "whole", "empty"}).Draw(t, "carrymode")
	}
	return o
}

// carried wraps e the way a component reports which part of v failed.
func carried(e error, v any, mode string) error {
	if e == nil || mode == "" {
		return e
	}
	first := func(i *int) bool { *i++; return *i > 1 }
	switch d := v.(type) {
	case plog.Logs:
		sub := plog.NewLogs()
		switch mode {
		case "whole":
			d.CopyTo(sub)
		case "first":
			d.CopyTo(sub)
			n := 0
			sub.ResourceLogs().RemoveIf(func(plog.ResourceLogs) bool { return first(&n) })
			for i := 0; i < sub.ResourceLogs().Len(); i++ {
				n = 0
				sl := sub.ResourceLogs().At(i).ScopeLogs()
				sl.RemoveIf(func(plog.ScopeLogs) bool { return first(&n) })
				for j := 0; j < sl.Len(); j++ {
					n = 0
					sl.At(j).LogRecords().RemoveIf(func(plog.LogRecord) bool { return first(&n) })
				}
			}
		}
		return consumererror.NewLogs(e, sub)
	case ptrace.Traces:
		sub := ptrace.NewTraces()
		switch mode {
		case "whole":
			d.CopyTo(sub)
		case "first":
			d.CopyTo(sub)
			n := 0
			sub.ResourceSpans().RemoveIf(func(ptrace.ResourceSpans) bool { return first(&n) })
			for i := 0; i < sub.ResourceSpans().Len(); i++ {
				n = 0
				sl := sub.ResourceSpans().At(i).ScopeSpans()
				sl.RemoveIf(func(ptrace.ScopeSpans) bool { return first(&n) })
				for j := 0; j < sl.Len(); j++ {
					n = 0
					sl.At(j).Spans().RemoveIf(func(ptrace.Span) bool { return first(&n) })
				}
			}
		}
		return consumererror.NewTraces(e, sub)
	case pmetric.Metrics:
		sub := pmetric.NewMetrics()
		switch mode {
		case "whole":
			d.CopyTo(sub)
		case "first":
			d.CopyTo(sub)
			n := 0
			sub.ResourceMetrics().RemoveIf(func(pmetric.ResourceMetrics) bool { return first(&n) })
			for i := 0; i < sub.ResourceMetrics().Len(); i++ {
				n = 0
				sl := sub.ResourceMetrics().At(i).ScopeMetrics()
				sl.RemoveIf(func(pmetric.ScopeMetrics) bool { return first(&n) })
				for j := 0; j < sl.Len(); j++ {
					n = 0
					sl.At(j).Metrics().RemoveIf(func(pmetric.Metric) bool { return first(&n) })
				}
			}
		}
		return consumererror.NewMetrics(e, sub)
	case pprofile.Profiles:
		sub := pprofile.NewProfiles()
		if mode == "whole" {
			d.CopyTo(sub)
		}
		return xconsumererror.NewProfiles(e, sub)
	}
	return e
}

func genOutcomeBase(t *rapid.T) Outcome {
	switch rapid.SampledFrom([]string{"nil", "nil", "plain", "permanent", "status", "status", "status", "status", "status", "status"}).Draw(t, "outcome") {
	case "nil":
		return Outcome{Kind: "nil"}
	case "plain":
		return Outcome{Kind: "plain", Wrap: rapid.SampledFrom([]string{"", "fmt"}).Draw(t, "wrap")}
	case "permanent":
		return Outcome{Kind: "permanent", Wrap: rapid.SampledFrom([]string{"", "fmt"}).Draw(t, "wrap")}
	}
	o := Outcome{Kind: "status"}
	o.Code = uint32(rapid.SampledFrom(allCodes).Draw(t, "code"))
	o.Retry = rapid.Bool().Draw(t, "retryinfo")
	if o.Retry {
		o.DelayMS = rapid.OneOf(rapid.SampledFrom(delaysMS), rapid.Int64Range(0, 5000)).Draw(t, "delay_ms")
		o.Extra = rapid.IntRange(0, 3).Draw(t, "extra") == 0
	}
	o.Wrap = rapid.SampledFrom([]string{"", "", "fmt", "permanent"}).Draw(t, "wrap")
	return o
}
