package c15

import (
	"encoding/json"
	"google.golang.org/grpc/codes"
	"os"
	"path/filepath"
	"strconv"
	"testing"
	"time"

	"go.opentelemetry.io/collector/verifharness/sig"
	"go.opentelemetry.io/collector/verifharness/vt"
)

// status-table-sweep: the full outcome table, enumerated (not sampled) on
// every run: {nil, plain, plain/wrapped, permanent, permanent/wrapped} plus
// every one of the 16 non-OK codes x {no RetryInfo, RetryInfo 0, 700 ms, 2 s}
// x {bare, wrapped in a permanent error}, over the three transports, for the
// four signals (one fixed one-item payload each), against the receiver without
// authenticator.  Same interpreter and oracle as the hop check.

var cSweep = vt.New("C15", "status-table-sweep")

func sweepOutcomes() []Outcome {
	out := []Outcome{{Kind: "nil"}, {Kind: "plain"}, {Kind: "plain", Wrap: "fmt"}, {Kind: "permanent"}, {Kind: "permanent", Wrap: "fmt"}}
	for _, carry := range []string{"first", "whole", "empty"} {
		out = append(out, Outcome{Kind: "plain", Carry: carry}, Outcome{Kind: "permanent", Carry: carry},
			Outcome{Kind: "status", Code: uint32(codes.Unavailable), Carry: carry}, Outcome{Kind: "status", Code: uint32(codes.InvalidArgument), Carry: carry})
	}
	for _, c := range allCodes {
		for _, wrap := range []string{"", "permanent"} {
			out = append(out, Outcome{Kind: "status", Code: uint32(c), Wrap: wrap})
			for _, d := range []int64{0, 700, 2000} {
				out = append(out, Outcome{Kind: "status", Code: uint32(c), Retry: true, DelayMS: d, Wrap: wrap})
			}
		}
	}
	return out
}

func sweepScripts() []HopScript {
	seeds := fuzzSeedPayloads()
	var out []HopScript
	for _, s := range sig.All {
		payload := sig.Encode(seeds[s])
		for _, tr := range transports {
			for _, o := range sweepOutcomes() {
				out = append(out, HopScript{Signal: s, Payload: payload, Transport: tr, Cred: "none", Outcome: o})
			}
		}
	}
	return out
}

func runSweepOne(s HopScript) (nontrivial bool, key string, f *vt.Finding) {
	key = scriptKey(s.Signal, s.Transport, s.Compression, s.Auth, s.Cred, s.Outcome, s.Payload)
	cSweep.HangGuard(180*time.Second, s, "hang/hop", func() {
		nontrivial, f = runHopInner(cSweep, &s)
	})
	return nontrivial, key, f
}

func shardOf() (k, n int) {
	k, _ = strconv.Atoi(os.Getenv("VT_SHARD"))
	n, _ = strconv.Atoi(os.Getenv("VT_SHARDS"))
	if n < 1 {
		return 0, 1
	}
	return k % n, n
}

func TestStatusTableSweep(t *testing.T) {
	defer cSweep.Flush()
	if p := vt.ReplayPath(); p != "" {
		if vt.ReplayCheck() != "status-table-sweep" {
			t.Skip("replay file is for another check")
		}
		E = newEnv(t)
		var s HopScript
		if _, err := vt.LoadReplay(p, &s); err != nil {
			t.Fatalf("cannot load replay: %v", err)
		}
		nt, key, f := runSweepOne(s)
		cSweep.Eval(nt, key)
		if f != nil && !cSweep.Soft(f, s) {
			cSweep.Violation(f, s)
			t.Fatalf("replay fails: %v", f)
		}
		return
	}
	E = newEnv(t)
	k, n := shardOf()
	all := sweepScripts()
	for i, s := range all {
		if i%n != k {
			continue
		}
		nt, key, f := runSweepOne(s)
		cSweep.Eval(nt, key)
		if nt && i%97 == 0 {
			cSweep.Sample(s)
		}
		if f != nil && !cSweep.Soft(f, s) {
			cSweep.Violation(f, s)
			t.Fatalf("%v", f)
		}
	}
	cSweep.SetExhaustive(true)
	cSweep.Note("enumerated %d outcome x transport x signal combinations (this process: shard %d of %d)", len(all), k, n)
}

// ---------------------------------------------------------------------------
// Curated scripts: the minimal reproducers of the defect this check found and
// that has since been repaired in /repo (errorHandler answered 500 for a
// rejection in front of the OTLP handler when the Content-Type was not
// protobuf/JSON) are re-run on every execution of the raw-requests check as
// regression probes: a recurrence is a VIOLATION
// (rejected/status/500-from-error-handler-without-supported-content-type).
// VT_WRITE_REPLAYS=<dir> writes the curated replay files.
// ---------------------------------------------------------------------------

func knownProbes() map[string]RawScript {
	valid, _ := encodeReq(fuzzSeedPayloads()[sig.Logs], false)
	return map[string]RawScript{
		"unauthenticated-without-content-type": {Wire: "http", Signal: sig.Logs, Auth: true, Cred: "none", Method: "POST", ContentType: "", Plain: valid, Origin: "valid"},
		"unknown-encoding-with-text-plain":     {Wire: "http", Signal: sig.Logs, Cred: "none", Method: "POST", ContentType: "text/plain", Enc: "br", Plain: valid, Origin: "valid"},
	}
}

func curatedHops() map[string]HopScript {
	out := map[string]HopScript{}
	payload := sig.Encode(fuzzSeedPayloads()[sig.Traces])
	add := func(name, tr string, o Outcome) {
		out[name] = HopScript{Signal: sig.Traces, Payload: payload, Transport: tr, Cred: "none", Outcome: o}
	}
	add("plain-error-grpc", trGRPC, Outcome{Kind: "plain"})
	add("plain-error-http", trHTTPProto, Outcome{Kind: "plain"})
	add("permanent-error-grpc", trGRPC, Outcome{Kind: "permanent"})
	add("permanent-error-http-json", trHTTPJSON, Outcome{Kind: "permanent"})
	add("resource-exhausted-without-retryinfo-grpc", trGRPC, Outcome{Kind: "status", Code: 8})
	add("resource-exhausted-without-retryinfo-http", trHTTPProto, Outcome{Kind: "status", Code: 8})
	add("resource-exhausted-with-retryinfo-http-json", trHTTPJSON, Outcome{Kind: "status", Code: 8, Retry: true, DelayMS: 2000})
	add("unavailable-with-retryinfo-grpc", trGRPC, Outcome{Kind: "status", Code: 14, Retry: true, DelayMS: 1500})
	add("invalid-argument-grpc", trGRPC, Outcome{Kind: "status", Code: 3})
	add("aborted-wrapped-http", trHTTPProto, Outcome{Kind: "status", Code: 10, Wrap: "fmt"})
	return out
}

func TestWriteReplays(t *testing.T) {
	dir := os.Getenv("VT_WRITE_REPLAYS")
	if dir == "" {
		t.Skip("VT_WRITE_REPLAYS not set")
	}
	write := func(name, check string, script any) {
		b, err := json.MarshalIndent(map[string]any{"property": "C15", "check": check, "script": script}, "", " ")
		if err != nil {
			t.Fatal(err)
		}
		if err := os.WriteFile(filepath.Join(dir, name+".json"), b, 0o644); err != nil {
			t.Fatal(err)
		}
	}
	for n, s := range knownProbes() {
		write(n, "raw-requests", s)
	}
	for n, s := range curatedHops() {
		write(n, "hop", s)
	}
}
