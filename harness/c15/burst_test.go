package c15

import (
	"bytes"
	"context"
	"fmt"
	"sort"
	"strings"
	"sync"
	"testing"
	"time"

	"pgregory.net/rapid"

	"go.opentelemetry.io/collector/consumer/consumererror"
	"go.opentelemetry.io/collector/pdata/pcommon"
	"go.opentelemetry.io/collector/pdata/plog"
	"go.opentelemetry.io/collector/pdata/pmetric"
	"go.opentelemetry.io/collector/pdata/pprofile"
	"go.opentelemetry.io/collector/pdata/ptrace"
	"go.opentelemetry.io/collector/verifharness/pview"
	"go.opentelemetry.io/collector/verifharness/sig"
	"go.opentelemetry.io/collector/verifharness/vt"
)

// concurrent-burst: n senders (a mix of gRPC / HTTP-protobuf / HTTP-JSON
// exporters, any compression, any signal) released together against ONE
// receiver instance, each sending its own sequence of id-tagged payloads, some
// of them several hundred kB.  A receiver serving more than one client is the
// normal state of affairs; the property quantifies over every payload, so what
// one request's consumer call receives must not depend on what else is in
// flight.  The schedule is free (no sleeps, no timing assumptions); the oracle
// only speaks about the final multiset:
//   - every payload sent is handed to the consumer exactly once, equal to its
//     original (matched by the id embedded in it), nothing else arrives;
//   - each sender's verdict is the one the consumer gave for ITS payload (the
//     consumer decides by the embedded id): nil, retryable, or permanent.

type BurstSender struct {
	Signal      string
	Transport   string
	Compression string
	Level       int    // compression_params.level (HTTP exporters; 0 = not set)
	Base        []byte // small generated payload riding along (proto bytes)
	Items       int    // id-tagged items in front of it ...
	ItemBytes   int    // ... each carrying a string of this many bytes
	Sends       int    // payloads this sender sends one after the other (each with its own id)
	Fail        string // consumer outcome for this sender's payloads: "" | plain | permanent
}

type BurstScript struct {
	Senders []BurstSender
	Reps    int // the whole burst is repeated this many times (fresh ids)
}

var cBurst = vt.New("C15", "concurrent-burst")

const idAttr = "c15.id"

func pattern(id int64, i, n int) string {
	unit := fmt.Sprintf("%d/%d|", id, i)
	return strings.Repeat(unit, n/len(unit)+1)[:n]
}

// buildBurstPayload: an id-tagged resource with the bulk in front, the
// generated base payload behind it.
func buildBurstPayload(signal string, id int64, items, itemBytes int, base []byte) (any, error) {
	bv, err := sig.Decode(signal, base)
	if err != nil {
		return nil, err
	}
	switch signal {
	case sig.Logs:
		root := plog.NewLogs()
		rl := root.ResourceLogs().AppendEmpty()
		rl.Resource().Attributes().PutInt(idAttr, id)
		lrs := rl.ScopeLogs().AppendEmpty().LogRecords()
		lrs.EnsureCapacity(items)
		for i := 0; i < items; i++ {
			lr := lrs.AppendEmpty()
			lr.Attributes().PutInt("i", int64(i))
			lr.Body().SetStr(pattern(id, i, itemBytes))
		}
		bv.(plog.Logs).ResourceLogs().MoveAndAppendTo(root.ResourceLogs())
		return root, nil
	case sig.Traces:
		root := ptrace.NewTraces()
		rs := root.ResourceSpans().AppendEmpty()
		rs.Resource().Attributes().PutInt(idAttr, id)
		sps := rs.ScopeSpans().AppendEmpty().Spans()
		sps.EnsureCapacity(items)
		for i := 0; i < items; i++ {
			sp := sps.AppendEmpty()
			sp.SetName(fmt.Sprintf("%d/%d", id, i))
			sp.Attributes().PutStr("p", pattern(id, i, itemBytes))
		}
		bv.(ptrace.Traces).ResourceSpans().MoveAndAppendTo(root.ResourceSpans())
		return root, nil
	case sig.Metrics:
		root := pmetric.NewMetrics()
		rm := root.ResourceMetrics().AppendEmpty()
		rm.Resource().Attributes().PutInt(idAttr, id)
		m := rm.ScopeMetrics().AppendEmpty().Metrics().AppendEmpty()
		m.SetName(fmt.Sprintf("m%d", id))
		dps := m.SetEmptyGauge().DataPoints()
		dps.EnsureCapacity(items)
		for i := 0; i < items; i++ {
			dp := dps.AppendEmpty()
			dp.SetIntValue(int64(i))
			dp.Attributes().PutStr("p", pattern(id, i, itemBytes))
		}
		bv.(pmetric.Metrics).ResourceMetrics().MoveAndAppendTo(root.ResourceMetrics())
		return root, nil
	case sig.Profiles:
		root := pprofile.NewProfiles()
		rp := root.ResourceProfiles().AppendEmpty()
		rp.Resource().Attributes().PutInt(idAttr, id)
		ps := rp.ScopeProfiles().AppendEmpty().Profiles()
		ps.EnsureCapacity(items)
		for i := 0; i < items; i++ {
			p := ps.AppendEmpty()
			p.StringTable().Append(pattern(id, i, itemBytes))
			p.Sample().AppendEmpty().Value().Append(int64(i))
		}
		bv.(pprofile.Profiles).ResourceProfiles().MoveAndAppendTo(root.ResourceProfiles())
		return root, nil
	}
	return nil, fmt.Errorf("unknown signal %q", signal)
}

func resourceID(attrs pcommon.Map) (int64, bool) {
	if v, ok := attrs.Get(idAttr); ok && v.Type() == pcommon.ValueTypeInt {
		return v.Int(), true
	}
	return 0, false
}

// payloadID finds the id tag (first resource that carries one).
func payloadID(v any) (int64, bool) {
	switch x := v.(type) {
	case plog.Logs:
		for i := 0; i < x.ResourceLogs().Len(); i++ {
			if id, ok := resourceID(x.ResourceLogs().At(i).Resource().Attributes()); ok {
				return id, true
			}
		}
	case ptrace.Traces:
		for i := 0; i < x.ResourceSpans().Len(); i++ {
			if id, ok := resourceID(x.ResourceSpans().At(i).Resource().Attributes()); ok {
				return id, true
			}
		}
	case pmetric.Metrics:
		for i := 0; i < x.ResourceMetrics().Len(); i++ {
			if id, ok := resourceID(x.ResourceMetrics().At(i).Resource().Attributes()); ok {
				return id, true
			}
		}
	case pprofile.Profiles:
		for i := 0; i < x.ResourceProfiles().Len(); i++ {
			if id, ok := resourceID(x.ResourceProfiles().At(i).Resource().Attributes()); ok {
				return id, true
			}
		}
	}
	return 0, false
}

func signalOf(v any) string {
	switch v.(type) {
	case plog.Logs:
		return sig.Logs
	case ptrace.Traces:
		return sig.Traces
	case pmetric.Metrics:
		return sig.Metrics
	}
	return sig.Profiles
}

func genBurst(t *rapid.T) BurstScript {
	s := BurstScript{Reps: rapid.IntRange(1, 3).Draw(t, "reps")}
	// at least two senders; usually enough of them that several large HTTP requests overlap
	n := rapid.IntRange(2, 12).Draw(t, "senders")
	for i := 0; i < n; i++ {
		b := BurstSender{
			Signal:    rapid.SampledFrom(sig.All).Draw(t, "signal"),
			Transport: rapid.SampledFrom([]string{trHTTPProto, trHTTPProto, trHTTPJSON, trHTTPJSON, trGRPC}).Draw(t, "transport"),
			Sends:     rapid.IntRange(1, 6).Draw(t, "sends"),
			Fail:      rapid.SampledFrom([]string{"", "", "", "", "plain", "permanent"}).Draw(t, "fail"),
		}
		b.Compression = rapid.SampledFrom(compressionsOf(b.Transport)).Draw(t, "compression")
		b.Level = rapid.SampledFrom(levelsOf(b.Transport, b.Compression)).Draw(t, "level")
		switch rapid.SampledFrom([]string{"small", "medium", "large", "large", "large", "large"}).Draw(t, "size") {
		case "small":
			b.Items, b.ItemBytes = rapid.IntRange(1, 5).Draw(t, "items"), rapid.IntRange(0, 32).Draw(t, "item_bytes")
		case "medium":
			b.Items, b.ItemBytes = rapid.IntRange(30, 300).Draw(t, "items"), rapid.IntRange(32, 512).Draw(t, "item_bytes")
		default:
			b.Items, b.ItemBytes = rapid.IntRange(200, 600).Draw(t, "items"), rapid.IntRange(400, 2048).Draw(t, "item_bytes")
		}
		b.Base = genPayload(t, b.Signal, []string{"items", "items", "empty"})
		s.Senders = append(s.Senders, b)
	}
	return s
}

type burstRec struct {
	signal string
	bytes  []byte
}

func runBurst(s BurstScript) (nontrivial bool, key string, f *vt.Finding) {
	parts := []any{s.Reps}
	for _, b := range s.Senders {
		parts = append(parts, b.Signal, b.Transport, b.Compression, b.Level, b.Items, b.ItemBytes, b.Sends, b.Fail, b.Base)
	}
	key = scriptKey(parts...)
	cBurst.HangGuard(300*time.Second, s, "hang/burst", func() {
		for r := 0; r < s.Reps && f == nil; r++ {
			var nt bool
			nt, f = runBurstOnce(&s, int64(r))
			nontrivial = nontrivial || nt
		}
	})
	return nontrivial, key, f
}

func runBurstOnce(s *BurstScript, rep int64) (bool, *vt.Finding) {
	c := cBurst
	r := E.rcv(false)
	type job struct {
		sender int
		id     int64
		v      any
		want   []byte
		err    error
	}
	// everything is prepared before the senders are released
	var jobs [][]*job
	fail := map[int64]string{}
	sends := make([]sendFunc, len(s.Senders))
	large, httpLarge, total := 0, 0, 0
	for i, b := range s.Senders {
		send, err := E.exporter(expKey{transport: b.Transport, compression: b.Compression, level: b.Level, cred: "none", signal: b.Signal})
		if err != nil {
			return false, vt.Failf("harness/exporter", "cannot create exporter %s/%s: %v", b.Transport, b.Compression, err)
		}
		sends[i] = send
		var js []*job
		for k := 0; k < b.Sends; k++ {
			id := rep*1_000_000 + int64(i)*1000 + int64(k) + 1
			v, err := buildBurstPayload(b.Signal, id, b.Items, b.ItemBytes, b.Base)
			if err != nil {
				return false, vt.Failf("harness/payload", "burst payload: %v", err)
			}
			want := sig.Encode(v)
			js = append(js, &job{sender: i, id: id, v: v, want: want})
			fail[id] = b.Fail
			total++
		}
		if b.Items*b.ItemBytes >= 100_000 {
			large++
			if isHTTP(b.Transport) {
				httpLarge++
			}
		}
		jobs = append(jobs, js)
	}
	errPlain := Outcome{Kind: "plain"}.err()
	errPerm := Outcome{Kind: "permanent"}.err()
	var mu sync.Mutex
	got := map[int64][]burstRec{}
	var unidentified []burstRec
	r.sink.setHook(func(v any) error {
		rec := burstRec{signal: signalOf(v), bytes: sig.Encode(v)} // rendered inside the call
		id, ok := payloadID(v)
		mu.Lock()
		defer mu.Unlock()
		if !ok {
			unidentified = append(unidentified, rec)
			return nil
		}
		got[id] = append(got[id], rec)
		switch fail[id] {
		case "plain":
			return errPlain
		case "permanent":
			return errPerm
		}
		return nil
	})
	defer r.sink.setHook(nil)
	start := make(chan struct{})
	var wg sync.WaitGroup
	for i := range jobs {
		wg.Add(1)
		go func(i int) {
			defer wg.Done()
			<-start
			for _, j := range jobs[i] {
				j.err = sends[i](context.Background(), j.v)
			}
		}(i)
	}
	close(start)
	wg.Wait()
	mu.Lock()
	defer mu.Unlock()

	c.Class(fmt.Sprintf("senders:%d", len(s.Senders)), fmt.Sprintf("large-senders:%d", min(large, 4)), fmt.Sprintf("large-http-senders:%d", min(httpLarge, 4)))
	c.ClassN("requests", int64(total))
	nontrivial := len(s.Senders) >= 2

	equal := func(signal string, want, have []byte) (bool, string) {
		if bytes.Equal(want, have) {
			return true, ""
		}
		// slow path: the reference notion of equality
		wv, werr := sig.Decode(signal, want)
		hv, herr := sig.Decode(signal, have)
		if werr != nil || herr != nil {
			return false, fmt.Sprintf("decode: %v / %v", werr, herr)
		}
		d := pview.Diff(pview.Of(wv), pview.Of(hv))
		return d == "", d
	}
	ids := make([]int64, 0, len(got))
	for id := range got {
		ids = append(ids, id)
	}
	sort.Slice(ids, func(a, b int) bool { return ids[a] < ids[b] })
	desc := func(b BurstSender) string {
		return fmt.Sprintf("%s over %s/%s level %d, %d items x %d B", b.Signal, b.Transport, orNone(b.Compression), b.Level, b.Items, b.ItemBytes)
	}
	if len(unidentified) > 0 {
		return nontrivial, vt.Failf("burst/unknown-payload", "the consumer received %d payloads without an id tag although every sender tags its payloads (first: %s, %d bytes)", len(unidentified), unidentified[0].signal, len(unidentified[0].bytes))
	}
	for _, js := range jobs {
		for _, j := range js {
			b := s.Senders[j.sender]
			recs := got[j.id]
			delete(got, j.id)
			tk := "grpc"
			if isHTTP(b.Transport) {
				tk = "http"
			}
			if len(recs) == 1 {
				if ok, d := equal(b.Signal, j.want, recs[0].bytes); !ok || recs[0].signal != b.Signal {
					return nontrivial, vt.Failf("burst/payload-altered/"+tk, "payload %d (%s) sent while %d other senders were active reached the consumer altered (%d bytes sent, %d received as %s): %s", j.id, desc(b), len(s.Senders)-1, len(j.want), len(recs[0].bytes), recs[0].signal, d)
				}
			}
			// the sender's verdict is the consumer's verdict for this payload
			switch {
			case len(recs) == 0 && j.err == nil:
				return nontrivial, vt.Failf("burst/payload-missing/"+tk, "payload %d (%s): sender saw success but the consumer never received it", j.id, desc(b))
			case len(recs) == 0:
				return nontrivial, vt.Failf("burst/refused-before-consumer/"+tk, "payload %d (%s): valid request was refused without reaching the consumer: %v", j.id, desc(b), j.err)
			case len(recs) > 1:
				return nontrivial, vt.Failf("burst/payload-duplicated/"+tk, "payload %d (%s): one export, %d consumer calls", j.id, desc(b), len(recs))
			case b.Fail == "" && j.err != nil:
				return nontrivial, vt.Failf("burst/sender-outcome/failed-consumer-ok/"+tk, "payload %d (%s): consumer accepted, sender got %v", j.id, desc(b), j.err)
			case b.Fail != "" && j.err == nil:
				return nontrivial, vt.Failf("burst/sender-outcome/ok-consumer-failed/"+tk, "payload %d (%s): consumer returned a %s error, sender got nil", j.id, desc(b), b.Fail)
			case b.Fail == "permanent" && !consumererror.IsPermanent(j.err):
				return nontrivial, vt.Failf("burst/sender-outcome/class/"+tk, "payload %d (%s): consumer returned a permanent error, sender got a retryable one: %v", j.id, desc(b), j.err)
			case b.Fail == "plain" && consumererror.IsPermanent(j.err):
				return nontrivial, vt.Failf("burst/sender-outcome/class/"+tk, "payload %d (%s): consumer returned a transient error, sender got a permanent one: %v", j.id, desc(b), j.err)
			}
		}
	}
	if len(got) > 0 {
		var extra []int64
		for id := range got {
			extra = append(extra, id)
		}
		sort.Slice(extra, func(a, b int) bool { return extra[a] < extra[b] })
		return nontrivial, vt.Failf("burst/unknown-payload", "the consumer received payloads with ids nobody sent: %v", extra)
	}
	return nontrivial, nil
}

func TestConcurrentBurst(t *testing.T) {
	E = newEnv(t)
	cBurst.ReplayRepeat = 40
	vt.Run(t, cBurst, vt.N(240, 12000), genBurst, runBurst)
}
