package c15

import (
	"context"
	"fmt"
	"io"
	"net/http"
	"net/http/httptest"
	"strconv"
	"sync"
	"testing"
	"time"

	spb "google.golang.org/genproto/googleapis/rpc/status"
	"google.golang.org/protobuf/encoding/protojson"
	"google.golang.org/protobuf/proto"
	"pgregory.net/rapid"

	"go.opentelemetry.io/collector/consumer/consumererror"
	"go.opentelemetry.io/collector/verifharness/sig"
	"go.opentelemetry.io/collector/verifharness/vt"
)

// The receiver under test can only emit the HTTP statuses of its own mapping.
// The OTLP/HTTP table speaks about EVERY 4xx/5xx status ("All other 4xx or 5xx
// response status codes MUST NOT be retried"), so the HTTP exporter is also
// driven against a scripted server that answers with any status.

type fakeHTTP struct {
	srv *httptest.Server
	mu  sync.Mutex
	// scripted answer
	status     int
	retryAfter *string
	body       []byte
	bodyCT     string
	// observed
	requests int
	lastCT   string
	lastCE   string
	lastLen  int
}

func newFakeHTTP() *fakeHTTP {
	f := &fakeHTTP{}
	f.srv = httptest.NewServer(http.HandlerFunc(func(w http.ResponseWriter, r *http.Request) {
		b, _ := io.ReadAll(r.Body)
		f.mu.Lock()
		f.requests++
		f.lastCT, f.lastCE, f.lastLen = r.Header.Get("Content-Type"), r.Header.Get("Content-Encoding"), len(b)
		status, ra, body, ct := f.status, f.retryAfter, f.body, f.bodyCT
		f.mu.Unlock()
		if ra != nil {
			w.Header()["Retry-After"] = []string{*ra}
		}
		if ct != "" {
			w.Header().Set("Content-Type", ct)
		}
		w.WriteHeader(status)
		_, _ = w.Write(body)
	}))
	return f
}

func (f *fakeHTTP) close() { f.srv.Close() }

func (f *fakeHTTP) script(status int, retryAfter *string, body []byte, ct string) {
	f.mu.Lock()
	f.status, f.retryAfter, f.body, f.bodyCT = status, retryAfter, body, ct
	f.requests = 0
	f.mu.Unlock()
}

type SenderScript struct {
	Signal      string
	Encoding    string // proto | json
	Compression string
	Status      int
	RetryAfter  string // "" (absent) | secs | date | garbage
	RetrySecs   int
	Garbage     string
	Body        string // status | empty | garbage
	Payload     []byte
}

var cSender = vt.New("C15", "http-sender-table")

var interestingStatuses = []int{400, 401, 402, 403, 404, 405, 406, 408, 409, 410, 413, 414, 415, 418, 422, 425, 428, 429, 431, 451, 499,
	500, 501, 502, 503, 504, 505, 507, 508, 511, 529, 598, 599}

func genSender(t *rapid.T) SenderScript {
	s := SenderScript{
		Signal:      rapid.SampledFrom(sig.All).Draw(t, "signal"),
		Encoding:    rapid.SampledFrom([]string{"proto", "json"}).Draw(t, "encoding"),
		Compression: rapid.SampledFrom(httpCompressions).Draw(t, "compression"),
	}
	s.Status = rapid.OneOf(
		rapid.Just(200),
		rapid.SampledFrom([]int{429, 502, 503, 504}),
		rapid.SampledFrom(interestingStatuses),
		rapid.IntRange(400, 599),
	).Draw(t, "status")
	if s.Status >= 400 {
		s.RetryAfter = rapid.SampledFrom([]string{"", "secs", "secs", "date", "garbage"}).Draw(t, "retry_after")
		switch s.RetryAfter {
		case "secs":
			s.RetrySecs = rapid.SampledFrom([]int{0, 1, 2, 3, 30, 3600, 86400}).Draw(t, "secs")
		case "date":
			s.RetrySecs = rapid.SampledFrom([]int{2, 3, 30, 3600}).Draw(t, "secs")
		case "garbage":
			s.Garbage = rapid.SampledFrom([]string{"", "soon", "1.5", "-5", "0x10", "1s", "two", "Thu, 01 Jan 1970 00:00:00 GMT"}).Draw(t, "garbage")
		}
		s.Body = rapid.SampledFrom([]string{"status", "status", "empty", "garbage"}).Draw(t, "body")
	}
	s.Payload = genPayload(t, s.Signal, []string{"items"})
	return s
}

func runSender(s SenderScript) (nontrivial bool, key string, f *vt.Finding) {
	key = scriptKey(s.Signal, s.Encoding, s.Compression, s.Status, s.RetryAfter, s.RetrySecs, s.Garbage, s.Body, s.Payload)
	cSender.HangGuard(180*time.Second, s, "hang/http-sender", func() {
		nontrivial, f = runSenderInner(&s)
	})
	return nontrivial, key, f
}

func runSenderInner(s *SenderScript) (bool, *vt.Finding) {
	c := cSender
	v, err := sig.Decode(s.Signal, s.Payload)
	if err != nil {
		return false, vt.Failf("harness/payload", "script payload does not decode: %v", err)
	}
	E.mu.Lock()
	if E.fake == nil {
		E.fake = newFakeHTTP()
	}
	fk := E.fake
	E.mu.Unlock()
	tr := trHTTPProto
	ct := ctProto
	if s.Encoding == "json" {
		tr, ct = trHTTPJSON, ctJSON
	}
	send, err := E.exporter(expKey{transport: tr, compression: s.Compression, signal: s.Signal, endpoint: fk.srv.URL, cred: "none"})
	if err != nil {
		return false, vt.Failf("harness/exporter", "cannot create exporter: %v", err)
	}
	// scripted answer
	var ra *string
	var notBefore time.Time // the instant before which an honouring sender cannot retry
	switch s.RetryAfter {
	case "secs":
		v := strconv.Itoa(s.RetrySecs)
		ra = &v
	case "date":
		d := time.Now().Add(time.Duration(s.RetrySecs) * time.Second).Truncate(time.Second)
		v := d.UTC().Format(http.TimeFormat)
		ra = &v
		notBefore = d
	case "garbage":
		v := s.Garbage
		ra = &v
	}
	var body []byte
	bodyCT := ""
	if s.Status >= 400 {
		switch s.Body {
		case "status":
			st := &spb.Status{Code: 2, Message: "scripted"}
			if s.Encoding == "json" {
				body, _ = protojson.Marshal(st)
			} else {
				body, _ = proto.Marshal(st)
			}
			bodyCT = ct
		case "garbage":
			body, bodyCT = []byte("<html>gateway says no</html>"), "text/html"
		}
	}
	fk.script(s.Status, ra, body, bodyCT)
	sendErr := send(context.Background(), v)
	fk.mu.Lock()
	reqs, gotCT, gotCE := fk.requests, fk.lastCT, fk.lastCE
	fk.mu.Unlock()

	cls := "status:other-5xx"
	switch {
	case s.Status == 200:
		cls = "status:200"
	case httpRetryable(s.Status):
		cls = "status:" + strconv.Itoa(s.Status)
	case s.Status < 500:
		cls = "status:other-4xx"
	}
	c.Class(cls, "encoding:"+s.Encoding, "compression:"+orNone(s.Compression))
	if s.Status >= 400 {
		c.Class("retry-after:"+orNone(s.RetryAfter), "body:"+s.Body)
	}

	if reqs != 1 {
		return true, vt.Failf("sender/http/request-count", "one ConsumeX with retry and queue disabled produced %d HTTP requests", reqs)
	}
	if gotCT != ct {
		return true, vt.Failf("sender/http/content-type", "encoding %s sent Content-Type %q", s.Encoding, gotCT)
	}
	if gotCE != s.Compression {
		return true, vt.Failf("sender/http/content-encoding", "compression %q sent Content-Encoding %q", s.Compression, gotCE)
	}
	if s.Status == 200 {
		if sendErr != nil {
			return true, vt.Failf("success-iff/sender-failed-server-ok/http", "server answered 200, exporter returned %v", sendErr)
		}
		return s.Compression != "", nil
	}
	if sendErr == nil {
		return true, vt.Failf("success-iff/sender-ok-server-failed/http", "server answered %d, exporter returned nil", s.Status)
	}
	wantPerm := !httpRetryable(s.Status)
	isPerm := consumererror.IsPermanent(sendErr)
	what := fmt.Sprintf("HTTP %d Retry-After=%s/%d/%q body=%s", s.Status, s.RetryAfter, s.RetrySecs, s.Garbage, s.Body)
	if wantPerm && !isPerm {
		return true, vt.Failf("sender/http/retryable-but-table-says-permanent", "%s: the exporter's error is not permanent: %v", what, sendErr)
	}
	if !wantPerm && isPerm {
		return true, vt.Failf("sender/http/permanent-but-table-says-retryable", "%s: the exporter's error is permanent: %v", what, sendErr)
	}
	// behaviour under a retrying sender
	switch {
	case wantPerm:
		return true, probeSender(c, "http", what, sendErr, true, 0)
	case httpCarriesRetryAfter(s.Status) && s.RetryAfter == "secs" && s.RetrySecs > 0:
		return true, probeSender(c, "http", what, sendErr, false, time.Duration(s.RetrySecs)*time.Second)
	case httpCarriesRetryAfter(s.Status) && s.RetryAfter == "date":
		n, res := E.probe.attempts(sendErr, notBefore.Add(-100*time.Millisecond))
		if n > 1 || res == nil {
			return true, vt.Failf("sender/http/throttle-not-honoured", "%s: Retry-After names %v, but a retrying sender made %d attempts before that instant: %v", what, notBefore, n, sendErr)
		}
		c.Class("probe:throttle-honoured(date)")
		return true, nil
	case httpCarriesRetryAfter(s.Status) || s.RetryAfter == "" || s.RetryAfter == "garbage":
		// retryable, no usable delay (or Retry-After "0"): must simply be retried
		return true, probeSender(c, "http", what, sendErr, false, 0)
	default:
		// 502/504 with a Retry-After header: the specification defines the header
		// for 429/503 only; nothing is asserted about the delay.
		c.Class("retry-after-on-502/504:unasserted")
		return true, nil
	}
}

func TestHTTPSenderTable(t *testing.T) {
	E = newEnv(t)
	vt.Run(t, cSender, vt.N(4000, 150000), genSender, runSender)
}
