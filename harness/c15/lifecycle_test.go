package c15

import (
	"context"
	"fmt"
	"net"
	"sync"
	"sync/atomic"
	"testing"
	"time"

	"pgregory.net/rapid"

	"go.opentelemetry.io/collector/consumer/consumererror"
	"go.opentelemetry.io/collector/verifharness/pview"
	"go.opentelemetry.io/collector/verifharness/sig"
	"go.opentelemetry.io/collector/verifharness/vt"
)

// shutdown-in-flight: "the sender sees success if and only if the consumer
// accepted the data" also holds for the requests that are inside the consumer
// when the receiver is shut down.  A fresh receiver is started per case; k
// exporters (gRPC / HTTP) send one id-tagged payload each; the consumer parks
// every call on a gate.  Once ALL k calls are parked, Shutdown is called.  The
// gates of a protocol are opened only after that protocol's listener has been
// observed closed (dial refused), i.e. after Shutdown has demonstrably begun
// with it; each call then returns its scripted outcome.
//
// Oracle (only about requests that HAD reached the consumer when Shutdown
// began - here: all of them):
//   - every sender gets exactly its consumer's verdict: nil / retryable /
//     permanent by the transport's table;
//   - what the consumer received equals what was sent;
//   - Shutdown returns, without error, and not before every parked consumer
//     call has returned.
//
// Nothing depends on timing: waiting is by observation (counters, dial
// probes); a fallback opens all gates when no listener has closed after 3 s,
// which can only make the case pass.

type LifeSender struct {
	Signal      string
	Transport   string
	Compression string
	Outcome     Outcome
	Payload     []byte
}

type LifeScript struct {
	Senders []LifeSender
}

var cLife = vt.New("C15", "shutdown-in-flight")

func genLife(t *rapid.T) LifeScript {
	var s LifeScript
	n := rapid.IntRange(1, 5).Draw(t, "senders")
	for i := 0; i < n; i++ {
		ls := LifeSender{
			Signal:    rapid.SampledFrom(sig.All).Draw(t, "signal"),
			Transport: rapid.SampledFrom([]string{trGRPC, trGRPC, trHTTPProto, trHTTPJSON}).Draw(t, "transport"),
		}
		ls.Compression = rapid.SampledFrom(compressionsOf(ls.Transport)).Draw(t, "compression")
		switch rapid.SampledFrom([]string{"nil", "nil", "nil", "plain", "permanent", "status"}).Draw(t, "outcome") {
		case "nil":
			ls.Outcome = Outcome{Kind: "nil"}
		case "plain":
			ls.Outcome = Outcome{Kind: "plain"}
		case "permanent":
			ls.Outcome = Outcome{Kind: "permanent"}
		default:
			ls.Outcome = Outcome{Kind: "status", Code: uint32(rapid.SampledFrom(allCodes).Draw(t, "code"))}
		}
		ls.Payload = genPayload(t, ls.Signal, []string{"items", "empty"})
		s.Senders = append(s.Senders, ls)
	}
	return s
}

// listenerClosed: is the TCP listener on addr gone?  (A successful probe
// connection is closed at once.)
func listenerClosed(addr string) bool {
	c, err := net.DialTimeout("tcp", addr, 2*time.Second)
	if err != nil {
		return true
	}
	_ = c.Close()
	return false
}

func runLife(s LifeScript) (nontrivial bool, key string, f *vt.Finding) {
	var parts []any
	for _, b := range s.Senders {
		parts = append(parts, b.Signal, b.Transport, b.Compression, b.Outcome, b.Payload)
	}
	key = scriptKey(parts...)
	cLife.HangGuard(240*time.Second, s, "hang/shutdown-in-flight", func() {
		nontrivial, f = runLifeInner(&s)
	})
	return nontrivial, key, f
}

func runLifeInner(s *LifeScript) (bool, *vt.Finding) {
	c := cLife
	r, err := startReceiver(false)
	if err != nil {
		return false, vt.Failf("harness/receiver", "cannot start receiver: %v", err)
	}
	stopped := false
	defer func() {
		if !stopped {
			_ = r.shutdown()
		}
	}()
	k := len(s.Senders)
	type party struct {
		id      int64
		send    sendFunc
		v       any
		want    any
		gate    chan struct{}
		outcome error
		// observations
		arrived  bool
		got      any
		doneSeq  int64 // consumer call returned
		sendErr  error
		sendDone atomic.Bool
	}
	var seq atomic.Int64
	var arrivals atomic.Int64
	var mu sync.Mutex
	ps := make([]*party, k)
	byID := map[int64]*party{}
	var stops []func(context.Context) error
	defer func() {
		for _, st := range stops {
			_ = st(context.Background())
		}
	}()
	for i, b := range s.Senders {
		id := int64(i + 1)
		v, berr := buildBurstPayload(b.Signal, id, 1, 8, b.Payload)
		if berr != nil {
			return false, vt.Failf("harness/payload", "payload: %v", berr)
		}
		send, stop, xerr := buildExporter(expKey{transport: b.Transport, compression: b.Compression, cred: "none", signal: b.Signal}, r)
		if xerr != nil {
			return false, vt.Failf("harness/exporter", "cannot create exporter: %v", xerr)
		}
		stops = append(stops, stop)
		ps[i] = &party{id: id, send: send, v: v, want: pview.Of(v), gate: make(chan struct{}), outcome: b.Outcome.err()}
		byID[id] = ps[i]
	}
	var strays atomic.Int64
	r.sink.setHook(func(v any) error {
		tree := pview.Of(v)
		id, ok := payloadID(v)
		mu.Lock()
		p := byID[id]
		if !ok || p == nil || p.arrived {
			mu.Unlock()
			strays.Add(1)
			return nil
		}
		p.arrived, p.got = true, tree
		mu.Unlock()
		arrivals.Add(1)
		<-p.gate
		mu.Lock()
		p.doneSeq = seq.Add(1)
		mu.Unlock()
		return p.outcome
	})
	var wg sync.WaitGroup
	for _, p := range ps {
		wg.Add(1)
		go func(p *party) {
			defer wg.Done()
			p.sendErr = p.send(context.Background(), p.v)
			p.sendDone.Store(true)
		}(p)
	}
	openAll := func() {
		for _, p := range ps {
			select {
			case <-p.gate:
			default:
				close(p.gate)
			}
		}
	}
	// 1. every request parks inside the consumer
	for arrivals.Load() < int64(k) {
		for i, p := range ps {
			if p.sendDone.Load() {
				openAll()
				wg.Wait()
				return true, vt.Failf("lifecycle/returned-before-consumer-answered", "sender %d (%s over %s) returned %v while its request was still parked in (or had not reached) the consumer and no shutdown had been requested", i, s.Senders[i].Signal, s.Senders[i].Transport, p.sendErr)
			}
		}
		time.Sleep(100 * time.Microsecond)
	}
	// 2. shutdown is requested with all of them in flight
	var shutdownErr error
	var shutdownSeq int64
	shutdownDone := make(chan struct{})
	go func() {
		shutdownErr = r.shutdown()
		shutdownSeq = seq.Add(1)
		close(shutdownDone)
	}()
	stopped = true
	// 3. gates of a protocol open once its listener is seen closed
	open := map[string]bool{}
	addr := map[string]string{"grpc": r.grpcAddr, "http": r.httpAddr}
	tkOf := func(tr string) string {
		if isHTTP(tr) {
			return "http"
		}
		return "grpc"
	}
	need := map[string]bool{}
	for _, b := range s.Senders {
		need[tkOf(b.Transport)] = true
	}
	fallback := false
	began := time.Now()
	for len(open) < len(need) {
		progressed := false
		for _, tk := range []string{"http", "grpc"} {
			if need[tk] && !open[tk] && listenerClosed(addr[tk]) {
				open[tk], progressed = true, true
				for i, p := range ps {
					if tkOf(s.Senders[i].Transport) == tk {
						close(p.gate)
					}
				}
			}
		}
		if !progressed {
			if time.Since(began) > 3*time.Second {
				fallback = true
				openAll()
				break
			}
			time.Sleep(200 * time.Microsecond)
		}
	}
	wg.Wait()
	<-shutdownDone
	r.sink.setHook(nil)

	c.Class(fmt.Sprintf("parked:%d", k))
	for tk := range need {
		c.Class("parked-protocol:" + tk)
	}
	if len(need) == 2 {
		c.Class("parked-protocol:both")
	}
	if fallback {
		c.Class("fallback:gates-opened-without-observing-closed-listener")
	}
	if shutdownErr != nil {
		return true, vt.Failf("lifecycle/shutdown-error", "Shutdown with %d requests in flight returned %v", k, shutdownErr)
	}
	if n := strays.Load(); n != 0 {
		return true, vt.Failf("lifecycle/stray-consumer-calls", "%d consumer calls beyond one per request", n)
	}
	for i, p := range ps {
		b := s.Senders[i]
		tk := tkOf(b.Transport)
		o := b.Outcome
		what := fmt.Sprintf("sender %d (%s over %s/%s), parked in the consumer when Shutdown began, consumer then answered %s", i, b.Signal, b.Transport, orNone(b.Compression), o)
		c.Class("in-flight-outcome:" + o.Kind + "/" + tk)
		if !pview.Equal(p.want, p.got) {
			return true, vt.Failf("payload-diff/"+b.Transport+"/"+b.Signal, "%s: consumer received a payload different from the one sent: %s", what, pview.Diff(p.want, p.got))
		}
		if p.doneSeq > shutdownSeq {
			return true, vt.Failf("lifecycle/shutdown-returned-before-in-flight/"+tk, "%s: Shutdown returned while this consumer call was still running", what)
		}
		wantPerm := o.grpcWantPermanent()
		if tk == "http" {
			wantPerm = o.httpWantPermanent()
		}
		switch {
		case o.Kind == "nil" && p.sendErr != nil:
			return true, vt.Failf("lifecycle/sender-outcome/failed-consumer-ok/"+tk, "%s: sender got %v", what, p.sendErr)
		case o.Kind != "nil" && p.sendErr == nil:
			return true, vt.Failf("lifecycle/sender-outcome/ok-consumer-failed/"+tk, "%s: sender got nil", what)
		case o.Kind != "nil" && wantPerm != consumererror.IsPermanent(p.sendErr):
			return true, vt.Failf("lifecycle/sender-outcome/class/"+tk, "%s: table says permanent=%v, sender got %v", what, wantPerm, p.sendErr)
		}
	}
	return true, nil
}

func TestShutdownInFlight(t *testing.T) {
	// (no shared environment: every case owns its receiver and exporters)
	vt.Run(t, cLife, vt.N(400, 20000), genLife, runLife)
}
