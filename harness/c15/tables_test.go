package c15

import (
	"net/http"

	"google.golang.org/grpc/codes"
)

// ---------------------------------------------------------------------------
// The OTLP specification's status tables, written out.  Nothing in this file
// is derived from the code under test.
//
// Source: opentelemetry-proto/docs/specification.md (the text the repository
// links to from receiver/otlpreceiver/internal/errors/errors.go,
// receiver/otlpreceiver/otlphttp.go, exporter/otlphttpexporter/otlp.go).
//
// OTLP/gRPC "Failures": "The client SHOULD interpret gRPC status codes as
// retryable and not-retryable according to the following table":
//
//	CANCELLED            yes      UNKNOWN              no
//	INVALID_ARGUMENT     no       DEADLINE_EXCEEDED    yes
//	NOT_FOUND            no       ALREADY_EXISTS       no
//	PERMISSION_DENIED    no       UNAUTHENTICATED      no
//	RESOURCE_EXHAUSTED   only if the server can recover (= the status carries RetryInfo)
//	FAILED_PRECONDITION  no       ABORTED              yes
//	OUT_OF_RANGE         yes      UNIMPLEMENTED        no
//	INTERNAL             no       UNAVAILABLE          yes
//	DATA_LOSS            yes
//
// "OTLP/gRPC Throttling": the server signals back-pressure with a status that
// carries RetryInfo; "the client SHOULD ... wait at least the retry_delay".
//
// OTLP/HTTP "Failures": "The requests that receive a response status code
// listed in following table SHOULD be retried.  All other 4xx or 5xx response
// status codes MUST NOT be retried": 429, 502, 503, 504.
// "Bad Data": undecodable / invalid request => 400.
// "OTLP/HTTP Throttling": 429 or 503 MAY carry "Retry-After" (seconds); "the
// client SHOULD honor the waiting interval specified in the Retry-After
// header".
// ---------------------------------------------------------------------------

// allCodes lists the sixteen non-OK gRPC codes.
var allCodes = []codes.Code{
	codes.Canceled, codes.Unknown, codes.InvalidArgument, codes.DeadlineExceeded, codes.NotFound,
	codes.AlreadyExists, codes.PermissionDenied, codes.ResourceExhausted, codes.FailedPrecondition,
	codes.Aborted, codes.OutOfRange, codes.Unimplemented, codes.Internal, codes.Unavailable,
	codes.DataLoss, codes.Unauthenticated,
}

// grpcRetryable is the OTLP/gRPC table.
func grpcRetryable(c codes.Code, hasRetryInfo bool) bool {
	switch c {
	case codes.Canceled, codes.DeadlineExceeded, codes.Aborted, codes.OutOfRange, codes.Unavailable, codes.DataLoss:
		return true
	case codes.ResourceExhausted:
		return hasRetryInfo
	}
	return false
}

// httpRetryable is the OTLP/HTTP table.
func httpRetryable(status int) bool {
	switch status {
	case http.StatusTooManyRequests, http.StatusBadGateway, http.StatusServiceUnavailable, http.StatusGatewayTimeout:
		return true
	}
	return false
}

// httpCarriesRetryAfter: the two statuses for which the specification defines
// the Retry-After header.
func httpCarriesRetryAfter(status int) bool {
	return status == http.StatusTooManyRequests || status == http.StatusServiceUnavailable
}

// httpImage is the HTTP status a server must answer with when the failure it
// reports is the gRPC status c.  It is assembled from the specification, not
// from the receiver:
//   - the six unconditionally retryable codes must map into the retryable HTTP
//     set; of that set 502/504 describe gateways, 429 means "too many
//     requests", so the image of a retryable server-side failure is 503 (the
//     status the throttling section pairs with Retry-After);
//   - RESOURCE_EXHAUSTED is the gRPC spelling of "too many requests": 429;
//   - INVALID_ARGUMENT is "bad data": 400 (MUST);
//   - UNAUTHENTICATED / PERMISSION_DENIED / UNIMPLEMENTED are the inverse of
//     the gRPC HTTP-to-status mapping document the repository cites in
//     internal/statusutil (401 / 403 / 404);
//   - every other code is a non-retryable server-side failure: 500.
func httpImage(c codes.Code) int {
	switch c {
	case codes.Canceled, codes.DeadlineExceeded, codes.Aborted, codes.OutOfRange, codes.Unavailable, codes.DataLoss:
		return http.StatusServiceUnavailable
	case codes.ResourceExhausted:
		return http.StatusTooManyRequests
	case codes.InvalidArgument:
		return http.StatusBadRequest
	case codes.Unauthenticated:
		return http.StatusUnauthorized
	case codes.PermissionDenied:
		return http.StatusForbidden
	case codes.Unimplemented:
		return http.StatusNotFound
	}
	return http.StatusInternalServerError
}

// Compressions each exporter configuration accepts (configgrpc
// getGRPCCompressionName / confighttp newCompressor; "" = none).
var (
	grpcCompressions = []string{"", "gzip", "snappy", "zstd"}
	httpCompressions = []string{"", "gzip", "zlib", "deflate", "snappy", "zstd", "lz4"}
)

// levelsOf: compression_params.level values the HTTP client configuration
// accepts for the algorithm (configcompression.Type.ValidateParams: gzip / zlib
// / deflate take -2 (Huffman only), -1, 0..9; zstd takes any level and maps it
// to the nearest encoder level; snappy and lz4 take none).  0 = not set.
func levelsOf(transport, compression string) []int {
	if transport == trGRPC {
		return []int{0}
	}
	switch compression {
	case "gzip", "zlib", "deflate":
		return []int{0, 0, -2, 1, 5, 9}
	case "zstd":
		return []int{0, 0, 1, 3, 6, 11}
	}
	return []int{0}
}

const (
	trGRPC      = "grpc"
	trHTTPProto = "http-proto"
	trHTTPJSON  = "http-json"
)

var transports = []string{trGRPC, trHTTPProto, trHTTPJSON}

func compressionsOf(transport string) []string {
	if transport == trGRPC {
		return grpcCompressions
	}
	return httpCompressions
}
