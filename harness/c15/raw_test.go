package c15

import (
	"context"
	"fmt"
	"mime"
	"strings"
	"testing"
	"time"

	"google.golang.org/grpc"
	"google.golang.org/grpc/codes"
	"google.golang.org/grpc/metadata"
	"google.golang.org/grpc/status"
	"pgregory.net/rapid"

	"go.opentelemetry.io/collector/verifharness/pview"
	"go.opentelemetry.io/collector/verifharness/sig"
	"go.opentelemetry.io/collector/verifharness/vt"
)

// RawScript: one hand-made request against a receiver.  The reference for
// "malformed" is the public pdata request unmarshaler of the declared content
// type applied to the body (after the harness' own decompression bookkeeping:
// the harness compresses, so it knows the plain body).
type RawScript struct {
	Wire        string // http | grpc
	Signal      string
	Auth        bool
	Cred        string // good | bad | none
	Method      string // http
	ContentType string // http: header value as sent
	Enc         string // http: Content-Encoding as sent
	Corrupt     bool   // http: body is sent uncompressed although Enc names a compression
	Plain       []byte // body before compression
	Origin      string // valid | truncated | mutated | soup | seed (how Plain was made; informative)
}

var cRaw = vt.New("C15", "raw-requests")

var (
	goodTypes = []string{ctProto, ctJSON, "application/json; charset=utf-8", "application/x-protobuf; foo=bar"}
	badTypes  = []string{"", "text/plain", "application/xml", "application/octet-stream", "application/x-protobuf-v2", "application/jsonx",
		"multipart/form-data; boundary=x", "application/grpc", "application/x-www-form-urlencoded", "json"}
	wrongMethods     = []string{"GET", "PUT", "DELETE", "PATCH", "HEAD", "OPTIONS"}
	harnessEncodings = []string{"gzip", "zlib", "deflate"}
	corruptEncodings = []string{"gzip", "zlib", "deflate", "snappy", "zstd", "lz4"}
	unknownEncodings = []string{"br", "compress", "x-gzip", "gzip, gzip", "bogus"}
	jsonSeeds        = []string{``, `{}`, `[]`, `null`, `{"resourceLogs":5}`, `{"resourceSpans":{}}`, `{"resourceMetrics":[{"scopeMetrics":"x"}]}`,
		`{"resourceLogs":[{"scopeLogs":[{"logRecords":[{"timeUnixNano":"notanumber"}]}]}]}`, `{"resourceLogs":[`, `{"resourceLogs":[{}]}x`,
		`{"resourceProfiles":[{"scopeProfiles":[{"profiles":[{"sample":[{"value":["a"]}]}]}]}]}`, `"str"`, `{"resourceSpans":[{"scopeSpans":[{"spans":[{"traceId":"zz"}]}]}]}`,
		`{"resourceSpans":[{"scopeSpans":[{"spans":[{"kind":"SPAN_KIND_BOGUS"}]}]}]}`, `{"unknownField":[1,2,3]}`}
)

func isJSONType(ct string) (json, supported bool) {
	mt, _, err := mime.ParseMediaType(ct)
	if err != nil {
		return false, false
	}
	switch mt {
	case ctProto:
		return false, true
	case ctJSON:
		return true, true
	}
	return false, false
}

func mutate(t *rapid.T, b []byte) ([]byte, string) {
	if len(b) == 0 {
		return b, "valid"
	}
	switch rapid.SampledFrom([]string{"truncated", "truncated", "mutated", "mutated", "inserted", "tail"}).Draw(t, "mutation") {
	case "truncated":
		n := rapid.IntRange(0, len(b)-1).Draw(t, "cut")
		return append([]byte(nil), b[:n]...), "truncated"
	case "mutated":
		out := append([]byte(nil), b...)
		k := rapid.IntRange(1, 3).Draw(t, "nflips")
		for i := 0; i < k; i++ {
			out[rapid.IntRange(0, len(out)-1).Draw(t, "pos")] = rapid.Byte().Draw(t, "byte")
		}
		return out, "mutated"
	case "inserted":
		p := rapid.IntRange(0, len(b)).Draw(t, "pos")
		ins := rapid.SliceOfN(rapid.Byte(), 1, 4).Draw(t, "ins")
		out := append([]byte(nil), b[:p]...)
		out = append(out, ins...)
		return append(out, b[p:]...), "mutated"
	default:
		tail := rapid.SliceOfN(rapid.Byte(), 1, 6).Draw(t, "tail")
		return append(append([]byte(nil), b...), tail...), "mutated"
	}
}

func genRaw(t *rapid.T) RawScript {
	s := RawScript{
		Wire:   rapid.SampledFrom([]string{"http", "http", "http", "http", "grpc"}).Draw(t, "wire"),
		Signal: rapid.SampledFrom(sig.All).Draw(t, "signal"),
		Method: "POST",
	}
	s.Auth = rapid.Bool().Draw(t, "auth")
	s.Cred = "none"
	if s.Auth {
		s.Cred = "good"
	}
	fault := rapid.SampledFrom([]string{"none", "body", "body", "body", "body", "method", "media", "cred", "cred", "encoding", "encoding", "two"}).Draw(t, "fault")
	faults := map[string]bool{fault: true}
	if fault == "two" {
		faults = map[string]bool{}
		for _, f := range rapid.SliceOfNDistinct(rapid.SampledFrom([]string{"body", "method", "media", "cred", "encoding"}), 2, 2, rapid.ID[string]).Draw(t, "faults") {
			faults[f] = true
		}
	}
	if s.Wire == "grpc" {
		delete(faults, "method")
		delete(faults, "media")
		delete(faults, "encoding")
	}
	// content type and a well-formed body for it
	s.ContentType = rapid.SampledFrom(goodTypes).Draw(t, "ctype")
	if s.Wire == "grpc" {
		s.ContentType = ctProto
	}
	json, _ := isJSONType(s.ContentType)
	v, _ := sig.Decode(s.Signal, genPayload(t, s.Signal, []string{"items", "items", "items", "items", "stripped", "empty"}))
	body, err := encodeReq(v, json)
	if err != nil {
		panic(err)
	}
	s.Plain, s.Origin = body, "valid"
	if faults["body"] {
		switch rapid.SampledFrom([]string{"mutate", "mutate", "mutate", "soup", "seed", "cross"}).Draw(t, "bodykind") {
		case "mutate":
			s.Plain, s.Origin = mutate(t, body)
		case "soup":
			s.Plain, s.Origin = rapid.SliceOfN(rapid.Byte(), 1, 64).Draw(t, "soup"), "soup"
		case "seed":
			if json {
				s.Plain, s.Origin = []byte(rapid.SampledFrom(jsonSeeds).Draw(t, "seed")), "seed"
			} else {
				s.Plain, s.Origin = mutate(t, body)
			}
		case "cross": // the other encoding's bytes under this content type
			other, oerr := encodeReq(v, !json)
			if oerr != nil {
				panic(oerr)
			}
			s.Plain, s.Origin = other, "cross-encoded"
		}
	}
	if faults["method"] {
		s.Method = rapid.SampledFrom(wrongMethods).Draw(t, "method")
	}
	if faults["media"] {
		s.ContentType = rapid.SampledFrom(badTypes).Draw(t, "badtype")
	}
	if faults["cred"] {
		s.Auth = true
		s.Cred = rapid.SampledFrom([]string{"bad", "none"}).Draw(t, "cred")
	}
	if s.Wire == "http" {
		switch {
		case faults["encoding"]:
			if len(s.Plain) >= 4 && s.Origin == "valid" && rapid.Bool().Draw(t, "corrupt") {
				s.Enc, s.Corrupt = rapid.SampledFrom(corruptEncodings).Draw(t, "enc"), true
			} else {
				s.Enc = rapid.SampledFrom(unknownEncodings).Draw(t, "enc")
			}
		case rapid.IntRange(0, 2).Draw(t, "compress") == 0:
			s.Enc = rapid.SampledFrom(harnessEncodings).Draw(t, "enc")
		}
	}
	return s
}

// rawCodec ships bytes as they are under the "proto" content-subtype.
type rawCodec struct{}

func (rawCodec) Marshal(v any) ([]byte, error) { return *(v.(*[]byte)), nil }
func (rawCodec) Unmarshal(b []byte, v any) error {
	*(v.(*[]byte)) = append([]byte(nil), b...)
	return nil
}
func (rawCodec) Name() string { return "proto" }

// OTLP/gRPC method names (the wire protocol's, from opentelemetry-proto).
var grpcMethod = map[string]string{
	sig.Logs:     "/opentelemetry.proto.collector.logs.v1.LogsService/Export",
	sig.Traces:   "/opentelemetry.proto.collector.trace.v1.TraceService/Export",
	sig.Metrics:  "/opentelemetry.proto.collector.metrics.v1.MetricsService/Export",
	sig.Profiles: "/opentelemetry.proto.collector.profiles.v1development.ProfilesService/Export",
}

func runRaw(s RawScript) (nontrivial bool, key string, f *vt.Finding) {
	key = scriptKey(s.Wire, s.Signal, s.Auth, s.Cred, s.Method, s.ContentType, s.Enc, s.Corrupt, s.Plain)
	cRaw.HangGuard(180*time.Second, s, "hang/raw", func() {
		nontrivial, f = runRawInner(&s)
	})
	return nontrivial, key, f
}

func runRawInner(s *RawScript) (bool, *vt.Finding) {
	c := cRaw
	r := E.rcv(s.Auth)
	cred := "none"
	if s.Auth {
		cred = s.Cred
	}
	// ---- expectation -----------------------------------------------------------
	applicable := map[int]string{} // status -> fault
	if s.Auth && cred != "good" {
		applicable[401] = "unauthenticated"
	}
	json, supported := false, true
	if s.Wire == "http" {
		json, supported = isJSONType(s.ContentType)
		if s.Method != "POST" {
			applicable[405] = "wrong-method"
		}
		if !supported {
			applicable[415] = "unsupported-media-type"
		}
		switch {
		case s.Enc == "":
		case s.Corrupt:
			applicable[400] = "corrupt-compression"
		case !contains(harnessEncodings, s.Enc):
			// RFC 9110 names 415 for an unsupported content coding, OTLP names 400 for
			// undecodable requests: either is a client-error status
			applicable[400] = "unknown-content-encoding"
			applicable[415] = "unknown-content-encoding"
		}
	}
	var want any
	wantItems := 0
	if supported {
		v, derr := decodeReq(s.Signal, s.Plain, json)
		if derr != nil {
			if _, dup := applicable[400]; !dup {
				applicable[400] = "malformed-body"
			}
			if s.Wire == "grpc" {
				applicable[-1] = "malformed-body" // any non-OK, non-retryable code
			}
		} else {
			want, wantItems = pview.Of(v), sig.Count(v)
		}
	}
	// ---- execution -------------------------------------------------------------
	r.sink.reset(nil)
	var w wireStatus
	if s.Wire == "grpc" {
		ctx, cancel := context.WithTimeout(context.Background(), 60*time.Second)
		if cv := credValue(cred); cv != "" {
			ctx = metadata.AppendToOutgoingContext(ctx, "authorization", cv)
		}
		in, out := s.Plain, []byte(nil)
		err := E.conns[s.Auth].Invoke(ctx, grpcMethod[s.Signal], &in, &out, grpc.ForceCodec(rawCodec{}))
		cancel()
		st := status.Convert(err)
		w = wireStatus{Code: uint32(st.Code()), Msg: st.Message()}
		w.HasRetry, w.RetryDelay = retryInfoOf(st.Details())
	} else {
		body := s.Plain
		if s.Enc != "" && !s.Corrupt && contains(harnessEncodings, s.Enc) {
			var cerr error
			if body, cerr = compressBody(s.Enc, s.Plain); cerr != nil {
				return false, vt.Failf("harness/compress", "%v", cerr)
			}
		}
		var herr error
		w, herr = E.rawHTTP(rawReq{Auth: s.Auth, Method: s.Method, Path: urlPath[s.Signal], ContentType: s.ContentType, ContentEncoding: s.Enc, CredValue: credValue(cred), Body: body})
		if herr != nil {
			return true, vt.Failf("raw/http-transport-error", "%s %s (%s, enc %q, %d bytes, %s) failed below HTTP: %v", s.Method, urlPath[s.Signal], s.ContentType, s.Enc, len(s.Plain), s.Origin, herr)
		}
	}
	calls, trees := r.sink.snapshot()
	// ---- oracle ----------------------------------------------------------------
	desc := fmt.Sprintf("%s %s %s ct=%q enc=%q corrupt=%v cred=%s body=%s/%dB", s.Wire, s.Method, s.Signal, s.ContentType, s.Enc, s.Corrupt, cred, s.Origin, len(s.Plain))
	if len(applicable) > 0 {
		var names []string
		for _, k := range []int{401, 405, 415, 400, -1} {
			if n, ok := applicable[k]; ok && !contains(names, n) {
				names = append(names, n)
			}
		}
		c.Class("rejected:"+strings.Join(names, "+")+"/"+s.Wire, "wire:"+s.Wire)
		if applicable[400] == "malformed-body" {
			c.Class("malformed:" + s.Origin + "/" + map[bool]string{true: "json", false: "proto"}[json])
		}
		if calls != 0 {
			return true, vt.Failf("rejected/reached-consumer/"+names[0], "%s: consumer was invoked %d times", desc, calls)
		}
		if s.Wire == "grpc" {
			got := codes.Code(w.Code)
			if _, un := applicable[401]; un && len(applicable) == 1 {
				if got != codes.Unauthenticated {
					return true, vt.Failf("rejected/status/unauthenticated/grpc", "%s: answered with %s", desc, got)
				}
				return true, nil
			}
			if got == codes.OK {
				return true, vt.Failf("rejected/status/"+names[0]+"/grpc", "%s: acknowledged with OK", desc)
			}
			if grpcRetryable(got, w.HasRetry) {
				return true, vt.Failf("rejected/status/"+names[0]+"/grpc", "%s: answered with the retryable status %s", desc, got)
			}
			return true, nil
		}
		if _, ok := applicable[w.HTTP]; !ok {
			fsig := "rejected/status/" + names[0] + "/http"
			_, unauth := applicable[401]
			_, badEnc := applicable[400]
			if w.HTTP == 500 && !supported && (unauth || badEnc && applicable[400] != "malformed-body") {
				// the rejection was produced in front of the OTLP handler (authenticator or
				// decompressor) and rendered by the receiver's error handler, which knows
				// no rendering for this Content-Type
				fsig = "rejected/status/500-from-error-handler-without-supported-content-type"
			}
			f := vt.Failf(fsig, "%s: answered with %d, expected one of %v", desc, w.HTTP, keysOf(applicable))
			if !c.Soft(f, s) {
				return true, f
			}
		}
		return true, nil
	}
	c.Class("accepted/"+s.Wire, "wire:"+s.Wire)
	if s.Enc != "" {
		c.Class("accepted:compressed:" + s.Enc)
	}
	if s.Origin != "valid" {
		c.Class("accepted:" + s.Origin + "-but-well-formed")
	}
	if s.Wire == "grpc" && codes.Code(w.Code) != codes.OK || s.Wire == "http" && w.HTTP != 200 {
		return true, vt.Failf("raw/well-formed-rejected/"+s.Wire, "%s: well-formed request (reference decoder accepts it) answered with grpc=%s http=%d %s", desc, codes.Code(w.Code), w.HTTP, w.Msg)
	}
	if wantItems == 0 {
		c.Class("accepted:no-items")
		if calls != 0 {
			return true, vt.Failf("no-items/consumer-invoked/"+s.Wire, "%s: request without items invoked the consumer", desc)
		}
		return s.Enc != "", nil
	}
	if calls != 1 {
		return true, vt.Failf("consumer-calls/"+s.Wire, "%s: %d consumer calls", desc, calls)
	}
	tr := trGRPC
	if s.Wire == "http" {
		tr = trHTTPProto
		if json {
			tr = trHTTPJSON
		}
	}
	if !pview.Equal(want, trees[0]) {
		return true, vt.Failf("payload-diff/"+tr+"/"+s.Signal, "%s: consumer received something else than the reference decoding of the body: %s", desc, pview.Diff(want, trees[0]))
	}
	return s.Enc != "", nil
}

func contains(l []string, s string) bool {
	for _, x := range l {
		if x == s {
			return true
		}
	}
	return false
}

func keysOf(m map[int]string) []int {
	var out []int
	for _, k := range []int{400, 401, 405, 415} {
		if _, ok := m[k]; ok {
			out = append(out, k)
		}
	}
	return out
}

func TestRaw(t *testing.T) {
	E = newEnv(t)
	if vt.ReplayPath() == "" {
		// fixed reproducers of the repaired errorHandler defect: regression probes, a recurrence is a violation
		probes := knownProbes()
		for _, name := range pview.SortedKeys(probes) {
			s := probes[name]
			nt, key, f := runRaw(s)
			cRaw.Eval(nt, key)
			if f != nil {
				cRaw.Violation(f, s)
				t.Fatalf("%s: %v", name, f)
			}
		}
	}
	vt.Run(t, cRaw, vt.N(8000, 300000), genRaw, runRaw)
}
