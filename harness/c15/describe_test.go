package c15

import (
	"encoding/json"
	"os"
	"testing"

	"go.opentelemetry.io/collector/verifharness/pview"
	"go.opentelemetry.io/collector/verifharness/sig"
	"go.opentelemetry.io/collector/verifharness/vt"
)

// TestDescribe prints a replay script in readable form (debug aid):
// VT_DESCRIBE=<replay.json> go test -tags verif ./c15 -run TestDescribe -v
func TestDescribe(t *testing.T) {
	p := os.Getenv("VT_DESCRIBE")
	if p == "" {
		t.Skip()
	}
	var raw map[string]any
	check, err := vt.LoadReplay(p, &raw)
	if err != nil {
		t.Fatal(err)
	}
	b, _ := json.Marshal(raw)
	switch check {
	case "hop", "status-table-sweep":
		var s HopScript
		_ = json.Unmarshal(b, &s)
		v, derr := sig.Decode(s.Signal, s.Payload)
		t.Logf("%s over %s/%s auth=%v cred=%s outcome=%s decode=%v items=%d\n%s", s.Signal, s.Transport, orNone(s.Compression), s.Auth, s.Cred, s.Outcome, derr, sig.Count(v), pview.String(pview.Of(v)))
	case "raw-requests":
		var s RawScript
		_ = json.Unmarshal(b, &s)
		t.Logf("%s %s %s ct=%q enc=%q corrupt=%v auth=%v cred=%s origin=%s body=%q", s.Wire, s.Method, s.Signal, s.ContentType, s.Enc, s.Corrupt, s.Auth, s.Cred, s.Origin, s.Plain)
	default:
		t.Logf("%s: %s", check, b)
	}
}
