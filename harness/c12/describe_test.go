package c12

import (
	"os"
	"sort"
	"testing"

	"go.opentelemetry.io/collector/verifharness/vt"
)

// TestDescribe prints an expansion replay script in readable form together
// with what the reference interpreter expects and what the resolver returns
// (debug aid: VT_DESCRIBE=<replay file>).
func TestDescribe(t *testing.T) {
	p := os.Getenv("VT_DESCRIBE")
	if p == "" {
		t.Skip()
	}
	var s XScript
	if _, err := vt.LoadReplay(p, &s); err != nil {
		t.Fatal(err)
	}
	d := s.describe()
	var keys []string
	for k := range d {
		keys = append(keys, k)
	}
	sort.Strings(keys)
	t.Logf("default scheme: %v", s.Default)
	for _, k := range keys {
		t.Logf("%-20s %s", k, d[k])
	}
	w := s.world()
	for _, f := range s.effective() {
		ty, st, r := w.evalVal(f.Val)
		t.Logf("expect %-4s typed=%#v str=%#v res=%+v", f.Name, ty, st.project(2), r)
	}
	t.Logf("discard=%q danger=%q classes=%v", w.discard, w.danger, w.cls)
	if w.danger == "" {
		ss, err := newSession(&s)
		if err != nil {
			t.Fatal(err)
		}
		defer ss.shutdown()
		for r := 0; r <= len(s.Rounds); r++ {
			if r > 0 {
				if f := ss.advance(s.Rounds[r-1]); f != nil {
					t.Logf("round %d: %v", r, f)
				}
				_, exps := s.expectAll(s.tableAt(r))
				for _, e := range exps {
					t.Logf("round %d expect %-4s typed=%#v str=%#v res=%+v", r, e.name, e.typed, e.str.project(2), e.res)
				}
			}
			v := ss.resolve()
			t.Logf("round %d actual: err=%v panic=%v tsm=%#v", r, v.o.err, v.o.panicV, v.o.tsm)
			t.Logf("round %d actual: unmarshal err=%v panic=%v target=%#v", r, v.direct.err, v.direct.panic, v.direct.tgt)
			if s.Nest {
				t.Logf("round %d actual: sub1 err=%v panic=%v target=%#v", r, v.sub1.err, v.sub1.panic, v.sub1.tgt)
				t.Logf("round %d actual: sub2 err=%v panic=%v target=%#v", r, v.sub2.err, v.sub2.panic, v.sub2.tgt)
			}
			if v.o.err != nil {
				break
			}
		}
	}
}
