package c12

import (
	"os"
	"sort"
	"testing"

	"go.opentelemetry.io/collector/verifharness/vt"
)

// TestDescribe prints an expansion replay script in readable form together
// with what the reference interpreter expects and what the resolver returns
// (debug aid: VT_DESCRIBE=<replay file>).
func TestDescribe(t *testing.T) {
	p := os.Getenv("VT_DESCRIBE")
	if p == "" {
		t.Skip()
	}
	var s XScript
	if _, err := vt.LoadReplay(p, &s); err != nil {
		t.Fatal(err)
	}
	d := s.describe()
	var keys []string
	for k := range d {
		keys = append(keys, k)
	}
	sort.Strings(keys)
	t.Logf("default scheme: %v", s.Default)
	for _, k := range keys {
		t.Logf("%-20s %s", k, d[k])
	}
	w := s.world()
	for _, f := range s.effective() {
		ty, st, r := w.evalVal(f.Val)
		t.Logf("expect %-4s typed=%#v str=%#v res=%+v", f.Name, ty, st, r)
	}
	t.Logf("discard=%q danger=%q classes=%v", w.discard, w.danger, w.cls)
	if w.danger == "" {
		o, tgt, uerr, up := s.execute()
		t.Logf("actual: err=%v panic=%v tsm=%#v", o.err, o.panicV, o.tsm)
		t.Logf("actual: unmarshal err=%v panic=%v target=%#v", uerr, up, tgt)
	}
}
