package c12

import (
	"strconv"
	"strings"

	"pgregory.net/rapid"
)

// gctx carries the state of one generated expansion case.
type gctx struct {
	t      *rapid.T
	def    bool
	defEnv bool            // default scheme is the real env provider
	unset  map[string]bool // environment variables referenced as unset
	// per-case pools of variable names drawn from the grammar (set / unset are disjoint)
	envSetPool, envUnsetPool []string
	envTaken                 map[string]bool
	dag                      []Entry // dag[i] may reference dag[j] only for j > i: no accidental cycles
	extra                    []Entry // helpers (nested names), typed leaves, ring members, '$'-named rows
	ring                     []string
	counter                  int
	used                     map[string]bool
	recipe                   map[string]string // how to draw another value for a row (histories): scalar int bool float map list
	order                    []string          // rows with a recipe, in creation order
}

func (g *gctx) remember(key, recipe string) {
	if g.recipe == nil {
		g.recipe = map[string]string{}
	}
	if _, ok := g.recipe[key]; !ok {
		g.order = append(g.order, key)
	}
	g.recipe[key] = recipe
}

// redraw draws a new value for a row, of the kind its users rely on.
func (g *gctx) redraw(key string) Val {
	switch r := g.recipe[key]; r {
	case "int":
		return seqVal(lit(rapid.SampledFrom(intPool).Draw(g.t, "re-int")))
	case "bool":
		return seqVal(lit(rapid.SampledFrom(boolPool).Draw(g.t, "re-bool")))
	case "float":
		return seqVal(lit(rapid.SampledFrom(floatPool).Draw(g.t, "re-float")))
	case "map", "list":
		return g.genStruct(r, 0, 0, true, "")
	case "map-str":
		return g.genStruct("map", 0, 2, true, "seq")
	case "list-str":
		return g.genStruct("list", 0, 2, true, "seq")
	case "map-liststr":
		return g.genMapOfLists(true)
	case "scalar":
		return seqVal(lit(rapid.SampledFrom(scalarPool).Draw(g.t, "re-scalar")))
	default: // "dag:<i>": anything that only points forward
		i, _ := strconv.Atoi(strings.TrimPrefix(r, "dag:"))
		return g.genEntryVal(i + 1)
	}
}

var (
	namePool = []string{"x", "y", "n", "srv", "a_b", "p.q", "X1", "e", "h:p", "0", "lo-ng/er"}
	// literal alphabet: no '$', '{', '}'.  YAML-significant characters are in on purpose.
	litRunes    = []rune("abcXYZ019 _-./:#,[]!&*'\"\\|>%@=~\n\tüé☃")
	quotedRunes = []rune("abcXYZ019 _-./:#,[]!&*'|>%@=~é☃")
	nameRunes   = []rune("abxyXY019_-./")
	// provider texts of every YAML type (string-typed ones must come back verbatim)
	scalarPool = []string{"0123", "42", "-7", "0x1F", "0o17", "1_000", "+5", "1.50", "-0.5", "1e3", ".inf", "true", "True", "false",
		"null", "~", "", "yes", "no", "\"0123\"", "'a b'", "!!str 0123", "!!int \"7\"", "a: b", "- x", "[1, 2]", "[a, 1]", "# c", "a #c",
		" 12 ", "2001-12-14", "|", "*a", "&a b", "? a", "--- a", "1 2", "0.0", "-0", "0b11", "12e", "t", "23"}
	intPool   = []string{"0123", "42", "-7", "0x1F", "0o17", "1_000", "+5", "0", "0b11", "!!int \"7\""}
	boolPool  = []string{"true", "True", "TRUE", "false", "False"}
	floatPool = []string{"1.50", "-0.5", "1e3", ".inf", "0.0", "-.inf", "12.0"}
	nullPool  = []string{"", "null", "~", "# c", "Null"}
)

// oneIn is true with probability 2^-bits (rapid's integer generators are biased
// towards small values, fair coins are not); it shrinks towards false.
func oneIn(t *rapid.T, label string, bits int) bool {
	for i := 0; i < bits; i++ {
		if !rapid.Bool().Draw(t, label) {
			return false
		}
	}
	return true
}

// envName draws a variable name from the documented grammar -- [A-Za-z_][A-Za-z0-9_]*, length 1 upward
// ("_", "A", "z", "_1", "a_b", mixed case) -- distinct from every name the case already uses.
func (g *gctx) envName(label string) string {
	for {
		n := string(rapid.SampledFrom(envFirst).Draw(g.t, label+"0")) +
			rapid.StringOfN(rapid.SampledFrom(envRest), 0, 5, -1).Draw(g.t, label)
		up := strings.ToUpper(n)
		if envReserved[n] || strings.HasPrefix(up, "VT_") || strings.HasPrefix(up, "GO") || strings.HasPrefix(up, "VERIF") {
			n += "_"
		}
		if g.envTaken == nil {
			g.envTaken = map[string]bool{}
		}
		if !g.envTaken[n] {
			g.envTaken[n] = true
			return n
		}
	}
}

func (g *gctx) defScheme() string {
	if g.defEnv {
		return "env"
	}
	return defaultScheme
}

var (
	// invalid identifiers (RFC: nonempty ASCII alphanumeric or underscore starting with an alphabetic or
	// underscore character): must be errors
	envBadNames = []string{"1C12", "C12-X", "", "C12 X", "C12.X", "-C12", "9", "é", "Ünï", "a-", "A.b", "x y", "-", "."}
	envFirst    = []rune("abcxyzABCHPXYZ_")
	envRest     = []rune("abxyABXY019_")
	// names that mean something to the test process itself are never touched
	envReserved = map[string]bool{"PATH": true, "HOME": true, "TZ": true, "PWD": true, "USER": true, "LANG": true, "TMPDIR": true}
	// default / inline texts of every YAML type; no '$', '{', '}'
	defaultPool = []string{"4317", "true", "0.25", "[a, b]", "", "0123", "a b", "null", "\"q\"", "- a", "x:-y", "1e3", "0x1F", "k: v",
		" 12 ", "#c", "False", "~", "!!str 7", "[]", "a,b"}
)

// envUnsetRef builds a reference to an UNSET environment variable through the real env provider:
// ${env:NAME:-default}, ${env:NAME}, and with default scheme env ${NAME} / (rarely) ${NAME:-default}.
func (g *gctx) envUnsetRef(pool []string, forceDefault bool) Seg {
	name := rapid.SampledFrom(g.envUnsetPool).Draw(g.t, "unsetname")
	if g.unset == nil {
		g.unset = map[string]bool{}
	}
	g.unset[name] = true
	if forceDefault || rapid.IntRange(0, 3).Draw(g.t, "withdefault") != 0 {
		d := rapid.SampledFrom(pool).Draw(g.t, "default")
		if g.defEnv && !forceDefault && oneIn(g.t, "bracesdefault", 3) {
			return Seg{K: "ref", Name: []Seg{lit(name + ":-" + d)}} // ${NAME:-default}
		}
		return g.refTo("env:"+name+":-"+d, true)
	}
	return g.refTo("env:"+name, true)
}

func (g *gctx) freshKey(prefix string) string {
	g.counter++
	return "aa:_" + prefix + strconv.Itoa(g.counter)
}

func (g *gctx) genLit(runes []rune, label string) Seg {
	if rapid.IntRange(0, 5).Draw(g.t, "litpool") == 0 && len(runes) == len(litRunes) {
		return lit(rapid.SampledFrom(scalarPool).Draw(g.t, "pool"))
	}
	return lit(rapid.StringOfN(rapid.SampledFrom(runes), 1, 4, -1).Draw(g.t, label))
}

// refTo builds a reference to table key, optionally in ${NAME} form and
// optionally with part of its name produced by a nested reference.
func (g *gctx) refTo(key string, allowNested bool) Seg {
	i := strings.IndexByte(key, ':')
	scheme, opaque := key[:i], key[i+1:]
	r := Seg{K: "ref", Scheme: scheme}
	if g.def && scheme == g.defScheme() && !strings.Contains(opaque, ":") && rapid.Bool().Draw(g.t, "defaultform") {
		r.Scheme = ""
	}
	if scheme == "env" && r.Scheme != "" && !strings.Contains(opaque, ":-") && g.used[key] && oneIn(g.t, "ignoreddefault", 2) {
		// the variable is set: a default must be ignored
		opaque += ":-" + rapid.SampledFrom(defaultPool).Draw(g.t, "ignored")
	}
	if allowNested && rapid.IntRange(0, 5).Draw(g.t, "nested") == 0 {
		a := rapid.IntRange(0, len(opaque)).Draw(g.t, "cutA")
		b := rapid.IntRange(a, len(opaque)).Draw(g.t, "cutB")
		mid := opaque[a:b]
		if !strings.Contains(mid, ":") || r.Scheme != "" {
			hk := g.freshKey("h")
			g.extra = append(g.extra, Entry{Key: hk, Val: seqVal(lit(mid))})
			inner := g.refTo(hk, rapid.IntRange(0, 3).Draw(g.t, "nested2") == 0)
			if opaque[:a] != "" {
				r.Name = append(r.Name, lit(opaque[:a]))
			}
			r.Name = append(r.Name, inner)
			if opaque[b:] != "" {
				r.Name = append(r.Name, lit(opaque[b:]))
			}
			return r
		}
	}
	if opaque != "" {
		r.Name = []Seg{lit(opaque)}
	}
	return r
}

// dollarRef builds a reference whose name contains '$' (directly, as "$$", or
// through a nested reference) and registers a table row under that very name,
// so that only the resolver's own check can turn it into an error.
func (g *gctx) dollarRef() Seg {
	pre := rapid.StringOfN(rapid.SampledFrom(nameRunes), 0, 2, -1).Draw(g.t, "dpre")
	post := rapid.StringOfN(rapid.SampledFrom(nameRunes), 0, 2, -1).Draw(g.t, "dpost")
	scheme := rapid.SampledFrom([]string{"aa", "b2"}).Draw(g.t, "dscheme")
	r := Seg{K: "ref", Scheme: scheme}
	var nameText string
	switch rapid.IntRange(0, 3).Draw(g.t, "dkind") {
	case 0: // ${aa:x$y}
		r.Name = []Seg{lit(pre), {K: "d"}, lit(post)}
		nameText = pre + "$" + post
	case 1: // ${aa:x$$y}
		r.Name = []Seg{lit(pre), {K: "esc"}, lit(post)}
		nameText = pre + "$$" + post
	case 2: // ${a$a:x}: '$' in the scheme part
		r.Scheme = "a$a"
		r.Name = []Seg{lit(pre + post)}
		nameText = pre + post
		scheme = "a$a"
	default: // ${aa:x${aa:_h}y} where _h holds "p$q"
		hk := g.freshKey("d")
		val := "p$q"
		g.extra = append(g.extra, Entry{Key: hk, Val: seqVal(lit("p"), Seg{K: "d"}, lit("q"))})
		r.Name = []Seg{lit(pre), g.refTo(hk, false), lit(post)}
		nameText = pre + val + post
	}
	key := scheme + ":" + nameText
	if !g.used[key] {
		g.used[key] = true
		g.extra = append(g.extra, Entry{Key: key, Val: seqVal(lit("reached"))})
	}
	return r
}

// genRef draws a reference: mostly to a defined row with index >= minIdx, but
// also to ring members (cycles), undefined rows, '$' names, unknown schemes.
func (g *gctx) genRef(minIdx int) Seg {
	// the failing kinds are rare per reference: a case holds many references and one failure decides it
	switch {
	case len(g.ring) > 0 && oneIn(g.t, "toring", 3):
		return g.refTo(rapid.SampledFrom(g.ring).Draw(g.t, "ringmember"), true)
	case oneIn(g.t, "undefined", 6):
		return g.refTo("aa:undefined"+strconv.Itoa(rapid.IntRange(0, 2).Draw(g.t, "undef")), true)
	case oneIn(g.t, "dollarname", 5):
		return g.dollarRef()
	case oneIn(g.t, "badscheme", 6):
		return Seg{K: "ref", Scheme: rapid.SampledFrom([]string{"zz", "a", "file"}).Draw(g.t, "badscheme"), Name: []Seg{lit("x")}}
	case oneIn(g.t, "envunset", 3):
		return g.envUnsetRef(defaultPool, false)
	case oneIn(g.t, "yamlinline", 4):
		return Seg{K: "ref", Scheme: "yaml", Name: []Seg{lit(rapid.SampledFrom(defaultPool).Draw(g.t, "inline"))}}
	case oneIn(g.t, "envbadname", 6):
		return Seg{K: "ref", Scheme: "env", Name: []Seg{lit(rapid.SampledFrom(envBadNames).Draw(g.t, "badname"))}}
	case !g.def && oneIn(g.t, "nsref", 4):
		// no default scheme: ${NAME} is plain text
		return Seg{K: "ref", Name: []Seg{lit(rapid.SampledFrom([]string{"x", "HOME", "1", "a b", ""}).Draw(g.t, "nsname"))}}
	}
	if minIdx >= len(g.dag) {
		// nothing to point at: a typed leaf made on demand
		hk := g.freshKey("v")
		g.remember(hk, "scalar")
		g.extra = append(g.extra, Entry{Key: hk, Val: seqVal(lit(rapid.SampledFrom(scalarPool).Draw(g.t, "leafval")))})
		return g.refTo(hk, true)
	}
	j := rapid.IntRange(minIdx, len(g.dag)-1).Draw(g.t, "target")
	return g.refTo(g.dag[j].Key, true)
}

// repair enforces the static rendering rules that keep text and AST in
// bijection: a lone '$' is never followed by '$' or '{'; a '{' never follows '$'.
func repair(seq []Seg) []Seg {
	var out []Seg
	for _, s := range seq {
		if s.K == "lit" && s.T == "" {
			continue
		}
		if n := len(out); n > 0 {
			p := out[n-1].K
			bad := false
			if p == "d" {
				switch s.K {
				case "d", "esc", "escref", "ref", "o":
					bad = true
				}
			}
			if p == "esc" && s.K == "o" {
				bad = true
			}
			if bad {
				out = append(out, lit("-"))
			}
		}
		out = append(out, s)
	}
	return out
}

// genSeq draws a string value.
func (g *gctx) genSeq(minIdx int, quoted bool) []Seg {
	runes := litRunes
	if quoted {
		runes = quotedRunes
	}
	if rapid.IntRange(0, 3).Draw(g.t, "whole") == 0 {
		return []Seg{g.genRef(minIdx)}
	}
	n := rapid.IntRange(0, 5).Draw(g.t, "nseg")
	var seq []Seg
	for i := 0; i < n; i++ {
		switch k := rapid.IntRange(0, 19).Draw(g.t, "segkind"); {
		case k < 6:
			seq = append(seq, g.genLit(runes, "lit"))
		case k < 12:
			seq = append(seq, g.genRef(minIdx))
		case k < 14:
			seq = append(seq, Seg{K: "esc"})
		case k < 16:
			seq = append(seq, g.genEscRef(minIdx))
		case k == 16:
			seq = append(seq, Seg{K: "d"})
		case k == 17:
			seq = append(seq, Seg{K: "o"})
		default:
			seq = append(seq, Seg{K: "c"})
		}
	}
	return repair(seq)
}

// genEscRef draws "$${…}": often with the text of a reference that exists, so
// that escaped and unescaped occurrences of the same reference meet.
func (g *gctx) genEscRef(minIdx int) Seg {
	if rapid.IntRange(0, 2).Draw(g.t, "escbody") > 0 && len(g.dag) > 0 {
		k := rapid.SampledFrom(g.dag).Draw(g.t, "esctarget").Key
		if g.def && strings.HasPrefix(k, g.defScheme()+":") && rapid.Bool().Draw(g.t, "escdefault") {
			k = strings.TrimPrefix(k, g.defScheme()+":")
		}
		return Seg{K: "escref", T: k}
	}
	return Seg{K: "escref", T: rapid.SampledFrom([]string{"aa:x", "X", "1", "env:HOME", "", "a b"}).Draw(g.t, "escfree")}
}

// genStruct draws a map/list provider value (or configuration literal).
func (g *gctx) genStruct(kind string, minIdx, depth int, quoted bool, leafKinds string) Val {
	v := Val{K: kind}
	n := rapid.IntRange(0, 3).Draw(g.t, "nitems")
	for i := 0; i < n; i++ {
		var it Val
		switch k := rapid.IntRange(0, 9).Draw(g.t, "leaf"); {
		case k < 6 || leafKinds == "seq":
			it = Val{K: "seq", Seq: g.genSeq(minIdx, quoted)}
		case k < 8:
			it = Val{K: "raw", T: rapid.SampledFrom([]string{"1", "0123", "true", "null", "1.5", "-3"}).Draw(g.t, "rawleaf")}
		case depth < 2:
			it = g.genStruct(rapid.SampledFrom([]string{"map", "list"}).Draw(g.t, "subkind"), minIdx, depth+1, quoted, leafKinds)
		default:
			it = Val{K: "seq", Seq: g.genSeq(minIdx, quoted)}
		}
		v.Items = append(v.Items, it)
		if kind == "map" {
			v.Keys = append(v.Keys, "k"+strconv.Itoa(i))
		}
	}
	return v
}

// genMapOfLists draws a map whose values are lists of strings (literal, or --
// outside a provider row only by reference -- whole-value references to such lists).
func (g *gctx) genMapOfLists(quoted bool) Val {
	v := Val{K: "map"}
	for i, n := 0, rapid.IntRange(0, 3).Draw(g.t, "nlists"); i < n; i++ {
		v.Keys = append(v.Keys, "k"+strconv.Itoa(i))
		if rapid.IntRange(0, 2).Draw(g.t, "listref") == 0 {
			k := g.freshKey("s")
			g.remember(k, "list-str")
			g.extra = append(g.extra, Entry{Key: k, Val: g.genStruct("list", 0, 2, true, "seq")})
			v.Items = append(v.Items, seqVal(g.refTo(k, true)))
			continue
		}
		v.Items = append(v.Items, g.genStruct("list", 0, 2, quoted, "seq"))
	}
	return v
}

// genEntryVal draws what a provider row returns.
func (g *gctx) genEntryVal(minIdx int) Val {
	switch k := rapid.IntRange(0, 19).Draw(g.t, "entrykind"); {
	case k < 10:
		return Val{K: "seq", Seq: g.genSeq(minIdx, false)}
	case k < 15:
		return seqVal(lit(rapid.SampledFrom(scalarPool).Draw(g.t, "scalar")))
	case k < 18:
		return g.genStruct(rapid.SampledFrom([]string{"map", "list"}).Draw(g.t, "structkind"), minIdx, 0, true, "")
	default:
		return seqVal(g.genRef(minIdx))
	}
}

// typedRef makes a whole-value reference to a row holding a scalar drawn from
// pool, directly or through a chain of whole-value rows.
func (g *gctx) typedRef(pool []string) Val {
	if rapid.IntRange(0, 3).Draw(g.t, "typedenv") == 0 {
		// port: ${env:PORT:-4317}: the default of an unset variable is typed like a value
		return seqVal(g.envUnsetRef(pool, true))
	}
	k := g.freshKey("t")
	switch {
	case &pool[0] == &intPool[0]:
		g.remember(k, "int")
	case &pool[0] == &boolPool[0]:
		g.remember(k, "bool")
	case &pool[0] == &floatPool[0]:
		g.remember(k, "float")
	}
	g.extra = append(g.extra, Entry{Key: k, Val: seqVal(lit(rapid.SampledFrom(pool).Draw(g.t, "typed")))})
	for rapid.IntRange(0, 2).Draw(g.t, "chain") == 0 {
		c := g.freshKey("c")
		g.extra = append(g.extra, Entry{Key: c, Val: seqVal(g.refTo(k, true))})
		k = c
	}
	return seqVal(g.refTo(k, true))
}

func (g *gctx) genField(name string) Val {
	switch fieldKind[name] {
	case "str":
		return Val{K: "seq", Seq: g.genSeq(0, false)}
	case "int":
		return g.typedRef(intPool)
	case "bool":
		return g.typedRef(boolPool)
	case "float":
		return g.typedRef(floatPool)
	case "mapany", "listany":
		kind := "map"
		if fieldKind[name] == "listany" {
			kind = "list"
		}
		if rapid.IntRange(0, 2).Draw(g.t, "structref") == 0 {
			k := g.freshKey("s")
			g.remember(k, kind)
			g.extra = append(g.extra, Entry{Key: k, Val: g.genStruct(kind, 0, 0, true, "")})
			return seqVal(g.refTo(k, true))
		}
		return g.genStruct(kind, 0, 0, false, "")
	case "mapstr", "liststr":
		kind := "map"
		if fieldKind[name] == "liststr" {
			kind = "list"
		}
		if rapid.IntRange(0, 2).Draw(g.t, "strstructref") == 0 {
			// a whole-value reference to a map/list of strings: every element must arrive as its original text
			k := g.freshKey("s")
			g.remember(k, kind+"-str")
			g.extra = append(g.extra, Entry{Key: k, Val: g.genStruct(kind, 0, 2, true, "seq")})
			return seqVal(g.refTo(k, true))
		}
		return g.genStruct(kind, 0, 2, false, "seq")
	case "mapliststr":
		// map[string][]string: the lists are literal, or whole-value references to lists of strings, or the
		// whole map is one reference
		if rapid.IntRange(0, 3).Draw(g.t, "mlsref") == 0 {
			k := g.freshKey("s")
			g.remember(k, "map-liststr")
			g.extra = append(g.extra, Entry{Key: k, Val: g.genMapOfLists(true)})
			return seqVal(g.refTo(k, true))
		}
		return g.genMapOfLists(false)
	case "sub":
		v := Val{K: "map"}
		if rapid.Bool().Draw(g.t, "sub.s") {
			v.Keys, v.Items = append(v.Keys, "s"), append(v.Items, Val{K: "seq", Seq: g.genSeq(0, false)})
		}
		if rapid.Bool().Draw(g.t, "sub.i") {
			v.Keys, v.Items = append(v.Keys, "i"), append(v.Items, g.typedRef(intPool))
		}
		if rapid.Bool().Draw(g.t, "sub.l") {
			v.Keys, v.Items = append(v.Keys, "l"), append(v.Items, g.genStruct("list", 0, 1, false, ""))
		}
		return v
	}
	return Val{K: "seq"}
}

var fieldNames = []string{"s1", "s2", "s3", "i", "b", "f", "m", "ms", "l", "ls", "mls", "sub"}

func genX(t *rapid.T) XScript {
	g := &gctx{t: t, def: rapid.Bool().Draw(t, "default"), used: map[string]bool{}}
	g.defEnv = g.def && rapid.Bool().Draw(t, "defaultenv")
	for i := 0; i < 3; i++ {
		g.envSetPool = append(g.envSetPool, g.envName("setvar"))
		g.envUnsetPool = append(g.envUnsetPool, g.envName("unsetvar"))
	}
	// table keys first (values are drawn back to front so that a row only points forward)
	n := rapid.IntRange(1, 6).Draw(t, "nrows")
	for i := 0; i < n; i++ {
		sc := rapid.SampledFrom([]string{"aa", "b2", "x.y-z+1", defaultScheme, "env", "env"}).Draw(t, "scheme")
		nm := rapid.SampledFrom(namePool).Draw(t, "name")
		if sc == defaultScheme && strings.Contains(nm, ":") {
			nm = "x"
		}
		if sc == "env" {
			nm = rapid.SampledFrom(g.envSetPool).Draw(t, "envname") // a variable that is SET to the row's text
		}
		k := sc + ":" + nm
		if g.used[k] {
			continue
		}
		g.used[k] = true
		g.dag = append(g.dag, Entry{Key: k})
	}
	// optional ring: every member mentions exactly one member (the next one)
	if oneIn(t, "ring", 5) {
		m := rapid.IntRange(1, 3).Draw(t, "ringlen")
		for i := 0; i < m; i++ {
			g.ring = append(g.ring, "aa:c"+strconv.Itoa(i))
		}
		for i, k := range g.ring {
			next := Seg{K: "ref", Scheme: "aa", Name: []Seg{lit("c" + strconv.Itoa((i+1)%m))}}
			var seq []Seg
			if rapid.Bool().Draw(t, "ringpre") {
				seq = append(seq, lit("<"))
			}
			seq = append(seq, next)
			if rapid.Bool().Draw(t, "ringpost") {
				seq = append(seq, lit(">"))
			}
			g.extra = append(g.extra, Entry{Key: k, Val: Val{K: "seq", Seq: seq}})
		}
	}
	for i := len(g.dag) - 1; i >= 0; i-- {
		g.dag[i].Val = g.genEntryVal(i + 1)
		g.remember(g.dag[i].Key, "dag:"+strconv.Itoa(i))
	}
	s := XScript{Default: g.def, DefEnv: g.defEnv}
	for _, name := range fieldNames {
		p := 3
		if fieldKind[name] == "str" {
			p = 1
		}
		if rapid.IntRange(0, p).Draw(t, "has:"+name) == 0 {
			s.Fields = append(s.Fields, Field{name, g.genField(name)})
		}
	}
	if len(s.Fields) == 0 {
		s.Fields = append(s.Fields, Field{"s1", g.genField("s1")})
	}
	if rapid.IntRange(0, 4).Draw(t, "over") == 0 {
		for _, name := range []string{"s1", "s2", "s3"} {
			if rapid.IntRange(0, 1).Draw(t, "over:"+name) == 0 {
				s.Over = append(s.Over, Field{name, g.genField(name)})
			}
		}
	}
	s.Nest = rapid.Bool().Draw(t, "nest")
	// history on one Resolver: the values behind some references change between Resolves
	if len(g.order) > 0 && rapid.IntRange(0, 2).Draw(t, "history") == 0 {
		for r, nr := 0, rapid.IntRange(1, 3).Draw(t, "nrounds"); r < nr; r++ {
			rd := Round{Fire: rapid.IntRange(0, 3).Draw(t, "fire") != 0}
			seen := map[string]bool{}
			for c, nc := 0, rapid.IntRange(1, 3).Draw(t, "nchanges"); c < nc; c++ {
				k := rapid.SampledFrom(g.order).Draw(t, "changed")
				if seen[k] {
					continue
				}
				seen[k] = true
				rd.Changes = append(rd.Changes, Entry{Key: k, Val: g.redraw(k)})
			}
			s.Rounds = append(s.Rounds, rd)
		}
	}
	s.Table = append(append([]Entry(nil), g.dag...), g.extra...)
	for _, n := range g.envUnsetPool {
		if g.unset[n] {
			s.EnvUnset = append(s.EnvUnset, n)
		}
	}
	s.Text = s.describe()
	return s
}
