package c12

import (
	"fmt"
	"strings"
	"testing"
	"time"

	"go.opentelemetry.io/collector/confmap"
	"go.opentelemetry.io/collector/verifharness/vt"
)

// FuzzResolveTotal (thorough tier): raw strings outside the AST grammar.  The
// provider value is '$'-free, so every round removes at least one '$' from the
// string and none of the listed non-terminating shapes can be built.  Asserted:
// Resolve/ToStringMap/Unmarshal never panic and return; a value without "${" is
// only un-escaped; a value with neither a complete "${…}" nor "$$" is unchanged.
func FuzzResolveTotal(f *testing.F) {
	for _, s := range [][2]string{{"${aa:x}", "0123"}, {"a$$b ${aa:x} $${aa:x}", "v"}, {"${X}}{$", ""}, {"$$$${aa:${aa:x}}", "x"},
		{"${aa:x", "[1, a]"}, {"}${", "{k: v}"}, {"${aa:x}${aa:x}", "\"q\""}, {"\xff${aa:x}\x00", "- a"}} {
		f.Add(s[0], s[1], true)
		f.Add(s[0], s[1], false)
	}
	f.Fuzz(func(t *testing.T, value, pv string, def bool) {
		if strings.Contains(pv, "$") || len(value) > 300 || len(pv) > 100 {
			t.Skip()
		}
		table := func(uri string) (*confmap.Retrieved, error) {
			if uri == "aa:x" || uri == "dd:X" {
				return confmap.NewRetrievedFromYAML([]byte(pv))
			}
			return nil, fmt.Errorf("no %q", uri)
		}
		facs := []confmap.ProviderFactory{factory("aa", table), factory("dd", table), factory("src", func(string) (*confmap.Retrieved, error) {
			return confmap.NewRetrieved(map[string]any{"s": value, "l": []any{value, "x"}, "m": map[string]any{"k": value}})
		})}
		d := ""
		if def {
			d = defaultScheme
		}
		var o outcome
		var up any
		ok, _ := vt.WithWatchdog(20*time.Second, func() {
			o = resolve([]string{"src:0"}, d, facs)
			if o.conf != nil && o.err == nil {
				var tgt struct {
					S string         `mapstructure:"s"`
					L []any          `mapstructure:"l"`
					M map[string]any `mapstructure:"m"`
				}
				up, _ = vt.Recover(func() { _ = o.conf.Unmarshal(&tgt) })
			}
		})
		if !ok {
			t.Fatalf("hang: value=%q provider=%q default=%v", value, pv, def)
		}
		if o.panicV != nil || up != nil {
			t.Fatalf("panic %v %v: value=%q provider=%q default=%v\n%s", o.panicV, up, value, pv, def, o.stack)
		}
		if strings.Contains(value, "${") {
			return
		}
		// no reference can start: only "$$" -> "$" may happen
		if o.err != nil {
			t.Fatalf("error %v for a value without references: %q", o.err, value)
		}
		want := strings.ReplaceAll(value, "$$", "$")
		if got := o.tsm["s"]; got != want {
			t.Fatalf("value %q without references resolved to %#v, want %q", value, got, want)
		}
		if got := o.tsm["m"].(map[string]any)["k"]; got != want {
			t.Fatalf("nested value %q without references resolved to %#v, want %q", value, got, want)
		}
	})
}
