package c12

import (
	"sync/atomic"
	"testing"
	"time"

	"pgregory.net/rapid"

	"go.opentelemetry.io/collector/verifharness/vt"
)

// Probes for the listed findings: the main passes exclude these shapes by
// construction, this check builds nothing else and re-observes them each run.

type KScript struct {
	Kind string   `json:"kind"`
	X    *XScript `json:"x,omitempty"`
	M    *MScript `json:"m,omitempty"`
}

var cK = vt.New("C12", "known-probes")

var childProbes int64

var knownKinds = []string{"hang/cycle-doubling", "empty-top-level-key", "stringy-container/nested-ref"}

func genK(t *rapid.T) KScript {
	kind := rapid.SampledFrom(knownKinds).Draw(t, "kind")
	ref := func(name string) Seg { return Seg{K: "ref", Scheme: "aa", Name: []Seg{lit(name)}} }
	smallLit := func(label string) Seg {
		return lit(rapid.SampledFrom([]string{"", " ", "a", "-", "x y"}).Draw(t, label))
	}
	k := KScript{Kind: kind}
	switch kind {
	case "stringy-container/nested-ref":
		// mls: {k0: ${aa:l}} into map[string][]string, aa:l = ["a", "b"]: the list must arrive as a list of its texts
		l := rapid.SampledFrom([][]string{{"a", "b"}, {}, {"0123"}, {"x", "y", "z"}}).Draw(t, "list")
		lv := Val{K: "list"}
		for _, e := range l {
			lv.Items = append(lv.Items, seqVal(lit(e)))
		}
		inner := Val{K: "map", Keys: []string{"k0"}, Items: []Val{seqVal(ref("l"))}}
		k.X = &XScript{Probe: kind, Table: []Entry{{"aa:l", lv}, {"aa:m", inner}}, Nest: rapid.Bool().Draw(t, "nest")}
		if rapid.Bool().Draw(t, "viaref") {
			k.X.Fields = []Field{{"mls", seqVal(ref("m"))}} // the map itself comes from a reference too
		} else {
			k.X.Fields = []Field{{"mls", inner}}
		}
	case "hang/cycle-doubling":
		// aa:c0 = "${aa:c0}${aa:c0}": every round doubles the text
		seq := []Seg{ref("c0"), smallLit("mid"), ref("c0")}
		k.X = &XScript{Probe: kind, Table: []Entry{{"aa:c0", Val{K: "seq", Seq: seq}}}, Fields: []Field{{"s1", seqVal(ref("c0"))}}}
	case "empty-top-level-key":
		k.M = &MScript{Probe: true, Mode: "raw", Sources: []Node{{K: "map", M: []KV{{"", genNode(t, 3, false)}}}}}
	}
	if k.X != nil {
		k.X.Default = rapid.Bool().Draw(t, "default")
		k.X.Text = k.X.describe()
	}
	return k
}

func runK(k KScript) (bool, string, *vt.Finding) {
	key := hashKey(k)
	var f *vt.Finding
	before := knownCount()
	switch {
	case k.Kind == "hang/cycle-doubling" && k.X != nil:
		// child processes are slow (the text has to grow to the heap limit): a few per process are enough
		if atomic.AddInt64(&childProbes, 1) > int64(vt.N(1, 3)) && vt.ReplayPath() == "" {
			cK.Class("skipped:child-probe-budget")
			return false, key, nil
		}
		cf, hung, err := cX.Child("TestExpand", *k.X, 30*time.Second)
		if err != nil {
			cK.Inconclusive("probe child: %v", err)
			return false, key, nil
		}
		switch {
		case hung:
			f = vt.Failf("hang/cycle-doubling", "Resolve neither returns nor fails for a cycle whose value mentions itself twice (child stopped by the 2 GiB heap guard / 30 s limit): %v", k.X.describe())
		case cf != nil:
			f = cf
		}
	case k.X != nil:
		_, _, f = runX(*k.X)
	case k.M != nil:
		_, _, f = runM(*k.M)
	}
	if f != nil && cK.IsKnown(f.Sig) {
		cK.Class("re-observed:" + f.Sig)
		return true, key, f // vt.Run records it as a listed finding
	}
	if f == nil && knownCount() > before {
		cK.Class("re-observed:" + k.Kind)
		return true, key, nil
	}
	if f == nil {
		cK.Class("not-observed:" + k.Kind)
	}
	return f != nil, key, f
}

// knownCount: listed findings recorded so far by the checks the probes run through.
func knownCount() int64 { return atomic.LoadInt64(&knownSeen) }

func TestKnownProbes(t *testing.T) {
	vt.Run(t, cK, vt.N(60, 600), genK, runK)
}
