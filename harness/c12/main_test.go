package c12

import (
	"context"
	"crypto/sha256"
	"encoding/json"
	"fmt"
	"sync/atomic"
	"testing"

	"go.opentelemetry.io/collector/confmap"
	"go.opentelemetry.io/collector/verifharness/vt"
)

func TestMain(m *testing.M) { vt.Main(m) }

// fnProvider is the custom confmap.Provider both checks use: it serves
// whatever the retrieve function returns for a URI.
type fnProvider struct {
	scheme    string
	retrieve  func(uri string) (*confmap.Retrieved, error)
	retrieveW func(uri string, w confmap.WatcherFunc) (*confmap.Retrieved, error)
}

func (p *fnProvider) Retrieve(_ context.Context, uri string, w confmap.WatcherFunc) (*confmap.Retrieved, error) {
	if p.retrieveW != nil {
		return p.retrieveW(uri, w)
	}
	return p.retrieve(uri)
}
func (p *fnProvider) Scheme() string                 { return p.scheme }
func (p *fnProvider) Shutdown(context.Context) error { return nil }

func factory(scheme string, retrieve func(uri string) (*confmap.Retrieved, error)) confmap.ProviderFactory {
	return confmap.NewProviderFactory(func(confmap.ProviderSettings) confmap.Provider {
		return &fnProvider{scheme: scheme, retrieve: retrieve}
	})
}

func factoryW(scheme string, retrieve func(uri string, w confmap.WatcherFunc) (*confmap.Retrieved, error)) confmap.ProviderFactory {
	return confmap.NewProviderFactory(func(confmap.ProviderSettings) confmap.Provider {
		return &fnProvider{scheme: scheme, retrieveW: retrieve}
	})
}

// outcome is what one resolution produced.
type outcome struct {
	conf   *confmap.Conf
	err    error
	panicV any
	stack  string
	tsm    map[string]any
}

func resolve(uris []string, def string, facs []confmap.ProviderFactory) (o outcome) {
	o.panicV, o.stack = vt.Recover(func() {
		r, err := confmap.NewResolver(confmap.ResolverSettings{URIs: uris, DefaultScheme: def, ProviderFactories: facs})
		if err != nil {
			o.err = fmt.Errorf("NewResolver: %w", err)
			return
		}
		o.conf, o.err = r.Resolve(context.Background())
		if o.err == nil {
			o.tsm = o.conf.ToStringMap()
		}
		_ = r.Shutdown(context.Background())
	})
	return o
}

// knownSeen counts listed findings recorded through soft().
var knownSeen int64

// soft records f when it is a listed finding (the caller continues with the
// rest of its oracle); otherwise the caller must return f.
func soft(c *vt.C, f *vt.Finding, script any) bool {
	if c.Soft(f, script) {
		if f != nil {
			atomic.AddInt64(&knownSeen, 1)
		}
		return true
	}
	return false
}

func hashKey(v any) string {
	b, _ := json.Marshal(v)
	h := sha256.Sum256(b)
	return string(h[:])
}

func short(s string, n int) string {
	if len(s) > n {
		return s[:n] + "…"
	}
	return s
}
