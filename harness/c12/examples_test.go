package c12

import (
	"fmt"
	"testing"

	"go.opentelemetry.io/collector/verifharness/vt"
)

// Documented examples (docs/rfcs/env-vars.md comparison table, the comments of
// confmap/expand.go and resolver.go, and the probe list of DESIGN.md): the
// reference interpreter must give the hand-written answer AND the resolver
// must agree with it.  This anchors the interpreter to stated behaviour and is
// a self-check of the tokenizer used by the generator.

var cE = vt.New("C12", "examples")

func rf(scheme, name string) Seg { return Seg{K: "ref", Scheme: scheme, Name: []Seg{lit(name)}} }

var (
	sE = Seg{K: "esc"}
	sD = Seg{K: "d"}
	sO = Seg{K: "o"}
	sC = Seg{K: "c"}
)

func er(body string) Seg { return Seg{K: "escref", T: body} }

type example struct {
	name    string
	def     bool
	field   string
	seq     []Seg
	typed   any    // expected ToStringMap value
	str     string // expected value of the string field
	wantErr bool
}

func TestExamples(t *testing.T) {
	if vt.ReplayPath() != "" {
		t.Skip("replay mode runs only the replayed script")
	}
	defer cE.Flush()
	table := []Entry{
		{"aa:x", seqVal(lit("X"))}, {"dd:x", seqVal(lit("DX"))}, {"aa:k", seqVal(lit("x"))},
		{"aa:n", seqVal(lit("0123"))}, {"aa:h", seqVal(lit("0xdeadbeef"))}, {"aa:i", seqVal(lit("123"))},
		{"aa:q", seqVal(lit(`"0123"`))}, {"aa:s", seqVal(lit("!!str 0123"))}, {"aa:t", seqVal(lit("true"))},
		{"aa:b", seqVal(lit("a"), sE, lit("b"))}, {"aa:e", seqVal(er("aa:x"))}, {"aa:c", seqVal(rf("aa", "c"))},
		{"aa:p", seqVal(lit("pre-"), rf("aa", "n"))}, {"aa:$x", seqVal(lit("reached"))}, {"aa:empty", seqVal()},
		{"aa:m", Val{K: "map", Keys: []string{"k0"}, Items: []Val{seqVal(lit("v"), sE)}}},
		{"aa:m3", Val{K: "map", Keys: []string{"k0", "k1"}, Items: []Val{seqVal(rf("aa", "n")),
			{K: "list", Items: []Val{seqVal(rf("aa", "empty")), seqVal(lit("p"), rf("aa", "n"))}}}}},
		{"aa:m4", Val{K: "map", Keys: []string{"k0", "k1"}, Items: []Val{seqVal(rf("aa", "n")), seqVal(rf("aa", "empty"))}}},
		{"aa:m2", Val{K: "map", Keys: []string{"k0", "k1"}, Items: []Val{seqVal(rf("aa", "x"), rf("aa", "x")), seqVal(lit("a"), er("aa:x"))}}},
	}
	nested := Seg{K: "ref", Scheme: "aa", Name: []Seg{rf("aa", "k")}}
	dollar := Seg{K: "ref", Scheme: "aa", Name: []Seg{sD, lit("x")}}
	exs := []example{
		{name: "$$${aa:x} -> $X", field: "s1", seq: []Seg{sE, rf("aa", "x")}, typed: "$X", str: "$X"},
		{name: "$$$${aa:x} -> $${aa:x}", field: "s1", seq: []Seg{sE, er("aa:x")}, typed: "$${aa:x}", str: "$${aa:x}"},
		{name: "$${aa:x} -> ${aa:x}", field: "s1", seq: []Seg{er("aa:x")}, typed: "${aa:x}", str: "${aa:x}"},
		{name: "$$$ -> $$", field: "s1", seq: []Seg{sE, sD}, typed: "$$", str: "$$"},
		{name: "value a$$b -> a$b", field: "s1", seq: []Seg{rf("aa", "b")}, typed: "a$b", str: "a$b"},
		{name: "value $${aa:x} -> ${aa:x}, not re-expanded", field: "s1", seq: []Seg{rf("aa", "e")}, typed: "${aa:x}", str: "${aa:x}"},
		{name: "0123 typed / string field", field: "s1", seq: []Seg{rf("aa", "n")}, typed: 83, str: "0123"},
		{name: "0123 int field", field: "i", seq: []Seg{rf("aa", "n")}, typed: 83},
		{name: "123 int field", field: "i", seq: []Seg{rf("aa", "i")}, typed: 123},
		{name: "0123 embedded", field: "s1", seq: []Seg{lit("p"), rf("aa", "n")}, typed: "p0123", str: "p0123"},
		{name: "0xdeadbeef string field", field: "s1", seq: []Seg{rf("aa", "h")}, typed: 3735928559, str: "0xdeadbeef"},
		{name: `"0123" keeps its quotes`, field: "s1", seq: []Seg{rf("aa", "q")}, typed: `"0123"`, str: `"0123"`},
		{name: "!!str 0123 verbatim", field: "s1", seq: []Seg{rf("aa", "s")}, typed: "!!str 0123", str: "!!str 0123"},
		{name: "true typed / string field", field: "s1", seq: []Seg{rf("aa", "t")}, typed: true, str: "true"},
		{name: "true bool field", field: "b", seq: []Seg{rf("aa", "t")}, typed: true},
		{name: "chain through a string value", field: "s1", seq: []Seg{rf("aa", "p")}, typed: "pre-0123", str: "pre-0123"},
		{name: "nested ${aa:${aa:k}}", field: "s1", seq: []Seg{nested}, typed: "X", str: "X"},
		{name: "adjacent", field: "s1", seq: []Seg{rf("aa", "x"), rf("aa", "n"), rf("aa", "x")}, typed: "X0123X", str: "X0123X"},
		{name: "${x} without default scheme is text", field: "s1", seq: []Seg{rf("", "x"), lit(" "), rf("aa", "x")}, typed: "${x} X", str: "${x} X"},
		{name: "${x} with default scheme", def: true, field: "s1", seq: []Seg{rf("", "x"), lit(" "), rf("aa", "x")}, typed: "DX X", str: "DX X"},
		{name: "noise is unchanged", field: "s1", seq: []Seg{lit("a"), sD, lit("b"), sO, lit("c"), sC, sC, lit(" "), sD}, typed: "a$b{c}} $", str: "a$b{c}} $"},
		{name: "empty value", field: "s1", seq: []Seg{rf("aa", "empty")}, typed: nil, str: ""},
		{name: "map value into a string field: original text, unescaped", field: "s1", seq: []Seg{rf("aa", "m")},
			typed: map[string]any{"k0": "v$"}, str: `{k0: "v$"}`},
		// repaired finding F-C12-a: the escaped occurrence of a reference that is also used unescaped stays verbatim
		{name: "${aa:x} $${aa:x} -> X ${aa:x}", field: "s1", seq: []Seg{rf("aa", "x"), lit(" "), er("aa:x")}, typed: "X ${aa:x}", str: "X ${aa:x}"},
		{name: "${aa:empty}$${aa:empty}-$${aa:x}: an empty value leaves no stray $", field: "s1", seq: []Seg{rf("aa", "empty"), er("aa:empty"), lit("-"), er("aa:x")},
			typed: "${aa:empty}-${aa:x}", str: "${aa:empty}-${aa:x}"},
		{name: "map value whose text has the same reference escaped", field: "s1", seq: []Seg{rf("aa", "m2")},
			typed: map[string]any{"k0": "XX", "k1": "a${aa:x}"}, str: `{k0: "XX", k1: "a${aa:x}"}`},
		// repaired findings nested-expanded-value/leak and /panic
		{name: "nested whole-value references are typed at every depth", field: "m", seq: []Seg{rf("aa", "m3")},
			typed: map[string]any{"k0": 83, "k1": []any{nil, "p0123"}}},
		{name: "…and arrive as their original text in map[string]string", field: "ms", seq: []Seg{rf("aa", "m4")},
			typed: map[string]any{"k0": 83, "k1": nil}},
		{name: "cycle", field: "s1", seq: []Seg{rf("aa", "c")}, wantErr: true},
		{name: "embedded cycle", field: "s1", seq: []Seg{lit("a"), rf("aa", "c")}, wantErr: true},
		{name: "$ in name", field: "s1", seq: []Seg{dollar}, wantErr: true},
	}
	for _, ex := range exs {
		s := XScript{Default: ex.def, Table: table, Fields: []Field{{ex.field, Val{K: "seq", Seq: ex.seq}}}}
		s.Text = s.describe()
		fail := func(f *vt.Finding) {
			cE.Violation(f, s)
			t.Errorf("%s: %v", ex.name, f)
		}
		cE.Eval(true, hashKey(s))
		cE.Sample(map[string]any{"example": ex.name, "text": renderSeq(ex.seq)})
		if !bijective(ex.seq) {
			fail(vt.Failf("selfcheck/tokenizer", "%q does not tokenize back to its AST", renderSeq(ex.seq)))
			continue
		}
		// 1. the reference interpreter gives the documented answer
		w := s.world()
		ty, st, r := w.evalVal(s.Fields[0].Val)
		switch {
		case w.discard != "" || r.TEx != "" || r.SEx != "":
			fail(vt.Failf("selfcheck/oracle", "reference interpreter does not assert a documented example: discard=%q res=%+v", w.discard, r))
			continue
		case ex.wantErr != (r.Err != ""):
			fail(vt.Failf("selfcheck/oracle", "reference interpreter: error expected=%v, got %q", ex.wantErr, r.Err))
			continue
		case !ex.wantErr && (!sameTree(ex.typed, ty) || (fieldKind[ex.field] == "str" && st.project(0) != ex.str)):
			fail(vt.Failf("selfcheck/oracle", "reference interpreter: want typed %#v str %q, got typed %#v str %#v", ex.typed, ex.str, ty, st.project(0)))
			continue
		}
		// 2. the resolver agrees
		if _, _, f := runX(s); f != nil {
			fail(vt.Failf("example/"+f.Sig, "%s: %s", ex.name, f.Msg))
		}
	}
	// tokenizer self-check: ambiguous renderings must be rejected
	for i, bad := range [][]Seg{{sD, rf("aa", "x")}, {sD, sO, lit("a"), sC}, {sE, sO, lit("a"), sC}, {sD, sE}, {sD, sD, sO, lit("a"), sC}, {lit("a$b")}, {sD, er("aa:x")}} {
		cE.Eval(false, fmt.Sprint("bad", i))
		if bijective(bad) {
			f := vt.Failf("selfcheck/tokenizer", "ambiguous rendering %q accepted", renderSeq(bad))
			cE.Violation(f, bad)
			t.Error(f)
		}
	}
	cE.SetExhaustive(true)
}
