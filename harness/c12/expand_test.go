package c12

import (
	"fmt"
	"reflect"
	"testing"

	yaml "gopkg.in/yaml.v3"

	"go.opentelemetry.io/collector/verifharness/vt"
)

// Field is one top-level key of the generated configuration.
type Field struct {
	Name string `json:"name"`
	Val  Val    `json:"val"`
}

// XScript is one expansion case.
type XScript struct {
	Default bool `json:"default_scheme"` // DefaultScheme configured? ("dd", or "env" when DefEnv)
	DefEnv  bool `json:"default_env,omitempty"`
	// EnvUnset: environment variables the case refers to that must be unset; rows "env:NAME" of the
	// table are the variables that are set (to the rendered text of the row).
	EnvUnset []string `json:"env_unset,omitempty"`
	Table    []Entry  `json:"table"`          // what the providers return
	Fields   []Field  `json:"fields"`         // first source
	Over     []Field  `json:"over,omitempty"` // second source (overrides whole fields)
	// Nest: the fields are served a second and third time under "n1" and under
	// "n2"."in", and unmarshalled through Conf.Sub at one and two levels.
	Nest bool `json:"nest,omitempty"`
	// Rounds: history on ONE Resolver. After the first Resolve, each round replaces
	// some provider rows, optionally fires a watcher the provider was given, and
	// resolves again; every round must reflect the CURRENT table.
	Rounds []Round `json:"rounds,omitempty"`
	// Probe names the listed finding this script re-observes ("" in the main
	// pass, where those shapes are excluded by construction).
	Probe string `json:"probe,omitempty"`
	// Text is the rendering of fields and table, for the reader only.
	Text map[string]string `json:"text,omitempty"`
}

// Round is one step of a history.
type Round struct {
	Changes []Entry `json:"changes"` // rows replaced (existing keys)
	Fire    bool    `json:"fire"`    // call a WatcherFunc of a still-open retrieval and wait for Resolver.Watch()
}

// Sub and Target are what the resolved configuration is unmarshalled into.
type Sub struct {
	S string `mapstructure:"s"`
	I int    `mapstructure:"i"`
	L []any  `mapstructure:"l"`
}

type Target struct {
	S1  string              `mapstructure:"s1"`
	S2  string              `mapstructure:"s2"`
	S3  string              `mapstructure:"s3"`
	I   int                 `mapstructure:"i"`
	B   bool                `mapstructure:"b"`
	F   float64             `mapstructure:"f"`
	M   map[string]any      `mapstructure:"m"`
	MS  map[string]string   `mapstructure:"ms"`
	L   []any               `mapstructure:"l"`
	LS  []string            `mapstructure:"ls"`
	MLS map[string][]string `mapstructure:"mls"`
	Sub Sub                 `mapstructure:"sub"`
}

// Full is the target of the direct Unmarshal of a nested script.
type Full struct {
	Target `mapstructure:",squash"`
	N1     Target `mapstructure:"n1"`
	N2     struct {
		In Target `mapstructure:"in"`
	} `mapstructure:"n2"`
}

// fieldKind: str int bool float mapany mapstr listany liststr sub
var fieldKind = map[string]string{"s1": "str", "s2": "str", "s3": "str", "i": "int", "b": "bool", "f": "float",
	"m": "mapany", "ms": "mapstr", "l": "listany", "ls": "liststr", "mls": "mapliststr", "sub": "sub"}

var allSchemes = []string{"aa", "b2", "x.y-z+1", defaultScheme}

// real providers registered next to the fake schemes
var realSchemes = []string{"env", "yaml"}

// goVal builds the value served in the source map for v.
func goVal(v Val) any {
	switch v.K {
	case "seq":
		return renderSeq(v.Seq)
	case "raw":
		var x any
		_ = yaml.Unmarshal([]byte(v.T), &x)
		return x
	case "map":
		m := map[string]any{}
		for i, k := range v.Keys {
			m[k] = goVal(v.Items[i])
		}
		return m
	case "list":
		l := []any{}
		for i := range v.Items {
			l = append(l, goVal(v.Items[i]))
		}
		return l
	}
	return nil
}

func (s *XScript) describe() map[string]string {
	m := map[string]string{}
	for _, f := range s.Fields {
		m["field "+f.Name] = fmt.Sprintf("%#v", goVal(f.Val))
	}
	for _, f := range s.Over {
		m["over "+f.Name] = fmt.Sprintf("%#v", goVal(f.Val))
	}
	for _, e := range s.Table {
		m["table "+e.Key] = renderVal(e.Val)
	}
	for i, r := range s.Rounds {
		for _, e := range r.Changes {
			m[fmt.Sprintf("round %d (fire=%v) table %s", i+1, r.Fire, e.Key)] = renderVal(e.Val)
		}
	}
	if s.Nest {
		m["nest"] = "fields repeated under n1 and n2.in"
	}
	return m
}

// bijective: every generated text tokenizes back (independent left-to-right
// tokenizer) to the AST it was rendered from.
func (s *XScript) bijective() bool {
	var ok func(v Val) bool
	ok = func(v Val) bool {
		switch v.K {
		case "seq":
			return bijective(v.Seq)
		case "map", "list":
			for _, it := range v.Items {
				if !ok(it) {
					return false
				}
			}
		}
		return true
	}
	for _, f := range s.Fields {
		if !ok(f.Val) {
			return false
		}
	}
	for _, f := range s.Over {
		if !ok(f.Val) {
			return false
		}
	}
	for _, e := range s.Table {
		if !ok(e.Val) || !bijective(entrySeq(e.Val)) {
			return false
		}
	}
	for _, r := range s.Rounds {
		for _, e := range r.Changes {
			if !ok(e.Val) || !bijective(entrySeq(e.Val)) {
				return false
			}
		}
	}
	return true
}

var cX = vt.New("C12", "expand")

// expect is the reference interpreter's verdict for one field.
type expect struct {
	name  string
	kind  string
	typed any
	str   *snode
	res   Res
}

func (s *XScript) world() *world { return s.worldFor(s.Table) }

// tableAt is the provider table after the changes of rounds 1..r.
func (s *XScript) tableAt(r int) []Entry {
	out := append([]Entry(nil), s.Table...)
	idx := map[string]int{}
	for i, e := range out {
		idx[e.Key] = i
	}
	for k := 0; k < r && k < len(s.Rounds); k++ {
		for _, c := range s.Rounds[k].Changes {
			if i, ok := idx[c.Key]; ok {
				out[i] = c
			}
		}
	}
	return out
}

func (s *XScript) worldFor(table []Entry) *world {
	w := &world{def: s.Default, defEnv: s.DefEnv, schemes: map[string]bool{}, table: map[string]*Entry{}, cls: map[string]int{},
		envDef: map[string]string{}, synth: map[string]*Entry{}}
	for _, sc := range allSchemes {
		w.schemes[sc] = true
	}
	for _, sc := range realSchemes {
		w.schemes[sc] = true
	}
	for i := range table {
		e := &table[i]
		if _, dup := w.table[e.Key]; dup {
			w.discard = "duplicate-table-key"
		}
		w.table[e.Key] = e
	}
	return w
}

// effective returns the fields after the second source replaced whole fields.
func (s *XScript) effective() []Field {
	idx := map[string]int{}
	var out []Field
	for _, f := range s.Fields {
		if _, dup := idx[f.Name]; dup {
			continue
		}
		idx[f.Name] = len(out)
		out = append(out, f)
	}
	for _, f := range s.Over {
		if i, ok := idx[f.Name]; ok {
			out[i] = f
		} else {
			idx[f.Name] = len(out)
			out = append(out, f)
		}
	}
	return out
}

// effectiveMap is the configuration after both sources, as one map.
func (s *XScript) effectiveMap() map[string]any {
	m := map[string]any{}
	for _, f := range s.effective() {
		m[f.Name] = goVal(f.Val)
	}
	return m
}

func (s *XScript) sourceMaps() []map[string]any {
	a := map[string]any{}
	seen := map[string]bool{}
	for _, f := range s.Fields {
		if !seen[f.Name] {
			a[f.Name] = goVal(f.Val)
			seen[f.Name] = true
		}
	}
	out := []map[string]any{a}
	if s.Nest {
		a["n1"] = deepCopy(s.effectiveMap())
		a["n2"] = map[string]any{"in": deepCopy(s.effectiveMap())}
	}
	if len(s.Over) > 0 {
		b := map[string]any{}
		for _, f := range s.Over {
			b[f.Name] = goVal(f.Val)
		}
		out = append(out, b)
	}
	return out
}

func zeroOf(name string) any {
	switch fieldKind[name] {
	case "str":
		return ""
	case "int":
		return 0
	case "bool":
		return false
	case "float":
		return float64(0)
	case "sub":
		return map[string]any{"s": "", "i": 0, "l": nil}
	}
	return nil
}

// fieldOf reads the Target field for key name as a plain tree.
func fieldOf(tv reflect.Value, name string) any {
	t := tv.Type()
	for i := 0; i < t.NumField(); i++ {
		if t.Field(i).Tag.Get("mapstructure") != name {
			continue
		}
		switch x := tv.Field(i).Interface().(type) {
		case map[string]string:
			if x == nil {
				return nil
			}
			m := map[string]any{}
			for k, v := range x {
				m[k] = v
			}
			return m
		case []string:
			if x == nil {
				return nil
			}
			l := []any{}
			for _, v := range x {
				l = append(l, v)
			}
			return l
		case map[string][]string:
			if x == nil {
				return nil
			}
			m := map[string]any{}
			for k, vs := range x {
				l := []any{}
				for _, v := range vs {
					l = append(l, v)
				}
				m[k] = l
			}
			return m
		case Sub:
			var l any
			if x.L != nil {
				l = x.L
			}
			return map[string]any{"s": x.S, "i": x.I, "l": l}
		case map[string]any:
			if x == nil {
				return nil
			}
			return x
		case []any:
			if x == nil {
				return nil
			}
			return x
		default:
			return x
		}
	}
	return nil
}

func TestExpand(t *testing.T) {
	vt.Run(t, cX, vt.N(26000, 2000000), genX, runX)
}
