package c12

import (
	"fmt"
	"reflect"
	"sort"
	"strings"
	"testing"
	"time"

	yaml "gopkg.in/yaml.v3"

	"go.opentelemetry.io/collector/confmap"
	"go.opentelemetry.io/collector/verifharness/vt"
)

// Field is one top-level key of the generated configuration.
type Field struct {
	Name string `json:"name"`
	Val  Val    `json:"val"`
}

// XScript is one expansion case.
type XScript struct {
	Default bool    `json:"default_scheme"` // DefaultScheme "dd" configured?
	Table   []Entry `json:"table"`          // what the providers return
	Fields  []Field `json:"fields"`         // first source
	Over    []Field `json:"over,omitempty"` // second source (overrides whole fields)
	// Probe names the listed finding this script re-observes ("" in the main
	// pass, where those shapes are excluded by construction).
	Probe string `json:"probe,omitempty"`
	// Text is the rendering of fields and table, for the reader only.
	Text map[string]string `json:"text,omitempty"`
}

// Sub and Target are what the resolved configuration is unmarshalled into.
type Sub struct {
	S string `mapstructure:"s"`
	I int    `mapstructure:"i"`
	L []any  `mapstructure:"l"`
}

type Target struct {
	S1  string            `mapstructure:"s1"`
	S2  string            `mapstructure:"s2"`
	S3  string            `mapstructure:"s3"`
	I   int               `mapstructure:"i"`
	B   bool              `mapstructure:"b"`
	F   float64           `mapstructure:"f"`
	M   map[string]any    `mapstructure:"m"`
	MS  map[string]string `mapstructure:"ms"`
	L   []any             `mapstructure:"l"`
	LS  []string          `mapstructure:"ls"`
	Sub Sub               `mapstructure:"sub"`
}

// fieldKind: str int bool float mapany mapstr listany liststr sub
var fieldKind = map[string]string{"s1": "str", "s2": "str", "s3": "str", "i": "int", "b": "bool", "f": "float",
	"m": "mapany", "ms": "mapstr", "l": "listany", "ls": "liststr", "sub": "sub"}

var allSchemes = []string{"aa", "b2", "x.y-z+1", defaultScheme}

// goVal builds the value served in the source map for v.
func goVal(v Val) any {
	switch v.K {
	case "seq":
		return renderSeq(v.Seq)
	case "raw":
		var x any
		_ = yaml.Unmarshal([]byte(v.T), &x)
		return x
	case "map":
		m := map[string]any{}
		for i, k := range v.Keys {
			m[k] = goVal(v.Items[i])
		}
		return m
	case "list":
		l := []any{}
		for i := range v.Items {
			l = append(l, goVal(v.Items[i]))
		}
		return l
	}
	return nil
}

func (s *XScript) describe() map[string]string {
	m := map[string]string{}
	for _, f := range s.Fields {
		m["field "+f.Name] = fmt.Sprintf("%#v", goVal(f.Val))
	}
	for _, f := range s.Over {
		m["over "+f.Name] = fmt.Sprintf("%#v", goVal(f.Val))
	}
	for _, e := range s.Table {
		m["table "+e.Key] = renderVal(e.Val)
	}
	return m
}

// bijective: every generated text tokenizes back (independent left-to-right
// tokenizer) to the AST it was rendered from.
func (s *XScript) bijective() bool {
	var ok func(v Val) bool
	ok = func(v Val) bool {
		switch v.K {
		case "seq":
			return bijective(v.Seq)
		case "map", "list":
			for _, it := range v.Items {
				if !ok(it) {
					return false
				}
			}
		}
		return true
	}
	for _, f := range s.Fields {
		if !ok(f.Val) {
			return false
		}
	}
	for _, f := range s.Over {
		if !ok(f.Val) {
			return false
		}
	}
	for _, e := range s.Table {
		if !ok(e.Val) || !bijective(entrySeq(e.Val)) {
			return false
		}
	}
	return true
}

var cX = vt.New("C12", "expand")

// expect is the reference interpreter's verdict for one field.
type expect struct {
	name  string
	kind  string
	typed any
	str   any
	res   Res
}

func (s *XScript) world() *world {
	w := &world{def: s.Default, schemes: map[string]bool{}, table: map[string]*Entry{}, cls: map[string]int{}}
	for _, sc := range allSchemes {
		w.schemes[sc] = true
	}
	for i := range s.Table {
		e := &s.Table[i]
		if _, dup := w.table[e.Key]; dup {
			w.discard = "duplicate-table-key"
		}
		w.table[e.Key] = e
	}
	return w
}

// effective returns the fields after the second source replaced whole fields.
func (s *XScript) effective() []Field {
	idx := map[string]int{}
	var out []Field
	for _, f := range s.Fields {
		if _, dup := idx[f.Name]; dup {
			continue
		}
		idx[f.Name] = len(out)
		out = append(out, f)
	}
	for _, f := range s.Over {
		if i, ok := idx[f.Name]; ok {
			out[i] = f
		} else {
			idx[f.Name] = len(out)
			out = append(out, f)
		}
	}
	return out
}

func (s *XScript) sourceMaps() []map[string]any {
	a := map[string]any{}
	seen := map[string]bool{}
	for _, f := range s.Fields {
		if !seen[f.Name] {
			a[f.Name] = goVal(f.Val)
			seen[f.Name] = true
		}
	}
	out := []map[string]any{a}
	if len(s.Over) > 0 {
		b := map[string]any{}
		for _, f := range s.Over {
			b[f.Name] = goVal(f.Val)
		}
		out = append(out, b)
	}
	return out
}

// execute runs the real resolver on s.
func (s *XScript) execute() (o outcome, tgt Target, uerr error, upanic any) {
	srcs := s.sourceMaps()
	table := map[string]string{}
	for _, e := range s.Table {
		table[e.Key] = renderVal(e.Val)
	}
	facs := []confmap.ProviderFactory{factory("src", func(uri string) (*confmap.Retrieved, error) {
		var i int
		if _, err := fmt.Sscanf(uri, "src:%d", &i); err != nil || i >= len(srcs) {
			return nil, fmt.Errorf("no source %q", uri)
		}
		return confmap.NewRetrieved(srcs[i])
	})}
	for _, sc := range allSchemes {
		facs = append(facs, factory(sc, func(uri string) (*confmap.Retrieved, error) {
			v, ok := table[uri]
			if !ok {
				return nil, fmt.Errorf("table has no %q", uri)
			}
			return confmap.NewRetrievedFromYAML([]byte(v))
		}))
	}
	uris := []string{"src:0"}
	if len(srcs) > 1 {
		uris = append(uris, "src:1")
	}
	def := ""
	if s.Default {
		def = defaultScheme
	}
	o = resolve(uris, def, facs)
	if o.panicV != nil || o.err != nil {
		return o, tgt, nil, nil
	}
	upanic, _ = vt.Recover(func() { uerr = o.conf.Unmarshal(&tgt) })
	return o, tgt, uerr, upanic
}

func runX(s XScript) (nontrivial bool, key string, f *vt.Finding) {
	key = hashKey(s)
	w := s.world()
	var exps []expect
	for _, fl := range s.effective() {
		kind, ok := fieldKind[fl.Name]
		if !ok {
			w.discard = "unknown-field"
			break
		}
		t, st, r := w.evalVal(fl.Val)
		if r.Err == "" && r.TEx == "" {
			// generator contract: scalar-typed fields are fed values of their own type
			ok := true
			switch kind {
			case "int":
				_, ok = t.(int)
			case "bool":
				_, ok = t.(bool)
			case "float":
				_, ok = t.(float64)
			case "mapany":
				_, ok = t.(map[string]any)
			case "listany":
				_, ok = t.([]any)
			}
			if !ok {
				w.discard = "field-type-mismatch"
			}
		}
		exps = append(exps, expect{fl.Name, kind, t, st, r})
	}
	if w.discard == "" && !s.bijective() {
		w.discard = "not-bijective"
	}
	if w.discard != "" {
		cX.Exclude("discard:" + w.discard)
		return false, key, nil
	}
	if w.danger != "" && !vt.IsChild() {
		// listed non-terminating shape: never run in-process
		cX.Exclude(w.danger)
		return false, key, nil
	}
	cX.HangGuard(10*time.Second, s, "hang/resolve", func() {
		nontrivial, f = judgeX(&s, w, exps)
	})
	return nontrivial, key, f
}

func judgeX(s *XScript, w *world, exps []expect) (nontrivial bool, f *vt.Finding) {
	probe := s.Probe != ""
	o, tgt, uerr, upanic := s.execute()
	if o.panicV != nil {
		return false, vt.Failf("panic/resolve", "Resolve panicked: %v\n%s\n%v", o.panicV, short(o.stack, 1500), s.describe())
	}
	// --- classes
	cls := []string{"default-scheme:" + fmt.Sprint(s.Default)}
	for k := range w.cls {
		if !strings.HasPrefix(k, "max-") {
			cls = append(cls, k)
		}
	}
	cls = append(cls, fmt.Sprintf("chain-depth:%d", w.cls["max-chain"]), fmt.Sprintf("splice-depth:%d", w.cls["max-splice-depth"]))
	if len(s.Over) > 0 {
		cls = append(cls, "two-sources")
	}
	definite, may := "", false
	anyLeak := false
	typedIntoString := false
	for _, e := range exps {
		if e.res.Err != "" && definite == "" {
			definite = e.res.Err
		}
		may = may || e.res.ErrMay
		anyLeak = anyLeak || e.res.Leak
		if e.res.KnownA {
			// the same reference text occurs unescaped and, later, escaped in one string (repaired finding F-C12-a)
			cls = append(cls, "same-ref-unescaped-then-escaped")
		}
		for _, x := range []string{e.res.TEx, e.res.SEx} {
			if x != "" {
				cls = append(cls, "not-asserted:"+x)
			}
		}
		if e.kind == "str" && e.res.Wrapped && e.res.Err == "" {
			typedIntoString = true
			cls = append(cls, "typed-into-string-field")
		}
		cls = append(cls, "field:"+e.kind)
	}
	sort.Strings(cls)
	prev := ""
	for _, c := range cls {
		if c != prev {
			cX.Class(c)
		}
		prev = c
	}
	nontrivial = (w.cls["embedded-ref"]+w.cls["whole-typed-scalar"]+w.cls["whole-struct"] > 0 && w.cls["seg:esc"]+w.cls["seg:escref"] > 0) ||
		w.cls["nested-name"] > 0 || w.cls["max-chain"] >= 2 || w.cls["max-splice-depth"] >= 1 || typedIntoString

	// --- errors
	if o.err != nil {
		switch {
		case definite != "":
			cX.Class("outcome:error:" + definite)
			return nontrivial, nil
		case may:
			cX.Class("outcome:error-in-unasserted-context")
			return false, nil
		}
		return nontrivial, vt.Failf("expand/unexpected-error", "Resolve failed with %q although every reference is resolvable: %v", o.err, s.describe())
	}
	if definite != "" {
		return nontrivial, vt.Failf("expand/missing-error/"+definite, "Resolve succeeded although the configuration holds a %s reference; result %#v: %v", definite, o.tsm, s.describe())
	}
	cX.Class("outcome:resolved")

	// --- ToStringMap view
	if len(o.tsm) != len(exps) {
		return nontrivial, vt.Failf("expand/tostringmap", "ToStringMap has %d keys, the configuration %d: %#v: %v", len(o.tsm), len(exps), o.tsm, s.describe())
	}
	for _, e := range exps {
		got, ok := o.tsm[e.name]
		if !ok {
			return nontrivial, vt.Failf("expand/tostringmap", "key %q lost: %#v: %v", e.name, o.tsm, s.describe())
		}
		if e.res.Leak && !probe {
			cX.Exclude("nested-expanded-value")
			continue
		}
		if e.res.TEx != "" {
			continue
		}
		if d := diffTree(e.typed, got, "/"+e.name); d != "" {
			sig := "expand/tostringmap"
			if probe && e.res.Leak && leaks(got, "") != "" {
				sig = "nested-expanded-value/leak"
			}
			ff := vt.Failf(sig, "ToStringMap %s: %v", d, s.describe())
			if !soft(cX, ff, *s) {
				return nontrivial, ff
			}
		}
	}

	// --- Unmarshal view
	if anyLeak && !probe {
		return nontrivial, nil
	}
	if upanic != nil {
		sig := "panic/unmarshal"
		if probe && anyLeak {
			sig = "nested-expanded-value/panic"
		}
		ff := vt.Failf(sig, "Unmarshal panicked: %v: %v", upanic, s.describe())
		if !soft(cX, ff, *s) {
			return nontrivial, ff
		}
		return nontrivial, nil
	}
	if uerr != nil {
		for _, e := range exps {
			// an unasserted typed field may hold anything; a typed value whose original text could not be
			// expanded loses its text and cannot go into a string field
			if (e.res.TEx != "" && e.kind != "str") || e.res.UErrMay {
				cX.Class("outcome:unmarshal-error-in-unasserted-context")
				return nontrivial, nil
			}
		}
		return nontrivial, vt.Failf("expand/unmarshal-error", "Unmarshal failed: %v: %v", uerr, s.describe())
	}
	present := map[string]bool{}
	tv := reflect.ValueOf(tgt)
	for _, e := range exps {
		present[e.name] = true
		if e.res.Leak && !probe {
			continue
		}
		got := fieldOf(tv, e.name)
		var want any
		skip := false
		switch e.kind {
		case "str":
			want, skip = e.str, e.res.SEx != ""
		case "int", "bool", "float", "mapany", "listany":
			want, skip = e.typed, e.res.TEx != ""
		case "mapstr", "liststr":
			want, skip = e.str, e.res.SEx != ""
		case "sub":
			skip = e.res.SEx != "" || e.res.TEx != ""
			tm, _ := e.typed.(map[string]any)
			sm, _ := e.str.(map[string]any)
			sub := map[string]any{"s": "", "i": 0, "l": nil}
			if v, ok := sm["s"]; ok {
				sub["s"] = v
			}
			if v, ok := tm["i"]; ok {
				sub["i"] = v
			}
			if v, ok := tm["l"]; ok {
				sub["l"] = v
			}
			want = sub
		}
		if skip {
			continue
		}
		if d := diffTree(want, got, "/"+e.name); d != "" {
			sig := "expand/unmarshal/" + e.kind
			if probe && e.res.Leak {
				sig = "nested-expanded-value/leak"
			}
			ff := vt.Failf(sig, "Unmarshal %s: %v", d, s.describe())
			if !soft(cX, ff, *s) {
				return nontrivial, ff
			}
		}
	}
	for name := range fieldKind {
		if !present[name] {
			if d := diffTree(zeroOf(name), fieldOf(tv, name), "/"+name); d != "" {
				return nontrivial, vt.Failf("expand/unmarshal/absent", "absent key is not the zero value: %s: %v", d, s.describe())
			}
		}
	}
	return nontrivial, nil
}

func zeroOf(name string) any {
	switch fieldKind[name] {
	case "str":
		return ""
	case "int":
		return 0
	case "bool":
		return false
	case "float":
		return float64(0)
	case "sub":
		return map[string]any{"s": "", "i": 0, "l": nil}
	}
	return nil
}

// fieldOf reads the Target field for key name as a plain tree.
func fieldOf(tv reflect.Value, name string) any {
	t := tv.Type()
	for i := 0; i < t.NumField(); i++ {
		if t.Field(i).Tag.Get("mapstructure") != name {
			continue
		}
		switch x := tv.Field(i).Interface().(type) {
		case map[string]string:
			if x == nil {
				return nil
			}
			m := map[string]any{}
			for k, v := range x {
				m[k] = v
			}
			return m
		case []string:
			if x == nil {
				return nil
			}
			l := []any{}
			for _, v := range x {
				l = append(l, v)
			}
			return l
		case Sub:
			var l any
			if x.L != nil {
				l = x.L
			}
			return map[string]any{"s": x.S, "i": x.I, "l": l}
		case map[string]any:
			if x == nil {
				return nil
			}
			return x
		case []any:
			if x == nil {
				return nil
			}
			return x
		default:
			return x
		}
	}
	return nil
}

func TestExpand(t *testing.T) {
	vt.Run(t, cX, vt.N(40000, 3000000), genX, runX)
}
