package c12

import (
	"context"
	"fmt"
	"os"
	"reflect"
	"sort"
	"strings"
	"time"

	"go.opentelemetry.io/collector/confmap"
	"go.opentelemetry.io/collector/confmap/provider/envprovider"
	"go.opentelemetry.io/collector/confmap/provider/yamlprovider"
	"go.opentelemetry.io/collector/verifharness/vt"
)

// handle is one Retrieved the providers handed out: the watcher they were
// given and whether the resolver closed it (a watcher must not be called after
// Close returned -- Retrieved.Close doc).
type handle struct {
	uri    string
	w      confmap.WatcherFunc
	closed bool
}

// session is ONE Resolver used for a whole history (Resolve, change, Resolve …,
// Shutdown), as the Resolver doc describes the typical usage.
type session struct {
	s       *XScript
	table   map[string]string
	srcs    []map[string]any
	res     *confmap.Resolver
	handles []*handle
	saved   map[string]*string // the environment as it was (nil = unset), restored at shutdown
	// extraEnv: variables additionally set (metamorphic variant: unset-with-default -> set to the default)
	extraEnv map[string]string
}

func (ss *session) track(uri string, w confmap.WatcherFunc) confmap.RetrievedOption {
	h := &handle{uri: uri, w: w}
	ss.handles = append(ss.handles, h)
	return confmap.WithRetrievedClose(func(context.Context) error { h.closed = true; return nil })
}

func newSession(s *XScript) (*session, error) {
	ss := &session{s: s, table: map[string]string{}, srcs: s.sourceMaps(), saved: map[string]*string{}}
	for _, e := range s.Table {
		ss.table[e.Key] = renderVal(e.Val)
	}
	// environment hygiene: remember what every variable the case mentions was before
	remember := func(n string) {
		if _, done := ss.saved[n]; done {
			return
		}
		if v, ok := os.LookupEnv(n); ok {
			ss.saved[n] = &v
		} else {
			ss.saved[n] = nil
		}
	}
	for _, n := range s.EnvUnset {
		remember(n)
	}
	for k := range ss.table {
		if strings.HasPrefix(k, "env:") {
			remember(strings.TrimPrefix(k, "env:"))
		}
	}
	facs := []confmap.ProviderFactory{factoryW("src", func(uri string, w confmap.WatcherFunc) (*confmap.Retrieved, error) {
		var i int
		if _, err := fmt.Sscanf(uri, "src:%d", &i); err != nil || i >= len(ss.srcs) {
			return nil, fmt.Errorf("no source %q", uri)
		}
		// a fresh copy each time: Merge may modify the map it is given
		return confmap.NewRetrieved(deepCopy(ss.srcs[i]), ss.track(uri, w))
	})}
	for _, sc := range allSchemes {
		facs = append(facs, factoryW(sc, func(uri string, w confmap.WatcherFunc) (*confmap.Retrieved, error) {
			v, ok := ss.table[uri]
			if !ok {
				return nil, fmt.Errorf("table has no %q", uri)
			}
			return confmap.NewRetrievedFromYAML([]byte(v), ss.track(uri, w))
		}))
	}
	// the REAL providers, anchored files confmap/provider/{envprovider,yamlprovider}/provider.go
	facs = append(facs, envprovider.NewFactory(), yamlprovider.NewFactory())
	uris := []string{"src:0"}
	if len(ss.srcs) > 1 {
		uris = append(uris, "src:1")
	}
	def := ""
	if s.Default {
		def = defaultScheme
		if s.DefEnv {
			def = "env"
		}
	}
	var err error
	ss.res, err = confmap.NewResolver(confmap.ResolverSettings{URIs: uris, DefaultScheme: def, ProviderFactories: facs})
	return ss, err
}

// views is everything observed after one Resolve.
type views struct {
	o      outcome
	direct view // Unmarshal of the whole Conf
	n1d    view // …its n1 part
	n2d    view // …its n2.in part
	sub1   view // Sub("n1").Unmarshal
	sub2   view // Sub("n2").Sub("in").Unmarshal
	sub2k  view // Sub("n2::in").Unmarshal
	subM   map[string]any
	subMOK bool
	gets   []getView
}

// getView: Conf.Get(key) for every field below a prefix.
type getView struct {
	where string
	m     map[string]any
}

type view struct {
	ran   bool
	tgt   Target
	err   error
	panic any
}

// applyEnv makes the process environment what the current table says: rows
// "env:NAME" are set to their rendered text, EnvUnset names are unset.  extra
// (metamorphic variant) sets further variables.
func (ss *session) applyEnv(extra map[string]string) {
	for _, n := range ss.s.EnvUnset {
		_ = os.Unsetenv(n)
	}
	for k, v := range ss.table {
		if strings.HasPrefix(k, "env:") {
			_ = os.Setenv(strings.TrimPrefix(k, "env:"), v)
		}
	}
	for n, v := range extra {
		_ = os.Setenv(n, v)
	}
}

func (ss *session) clearEnv() {
	for _, n := range ss.s.EnvUnset {
		_ = os.Unsetenv(n)
	}
	for k := range ss.table {
		if strings.HasPrefix(k, "env:") {
			_ = os.Unsetenv(strings.TrimPrefix(k, "env:"))
		}
	}
}

func (ss *session) resolve() (v views) {
	ss.applyEnv(ss.extraEnv)
	v.o.panicV, v.o.stack = vt.Recover(func() {
		v.o.conf, v.o.err = ss.res.Resolve(context.Background())
		if v.o.err == nil {
			v.o.tsm = v.o.conf.ToStringMap()
		}
	})
	if v.o.panicV != nil || v.o.err != nil {
		return v
	}
	conf := v.o.conf
	_, _ = vt.Recover(func() {
		prefixes := []string{""}
		if ss.s.Nest {
			prefixes = append(prefixes, "n1"+confmap.KeyDelimiter, "n2"+confmap.KeyDelimiter+"in"+confmap.KeyDelimiter)
		}
		for _, p := range prefixes {
			gv := getView{where: "/" + strings.ReplaceAll(strings.TrimSuffix(p, confmap.KeyDelimiter), confmap.KeyDelimiter, "/"), m: map[string]any{}}
			if p == "" {
				gv.where = ""
			}
			for _, f := range ss.s.effective() {
				gv.m[f.Name] = conf.Get(p + f.Name)
			}
			v.gets = append(v.gets, gv)
		}
	})
	if !ss.s.Nest {
		v.direct.ran = true
		v.direct.panic, _ = vt.Recover(func() { v.direct.err = conf.Unmarshal(&v.direct.tgt) })
		return v
	}
	var full Full
	v.direct.ran, v.n1d.ran, v.n2d.ran = true, true, true
	v.direct.panic, _ = vt.Recover(func() { v.direct.err = conf.Unmarshal(&full) })
	v.direct.tgt, v.n1d.tgt, v.n2d.tgt = full.Target, full.N1, full.N2.In
	v.n1d.err, v.n1d.panic, v.n2d.err, v.n2d.panic = v.direct.err, v.direct.panic, v.direct.err, v.direct.panic
	sub := func(dst *view, keys ...string) {
		dst.ran = true
		dst.panic, _ = vt.Recover(func() {
			c := conf
			for _, k := range keys {
				var err error
				if c, err = c.Sub(k); err != nil {
					dst.err = fmt.Errorf("Sub(%q): %w", k, err)
					return
				}
			}
			dst.err = c.Unmarshal(&dst.tgt)
		})
	}
	sub(&v.sub1, "n1")
	sub(&v.sub2, "n2", "in")
	sub(&v.sub2k, "n2"+confmap.KeyDelimiter+"in")
	_, _ = vt.Recover(func() {
		if c, err := conf.Sub("n1" + confmap.KeyDelimiter + "m"); err == nil {
			v.subM, v.subMOK = c.ToStringMap(), true
		}
	})
	return v
}

// advance applies round r (1-based index into s.Rounds): change rows, maybe fire a watcher.
func (ss *session) advance(r Round) *vt.Finding {
	for _, c := range r.Changes {
		if _, ok := ss.table[c.Key]; ok {
			ss.table[c.Key] = renderVal(c.Val)
		}
	}
	if !r.Fire {
		return nil
	}
	// prefer the watcher of a changed row that is still open
	var pick *handle
	for _, h := range ss.handles {
		if h.closed || h.w == nil {
			continue
		}
		if pick == nil {
			pick = h
		}
		for _, c := range r.Changes {
			if c.Key == h.uri {
				pick = h
			}
		}
	}
	if pick == nil {
		return nil
	}
	done := make(chan struct{})
	go func() { pick.w(&confmap.ChangeEvent{}); close(done) }()
	select {
	case err := <-ss.res.Watch():
		<-done
		if err != nil {
			return vt.Failf("watch/error", "Watch() delivered %v for a plain change event", err)
		}
	case <-time.After(10 * time.Second):
		return vt.Failf("watch/no-event", "a change event fired through the provider's WatcherFunc did not reach Resolver.Watch() within 10s")
	}
	return nil
}

func (ss *session) shutdown() {
	_, _ = vt.Recover(func() { _ = ss.res.Shutdown(context.Background()) })
	ss.clearEnv()
	for n := range ss.extraEnv {
		_ = os.Unsetenv(n)
	}
	for n, v := range ss.saved {
		if v != nil {
			_ = os.Setenv(n, *v)
		}
	}
}

// expectAll evaluates the fields against table; discard/danger are left in w.
func (s *XScript) expectAll(table []Entry) (*world, []expect) {
	w := s.worldFor(table)
	var exps []expect
	for _, fl := range s.effective() {
		kind, ok := fieldKind[fl.Name]
		if !ok {
			w.discard = "unknown-field"
			break
		}
		t, st, r := w.evalVal(fl.Val)
		if r.Err == "" && r.TEx == "" {
			// generator contract: scalar-typed fields are fed values of their own type
			ok := true
			switch kind {
			case "int":
				_, ok = t.(int)
			case "bool":
				_, ok = t.(bool)
			case "float":
				_, ok = t.(float64)
			case "mapany":
				_, ok = t.(map[string]any)
			case "listany":
				_, ok = t.([]any)
			}
			if !ok {
				w.discard = "field-type-mismatch"
			}
		}
		exps = append(exps, expect{fl.Name, kind, t, st, r})
	}
	return w, exps
}

func runX(s XScript) (nontrivial bool, key string, f *vt.Finding) {
	key = hashKey(s)
	// expectations of every round first: nothing is executed for a case outside the contract
	type step struct {
		w    *world
		exps []expect
	}
	var steps []step
	for r := 0; r <= len(s.Rounds); r++ {
		w, exps := s.expectAll(s.tableAt(r))
		if r == 0 && w.discard == "" && !s.bijective() {
			w.discard = "not-bijective"
		}
		if w.discard != "" || (w.danger != "" && !vt.IsChild()) {
			if r == 0 {
				if w.discard != "" {
					cX.Exclude("discard:" + w.discard)
				} else {
					cX.Exclude(w.danger) // listed non-terminating shape: never run in-process
				}
				return false, key, nil
			}
			cX.Class("history-truncated")
			break
		}
		steps = append(steps, step{w, exps})
	}
	cX.HangGuard(10*time.Second*time.Duration(len(steps)), s, "hang/resolve", func() {
		ss, err := newSession(&s)
		if err != nil {
			f = vt.Failf("expand/unexpected-error", "NewResolver: %v", err)
			return
		}
		defer ss.shutdown()
		for r, st := range steps {
			if r > 0 {
				if f = ss.advance(s.Rounds[r-1]); f != nil {
					return
				}
			}
			v := ss.resolve()
			nt, goOn, ff := judgeX(&s, st.w, st.exps, v, r)
			nontrivial = nontrivial || nt
			if ff != nil {
				if r > 0 {
					ff.Msg = fmt.Sprintf("round %d of a history on one Resolver: %s", r, ff.Msg)
				}
				f = ff
				return
			}
			if !goOn {
				return // a failed Resolve ends the history
			}
			if r == 0 {
				if f = metamorphicEnv(&s, st.w, st.exps, v); f != nil {
					return
				}
			}
			if r > 0 {
				cX.Class(fmt.Sprintf("history:round-%d-checked", r))
				nontrivial = true
			}
		}
	})
	return nontrivial, key, f
}

// metamorphicEnv: RFC / env provider doc -- "A default value for unset variable can be provided after
// :- suffix": resolving with NAME unset and default text T must equal resolving with NAME set to T, in
// every view (typed whole values, original text in strings).  Independent of the reference interpreter.
func metamorphicEnv(s *XScript, w *world, exps []expect, base views) *vt.Finding {
	for _, e := range exps {
		if e.res.TEx != "" || e.res.SEx != "" || e.res.LSEx != "" || e.res.ErrMay || e.res.UErrMay {
			// a context the interpreter does not follow (pasted text, unexpanded rest after an escape, …) may
			// mention the variable in a way that is not visible here
			return nil
		}
	}
	extra := map[string]string{}
	for n, d := range w.envDef {
		if d != "\x00" {
			extra[n] = d
		}
	}
	if len(extra) == 0 {
		return nil
	}
	cX.Class("env:metamorphic-default-vs-set")
	s2 := *s
	s2.Rounds = nil
	ss, err := newSession(&s2)
	if err != nil {
		return vt.Failf("expand/unexpected-error", "NewResolver: %v", err)
	}
	ss.extraEnv = extra
	defer ss.shutdown()
	v := ss.resolve()
	desc := func() string { return fmt.Sprintf("variables set to their defaults: %q; %v", extra, s.describe()) }
	if v.o.panicV != nil || (v.o.err != nil) != (base.o.err != nil) {
		return vt.Failf("env-default/differs-from-set", "unset+default resolved with err=%v, set-to-default with err=%v panic=%v: %s", base.o.err, v.o.err, v.o.panicV, desc())
	}
	if d := diffTree(base.o.tsm, v.o.tsm, ""); d != "" {
		return vt.Failf("env-default/differs-from-set", "ToStringMap differs between NAME unset with default T (want) and NAME=T (got): %s: %s", d, desc())
	}
	if base.direct.panic == nil && base.direct.err == nil && (v.direct.err != nil || !reflect.DeepEqual(base.direct.tgt, v.direct.tgt)) {
		return vt.Failf("env-default/differs-from-set", "Unmarshal differs between NAME unset with default T and NAME=T: %#v vs %#v (err %v): %s", base.direct.tgt, v.direct.tgt, v.direct.err, desc())
	}
	if base.direct.err != nil && v.direct.err == nil {
		return vt.Failf("env-default/differs-from-set", "Unmarshal fails with NAME unset and default T (%v) but not with NAME=T: %s", base.direct.err, desc())
	}
	return nil
}

// judgeX compares one round.  goOn is false when the history must stop (Resolve failed, as expected).
func judgeX(s *XScript, w *world, exps []expect, v views, round int) (nontrivial, goOn bool, f *vt.Finding) {
	o := v.o
	if o.panicV != nil {
		return false, false, vt.Failf("panic/resolve", "Resolve panicked: %v\n%s\n%v", o.panicV, short(o.stack, 1500), s.describe())
	}
	// --- classes
	cls := []string{"default-scheme:" + fmt.Sprint(s.Default)}
	for k := range w.cls {
		if !strings.HasPrefix(k, "max-") {
			cls = append(cls, k)
		}
	}
	cls = append(cls, fmt.Sprintf("chain-depth:%d", w.cls["max-chain"]), fmt.Sprintf("splice-depth:%d", w.cls["max-splice-depth"]))
	if len(s.Over) > 0 {
		cls = append(cls, "two-sources")
	}
	if s.Nest {
		cls = append(cls, "nested-and-sub")
	}
	definite, may := "", false
	anyLeak := false
	typedIntoString := false
	for _, e := range exps {
		if e.res.Err != "" && definite == "" {
			definite = e.res.Err
		}
		may = may || e.res.ErrMay
		anyLeak = anyLeak || e.res.Leak
		if e.res.KnownA {
			// the same reference text occurs unescaped and, later, escaped in one string (repaired finding F-C12-a)
			cls = append(cls, "same-ref-unescaped-then-escaped")
		}
		for _, x := range []string{e.res.TEx, e.res.SEx} {
			if x != "" {
				cls = append(cls, "not-asserted:"+x)
			}
		}
		if e.kind == "str" && e.res.Wrapped && e.res.Err == "" {
			typedIntoString = true
			cls = append(cls, "typed-into-string-field")
		}
		cls = append(cls, "field:"+e.kind)
	}
	if round == 0 {
		sort.Strings(cls)
		prev := ""
		for _, c := range cls {
			if c != prev {
				cX.Class(c)
			}
			prev = c
		}
	}
	nontrivial = (w.cls["embedded-ref"]+w.cls["whole-typed-scalar"]+w.cls["whole-struct"] > 0 && w.cls["seg:esc"]+w.cls["seg:escref"] > 0) ||
		w.cls["nested-name"] > 0 || w.cls["max-chain"] >= 2 || w.cls["max-splice-depth"] >= 1 || typedIntoString
	oc := func(l string) {
		if round == 0 {
			cX.Class(l)
		}
	}

	// --- errors
	if o.err != nil {
		switch {
		case definite != "":
			oc("outcome:error:" + definite)
			return nontrivial, false, nil
		case may:
			oc("outcome:error-in-unasserted-context")
			return false, false, nil
		}
		return nontrivial, false, vt.Failf("expand/unexpected-error", "Resolve failed with %q although every reference is resolvable: %v", o.err, s.describe())
	}
	if definite != "" {
		return nontrivial, false, vt.Failf("expand/missing-error/"+definite, "Resolve succeeded although the configuration holds a %s reference; result %#v: %v", definite, o.tsm, s.describe())
	}
	oc("outcome:resolved")

	// --- ToStringMap view (top level, and the nested copies)
	want := len(exps)
	if s.Nest {
		want += 2
	}
	if len(o.tsm) != want {
		return nontrivial, true, vt.Failf("expand/tostringmap", "ToStringMap has %d keys, the configuration %d: %#v: %v", len(o.tsm), want, o.tsm, s.describe())
	}
	maps := []struct {
		where string
		m     map[string]any
	}{{"", o.tsm}}
	if s.Nest {
		n1, _ := o.tsm["n1"].(map[string]any)
		n2, _ := o.tsm["n2"].(map[string]any)
		in, _ := n2["in"].(map[string]any)
		maps = append(maps, struct {
			where string
			m     map[string]any
		}{"/n1", n1}, struct {
			where string
			m     map[string]any
		}{"/n2/in", in})
	}
	for _, mm := range maps {
		for _, e := range exps {
			got, ok := mm.m[e.name]
			if !ok {
				return nontrivial, true, vt.Failf("expand/tostringmap", "key %s/%s lost: %#v: %v", mm.where, e.name, o.tsm, s.describe())
			}
			if e.res.TEx != "" {
				continue
			}
			if d := diffTree(e.typed, got, mm.where+"/"+e.name); d != "" {
				sig := "expand/tostringmap"
				if leaks(got, "") != "" {
					sig = "nested-expanded-value/leak" // an internal wrapper escaped into the public view
				}
				ff := vt.Failf(sig, "ToStringMap %s: %v", d, s.describe())
				if !soft(cX, ff, *s) {
					return nontrivial, true, ff
				}
			}
		}
	}

	// --- Get view: same typed expectation, key by key
	for _, gv := range v.gets {
		for _, e := range exps {
			if e.res.TEx != "" {
				continue
			}
			if d := diffTree(e.typed, gv.m[e.name], gv.where+"/"+e.name); d != "" {
				sig := "expand/get"
				if leaks(gv.m[e.name], "") != "" {
					sig = "nested-expanded-value/leak"
				}
				return nontrivial, true, vt.Failf(sig, "Get %s: %v", d, s.describe())
			}
		}
	}

	// --- Unmarshal views: direct, and through Conf.Sub at one and two levels
	for _, vw := range []struct {
		name string
		v    view
	}{{"direct", v.direct}, {"direct-n1", v.n1d}, {"direct-n2.in", v.n2d}, {"sub1", v.sub1}, {"sub2", v.sub2}, {"sub2key", v.sub2k}} {
		if !vw.v.ran {
			continue
		}
		if ff, stop := judgeView(s, exps, vw.name, vw.v, anyLeak); ff != nil {
			return nontrivial, true, ff
		} else if stop {
			break
		}
	}
	if v.subMOK {
		for _, e := range exps {
			if e.name == "m" && e.res.TEx == "" {
				if d := diffTree(e.typed, v.subM, "/n1/m"); d != "" {
					return nontrivial, true, vt.Failf("expand/sub/tostringmap", "Sub(n1::m).ToStringMap %s: %v", d, s.describe())
				}
			}
		}
	}
	return nontrivial, true, nil
}

// judgeView compares one unmarshalled Target with the expectations.  stop:
// nothing more can be asserted on the Unmarshal views of this round.
func judgeView(s *XScript, exps []expect, name string, vw view, anyLeak bool) (f *vt.Finding, stop bool) {
	pre := "expand/unmarshal"
	if strings.HasPrefix(name, "sub") {
		pre = "expand/sub-unmarshal"
	}
	if vw.panic != nil {
		sig := "panic/unmarshal"
		if anyLeak {
			sig = "nested-expanded-value/panic" // the case holds a wrapped value below a whole-value map/list
		}
		ff := vt.Failf(sig, "Unmarshal (%s) panicked: %v: %v", name, vw.panic, s.describe())
		if !soft(cX, ff, *s) {
			return ff, true
		}
		return nil, true
	}
	if vw.err != nil {
		for _, e := range exps {
			// an unasserted typed field may hold anything; a typed value whose original text could not be
			// expanded loses its text and cannot go into a string field
			if (e.res.TEx != "" && e.kind != "str") || e.res.UErrMay {
				cX.Class("outcome:unmarshal-error-in-unasserted-context")
				return nil, true
			}
		}
		return vt.Failf(pre+"-error", "Unmarshal (%s) failed: %v: %v", name, vw.err, s.describe()), true
	}
	present := map[string]bool{}
	tv := reflect.ValueOf(vw.tgt)
	for _, e := range exps {
		present[e.name] = true
		got := fieldOf(tv, e.name)
		var want any
		skip, known := false, ""
		switch e.kind {
		case "str":
			want, skip = e.str.project(0), e.res.SEx != ""
		case "int", "bool", "float", "mapany", "listany":
			want, skip = e.typed, e.res.TEx != ""
			if want == nil && !skip {
				want = zeroOf(e.name)
			}
		case "mapstr", "liststr":
			want, skip = e.str.project(1), e.res.SEx != "" || e.res.LSEx != "" || e.res.TEx != ""
		case "mapliststr":
			want, skip = e.str.project(2), e.res.SEx != "" || e.res.LSEx != "" || e.res.TEx != ""
			if !skip && e.str.refBelowRoot(2) {
				// listed finding stringy-container/nested-ref: excluded from the main pass, asserted by the probes
				if s.Probe == "" {
					if name == "direct" {
						cX.Exclude("stringy-container/nested-ref")
					}
					skip = true
				} else {
					known = "stringy-container/nested-ref"
				}
			}
		case "sub":
			skip = e.res.SEx != "" || e.res.TEx != ""
			tm, _ := e.typed.(map[string]any)
			sub := map[string]any{"s": "", "i": 0, "l": nil}
			if v, ok := e.str.M["s"]; ok {
				sub["s"] = v.project(0)
			}
			if v, ok := tm["i"]; ok {
				sub["i"] = v
			}
			if v, ok := tm["l"]; ok {
				sub["l"] = v
			}
			want = sub
		}
		if skip {
			continue
		}
		if d := diffTree(want, got, "/"+e.name); d != "" {
			sig := pre + "/" + e.kind
			if leaks(got, "") != "" {
				sig = "nested-expanded-value/leak"
			} else if known != "" {
				sig = known
			}
			ff := vt.Failf(sig, "Unmarshal (%s) %s: %v", name, d, s.describe())
			if !soft(cX, ff, *s) {
				return ff, true
			}
		}
	}
	for fname := range fieldKind {
		if !present[fname] {
			if d := diffTree(zeroOf(fname), fieldOf(tv, fname), "/"+fname); d != "" {
				return vt.Failf(pre+"/absent", "(%s) absent key is not the zero value: %s: %v", name, d, s.describe()), true
			}
		}
	}
	return nil, false
}
