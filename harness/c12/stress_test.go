package c12

import (
	"fmt"
	"strconv"
	"testing"
	"time"

	"pgregory.net/rapid"

	"go.opentelemetry.io/collector/verifharness/vt"
)

// Two shapes in which NO value is deep or cyclic but the TOTAL amount of
// expansion work is large: (long) a small acyclic configuration resolved
// hundreds of times on ONE Resolver, (wide) one document with hundreds of leaf
// values that each hold a few references.  The statement allows an error only
// for cycles ('$' in names, provider failures): every Resolve must succeed with
// the value the reference interpreter computes.

type LScript struct {
	Kind  string  `json:"kind"` // long | wide
	X     XScript `json:"x"`
	Cycle int     `json:"cycle,omitempty"` // long: number of Resolve calls after the first; X.Rounds are applied cyclically
}

var cS = vt.New("C12", "many-rounds")

// prng: leaf choices of the wide variant are derived from ONE rapid-drawn seed
// (thousands of individual draws per case would only slow the generator down).
type prng uint64

func (p *prng) next(n int) int {
	x := uint64(*p)
	x ^= x << 13
	x ^= x >> 7
	x ^= x << 17
	*p = prng(x)
	return int(x % uint64(n))
}

func aref(name string) Seg { return Seg{K: "ref", Scheme: "aa", Name: []Seg{lit(name)}} }

// chainRows adds rows name0 -> name1 -> … -> leaf (depth hops) and returns the name of the head.
func chainRows(table *[]Entry, name string, depth int, embedded bool, leaf Val) string {
	for i := 0; i < depth; i++ {
		key := "aa:" + name + strconv.Itoa(i)
		var v Val
		switch {
		case i == depth-1:
			v = leaf
		case embedded:
			v = seqVal(lit("<"), aref(name+strconv.Itoa(i+1)), lit(">"))
		default:
			v = seqVal(aref(name + strconv.Itoa(i+1)))
		}
		*table = append(*table, Entry{Key: key, Val: v})
	}
	return name + "0"
}

func genL(t *rapid.T) LScript {
	if rapid.Bool().Draw(t, "wide") {
		return genWide(t)
	}
	// long: chains of depth 2-8, whole-value (typed) and embedded, resolved 200-400 times
	s := LScript{Kind: "long", Cycle: rapid.IntRange(200, 400).Draw(t, "resolves")}
	x := XScript{Default: rapid.Bool().Draw(t, "default")}
	d := func(l string) int { return rapid.IntRange(2, 8).Draw(t, l) }
	ints := []Val{seqVal(lit("0123")), seqVal(lit("42")), seqVal(lit("-7")), seqVal(lit("0x1F"))}
	strs := []Val{seqVal(lit("v")), seqVal(lit("a b")), seqVal(lit("x"), Seg{K: "esc"}, lit("y")), seqVal(lit("\"q\"")), seqVal(lit("0123")), seqVal()}
	pick := func(pool []Val, l string) Val { return pool[rapid.IntRange(0, len(pool)-1).Draw(t, l)] }
	hi := chainRows(&x.Table, "i", d("depth-i"), false, pick(ints, "int"))
	hs := chainRows(&x.Table, "s", d("depth-s"), true, pick(strs, "str"))
	hw := chainRows(&x.Table, "w", d("depth-w"), false, pick(strs, "str2"))
	x.Fields = []Field{
		{"i", seqVal(aref(hi))},
		{"s1", seqVal(lit("p"), aref(hs), lit("/"), aref(hi))},
		{"s2", seqVal(aref(hi))},
		{"s3", seqVal(aref(hw))},
		{"ms", Val{K: "map", Keys: []string{"k0", "k1"}, Items: []Val{seqVal(aref(hs)), seqVal(aref(hi))}}},
		{"l", Val{K: "list", Items: []Val{seqVal(aref(hi)), seqVal(lit("e"), aref(hw))}}},
	}
	// 0-3 rounds, applied cyclically: the leaf rows toggle between values of the same kind
	leafKey := func(name string) string {
		for i := 8; i >= 0; i-- {
			for _, e := range x.Table {
				if e.Key == "aa:"+name+strconv.Itoa(i) {
					return e.Key
				}
			}
		}
		return ""
	}
	for r, nr := 0, rapid.IntRange(0, 3).Draw(t, "nrounds"); r < nr; r++ {
		rd := Round{Fire: rapid.Bool().Draw(t, "fire")}
		if rapid.Bool().Draw(t, "chg-i") {
			rd.Changes = append(rd.Changes, Entry{leafKey("i"), pick(ints, "int'")})
		}
		if rapid.Bool().Draw(t, "chg-s") {
			rd.Changes = append(rd.Changes, Entry{leafKey("s"), pick(strs, "str'")})
		}
		x.Rounds = append(x.Rounds, rd)
	}
	x.Text = x.describe()
	s.X = x
	return s
}

// genWide: 300-1500 leaf values, each with 1-3 references or short chains.
func genWide(t *rapid.T) LScript {
	x := XScript{Default: rapid.Bool().Draw(t, "default")}
	n := rapid.IntRange(400, 1500).Draw(t, "leaves")
	p := prng(rapid.Uint64Range(1, 1<<62).Draw(t, "seed"))
	heads := []string{
		chainRows(&x.Table, "a", 1, false, seqVal(lit("A"))),
		chainRows(&x.Table, "b", 2, true, seqVal(lit("b"), Seg{K: "esc"})),
		chainRows(&x.Table, "c", 3, false, seqVal(lit("0123"))),
		chainRows(&x.Table, "d", 2, false, seqVal(lit("true"))),
		chainRows(&x.Table, "e", 1, false, seqVal(lit("E"))),
	}
	ms := Val{K: "map"}
	m := Val{K: "map"}
	for i := 0; i < n; i++ {
		var seq []Seg
		if p.next(3) == 0 {
			seq = append(seq, lit("x"+strconv.Itoa(i%7)))
		}
		for k, nr := 0, 1+p.next(3); k < nr; k++ {
			seq = append(seq, aref(heads[p.next(len(heads))]))
			if p.next(2) == 0 {
				seq = append(seq, lit("-"))
			}
		}
		key := "k" + strconv.Itoa(i)
		if i%3 == 0 {
			m.Keys, m.Items = append(m.Keys, key), append(m.Items, Val{K: "seq", Seq: seq})
		} else {
			ms.Keys, ms.Items = append(ms.Keys, key), append(ms.Items, Val{K: "seq", Seq: seq})
		}
	}
	x.Fields = []Field{{"ms", ms}, {"m", m}, {"s1", seqVal(aref(heads[2]))}}
	x.Text = map[string]string{"shape": fmt.Sprintf("%d leaves under ms/m, each 1-3 references to chains of depth 1-3", n)}
	for _, e := range x.Table {
		x.Text["table "+e.Key] = renderVal(e.Val)
	}
	return LScript{Kind: "wide", X: x}
}

func runL(s LScript) (bool, string, *vt.Finding) {
	key := hashKey(s)
	cS.Class("kind:" + s.Kind)
	if s.Kind == "wide" {
		_, _, f := runX(s.X)
		leaves := 0
		for _, fl := range s.X.Fields {
			leaves += len(fl.Val.Items)
		}
		cS.Class(fmt.Sprintf("wide:leaves>=%d", leaves/300*300))
		return true, key, f
	}
	var f *vt.Finding
	cS.HangGuard(120*time.Second, s, "hang/resolve", func() { f = runLong(&s) })
	return true, key, f
}

// runLong resolves s.Cycle+1 times on ONE Resolver; X.Rounds are applied cyclically.
func runLong(s *LScript) *vt.Finding {
	x := &s.X
	period := len(x.Rounds)
	// the table after r cyclic rounds; periodic from r = period on
	tableCyc := func(r int) []Entry {
		out := append([]Entry(nil), x.Table...)
		idx := map[string]int{}
		for i, e := range out {
			idx[e.Key] = i
		}
		for k := 0; k < r; k++ {
			for _, c := range x.Rounds[k%period].Changes {
				if i, ok := idx[c.Key]; ok {
					out[i] = c
				}
			}
		}
		return out
	}
	type step struct {
		w    *world
		exps []expect
	}
	steps := map[int]step{}
	state := func(r int) int {
		if period == 0 {
			return 0
		}
		if r < period {
			return r
		}
		return period + (r-period)%period
	}
	for r := 0; r <= s.Cycle; r++ {
		k := state(r)
		if _, ok := steps[k]; ok {
			continue
		}
		w, exps := x.expectAll(tableCyc(k))
		if w.discard != "" || w.danger != "" {
			cS.Exclude("discard:" + w.discard + w.danger)
			return nil
		}
		for _, e := range exps {
			if e.res.Err != "" || e.res.TEx != "" || e.res.SEx != "" {
				cS.Exclude("discard:long-case-not-plain")
				return nil
			}
		}
		steps[k] = step{w, exps}
	}
	ss, err := newSession(x)
	if err != nil {
		return vt.Failf("expand/unexpected-error", "NewResolver: %v", err)
	}
	defer ss.shutdown()
	for r := 0; r <= s.Cycle; r++ {
		if r > 0 && period > 0 {
			if f := ss.advance(x.Rounds[(r-1)%period]); f != nil {
				return f
			}
		}
		st := steps[state(r)]
		v := ss.resolve()
		if _, _, f := judgeX(x, st.w, st.exps, v, r+1); f != nil {
			f.Sig = "many-resolves/" + f.Sig
			f.Msg = fmt.Sprintf("Resolve #%d on one Resolver (acyclic configuration, chains of depth <= 8): %s", r+1, f.Msg)
			return f
		}
	}
	cS.Class(fmt.Sprintf("long:resolves>=%d", s.Cycle/100*100), fmt.Sprintf("long:period-%d", period))
	return nil
}

func TestManyRounds(t *testing.T) {
	vt.Run(t, cS, vt.N(32, 600), genL, runL)
}
