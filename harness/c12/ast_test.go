package c12

import (
	"strings"
)

// The expansion check never builds strings first: values are generated as
// ASTs, rendered to text for the code under test, and the EXPECTED result is
// computed from the AST alone (oracle_test.go).

// Seg is one segment of a string value.
//
//	lit     literal text without '$', '{', '}'
//	esc     "$$"  (one literal '$' after resolution)
//	d/o/c   a lone "$" / "{" / "}" (noise)
//	escref  "$${" + T + "}"  (an escaped reference: stays "${T}" verbatim)
//	ref     "${" + [Scheme ":"] + name + "}"
type Seg struct {
	K string `json:"k"`
	T string `json:"t,omitempty"`
	// ref only
	Scheme string `json:"scheme,omitempty"` // "" = ${NAME} form (default scheme)
	Name   []Seg  `json:"name,omitempty"`   // parts: lit, d, esc, ref
}

// Val is a configuration value or a provider value.
//
//	seq   a string built from segments
//	raw   an unquoted YAML scalar text (typed: int, bool, float, null)
//	map   Keys[i] -> Items[i]
//	list  Items
type Val struct {
	K     string   `json:"k"`
	Seq   []Seg    `json:"seq,omitempty"`
	T     string   `json:"t,omitempty"`
	Keys  []string `json:"keys,omitempty"`
	Items []Val    `json:"items,omitempty"`
}

// Entry is one row of the provider table: the URI "scheme:opaque" and the
// value whose rendered text the provider returns through NewRetrievedFromYAML.
type Entry struct {
	Key string `json:"key"`
	Val Val    `json:"val"`
}

func lit(s string) Seg { return Seg{K: "lit", T: s} }

func seqVal(s ...Seg) Val { return Val{K: "seq", Seq: s} }

func renderSeg(b *strings.Builder, s Seg) {
	switch s.K {
	case "lit":
		b.WriteString(s.T)
	case "esc":
		b.WriteString("$$")
	case "d":
		b.WriteString("$")
	case "o":
		b.WriteString("{")
	case "c":
		b.WriteString("}")
	case "escref":
		b.WriteString("$${")
		b.WriteString(s.T)
		b.WriteString("}")
	case "ref":
		b.WriteString("${")
		if s.Scheme != "" {
			b.WriteString(s.Scheme)
			b.WriteString(":")
		}
		for _, p := range s.Name {
			renderSeg(b, p)
		}
		b.WriteString("}")
	}
}

func renderSeq(seq []Seg) string {
	var b strings.Builder
	for _, s := range seq {
		renderSeg(&b, s)
	}
	return b.String()
}

// structSeq turns a map/list provider value into the segment sequence of its
// flow-style YAML text: `{k: "…", j: [1, "…"]}`; string leaves are
// double-quoted (their literals never contain '"', '\\' or line breaks).
func structSeq(v Val) []Seg {
	var out []Seg
	var walk func(v Val)
	add := func(s string) { out = append(out, lit(s)) }
	walk = func(v Val) {
		switch v.K {
		case "seq":
			add(`"`)
			out = append(out, v.Seq...)
			add(`"`)
		case "raw":
			add(v.T)
		case "map":
			add("{")
			for i, k := range v.Keys {
				if i > 0 {
					add(", ")
				}
				add(k + ": ")
				walk(v.Items[i])
			}
			add("}")
		case "list":
			add("[")
			for i := range v.Items {
				if i > 0 {
					add(", ")
				}
				walk(v.Items[i])
			}
			add("]")
		}
	}
	walk(v)
	// the structural braces are literal text for the expansion machinery: they
	// are rendered through "lit" on purpose and re-kinded here so that the
	// noise rules see them.
	for i := range out {
		if out[i].K == "lit" {
			switch out[i].T {
			case "{":
				out[i] = Seg{K: "o"}
			case "}":
				out[i] = Seg{K: "c"}
			}
		}
	}
	return out
}

// entrySeq is the segment sequence of the text a provider returns for v.
func entrySeq(v Val) []Seg {
	switch v.K {
	case "seq":
		return v.Seq
	case "raw":
		return []Seg{lit(v.T)}
	}
	return structSeq(v)
}

func renderVal(v Val) string { return renderSeq(entrySeq(v)) }

// ---------------------------------------------------------------------------
// Independent left-to-right tokenizer: the rendering of an AST must tokenize
// back to the same AST, otherwise the case is ambiguous and dropped.

type tok struct {
	K string
	T string
}

// tokenize splits text into lit / esc / d / o / c / escref / ref tokens; a
// ref token carries its full text "${…}" (nested references included).
func tokenize(s string) []tok {
	var out []tok
	var lb strings.Builder
	flush := func() {
		if lb.Len() > 0 {
			out = append(out, tok{"lit", lb.String()})
			lb.Reset()
		}
	}
	i := 0
	for i < len(s) {
		ch := s[i]
		switch {
		case ch == '$' && i+1 < len(s) && s[i+1] == '$':
			flush()
			if i+2 < len(s) && s[i+2] == '{' {
				if j := strings.IndexByte(s[i+2:], '}'); j >= 0 {
					body := s[i+3 : i+2+j]
					if !strings.ContainsAny(body, "${") {
						out = append(out, tok{"escref", body})
						i += 2 + j + 1
						continue
					}
				}
			}
			out = append(out, tok{"esc", ""})
			i += 2
		case ch == '$' && i+1 < len(s) && s[i+1] == '{':
			// reference: find the matching close, counting nested "${"
			depth, j := 0, i
			end := -1
			for j < len(s) {
				if s[j] == '$' && j+1 < len(s) && s[j+1] == '{' {
					depth++
					j += 2
					continue
				}
				if s[j] == '}' {
					depth--
					if depth == 0 {
						end = j
						break
					}
				}
				j++
			}
			flush()
			if end < 0 {
				out = append(out, tok{"d", ""})
				i++
				continue
			}
			out = append(out, tok{"ref", s[i : end+1]})
			i = end + 1
		case ch == '$':
			flush()
			out = append(out, tok{"d", ""})
			i++
		case ch == '{':
			flush()
			out = append(out, tok{"o", ""})
			i++
		case ch == '}':
			flush()
			out = append(out, tok{"c", ""})
			i++
		default:
			lb.WriteByte(ch)
			i++
		}
	}
	flush()
	return out
}

// astToks is what tokenize must return for the rendering of seq.
func astToks(seq []Seg) []tok {
	var out []tok
	for _, s := range seq {
		switch s.K {
		case "lit":
			if s.T == "" {
				continue
			}
			if n := len(out); n > 0 && out[n-1].K == "lit" {
				out[n-1].T += s.T
			} else {
				out = append(out, tok{"lit", s.T})
			}
		case "ref":
			out = append(out, tok{"ref", renderSeq([]Seg{s})})
		case "escref":
			out = append(out, tok{"escref", s.T})
		default:
			out = append(out, tok{s.K, ""})
		}
	}
	return out
}

// bijective reports whether the rendering of seq (and of every reference name
// in it) tokenizes back to seq.
func bijective(seq []Seg) bool {
	a, b := astToks(seq), tokenize(renderSeq(seq))
	if len(a) != len(b) {
		return false
	}
	for i := range a {
		if a[i] != b[i] {
			return false
		}
	}
	for _, s := range seq {
		if s.K == "ref" {
			// the name must tokenize to its parts too (a name is everything between
			// "${"+scheme+":" and the matching "}")
			if !bijective(s.Name) {
				return false
			}
			for _, p := range s.Name {
				if p.K == "o" || p.K == "c" || p.K == "escref" {
					return false
				}
			}
		}
	}
	return true
}
