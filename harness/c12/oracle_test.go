package c12

import (
	"fmt"
	"math"
	"reflect"
	"regexp"
	"strconv"
	"strings"
	"time"

	yaml "gopkg.in/yaml.v3" // the upstream library, not the fork confmap links: only used to classify provider texts
)

// world is everything the reference interpreter knows: whether ${NAME} is a
// reference (default scheme configured), the registered schemes and the
// provider table.
type world struct {
	defEnv  bool              // the default scheme is the real "env" provider (else the fake "dd")
	envDef  map[string]string // unset variables resolved through ":-default": NAME -> default text ("\x00" = inconsistent)
	synth   map[string]*Entry // rows synthesised for env defaults / unset variables / inline yaml
	def     bool
	schemes map[string]bool
	table   map[string]*Entry
	cls     map[string]int // class counters of the case being evaluated
	danger  string         // shape that must not be executed in-process (listed non-terminating finding)
	discard string         // the case is outside the generator's contract (self-check failed)
	memo    map[string]classified
}

const defaultScheme = "dd"

func (w *world) count(l string) { w.cls[l]++ }

// item is one element of a flattened string context, in the left-to-right
// order of the fully spliced text.
type item struct {
	k string // lit esc d o c escref nsref | refstart refend errref unknown
	t string // text / escref body / refstart: reference text with its final name / errref: error kind
}

// ctxRes is the verdict of the reference interpreter on one string context.
type ctxRes struct {
	text   string
	ex     string // non-empty: equality is not asserted (reason)
	err    string // non-empty: resolution must fail (kind)
	errMay bool   // the context contains a reference that could fail (matters when ex != "")
	knownA bool   // shape of listed finding escaped-ref-rewritten (otherwise clean)
}

// refInfo is a resolved reference.
type refInfo struct {
	special string // "", nsref, dollar-name, cycle, provider, unknown-scheme
	key     string
	uri     string // "${…}" with the final name
	entry   *Entry
	name    []item // the flattened name (atoms and events)
}

func onStack(stack []string, k string) bool {
	for _, s := range stack {
		if s == k {
			return true
		}
	}
	return false
}

// resolveRef computes what reference seg points to, from the AST.
func (w *world) resolveRef(seg Seg, stack []string) refInfo {
	if seg.Scheme == "" && !w.def {
		// no default scheme: "${NAME}" is not a reference, it is text
		for _, p := range seg.Name {
			if p.K != "lit" || strings.Contains(p.T, ":") {
				w.discard = "nsref-complex"
			}
		}
		return refInfo{special: "nsref", uri: renderSeq([]Seg{seg})}
	}
	name := w.flatten(seg.Name, stack)
	var nb strings.Builder
	dollar := false
	for _, it := range name {
		switch it.k {
		case "lit":
			nb.WriteString(it.t)
		case "esc":
			nb.WriteString("$$")
			dollar = true
		case "d":
			nb.WriteString("$")
			dollar = true
		case "errref", "unknown":
			// an inner reference fails first
			return refInfo{special: it.k + ":" + it.t, name: name}
		case "refstart", "refend", "namerefstart", "namerefend":
		default:
			w.discard = "name-part-" + it.k
		}
	}
	nt := nb.String()
	if strings.Contains(nt, "$") || strings.Contains(seg.Scheme, "$") {
		dollar = true
	}
	scheme := seg.Scheme
	if scheme == "" {
		scheme = w.defaultScheme()
		if strings.Contains(nt, ":") {
			if w.defEnv && !dollar {
				// ${NAME:-default} in braces syntax: the resolver reads "NAME" as a scheme; the statement is silent
				w.count("braces-with-default")
				return refInfo{special: "unknown-scheme", name: name, uri: "${" + nt + "}"}
			}
			w.discard = "default-name-with-colon"
		}
	}
	ri := refInfo{name: name, key: scheme + ":" + nt}
	if seg.Scheme == "" {
		ri.uri = "${" + nt + "}"
	} else {
		ri.uri = "${" + seg.Scheme + ":" + nt + "}"
	}
	switch {
	case dollar:
		ri.special = "dollar-name"
	case !w.schemes[scheme]:
		ri.special = "unknown-scheme"
	case onStack(stack, ri.key):
		ri.special = "cycle"
		w.checkDoubling(stack, ri.key)
	case scheme == "env":
		// the REAL env provider: NAME[:-default]; invalid names are an error (RFC: "When an invalid
		// identifier is found, an error is emitted"); set -> its value (even empty); unset -> default, else empty
		varName, dflt, hasDefault := strings.Cut(nt, ":-")
		switch row := w.table["env:"+varName]; {
		case !envNameRe.MatchString(varName):
			ri.special = "provider"
			w.count("env:invalid-name")
		case row != nil:
			ri.entry = row
			w.count("env:set")
			if hasDefault {
				w.count("env:set-default-ignored")
			}
		case hasDefault:
			ri.entry = w.synthRow("env:"+varName+":-"+dflt, dflt)
			w.count("env:unset-default")
			if old, seen := w.envDef[varName]; seen && old != dflt {
				w.envDef[varName] = "\x00"
			} else {
				w.envDef[varName] = dflt
			}
		default:
			ri.entry = w.synthRow("env:"+varName, "")
			w.count("env:unset-empty")
			w.envDef[varName] = "\x00" // also used without default: cannot be "set to its default"
		}
		if ri.entry != nil && onStack(stack, ri.entry.Key) {
			ri.special, ri.entry = "cycle", nil
		}
		if ri.entry != nil {
			ri.key = ri.entry.Key
			w.checkSupported(ri.entry)
		}
	case scheme == "yaml":
		// the REAL yaml provider: the text after "yaml:" is the value
		ri.entry = w.synthRow(ri.key, nt)
		w.count("yaml-inline")
		w.checkSupported(ri.entry)
	case w.table[ri.key] == nil:
		ri.special = "provider"
	default:
		ri.entry = w.table[ri.key]
		if k := ri.entry.Val.K; k == "seq" || k == "raw" {
			// a text the provider itself rejects (uint64, non-string map keys, …) is outside the contract
			if kind, _ := w.classifyEntry(ri.entry); kind == "unsupported" {
				w.discard = "unsupported-yaml-type"
			}
		}
	}
	return ri
}

var envNameRe = regexp.MustCompile(`^[a-zA-Z_][a-zA-Z0-9_]*$`)

func (w *world) defaultScheme() string {
	if w.defEnv {
		return "env"
	}
	return defaultScheme
}

// synthRow is the row a real provider computes from the reference itself (a default value, an inline YAML text).
func (w *world) synthRow(key, text string) *Entry {
	if e, ok := w.synth[key]; ok {
		return e
	}
	e := &Entry{Key: key, Val: seqVal()}
	if text != "" {
		e.Val = seqVal(lit(text))
	}
	w.synth[key] = e
	return e
}

// a text the provider itself rejects (uint64, non-string map keys, …) is outside the contract
func (w *world) checkSupported(e *Entry) {
	if k := e.Val.K; k == "seq" || k == "raw" {
		if kind, _ := w.classifyEntry(e); kind == "unsupported" {
			w.discard = "unsupported-yaml-type"
		}
	}
}

// checkDoubling flags cycles in which one value mentions a cycle member more
// than once: every round then doubles the string (listed finding
// hang/cycle-doubling) and the case must not run in-process.
func (w *world) checkDoubling(stack []string, key string) {
	i := 0
	for i < len(stack) && stack[i] != key {
		i++
	}
	ring := map[string]bool{}
	for _, k := range stack[i:] {
		ring[k] = true
	}
	for k := range ring {
		e := w.table[k]
		if e == nil {
			continue
		}
		n := 0
		var walk func(seq []Seg)
		walk = func(seq []Seg) {
			for _, s := range seq {
				if s.K == "ref" {
					n++ // conservative: any reference inside a cycle member counts
					walk(s.Name)
				}
			}
		}
		walk(entrySeq(e.Val))
		if n > 1 {
			w.danger = "hang/cycle-doubling"
		}
	}
}

// flatten splices embedded references recursively and returns the atoms and
// events of the context in text order.
func (w *world) flatten(seq []Seg, stack []string) []item {
	var out []item
	for _, s := range seq {
		w.count("seg:" + s.K)
		switch s.K {
		case "lit":
			if s.T != "" {
				out = append(out, item{"lit", s.T})
			}
		case "esc", "d", "o", "c":
			out = append(out, item{s.K, ""})
		case "escref":
			out = append(out, item{"escref", s.T})
		case "ref":
			ri := w.resolveRef(s, stack)
			// events of the name come first (inner references are expanded first)
			for _, it := range ri.name {
				switch it.k {
				case "refstart", "refend":
					out = append(out, item{"name" + it.k, it.t})
				case "namerefstart", "namerefend":
					out = append(out, it)
				}
			}
			switch {
			case ri.special == "nsref":
				out = append(out, item{"nsref", ri.uri})
			case ri.special == "unknown-scheme":
				out = append(out, item{"unknown", ri.uri})
			case strings.HasPrefix(ri.special, "errref:"):
				out = append(out, item{"errref", strings.TrimPrefix(ri.special, "errref:")})
			case strings.HasPrefix(ri.special, "unknown:"):
				out = append(out, item{"unknown", ""})
			case ri.special != "":
				out = append(out, item{"errref", ri.special})
			default:
				w.count("embedded-ref")
				if len(stack) > w.cls["max-splice-depth"] {
					w.cls["max-splice-depth"] = len(stack)
				}
				if ri.entry.Val.K == "map" || ri.entry.Val.K == "list" {
					w.count("embedded-struct")
				} else if k, _ := w.classifyEntry(ri.entry); k != "string" {
					w.count("embedded-typed-text")
				}
				out = append(out, item{"refstart", ri.uri})
				out = append(out, w.flatten(entrySeq(ri.entry.Val), append(append([]string(nil), stack...), ri.key))...)
				out = append(out, item{"refend", ""})
			}
		}
	}
	return out
}

// analyse decides what can be asserted about a flattened context.
func analyse(items []item) ctxRes {
	var r ctxRes
	var b strings.Builder
	// 1. token-pasting hazards: the text must mean the same at every stage of
	// splicing.  A lone '$' must never come to stand before '$' or '{'; "$$"
	// must never come to stand before a noise '{'.
	for i, it := range items {
		if it.k != "d" && it.k != "esc" {
			continue
		}
		for j := i + 1; j < len(items); j++ {
			n := items[j]
			if n.k == "refend" || n.k == "namerefend" {
				continue
			}
			if it.k == "d" {
				switch n.k {
				case "refstart", "namerefstart", "errref", "unknown", "nsref", "esc", "escref", "d", "o":
					r.ex = "splice-ambiguous"
				}
				break
			}
			// esc
			if n.k == "refstart" || n.k == "namerefstart" {
				continue
			}
			if n.k == "o" {
				r.ex = "splice-ambiguous"
			}
			break
		}
	}
	seenEsc := false
	uris := map[string]bool{}
	for _, it := range items {
		switch it.k {
		case "lit":
			b.WriteString(it.t)
		case "esc", "d":
			b.WriteString("$")
		case "o":
			b.WriteString("{")
		case "c":
			b.WriteString("}")
		case "nsref":
			b.WriteString(it.t)
		case "escref":
			b.WriteString("${" + it.t + "}")
			if uris["${"+it.t+"}"] {
				r.knownA = true
			}
			seenEsc = true
		case "unknown":
			if r.ex == "" {
				r.ex = "unknown-scheme"
			}
			r.errMay = true
		case "refstart", "namerefstart":
			if seenEsc && r.ex == "" {
				r.ex = "ref-after-escaped"
			}
			uris[it.t] = true
		case "errref":
			r.errMay = true
			if seenEsc && r.ex == "" {
				r.ex = "ref-after-escaped"
			}
			if r.err == "" {
				r.err = it.t
			}
		}
	}
	if r.ex != "" {
		r.err = "" // knownA stays: the rewritten escaped occurrence can turn into a failing reference
	}
	if r.ex == "splice-ambiguous" {
		r.errMay = true // pasted text can form references that were never written
	}
	r.text = b.String()
	return r
}

// Res is the expected outcome for one value.
type Res struct {
	Typed   any    // what ToStringMap / non-string fields must see
	Str     string // what a string field must see
	Err     string // resolution must fail
	ErrMay  bool   // resolution may fail (an excluded context holds a failing reference)
	TEx     string // typed view not asserted
	SEx     string // string view not asserted
	LSEx    string // string view of some leaf of a whole-value map/list not asserted (stringy containers)
	UErrMay bool   // the original text of a typed value may be lost (then it cannot go into a string field)
	Wrapped bool   // a whole-value reference to a non-string value (keeps value + original text)
	Leak    bool   // shape of the repaired finding nested-expanded-value (a wrapped value below a whole-value map/list)
	SNode   *snode // string view of a whole-value map/list, leaf by leaf (for map[string]string, []string, …)
	KnownA  bool   // shape of listed finding escaped-ref-rewritten
}

func (r *Res) absorb(c ctxRes, typed, str bool) {
	if c.err != "" && r.Err == "" {
		r.Err = c.err
	}
	if c.ex != "" {
		if typed && r.TEx == "" {
			r.TEx = c.ex
		}
		if str && r.SEx == "" {
			r.SEx = c.ex
		}
		if c.errMay {
			r.ErrMay = true
		}
	}
	if c.knownA {
		r.KnownA = true
	}
}

// absorbOriginal takes the verdict on the original text of a typed value.  A
// failing expansion of the original text is swallowed by the resolver (the
// value then has no text and cannot go into a string field) -- except a
// cycle, which exhausts the rounds of the enclosing loop and is reported.
func (r *Res) absorbOriginal(c ctxRes) {
	switch {
	case c.err == "cycle":
		if r.Err == "" {
			r.Err = "cycle"
		}
	case c.err != "":
		r.SEx, r.UErrMay = "original-error", true
	default:
		r.absorb(c, false, true)
		r.Str = c.text
		if c.ex != "" {
			r.UErrMay = true
		}
	}
}

// snode is the string view of a value as a tree: what string-kinded targets
// must see at each depth.  A leaf carries the original text; when the leaf is a
// whole-value reference to a map/list it also carries that value's own tree
// (used when the target still expects a container at that depth).
type snode struct {
	M    map[string]*snode
	L    []*snode
	Kind string // map list leaf
	Str  string
	Raw  any    // leaf that is a literal typed scalar (no text)
	Sub  *snode // leaf: whole-value reference to a map/list
}

// project gives what a stringy target with `depth` container levels above its
// strings (map[string]string: 1, map[string][]string: 2) must receive.
func (n *snode) project(depth int) any {
	var hit bool
	return n.proj(depth, true, &hit)
}

// refBelowRoot: the projection follows a whole-value reference to a map/list
// that sits INSIDE a container of a stringy target (mls: {k0: ${list}}) -- the
// shape of listed finding stringy-container/nested-ref.
func (n *snode) refBelowRoot(depth int) bool {
	var hit bool
	n.proj(depth, true, &hit)
	return hit
}

func (n *snode) proj(depth int, root bool, hit *bool) any {
	if n == nil {
		return nil
	}
	switch n.Kind {
	case "map":
		m := map[string]any{}
		for k, c := range n.M {
			m[k] = c.proj(depth-1, false, hit)
		}
		return m
	case "list":
		l := []any{}
		for _, c := range n.L {
			l = append(l, c.proj(depth-1, false, hit))
		}
		return l
	}
	if depth > 0 && n.Sub != nil {
		if !root {
			*hit = true
		}
		return n.Sub.proj(depth, false, hit)
	}
	if n.Raw != nil {
		return n.Raw
	}
	return n.Str
}

// snodeOfPlain is the string view of a reference-free map/list parsed from a
// provider text: string leaves are themselves, other scalars have no text.
func snodeOfPlain(v any) *snode {
	switch x := v.(type) {
	case map[string]any:
		n := &snode{Kind: "map", M: map[string]*snode{}}
		for k, e := range x {
			n.M[k] = snodeOfPlain(e)
		}
		return n
	case []any:
		n := &snode{Kind: "list"}
		for _, e := range x {
			n.L = append(n.L, snodeOfPlain(e))
		}
		return n
	case string:
		return &snode{Kind: "leaf", Str: x}
	}
	return &snode{Kind: "leaf", Raw: v}
}

// classify parses a provider text the way the RFC describes (YAML): kind is
// string | scalar | struct | unsupported.
func classify(text string) (kind string, v any) {
	if err := yaml.Unmarshal([]byte(text), &v); err != nil {
		return "string", nil
	}
	switch x := v.(type) {
	case string:
		return "string", nil
	case nil, int, float64, bool, time.Time:
		if f, ok := x.(float64); ok && math.IsNaN(f) {
			return "unsupported", nil
		}
		return "scalar", v
	case map[string]any, []any:
		if supportedDeep(v) {
			return "struct", v
		}
	}
	return "unsupported", nil
}

type classified struct {
	kind string
	v    any
}

func (w *world) classifyEntry(e *Entry) (string, any) {
	if w.memo == nil {
		w.memo = map[string]classified{}
	}
	if c, ok := w.memo[e.Key]; ok {
		return c.kind, c.v
	}
	k, v := classify(renderVal(e.Val))
	w.memo[e.Key] = classified{k, v}
	return k, v
}

func supportedDeep(v any) bool {
	switch x := v.(type) {
	case nil, int, float64, bool, string:
		if f, ok := x.(float64); ok && math.IsNaN(f) {
			return false
		}
		return true
	case map[string]any:
		for _, e := range x {
			if !supportedDeep(e) {
				return false
			}
		}
		return true
	case []any:
		for _, e := range x {
			if !supportedDeep(e) {
				return false
			}
		}
		return true
	}
	return false
}

func isWhole(w *world, seq []Seg) bool {
	return len(seq) == 1 && seq[0].K == "ref" && (seq[0].Scheme != "" || w.def)
}

// becomesWhole: every segment is a reference and at most one of them expands
// to a non-empty text: once the others have vanished (ReplaceAll removes every
// occurrence of an empty one at once) what is left IS a whole-value reference.
func (w *world) becomesWhole(seq []Seg, stack []string) bool {
	n := 0
	for _, s := range seq {
		if s.K == "lit" && s.T == "" {
			continue
		}
		n++
		if !isWhole(w, []Seg{s}) {
			return false
		}
	}
	if n < 2 {
		return false
	}
	nonEmpty := 0
	for _, s := range seq {
		if s.K != "ref" {
			continue
		}
		c := analyse(w.flatten([]Seg{s}, stack))
		if c.ex != "" || c.err != "" {
			return true // unknown (e.g. "# ${undefined}" fails when spliced, but is a YAML null as a whole value)
		}
		if c.text != "" {
			nonEmpty++
		}
	}
	return nonEmpty <= 1
}

// evalStr evaluates seq as a string with embedded references.
func (w *world) evalStr(seq []Seg, stack []string) ctxRes {
	return analyse(w.flatten(seq, stack))
}

// evalSeq evaluates a string value: typed when it is exactly one reference.
func (w *world) evalSeq(seq []Seg, stack []string, depth int) Res {
	var r Res
	if !isWhole(w, seq) {
		c := w.evalStr(seq, stack)
		if c.ex == "" && w.becomesWhole(seq, stack) {
			// "${empty}${x}": once the leading references have expanded to nothing the rest IS a
			// whole-value reference; the statement does not say which reading applies (and a failure of
			// the spliced reading need not happen in the whole-value reading)
			c.ex = "becomes-whole-value"
			if c.err != "" {
				c.err, c.errMay = "", true
			}
			// the whole-value reading is not followed: it may yield a typed value without usable text
			r.UErrMay = true
		}
		r.absorb(c, true, true)
		r.Typed, r.Str = c.text, c.text
		return r
	}
	ri := w.resolveRef(seq[0], stack)
	// the name is a string context of its own (inner references are embedded in it)
	nc := analyse(ri.name)
	if nc.ex != "" {
		r.absorb(nc, true, true)
		r.ErrMay = true
		return r
	}
	switch {
	case strings.HasPrefix(ri.special, "unknown"):
		r.TEx, r.SEx, r.ErrMay = "unknown-scheme", "unknown-scheme", true
		return r
	case strings.HasPrefix(ri.special, "errref:"):
		r.Err = strings.TrimPrefix(ri.special, "errref:")
		return r
	case ri.special != "":
		r.Err = ri.special
		return r
	}
	if len(seq[0].Name) > 1 || (len(seq[0].Name) == 1 && seq[0].Name[0].K == "ref") {
		w.count("nested-name")
	}
	if depth > w.cls["max-chain"] {
		w.cls["max-chain"] = depth
	}
	nstack := append(append([]string(nil), stack...), ri.key)
	e := ri.entry
	switch e.Val.K {
	case "map", "list":
		return w.evalStruct(e.Val, nstack, depth)
	}
	es := entrySeq(e.Val)
	text := renderSeq(es)
	kind, v := w.classifyEntry(e)
	switch kind {
	case "string":
		return w.evalSeq(es, nstack, depth+1)
	case "scalar":
		w.count("whole-typed-scalar")
		r.Typed, r.Wrapped = v, true
		c := w.evalStr(es, nstack) // the original text is expanded as a string too (e.g. "# ${x}" is a YAML null)
		r.absorbOriginal(c)
		return r
	case "struct":
		if strings.Contains(text, "$") {
			w.discard = "accidental-struct-with-dollar"
			return r
		}
		w.count("whole-accidental-struct")
		r.Typed, r.Str, r.Wrapped, r.SNode = v, text, true, snodeOfPlain(v)
		return r
	}
	w.discard = "unsupported-yaml-type"
	return r
}

// rawTree is the structure the YAML library must report for the rendering of a
// map/list provider value (self-check of the renderer).
func rawTree(v Val) any {
	switch v.K {
	case "seq":
		return renderSeq(v.Seq)
	case "raw":
		var x any
		_ = yaml.Unmarshal([]byte(v.T), &x)
		return x
	case "map":
		m := map[string]any{}
		for i, k := range v.Keys {
			m[k] = rawTree(v.Items[i])
		}
		return m
	case "list":
		l := []any{}
		for i := range v.Items {
			l = append(l, rawTree(v.Items[i]))
		}
		return l
	}
	return nil
}

// evalStruct evaluates a whole-value reference to a map/list provider value:
// every string leaf is its own context for the typed view, the original text
// is one context for the string view.
func (w *world) evalStruct(v Val, stack []string, depth int) Res {
	var r Res
	text := renderVal(v)
	kind, parsed := classify(text)
	if kind != "struct" || !sameTree(parsed, rawTree(v)) {
		w.discard = "struct-render-mismatch"
		return r
	}
	w.count("whole-struct")
	r.Wrapped = true
	var build func(v Val) (any, *snode)
	build = func(v Val) (any, *snode) {
		switch v.K {
		case "seq":
			lr := w.evalSeq(v.Seq, stack, depth+1)
			if lr.Err != "" && r.Err == "" {
				r.Err = lr.Err
			}
			if lr.TEx != "" && r.TEx == "" {
				r.TEx = lr.TEx
			}
			if lr.SEx != "" && r.LSEx == "" {
				r.LSEx = lr.SEx
			}
			r.ErrMay = r.ErrMay || lr.ErrMay
			r.UErrMay = r.UErrMay || lr.UErrMay
			r.KnownA = r.KnownA || lr.KnownA
			if lr.Wrapped || lr.Leak {
				r.Leak = true
				w.count("nested-wrapped-leaf")
				if lr.Typed == nil && lr.TEx == "" {
					w.count("nested-wrapped-null-leaf")
				}
			}
			return lr.Typed, &snode{Kind: "leaf", Str: lr.Str, Sub: lr.SNode}
		case "raw":
			var x any
			_ = yaml.Unmarshal([]byte(v.T), &x)
			return x, &snode{Kind: "leaf", Str: v.T, Raw: x}
		case "map":
			m, sn := map[string]any{}, &snode{Kind: "map", M: map[string]*snode{}}
			for i, k := range v.Keys {
				m[k], sn.M[k] = build(v.Items[i])
			}
			return m, sn
		case "list":
			l, sn := []any{}, &snode{Kind: "list"}
			for i := range v.Items {
				t, c := build(v.Items[i])
				l, sn.L = append(l, t), append(sn.L, c)
			}
			return l, sn
		}
		return nil, nil
	}
	r.Typed, r.SNode = build(v)
	r.absorbOriginal(w.evalStr(structSeq(v), stack))
	return r
}

// evalVal evaluates a configuration value (string, literal scalar, map, list)
// into its typed view and its string view (a tree, see snode).
func (w *world) evalVal(v Val) (typed any, str *snode, agg Res) {
	switch v.K {
	case "seq":
		r := w.evalSeq(v.Seq, nil, 1)
		return r.Typed, &snode{Kind: "leaf", Str: r.Str, Sub: r.SNode}, r
	case "raw":
		var x any
		_ = yaml.Unmarshal([]byte(v.T), &x)
		return x, &snode{Kind: "leaf", Str: v.T, Raw: x}, Res{}
	case "map":
		tm, sm := map[string]any{}, &snode{Kind: "map", M: map[string]*snode{}}
		for i, k := range v.Keys {
			t, s, r := w.evalVal(v.Items[i])
			tm[k], sm.M[k] = t, s
			mergeRes(&agg, r)
		}
		return tm, sm, agg
	case "list":
		tl, sl := []any{}, &snode{Kind: "list"}
		for i := range v.Items {
			t, s, r := w.evalVal(v.Items[i])
			tl, sl.L = append(tl, t), append(sl.L, s)
			mergeRes(&agg, r)
		}
		return tl, sl, agg
	}
	return nil, nil, agg
}

func mergeRes(a *Res, r Res) {
	if a.Err == "" {
		a.Err = r.Err
	}
	if a.TEx == "" {
		a.TEx = r.TEx
	}
	if a.SEx == "" {
		a.SEx = r.SEx
	}
	if a.LSEx == "" {
		a.LSEx = r.LSEx
	}
	a.ErrMay = a.ErrMay || r.ErrMay
	a.UErrMay = a.UErrMay || r.UErrMay
	a.Leak = a.Leak || r.Leak
	a.KnownA = a.KnownA || r.KnownA
}

// ---------------------------------------------------------------------------
// tree comparison

// sameTree compares two configuration trees: nil and empty slices/maps are the
// same thing, numbers must have the same Go type, NaN equals NaN.
func sameTree(a, b any) bool { return diffTree(a, b, "") == "" }

func diffTree(a, b any, path string) string {
	switch x := a.(type) {
	case map[string]any:
		y, ok := b.(map[string]any)
		if !ok {
			if len(x) == 0 && b == nil {
				return ""
			}
			return describe(path, a, b)
		}
		if len(x) != len(y) {
			return describe(path, a, b)
		}
		for k, xv := range x {
			yv, ok := y[k]
			if !ok {
				return describe(path+"/"+k, xv, "<absent>")
			}
			if d := diffTree(xv, yv, path+"/"+k); d != "" {
				return d
			}
		}
		return ""
	case []any:
		y, ok := b.([]any)
		if !ok {
			if len(x) == 0 && b == nil {
				return ""
			}
			return describe(path, a, b)
		}
		if len(x) != len(y) {
			return describe(path, a, b)
		}
		for i := range x {
			if d := diffTree(x[i], y[i], path+"/"+itoa(i)); d != "" {
				return d
			}
		}
		return ""
	case float64:
		y, ok := b.(float64)
		if ok && (x == y || (math.IsNaN(x) && math.IsNaN(y))) {
			return ""
		}
		return describe(path, a, b)
	case time.Time:
		y, ok := b.(time.Time)
		if ok && x.Equal(y) {
			return ""
		}
		return describe(path, a, b)
	case nil:
		switch y := b.(type) {
		case nil:
			return ""
		case map[string]any:
			if len(y) == 0 {
				return ""
			}
		case []any:
			if len(y) == 0 {
				return ""
			}
		}
		return describe(path, a, b)
	}
	if scalarEq(a, b) {
		return ""
	}
	return describe(path, a, b)
}

// scalarEq: same dynamic type of a basic kind and same value (never panics on
// uncomparable values such as a leaked internal struct).
func scalarEq(a, b any) bool {
	ta, tb := reflect.TypeOf(a), reflect.TypeOf(b)
	if ta == nil || tb == nil || ta != tb {
		return false
	}
	switch ta.Kind() {
	case reflect.Bool, reflect.String, reflect.Int, reflect.Int8, reflect.Int16, reflect.Int32, reflect.Int64,
		reflect.Uint, reflect.Uint8, reflect.Uint16, reflect.Uint32, reflect.Uint64, reflect.Float32:
		return a == b
	}
	return false
}

func itoa(i int) string { return strconv.Itoa(i) }

func describe(path string, want, got any) string {
	if path == "" {
		path = "/"
	}
	return fmt.Sprintf("at %s: want %T(%#v), got %T(%#v)", path, want, want, got, got)
}

// leaks reports the path of the first value in tree v that is not a plain
// configuration value (an internal wrapper that escaped), or "".
func leaks(v any, path string) string {
	switch x := v.(type) {
	case nil, string, bool, int, int32, int64, float32, float64, time.Time:
		return ""
	case map[string]any:
		for k, e := range x {
			if p := leaks(e, path+"/"+k); p != "" {
				return p
			}
		}
		return ""
	case []any:
		for i, e := range x {
			if p := leaks(e, path+"/"+itoa(i)); p != "" {
				return p
			}
		}
		return ""
	}
	return fmt.Sprintf("%s (%T)", path, v)
}
