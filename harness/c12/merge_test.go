package c12

import (
	"fmt"
	"sort"
	"strings"
	"testing"
	"time"

	yaml "gopkg.in/yaml.v3"
	"pgregory.net/rapid"

	"go.opentelemetry.io/collector/confmap"
	"go.opentelemetry.io/collector/verifharness/vt"
)

// Node is a JSON-serialisable configuration tree (replay files must keep the
// exact Go types, which plain JSON would not).
type Node struct {
	K string  `json:"k"` // nil str int int64 float bool list map
	S string  `json:"s,omitempty"`
	I int64   `json:"i,omitempty"`
	F float64 `json:"f,omitempty"`
	B bool    `json:"b,omitempty"`
	L []Node  `json:"l,omitempty"`
	M []KV    `json:"m,omitempty"`
}

type KV struct {
	Key string `json:"key"`
	Val Node   `json:"val"`
}

func (n Node) value() any {
	switch n.K {
	case "str":
		return n.S
	case "int":
		return int(n.I)
	case "int64":
		return n.I
	case "float":
		return n.F
	case "bool":
		return n.B
	case "list":
		l := make([]any, 0, len(n.L))
		for _, e := range n.L {
			l = append(l, e.value())
		}
		return l
	case "map":
		m := make(map[string]any, len(n.M))
		for _, kv := range n.M {
			m[kv.Key] = kv.Val.value()
		}
		return m
	}
	return nil
}

// MScript is one merge case: the sources in resolution order.  Mode "raw"
// serves the maps as Go values, "yaml" serves their YAML text, "nil" serves a
// nil Retrieved for empty sources.
type MScript struct {
	Sources []Node `json:"sources"`
	Mode    string `json:"mode"`
	// Order is the URI list AS GIVEN to the resolver: indices into Sources, with repetition
	// ([A,B,A], [B,A,empty,B]); empty = every source once, in order.  Bare[i]: the i-th URI is
	// spelled without its scheme ("s1" instead of "file:s1" -- NewResolver: "An empty <scheme> defaults to file").
	Order []int  `json:"order,omitempty"`
	Bare  []bool `json:"bare,omitempty"`
	Probe bool   `json:"probe,omitempty"` // re-observe a listed finding instead of excluding its shape
}

var (
	mergeKeys = []string{"a", "b", "c", "a", "b", "c", "a", "b", "a", "b", "c", "a", "svc", "x/1", "k.e-y", "with space", "a:b", "Ünï", "0", "true", "null", "~"}
	mergeStrs = []string{"", "v", "w", "a::b", "::", "0123", "true", "x y", "#c", "[1]", "é", "- x", "a: b", "null"}
)

func genNode(t *rapid.T, depth int, mapOnly bool) Node {
	// small key alphabet and many maps: later sources must hit the same paths
	k := 20
	if !mapOnly {
		k = rapid.IntRange(0, 23).Draw(t, "kind")
	}
	if depth >= 4 && k >= 10 {
		k = rapid.IntRange(0, 9).Draw(t, "leafkind")
	}
	switch {
	case k == 0:
		return Node{K: "nil"}
	case k <= 3:
		return Node{K: "str", S: rapid.SampledFrom(mergeStrs).Draw(t, "str")}
	case k == 4:
		return Node{K: "int", I: int64(rapid.IntRange(-3, 1000).Draw(t, "int"))}
	case k == 5:
		return Node{K: "int64", I: rapid.Int64().Draw(t, "int64")}
	case k == 6:
		return Node{K: "float", F: rapid.SampledFrom([]float64{0, 1.5, -2.25, 1e30, 3}).Draw(t, "float")}
	case k <= 9:
		return Node{K: "bool", B: rapid.Bool().Draw(t, "bool")}
	case k <= 12:
		n := Node{K: "list"}
		for i, m := 0, rapid.IntRange(0, 3).Draw(t, "nlist"); i < m; i++ {
			n.L = append(n.L, genNode(t, depth+1, false))
		}
		return n
	}
	n := Node{K: "map"}
	seen := map[string]bool{}
	lo := 0
	if depth == 0 {
		lo = 1
	}
	for i, m := 0, rapid.IntRange(lo, 4).Draw(t, "nmap"); i < m; i++ {
		key := rapid.SampledFrom(mergeKeys).Draw(t, "key")
		if (depth > 0 && oneIn(t, "emptykey", 4)) || (depth == 0 && oneIn(t, "emptykey", 8)) {
			key = "" // fine when nested; at top level it is the shape of a listed finding
		}
		if seen[key] {
			continue
		}
		seen[key] = true
		n.M = append(n.M, KV{key, genNode(t, depth+1, false)})
	}
	return n
}

// perturb copies a map node: every entry is kept, dropped, replaced by a fresh
// value, or (maps) perturbed recursively; a new key may be added.
func perturb(t *rapid.T, n Node, depth int) Node {
	if n.K != "map" {
		return genNode(t, depth, false)
	}
	out := Node{K: "map"}
	seen := map[string]bool{}
	for _, kv := range n.M {
		switch rapid.IntRange(0, 4).Draw(t, "perturb") {
		case 0:
			out.M = append(out.M, kv)
		case 1:
			continue
		case 2:
			out.M = append(out.M, KV{kv.Key, genNode(t, depth+1, false)})
		default:
			out.M = append(out.M, KV{kv.Key, perturb(t, kv.Val, depth+1)})
		}
		seen[kv.Key] = true
	}
	if rapid.Bool().Draw(t, "addkey") {
		if k := rapid.SampledFrom(mergeKeys).Draw(t, "newkey"); !seen[k] {
			out.M = append(out.M, KV{k, genNode(t, depth+1, false)})
		}
	}
	return out
}

func genM(t *rapid.T) MScript {
	s := MScript{Mode: rapid.SampledFrom([]string{"raw", "raw", "yaml", "nil"}).Draw(t, "mode")}
	for i, n := 0, rapid.IntRange(1, 4).Draw(t, "nsources"); i < n; i++ {
		if rapid.IntRange(0, 5).Draw(t, "empty") == 0 {
			s.Sources = append(s.Sources, Node{K: "map"})
			continue
		}
		if i > 0 && rapid.Bool().Draw(t, "derived") {
			// a perturbed copy of an earlier source: same paths, other values (deep overlaps)
			base := s.Sources[rapid.IntRange(0, i-1).Draw(t, "base")]
			s.Sources = append(s.Sources, perturb(t, base, 0))
			continue
		}
		s.Sources = append(s.Sources, genNode(t, 0, true))
	}
	// the URI list: usually every source once; otherwise drawn from the pool WITH repetition
	if rapid.IntRange(0, 2).Draw(t, "listkind") != 0 {
		for i := range s.Sources {
			s.Order = append(s.Order, i)
		}
	} else {
		for i, n := 0, rapid.IntRange(2, 5).Draw(t, "nuris"); i < n; i++ {
			s.Order = append(s.Order, rapid.IntRange(0, len(s.Sources)-1).Draw(t, "uri"))
		}
	}
	for range s.Order {
		s.Bare = append(s.Bare, rapid.IntRange(0, 3).Draw(t, "bare") == 0)
	}
	return s
}

// order is the URI list as indices (default: every source once).
func (s *MScript) order() []int {
	if len(s.Order) > 0 {
		return s.Order
	}
	o := make([]int, len(s.Sources))
	for i := range o {
		o[i] = i
	}
	return o
}

// refMerge is the reference: recursive, right-biased; maps merge key by key,
// everything else (scalars, nils, lists) is replaced by the later source.
func refMerge(dst, src map[string]any, stats map[string]int, depth int) {
	for k, sv := range src {
		dv, had := dst[k]
		sm, sIsMap := sv.(map[string]any)
		dm, dIsMap := dv.(map[string]any)
		switch {
		case had && sIsMap && dIsMap:
			stats["map-into-map"]++
			if depth+1 > stats["merge-depth"] {
				stats["merge-depth"] = depth + 1
			}
			refMerge(dm, sm, stats, depth+1)
			continue
		case had:
			_, sl := sv.([]any)
			_, dl := dv.([]any)
			switch {
			case sl && dl:
				stats["list-replaces-list"]++
			case dIsMap && sv == nil:
				stats["nil-replaces-map"]++
			case dIsMap:
				stats["scalar-or-list-replaces-map"]++
			case sIsMap:
				stats["map-replaces-scalar"]++
			default:
				stats["scalar-replaces-scalar"]++
			}
		default:
			stats["new-key"]++
		}
		dst[k] = deepCopy(sv)
	}
}

func deepCopy(v any) any {
	switch x := v.(type) {
	case map[string]any:
		m := make(map[string]any, len(x))
		for k, e := range x {
			m[k] = deepCopy(e)
		}
		return m
	case []any:
		l := make([]any, len(x))
		for i, e := range x {
			l[i] = deepCopy(e)
		}
		return l
	}
	return v
}

func countLeaves(v any) int {
	switch x := v.(type) {
	case map[string]any:
		n := 0
		for _, e := range x {
			n += countLeaves(e)
		}
		if n == 0 {
			return 1
		}
		return n
	}
	return 1
}

var cM = vt.New("C12", "merge")

func runM(s MScript) (nontrivial bool, key string, f *vt.Finding) {
	key = hashKey(s)
	cM.HangGuard(10*time.Second, s, "hang/merge", func() { nontrivial, f = judgeM(&s) })
	return nontrivial, key, f
}

func judgeM(s *MScript) (bool, *vt.Finding) {
	// what each source says, as the reference sees it
	var views []map[string]any
	var texts []string
	for _, n := range s.Sources {
		m, _ := n.value().(map[string]any)
		if m == nil {
			m = map[string]any{}
		}
		if s.Mode == "yaml" {
			b, err := yaml.Marshal(m)
			if err != nil {
				cM.Exclude("discard:yaml-marshal")
				return false, nil
			}
			var back any
			if err := yaml.Unmarshal(b, &back); err != nil {
				cM.Exclude("discard:yaml-unmarshal")
				return false, nil
			}
			bm, ok := back.(map[string]any)
			if !ok || !supportedDeep(back) {
				cM.Exclude("discard:yaml-shape")
				return false, nil
			}
			texts = append(texts, string(b))
			m = bm
		}
		views = append(views, m)
	}
	if !s.Probe {
		for _, v := range views {
			if _, top := v[""]; top {
				cM.Exclude("empty-top-level-key")
				return false, nil
			}
		}
	}
	stats := map[string]int{}
	want := map[string]any{}
	nonEmpty := 0
	order := s.order()
	for _, i := range order {
		if i < 0 || i >= len(views) {
			cM.Exclude("discard:bad-order")
			return false, nil
		}
	}
	// the reference merges the list AS GIVEN, repetitions included
	lastAt := map[int]int{}
	for pos, i := range order {
		if p, seen := lastAt[i]; seen {
			stats["repeated-source"] = 1
			if pos-p > 1 {
				stats["repeated-source-with-other-between"] = 1
			}
		}
		lastAt[i] = pos
	}
	for _, i := range order {
		v := views[i]
		if len(v) == 0 {
			stats["empty-source"]++
		} else {
			nonEmpty++
		}
		refMerge(want, v, stats, 0)
	}
	// run the real thing; every Retrieve hands out a fresh copy (Merge may modify its input)
	fac := factory("file", func(uri string) (*confmap.Retrieved, error) {
		var i int
		if _, err := fmt.Sscanf(uri, "file:s%d", &i); err != nil || i >= len(views) {
			return nil, fmt.Errorf("no source %q", uri)
		}
		switch {
		case s.Mode == "yaml":
			return confmap.NewRetrievedFromYAML([]byte(texts[i]))
		case s.Mode == "nil" && len(views[i]) == 0:
			return confmap.NewRetrieved(nil)
		}
		return confmap.NewRetrieved(deepCopy(views[i]))
	})
	var uris []string
	for pos, i := range order {
		if pos < len(s.Bare) && s.Bare[pos] {
			uris = append(uris, fmt.Sprintf("s%d", i)) // no scheme: "file"
			stats["bare-uri"] = 1
		} else {
			uris = append(uris, fmt.Sprintf("file:s%d", i))
		}
	}
	o := resolve(uris, "", []confmap.ProviderFactory{fac})
	var cls []string
	for k := range stats {
		if k != "merge-depth" {
			cls = append(cls, k)
		}
	}
	cls = append(cls, fmt.Sprintf("merge-depth:%d", stats["merge-depth"]), fmt.Sprintf("uris:%d", len(order)), "mode:"+s.Mode)
	sort.Strings(cls)
	cM.Class(cls...)
	overlap := stats["map-into-map"]+stats["list-replaces-list"]+stats["nil-replaces-map"]+stats["scalar-or-list-replaces-map"]+
		stats["map-replaces-scalar"]+stats["scalar-replaces-scalar"] > 0
	nontrivial := nonEmpty >= 2 && overlap
	desc := func() string {
		var b strings.Builder
		fmt.Fprintf(&b, " uri list %v;", uris)
		for i, v := range views {
			fmt.Fprintf(&b, " source s%d: %#v;", i, v)
		}
		return b.String()
	}
	if o.panicV != nil {
		return nontrivial, vt.Failf("panic/merge", "Resolve panicked: %v\n%s%s", o.panicV, short(o.stack, 1500), desc())
	}
	if o.err != nil {
		return nontrivial, vt.Failf("merge/error", "Resolve failed: %v;%s", o.err, desc())
	}
	if d := diffTree(want, o.tsm, ""); d != "" {
		sig := "merge/value"
		if _, top := want[""]; top {
			// listed finding: an empty top-level key is read back as the whole map
			sig = "empty-top-level-key"
		}
		ff := vt.Failf(sig, "resolved map is not the right-biased merge: %s; want %#v got %#v;%s", d, want, o.tsm, desc())
		if soft(cM, ff, *s) {
			return nontrivial, nil
		}
		return nontrivial, ff
	}
	// untouched keys survive / nothing is invented: same number of leaves
	if a, b := countLeaves(want), countLeaves(o.tsm); a != b {
		return nontrivial, vt.Failf("merge/value", "leaf count %d != %d;%s", b, a, desc())
	}
	return nontrivial, nil
}

func TestMerge(t *testing.T) {
	vt.Run(t, cM, vt.N(24000, 1500000), genM, runM)
}
