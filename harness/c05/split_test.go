package c05

import (
	"context"
	"errors"
	"fmt"
	"sort"
	"sync"
	"testing"
	"time"

	"pgregory.net/rapid"

	"go.opentelemetry.io/collector/component"
	"go.opentelemetry.io/collector/consumer/consumererror"
	"go.opentelemetry.io/collector/exporter/exporterhelper"
	"go.opentelemetry.io/collector/verifharness/pgen"
	"go.opentelemetry.io/collector/verifharness/sig"
	"go.opentelemetry.io/collector/verifharness/vt"
	"go.opentelemetry.io/collector/verifharness/xh"
)

// SScript: persistent queue + retry + a batcher whose max_size splits the one
// stored request into several parts that are exported one after the other.
// The backend's answer to a part is determined by the items it carries
// (Fates, indexed by item id-1), so parts of the same request end differently:
// some reach a final verdict (success, permanent error, retry budget
// exhausted), one is parked in a long retry wait when Shutdown arrives, the
// rest is tried once while the exporter drains.  The shutdown-interrupted
// part's error must still reach the persistent queue as shutdown-classified,
// i.e. the next incarnation must deliver every item that has no final verdict.
type SScript struct {
	Signal    string
	Payload   []byte
	Backoff   Backoff
	TimeoutMS int
	MaxSize   int // batcher max_size, in items
	Fates     []Fate
	DelayUS   int // between the parked attempt's signal and Shutdown
	LingerUS  int // how long the parked attempt stays in the backend after signalling
}

// Fate of the part that carries the item.  Precedence inside one part:
// park > exhaust > perm > flaky > ok.
type Fate struct {
	// ok | perm (permanent error) | exhaust (throttle delay beyond max_elapsed_time:
	// "no more retries left", a final non-shutdown verdict without any sleeping) |
	// flaky (K transient failures with the normal ms back-off, then success) |
	// park (transient failure asking for a 1-2 h wait, every time)
	Kind       string
	K          int
	ThrottleUS int64
	Wrap       int
}

const exhaustThrottle = 48 * time.Hour // > the 24 h budget used whenever a fate is "exhaust"

var cS = vt.New("C05", "shutdown-persist-split")

func genS(t *rapid.T) SScript {
	s := SScript{Signal: rapid.SampledFrom([]string{sig.Logs, sig.Logs, sig.Traces, sig.Metrics}).Draw(t, "signal")}
	o := pgen.Structural()
	o.MaxRes, o.MaxScope, o.MaxItems = 2, 2, 4
	n := -1
	for try := 0; try < 4 && n < 3; try++ { // prefer requests that hold several items
		var next int64 = 1
		b := sig.Gen(t, s.Signal, o, &next)
		if int(next-1) > n {
			s.Payload, n = b, int(next-1)
		}
	}
	s.Backoff = genBackoff(t)
	if s.Backoff.MaxElapsedMS != 0 {
		s.Backoff.MaxElapsedMS = farMS
	}
	if rapid.IntRange(0, 3).Draw(t, "timeout?") == 0 {
		s.TimeoutMS = rapid.IntRange(5, 40).Draw(t, "timeout_ms")
	}
	if n >= 2 && rapid.IntRange(0, 7).Draw(t, "split?") != 0 {
		s.MaxSize = rapid.IntRange(1, n-1).Draw(t, "max_size")
	} else {
		s.MaxSize = n + rapid.IntRange(1, 2).Draw(t, "max_size_above")
	}
	kinds := []string{"ok", "ok", "ok", "perm", "perm", "flaky", "flaky"}
	if s.Backoff.MaxElapsedMS != 0 {
		kinds = append(kinds, "exhaust", "exhaust")
	}
	park := -1
	if n > 0 && rapid.IntRange(0, 5).Draw(t, "control") != 0 {
		park = rapid.IntRange(0, n-1).Draw(t, "park_item")
	}
	for i := 0; i < n; i++ {
		f := Fate{Kind: rapid.SampledFrom(kinds).Draw(t, "fate"), Wrap: rapid.SampledFrom([]int{0, 0, 1, 2, 3}).Draw(t, "wrap")}
		if i == park {
			f.Kind = "park"
		}
		switch f.Kind {
		case "flaky":
			f.K = rapid.IntRange(1, 2).Draw(t, "k")
		case "park":
			f.ThrottleUS = int64(rapid.IntRange(3_600_000_000, 7_200_000_000).Draw(t, "long_throttle_us"))
		}
		s.Fates = append(s.Fates, f)
	}
	s.DelayUS = rapid.SampledFrom([]int{0, 0, 100, 1000, 3000}).Draw(t, "stop_delay_us")
	s.LingerUS = rapid.SampledFrom([]int{0, 0, 500, 3000}).Draw(t, "linger_us")
	return s
}

type partAttempt struct {
	key    string
	ids    []int64
	result string // ok | perm | exhaust | retryable | park
	at     time.Time
}

type splitWorld struct {
	s        *SScript
	healthy  bool // second incarnation: everything succeeds
	linger   time.Duration
	mu       sync.Mutex
	attempts []partAttempt
	perPart  map[string]int
	final    map[int64]bool
	reached  chan struct{} // a park attempt is about to return
	rOnce    sync.Once
	allFinal chan struct{} // every item has a final verdict
	aOnce    sync.Once
}

func newSplitWorld(s *SScript, healthy bool) *splitWorld {
	return &splitWorld{s: s, healthy: healthy, perPart: map[string]int{}, final: map[int64]bool{},
		reached: make(chan struct{}), allFinal: make(chan struct{})}
}

func wrapErr(err error, wrap int) error {
	switch wrap {
	case 1:
		return fmt.Errorf("backend said: %w", err)
	case 2:
		return errors.Join(errors.New("unrelated"), err)
	case 3:
		return errors.Join(err, errors.New("unrelated"))
	}
	return err
}

func (w *splitWorld) push(_ context.Context, v any) error {
	var ids []int64
	for _, it := range sig.Items(v) {
		ids = append(ids, it.ID)
	}
	sort.Slice(ids, func(i, j int) bool { return ids[i] < ids[j] })
	key := fmt.Sprint(ids)
	w.mu.Lock()
	n := w.perPart[key]
	w.perPart[key] = n + 1
	w.mu.Unlock()

	result, wrap := "ok", 0
	var throttle time.Duration
	if !w.healthy {
		rank := map[string]int{"ok": 0, "flaky": 1, "perm": 2, "exhaust": 3, "park": 4}
		best := Fate{Kind: "ok"}
		k := 0
		for _, id := range ids {
			if id < 1 || int(id) > len(w.s.Fates) {
				continue
			}
			f := w.s.Fates[id-1]
			if f.Kind == "flaky" && f.K > k {
				k = f.K
			}
			if rank[f.Kind] > rank[best.Kind] {
				best = f
			}
		}
		wrap = best.Wrap
		switch best.Kind {
		case "park":
			result, throttle = "park", time.Duration(best.ThrottleUS)*time.Microsecond
		case "exhaust":
			result, throttle = "exhaust", exhaustThrottle
		case "perm":
			result = "perm"
		case "flaky":
			if n < k {
				result = "retryable"
			}
		}
	}
	var err error
	switch result {
	case "park", "exhaust":
		err = wrapErr(exporterhelper.NewThrottleRetry(fmt.Errorf("backend busy for part %s", key), throttle), wrap)
	case "perm":
		err = wrapErr(consumererror.NewPermanent(fmt.Errorf("backend rejects part %s", key)), wrap)
	case "retryable":
		err = wrapErr(fmt.Errorf("backend hiccup #%d for part %s", n, key), wrap)
	}
	if result == "park" {
		w.rOnce.Do(func() { close(w.reached) })
		if w.linger > 0 {
			time.Sleep(w.linger)
		}
	}
	w.mu.Lock()
	w.attempts = append(w.attempts, partAttempt{key: key, ids: ids, result: result, at: time.Now()})
	if result == "ok" || result == "perm" || result == "exhaust" {
		for _, id := range ids {
			w.final[id] = true
		}
	}
	all := true
	for i := range w.s.Fates {
		if !w.final[int64(i+1)] {
			all = false
		}
	}
	w.mu.Unlock()
	if all {
		w.aOnce.Do(func() { close(w.allFinal) })
	}
	return err
}

func (w *splitWorld) snapshot() []partAttempt {
	w.mu.Lock()
	defer w.mu.Unlock()
	return append([]partAttempt(nil), w.attempts...)
}

func newSplit(s *SScript, w *splitWorld) (*xh.Exporter, *vt.Finding) {
	cfg := s.Backoff.config()
	if err := cfg.Validate(); err != nil {
		return nil, vt.Failf("harness/config", "generated retry config rejected: %v", err)
	}
	qcfg := exporterhelper.NewDefaultQueueConfig()
	qcfg.NumConsumers = 1
	qcfg.QueueSize = 100
	id := storageID
	qcfg.StorageID = &id
	if err := qcfg.Validate(); err != nil {
		return nil, vt.Failf("harness/config", "queue config rejected: %v", err)
	}
	bcfg := exporterhelper.NewDefaultBatcherConfig()
	bcfg.FlushTimeout = time.Hour
	bcfg.MinSize = 0
	bcfg.MaxSize = int64(s.MaxSize)
	if err := bcfg.Validate(); err != nil {
		return nil, vt.Failf("harness/config", "batcher config rejected: %v", err)
	}
	exp, err := xh.NewExporter(s.Signal, settings(), w.push,
		exporterhelper.WithRetry(cfg),
		exporterhelper.WithTimeout(exporterhelper.TimeoutConfig{Timeout: time.Duration(s.TimeoutMS) * time.Millisecond}),
		exporterhelper.WithQueue(qcfg),
		exporterhelper.WithBatcher(bcfg))
	if err != nil {
		return nil, vt.Failf("harness/new", "NewExporter: %v", err)
	}
	return exp, nil
}

func runS(s SScript) (nontrivial bool, key string, f *vt.Finding) {
	key = scriptKey(s)
	cS.HangGuard(150*time.Second, s, "hang/shutdown-persist-split", func() { nontrivial, f = runSInner(&s) })
	return nontrivial, key, f
}

func runSInner(s *SScript) (bool, *vt.Finding) {
	n := len(s.Fates)
	if n == 0 {
		cS.Class("empty-request")
		return false, nil
	}
	store := newMemStorage()
	host := &extHost{exts: map[component.ID]component.Component{storageID: store}}
	bg := context.Background()
	hasPark := false
	for _, f := range s.Fates {
		if f.Kind == "park" {
			hasPark = true
		}
	}

	// ---- incarnation 1
	w1 := newSplitWorld(s, false)
	w1.linger = time.Duration(s.LingerUS) * time.Microsecond
	exp1, f := newSplit(s, w1)
	if f != nil {
		return false, f
	}
	if err := exp1.Start(bg, host); err != nil {
		return false, vt.Failf("harness/start", "Start: %v", err)
	}
	if err := exp1.ConsumeBytes(bg, s.Payload); err != nil {
		return false, vt.Failf("harness/enqueue", "persistent queue refused the request: %v", err)
	}
	if hasPark {
		select {
		case <-w1.reached:
		case <-time.After(30 * time.Second):
			return false, vt.Failf("harness/park", "no part was parked within 30s (%d attempts)", len(w1.snapshot()))
		}
		time.Sleep(time.Duration(s.DelayUS) * time.Microsecond)
	} else {
		select {
		case <-w1.allFinal:
		case <-time.After(30 * time.Second):
			return false, vt.Failf("harness/verdict", "not every part reached a final outcome within 30s (%d attempts)", len(w1.snapshot()))
		}
	}
	sd0 := time.Now()
	if err := exp1.Shutdown(bg); err != nil {
		return false, vt.Failf("shutdown-error", "Shutdown: %v", err)
	}
	sdTook := time.Since(sd0)
	sdRet := time.Now()
	at1 := w1.snapshot()
	if hasPark && sdTook > promptness {
		return true, vt.Failf("shutdown-return-slow/timing", "Shutdown took %v while a part was parked in a retry wait", sdTook)
	}

	// per-part history of incarnation 1
	type hist struct {
		ids     []int64
		results []string
	}
	parts := map[string]*hist{}
	var order []string
	for _, a := range at1 {
		h, ok := parts[a.key]
		if !ok {
			h = &hist{ids: a.ids}
			parts[a.key] = h
			order = append(order, a.key)
		}
		if len(h.results) > 0 {
			switch last := h.results[len(h.results)-1]; last {
			case "ok":
				return true, vt.Failf("call-after-verdict/success", "part %s was sent again after it had succeeded", a.key)
			case "perm":
				return true, vt.Failf("call-after-verdict/permanent", "part %s was sent again after a permanent error", a.key)
			case "exhaust":
				return true, vt.Failf("retry-beyond-budget", "part %s was sent again although its failure asked for a %v wait and max_elapsed_time is %dms", a.key, exhaustThrottle, s.Backoff.MaxElapsedMS)
			case "park":
				return true, vt.Failf("attempt-after-shutdown", "part %s was sent again although its failure asked for a wait of several seconds that only Shutdown can have ended", a.key)
			}
		}
		h.results = append(h.results, a.result)
	}
	// ledger over items
	delivered1, final1 := map[int64]bool{}, map[int64]bool{}
	earlierFailedFinally, interrupted, interruptedAfterFinalFailure := false, false, false
	for _, k := range order {
		h := parts[k]
		switch last := h.results[len(h.results)-1]; last {
		case "ok":
			for _, id := range h.ids {
				delivered1[id], final1[id] = true, true
			}
		case "perm", "exhaust":
			for _, id := range h.ids {
				final1[id] = true
			}
			earlierFailedFinally = true
		default: // park / retryable: only Shutdown can have ended this part's retry loop
			interrupted = true
			if earlierFailedFinally {
				interruptedAfterFinalFailure = true
			}
		}
	}
	var pending []int64
	for i := 1; i <= n; i++ {
		if !final1[int64(i)] {
			pending = append(pending, int64(i))
		}
	}

	// ---- incarnation 2: same storage, healthy backend
	w2 := newSplitWorld(s, true)
	exp2, f := newSplit(s, w2)
	if f != nil {
		return false, f
	}
	if err := exp2.Start(bg, host); err != nil {
		return false, vt.Failf("harness/start", "Start (second incarnation): %v", err)
	}
	got := func() map[int64]bool {
		m := map[int64]bool{}
		for _, a := range w2.snapshot() {
			for _, id := range a.ids {
				m[id] = true
			}
		}
		return m
	}
	missing := func() []int64 {
		g := got()
		var out []int64
		for _, id := range pending {
			if !g[id] {
				out = append(out, id)
			}
		}
		return out
	}
	if len(pending) > 0 {
		deadline := time.Now().Add(30 * time.Second)
		for len(missing()) > 0 && time.Now().Before(deadline) {
			time.Sleep(500 * time.Microsecond)
		}
	} else {
		time.Sleep(30 * time.Millisecond)
	}
	if err := exp2.Shutdown(bg); err != nil {
		return false, vt.Failf("shutdown-error", "Shutdown (second incarnation): %v", err)
	}
	for _, a := range w1.snapshot() {
		if a.at.After(sdRet) {
			return true, vt.Failf("attempt-after-shutdown", "the first incarnation sent part %s after its Shutdown had returned", a.key)
		}
	}
	describeParts := func() string {
		out := ""
		for _, k := range order {
			out += fmt.Sprintf(" %s=%v", k, parts[k].results)
		}
		return out
	}
	nparts := len(order)
	if len(pending) > 0 {
		if m := missing(); len(m) > 0 {
			sg := "shutdown-lost-items/split"
			if nparts < 2 {
				sg = "shutdown-lost-request"
			}
			return true, vt.Failf(sg, "items %v had no final verdict when Shutdown interrupted the retry of their part (max_size %d, %d parts, history:%s), yet the next incarnation on the same storage did not deliver them (it delivered %d items; stored values: %d)",
				m, s.MaxSize, nparts, describeParts(), len(got()), len(store.values()))
		}
	} else if g := got(); len(g) > 0 {
		return true, vt.Failf("redelivered-after-verdict", "every part had reached a final verdict before the clean Shutdown (history:%s), yet the next incarnation delivered %d items again", describeParts(), len(g))
	}

	// classes
	cS.Class("signal:"+s.Signal, fmt.Sprintf("parts:%d", min(nparts, 5)))
	if len(pending) == 0 {
		cS.Class("control:all-parts-final")
		if earlierFailedFinally && len(delivered1) > 0 {
			cS.Class("control:mixed-success-and-final-failure")
		}
		return false, nil
	}
	cS.Class("redelivered")
	if interruptedAfterFinalFailure {
		cS.Class("interrupted-part-after-finally-failed-part")
	}
	if interrupted && len(delivered1) > 0 {
		cS.Class("interrupted-part-and-delivered-part")
	}
	for _, k := range order {
		h := parts[k]
		switch h.results[len(h.results)-1] {
		case "retryable":
			cS.Class("part-tried-once-while-draining")
		case "exhaust":
			cS.Class("part-exhausted-budget")
		case "perm":
			cS.Class("part-permanent")
		}
		if len(h.results) > 1 && h.results[len(h.results)-1] == "ok" {
			cS.Class("part-succeeded-after-retry")
		}
	}
	if s.LingerUS > s.DelayUS {
		cS.Class("shutdown-lands-inside-attempt")
	} else {
		cS.Class("shutdown-lands-in-wait")
	}
	return nparts >= 2, nil
}

func TestShutdownPersistSplit(t *testing.T) {
	vt.Run(t, cS, vt.N(1600, 80000), genS, runS)
}
