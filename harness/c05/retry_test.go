package c05

import (
	"context"
	"crypto/sha256"
	"encoding/json"
	"errors"
	"fmt"
	"math"
	"sync"
	"sync/atomic"
	"testing"
	"time"

	"pgregory.net/rapid"

	"go.opentelemetry.io/collector/component"
	"go.opentelemetry.io/collector/component/componenttest"
	"go.opentelemetry.io/collector/config/configretry"
	"go.opentelemetry.io/collector/consumer/consumererror"
	"go.opentelemetry.io/collector/consumer/consumererror/xconsumererror"
	"go.opentelemetry.io/collector/exporter"
	"go.opentelemetry.io/collector/exporter/exporterhelper"
	"go.opentelemetry.io/collector/exporter/exportertest"
	"go.opentelemetry.io/collector/pdata/plog"
	"go.opentelemetry.io/collector/pdata/pmetric"
	"go.opentelemetry.io/collector/pdata/pprofile"
	"go.opentelemetry.io/collector/pdata/ptrace"
	"go.opentelemetry.io/collector/verifharness/pgen"
	"go.opentelemetry.io/collector/verifharness/pview"
	"go.opentelemetry.io/collector/verifharness/sig"
	"go.opentelemetry.io/collector/verifharness/vt"
	"go.opentelemetry.io/collector/verifharness/xh"
)

func TestMain(m *testing.M) { vt.Main(m) }

// ---------------------------------------------------------------- script

// Backoff is the generated retry configuration.
type Backoff struct {
	Enabled      bool
	InitialUS    int64
	MultX100     int
	RandX100     int
	MaxIntUS     int64
	MaxElapsedMS int64 // 0 = no budget
}

func (b Backoff) config() configretry.BackOffConfig {
	c := configretry.NewDefaultBackOffConfig()
	c.Enabled = b.Enabled
	c.InitialInterval = time.Duration(b.InitialUS) * time.Microsecond
	c.Multiplier = float64(b.MultX100) / 100
	c.RandomizationFactor = float64(b.RandX100) / 100
	c.MaxInterval = time.Duration(b.MaxIntUS) * time.Microsecond
	c.MaxElapsedTime = time.Duration(b.MaxElapsedMS) * time.Millisecond
	return c
}

// interval is the reference (un-randomised) back-off interval before retry n+1
// (n = index of the failed attempt).
//
//   - multiplier >= 1: the documented envelope min(initial*multiplier^n, max_interval).
//   - multiplier == 0 (legal: configretry's TestZeroMultiplierIsValid): the documented product would be 0 from
//     the second retry on; what the pinned code does (retry_sender.go builds a backoff/v5 ExponentialBackOff
//     without Reset; NextBackOff re-seeds a zero interval from InitialInterval) is a CONSTANT back-off of
//     initial_interval.  That constant is the configured envelope.
//   - 0 < multiplier < 1: initial*multiplier^n (shrinking; max_interval can never be reached); when the product
//     truncates to 0 ns the library re-seeds it from initial_interval, which the reference follows.
func (b Backoff) interval(n int) time.Duration {
	initial := time.Duration(b.InitialUS) * time.Microsecond
	mult := float64(b.MultX100) / 100
	switch {
	case initial == 0:
		// initial_interval 0: every product is 0 (float arithmetic would give 0*Inf = NaN for a huge multiplier after
		// ~30 retries and the NaN guard below would wrongly substitute max_interval)
		return 0
	case mult == 0:
		return initial
	case mult < 1:
		cur := initial
		for i := 0; i < n; i++ {
			cur = time.Duration(float64(cur) * mult)
			if cur == 0 {
				cur = initial
			}
		}
		return cur
	}
	cur := float64(initial) * math.Pow(mult, float64(n))
	if mx := float64(b.MaxIntUS) * 1e3; cur > mx || math.IsInf(cur, 1) || math.IsNaN(cur) {
		cur = mx
	}
	return time.Duration(cur)
}

// Outcome is what the scripted backend does with one attempt.
type Outcome struct {
	OK bool
	// Expire: the attempt blocks until its context is done and fails with
	// ctx.Err() (only when the attempt context carries a deadline).
	Expire bool
	// Error decoration (failures only); any combination.
	Perm       bool
	Throttle   bool
	ThrottleUS int64
	Partial    bool
	Remaining  []byte // proto bytes of the data named as undelivered (Partial)
	Nest       int    // order in which the enabled decorations wrap each other
	Wrap       int    // 0 none, 1 fmt.Errorf("%w"), 2 errors.Join(x, err), 3 errors.Join(err, x)
	WorkUS     int    // how long the attempt itself takes
}

func (o Outcome) retryable() bool { return !o.OK && !o.Perm }

func (o Outcome) throttle() time.Duration {
	if o.OK || !o.Throttle {
		return 0
	}
	return time.Duration(o.ThrottleUS) * time.Microsecond
}

// Stop is an optional shutdown / cancellation arriving during the call.
type Stop struct {
	Kind string // shutdown | cancel
	// attempt: inside attempt At (before it returns); wait: DelayUS after attempt
	// At returned (i.e. during back-off At); timer: DelayUS after the call started.
	Mode    string
	At      int
	DelayUS int
}

// Script is one case.
type Script struct {
	Signal     string
	Payload    []byte
	Backoff    Backoff
	TimeoutMS  int // per-attempt timeout, 0 = none
	DeadlineMS int // request deadline, 0 = none
	Outcomes   []Outcome
	Stop       *Stop
	// Queue in front of the retry sender: "" none (the call returns the retry
	// sender's verdict) | "wfr" memory queue with wait_for_result (the request
	// context travels through the queue) | "batcher" the deprecated WithBatcher
	// without WithQueue (an implicit wait_for_result queue plus a pass-through
	// batcher) | "async" plain memory queue (the stored context is detached from
	// the producer's by design: its deadline / cancellation do not apply).
	Queue string `json:",omitempty"`
	// Prelude: an EARLIER request sent through the same exporter (same retry configuration) before the judged one.
	// The judged request is evaluated exactly as if it were the exporter's first: retry state is per request.
	Prelude *Prelude `json:",omitempty"`
}

// Prelude scripts the earlier request: Failures plain transient failures (the back-off interval escalates up to
// max_interval), then a final verdict (success, or a permanent error).  The backend answers it from its own counter
// (world.preN): Script.Outcomes index the attempts of the judged request only.
type Prelude struct {
	Failures  int
	FinalPerm bool
	// How the judged request is set up (informational; the oracle does not read it): "budget" max_elapsed_time just
	// above max_interval (fits the fresh first interval many times, not an escalated one), "deadline" a request
	// deadline between the two, "free" the generic draws.
	Variant string
}

func (s *Script) outcome(i int) Outcome {
	if i < len(s.Outcomes) {
		return s.Outcomes[i]
	}
	return Outcome{OK: true} // the backend recovers once the script is exhausted
}

// bounds returns the sound lower bound and the upper bound of the wait that
// follows failed attempt n.
func (s *Script) bounds(n int) (lo, hi time.Duration) {
	iv := float64(s.Backoff.interval(n))
	rf := float64(s.Backoff.RandX100) / 100
	lo = time.Duration(iv * (1 - rf))
	hi = time.Duration(iv*(1+rf)) + 2
	if th := s.outcome(n).throttle(); th > lo {
		lo = th
	}
	if th := s.outcome(n).throttle(); th > hi {
		hi = th
	}
	return lo, hi
}

// tolLo: slack subtracted from a lower bound on a wait.  Timers never fire
// early on the monotonic clock, so this only covers rounding.
func tolLo(lo time.Duration) time.Duration {
	t := lo / 4
	if t > time.Millisecond {
		t = time.Millisecond
	}
	return t
}

const (
	// A wait at least this long cannot elapse by accident.  (8-12 s was not enough: a machine-wide stall of 8 s was
	// observed at load average 140, in which a 1 ms timer took 8.05 s; the waits asked for are now 1-2 h, which
	// correct code never sleeps.)
	longWait   = 30 * time.Minute
	upperSlack = 30 * time.Second
	promptness = 30 * time.Second
	farMS      = 86_400_000 // 24 h: a budget / request deadline that is far even for the 1-2 h waits
	tolDL      = 100 * time.Microsecond
)

// ---------------------------------------------------------------- generator

func genBackoff(t *rapid.T) Backoff {
	b := Backoff{Enabled: true}
	b.InitialUS = int64(rapid.IntRange(1000, 5000).Draw(t, "initial_us"))
	// the whole range Validate accepts (>= 0): 0 (constant back-off), (0,1) (shrinking), exactly 1, the usual 1-3, large
	b.MultX100 = rapid.OneOf(
		rapid.SampledFrom([]int{100, 150, 200, 300}), rapid.IntRange(100, 300), rapid.IntRange(100, 300),
		rapid.Just(0), rapid.Just(0),
		rapid.IntRange(1, 99),
		rapid.SampledFrom([]int{100, 101, 1000, 100000, 1 << 40}),
	).Draw(t, "mult_x100")
	b.RandX100 = rapid.OneOf(rapid.SampledFrom([]int{0, 0, 25, 50}), rapid.IntRange(0, 50)).Draw(t, "rand_x100")
	b.MaxIntUS = int64(rapid.IntRange(int(b.InitialUS), 20000).Draw(t, "max_interval_us"))
	if rapid.IntRange(0, 9).Draw(t, "budget?") < 6 {
		// config validation wants max_elapsed_time >= max_interval (and >= initial_interval)
		minE := int((b.MaxIntUS + 999) / 1000)
		b.MaxElapsedMS = int64(rapid.OneOf(rapid.IntRange(minE, 40), rapid.IntRange(20, 200)).Draw(t, "max_elapsed_ms"))
	}
	return b
}

func genPayload(t *rapid.T, signal string) []byte {
	o := pgen.Structural()
	o.MaxRes, o.MaxScope, o.MaxItems = 2, 2, 4
	var b []byte
	for try := 0; try < 3; try++ { // prefer payloads that hold a few items
		var next int64 = 1
		b = sig.Gen(t, signal, o, &next)
		if next > 2 {
			break
		}
	}
	return b
}

// genOutcome draws one backend outcome; cur is the payload the attempt would
// receive (so that "remaining" is a subset of what was sent).
func genOutcome(t *rapid.T, signal string, cur *[]byte, canExpire, mustRetry bool) Outcome {
	o := Outcome{WorkUS: rapid.SampledFrom([]int{0, 0, 0, 200, 1500}).Draw(t, "work_us")}
	kinds := []string{"transient", "transient", "transient", "throttle", "throttle", "throttle", "partial", "partial", "partial", "composite", "composite", "composite"}
	if !mustRetry {
		kinds = append(kinds, "ok", "ok", "perm", "perm-composite")
	}
	if canExpire {
		kinds = append(kinds, "expire")
	}
	k := rapid.SampledFrom(kinds).Draw(t, "kind")
	switch k {
	case "ok":
		o.OK = true
		return o
	case "transient":
	case "perm":
		o.Perm = true
	case "throttle":
		o.Throttle = true
	case "partial":
		o.Partial = true
	case "expire":
		o.Expire = true
		o.Partial = rapid.IntRange(0, 3).Draw(t, "expire+partial") == 0
	case "composite":
		o.Throttle = true
		o.Partial = true
	case "perm-composite":
		o.Perm = true
		o.Throttle = rapid.Bool().Draw(t, "c.throttle")
		o.Partial = rapid.Bool().Draw(t, "c.partial")
	}
	if o.Throttle {
		o.ThrottleUS = int64(rapid.OneOf(rapid.Just(0), rapid.IntRange(100, 3000), rapid.IntRange(8000, 30000), rapid.IntRange(8000, 30000)).Draw(t, "throttle_us"))
	}
	if o.Partial {
		ids := idsOf(signal, *cur)
		switch rapid.IntRange(0, 9).Draw(t, "remaining-shape") {
		case 0: // names something that is not a subset at all
			o.Remaining = genPayload(t, signal)
		default:
			keep := map[int64]bool{}
			for _, id := range ids {
				if rapid.IntRange(0, 3).Draw(t, "keep") != 0 {
					keep[id] = true
				}
			}
			o.Remaining = subset(signal, *cur, keep, rapid.Bool().Draw(t, "prune"))
		}
		if o.Remaining == nil {
			o.Remaining = []byte{}
		}
		if !o.Perm {
			*cur = o.Remaining
		}
	}
	o.Nest = rapid.IntRange(0, 5).Draw(t, "nest")
	o.Wrap = rapid.SampledFrom([]int{0, 0, 1, 2, 3}).Draw(t, "wrap")
	return o
}

// zeroIntervalFailures: how long the scripted backend keeps failing in the shutdown-zero-interval mode (afterwards it
// recovers, so every case ends).  laterAttemptsAllowed: with a zero wait the timer of the wait and the stop signal are
// ready together and the select between them is a coin toss on the unchanged tree, so a few attempts can follow
// Shutdown; 40 in a row have probability 2^-40.
const (
	zeroIntervalFailures = 1500
	laterAttemptsAllowed = 40
)

func gen(t *rapid.T) Script {
	s := Script{Signal: rapid.SampledFrom([]string{sig.Logs, sig.Logs, sig.Traces, sig.Metrics, sig.Profiles}).Draw(t, "signal")}
	s.Payload = genPayload(t, s.Signal)
	s.Backoff = genBackoff(t)
	mode := rapid.SampledFrom([]string{"plain", "plain", "plain", "plain", "plain", "plain", "plain", "disabled", "shutdown", "shutdown", "shutdown-timer", "cancel", "shutdown-zero-interval", "prelude", "prelude", "prelude"}).Draw(t, "mode")
	if mode == "disabled" {
		s.Backoff.Enabled = false
	}
	if mode == "shutdown-zero-interval" {
		// initial_interval: 0 is legal (a retry without a wait): a backend that keeps failing transiently is
		// retried in a tight loop, and only Shutdown (a few ms later) can end it - there is no wait to interrupt,
		// the loop itself has to notice that the exporter is shutting down
		s.Backoff.InitialUS, s.Backoff.MaxIntUS, s.Backoff.MaxElapsedMS = 0, int64(rapid.SampledFrom([]int{0, 0, 1000}).Draw(t, "zmax_us")), 0
		s.Queue = rapid.SampledFrom([]string{"", "", "wfr", "async"}).Draw(t, "zqueue")
		for i := 0; i < zeroIntervalFailures; i++ {
			s.Outcomes = append(s.Outcomes, Outcome{})
		}
		s.Stop = &Stop{Kind: "shutdown", Mode: "timer", DelayUS: rapid.IntRange(300, 3000).Draw(t, "zstop_delay_us")}
		return s
	}
	if rapid.IntRange(0, 9).Draw(t, "timeout?") < 7 {
		s.TimeoutMS = rapid.IntRange(5, 40).Draw(t, "timeout_ms")
	}
	if rapid.Bool().Draw(t, "deadline?") {
		s.DeadlineMS = rapid.OneOf(rapid.IntRange(3, 40), rapid.IntRange(10, 250)).Draw(t, "deadline_ms")
	}
	s.Queue = rapid.SampledFrom([]string{"", "", "", "", "wfr", "wfr", "batcher", "async"}).Draw(t, "queue")
	cur := s.Payload
	if mode == "prelude" {
		genPrelude(t, &s)
		s.Outcomes = append(s.Outcomes, genOutcome(t, s.Signal, &cur, false, true))
		for i, n := 0, rapid.IntRange(0, 3).Draw(t, "tail"); i < n; i++ {
			s.Outcomes = append(s.Outcomes, genOutcome(t, s.Signal, &cur, s.TimeoutMS > 0 || s.DeadlineMS > 0, false))
		}
		return s
	}
	switch mode {
	case "shutdown":
		// Shutdown arrives in / right after attempt At, whose failure asks for a
		// wait that cannot elapse by accident; neither budget nor deadline is near.
		if s.Backoff.MaxElapsedMS != 0 {
			s.Backoff.MaxElapsedMS = farMS
		}
		if s.DeadlineMS != 0 {
			s.DeadlineMS = farMS
		}
		at := rapid.IntRange(0, 3).Draw(t, "stop_at")
		longInitial := at == 0 && rapid.Bool().Draw(t, "long-initial")
		for i := 0; i <= at; i++ {
			o := genOutcome(t, s.Signal, &cur, s.TimeoutMS > 0, true)
			if i < at && o.Throttle && o.ThrottleUS > 10000 {
				o.ThrottleUS = 10000
			}
			if i == at {
				if longInitial {
					s.Backoff.InitialUS = int64(rapid.IntRange(5_400_000_000, 7_200_000_000).Draw(t, "long_initial_us"))
					s.Backoff.MaxIntUS = s.Backoff.InitialUS
					if s.Backoff.RandX100 > 30 {
						s.Backoff.RandX100 = 30
					}
				} else {
					o.Throttle = true
					o.ThrottleUS = int64(rapid.IntRange(3_600_000_000, 7_200_000_000).Draw(t, "long_throttle_us"))
				}
			}
			s.Outcomes = append(s.Outcomes, o)
		}
		for i, n := 0, rapid.IntRange(0, 2).Draw(t, "tail"); i < n; i++ {
			s.Outcomes = append(s.Outcomes, genOutcome(t, s.Signal, &cur, false, false))
		}
		s.Stop = &Stop{Kind: "shutdown", Mode: rapid.SampledFrom([]string{"attempt", "wait", "wait"}).Draw(t, "stop_mode"), At: at,
			DelayUS: rapid.SampledFrom([]int{0, 0, 100, 1000, 3000}).Draw(t, "stop_delay_us")}
		return s
	}
	maxOut := 5
	if s.Backoff.MultX100 < 100 {
		maxOut = 8 // constant / shrinking back-off: cheap, and a wrong envelope only shows after several retries
	}
	n := rapid.IntRange(0, maxOut).Draw(t, "outcomes")
	for i := 0; i < n; i++ {
		s.Outcomes = append(s.Outcomes, genOutcome(t, s.Signal, &cur, s.TimeoutMS > 0 || s.DeadlineMS > 0, false))
	}
	switch mode {
	case "shutdown-timer":
		s.Stop = &Stop{Kind: "shutdown", Mode: "timer", DelayUS: rapid.IntRange(0, 20000).Draw(t, "stop_delay_us")}
	case "cancel":
		if rapid.Bool().Draw(t, "cancel-in-attempt") {
			s.Stop = &Stop{Kind: "cancel", Mode: "attempt", At: rapid.IntRange(0, 3).Draw(t, "stop_at")}
		} else {
			s.Stop = &Stop{Kind: "cancel", Mode: "timer", DelayUS: rapid.IntRange(0, 20000).Draw(t, "stop_delay_us")}
		}
	}
	return s
}

// genPrelude sets up a case with an earlier request on the same exporter.  The configuration is chosen so that the
// earlier request is cheap (initial_interval 1-2.5 ms, max_interval = k*initial with k in 4..8: at most ~5 waits of
// <= 20 ms) and escalates its interval to max_interval (multiplier^failures >= k); the judged request then fails
// retryably at least once.  In the "budget" / "deadline" variants the budget (deadline) of the judged request fits its
// own first back-off (initial*(1+rf)) several times over but not max_interval*(1-rf): whether the judged request is
// retried after its first failure is then a timing-free witness of retry state leaking from one request to the next.
func genPrelude(t *rapid.T, s *Script) {
	b := &s.Backoff
	b.Enabled = true
	b.InitialUS = int64(rapid.IntRange(1000, 2500).Draw(t, "p.initial_us"))
	b.MultX100 = rapid.SampledFrom([]int{150, 200, 200, 300, 400}).Draw(t, "p.mult_x100")
	b.RandX100 = rapid.SampledFrom([]int{0, 0, 10, 25}).Draw(t, "p.rand_x100")
	k := rapid.IntRange(4, 8).Draw(t, "p.max_over_initial")
	n := rapid.IntRange(2, 5).Draw(t, "p.failures")
	m := float64(b.MultX100) / 100
	for math.Pow(m, float64(n)) < float64(k) && n < 5 {
		n++
	}
	if p := math.Pow(m, float64(n)); p < float64(k) {
		k = int(p)
	}
	b.MaxIntUS = b.InitialUS * int64(k)
	minE := int((b.MaxIntUS + 999) / 1000)
	p := &Prelude{Failures: n, FinalPerm: rapid.IntRange(0, 2).Draw(t, "p.final-perm") == 0}
	p.Variant = rapid.SampledFrom([]string{"budget", "budget", "deadline", "free"}).Draw(t, "p.variant")
	switch p.Variant {
	case "budget":
		b.MaxElapsedMS = int64(minE + rapid.IntRange(0, 1).Draw(t, "p.budget_extra_ms"))
		s.DeadlineMS = 0
	case "deadline":
		b.MaxElapsedMS = 0
		lo := float64(b.MaxIntUS) * (1 - float64(b.RandX100)/100) / 1000 // ms: the shortest wait an escalated interval gives
		s.DeadlineMS = max(3, int(lo))
	default:
		b.MaxElapsedMS = 0
		if rapid.Bool().Draw(t, "p.budget?") {
			b.MaxElapsedMS = int64(rapid.IntRange(minE, 200).Draw(t, "p.max_elapsed_ms"))
		}
	}
	s.Queue = rapid.SampledFrom([]string{"", "", "", "wfr"}).Draw(t, "p.queue")
	s.Prelude = p
}

// ---------------------------------------------------------------- backend

type attempt struct {
	start, end time.Time
	tree       any
	dl         time.Time
	hasDL      bool
}

// world is the scripted backend plus everything it observed.
type world struct {
	s        *Script
	mu       sync.Mutex
	attempts []attempt
	// stop plumbing
	shutdown  func()        // idempotent
	cancel    func()        // idempotent
	reached   chan struct{} // closed when attempt Stop.At is about to return (mode wait)
	reachOnce sync.Once
	companion func(v any) (bool, error) // takes over payloads that belong to another request (shutdown-persist)
	queued    bool                      // a queue sits in front of the retry sender (attempts run on a consumer goroutine)
	linger    time.Duration             // extra time attempt Stop.At stays in the backend after signalling
	triggered atomic.Bool               // the stop action was started
	verdict   chan struct{}             // closed when an attempt ends with a final outcome (ok / permanent)
	verdOnce  sync.Once
	first     chan struct{} // closed at the first attempt
	firstOnce sync.Once
	prelude   atomic.Bool // the earlier request (Script.Prelude) is in flight: its attempts are answered from preN
	preN      int         // attempts of the earlier request seen so far
}

func newWorld(s *Script) *world {
	return &world{s: s, reached: make(chan struct{}), verdict: make(chan struct{}), first: make(chan struct{}),
		shutdown: func() {}, cancel: func() {}}
}

func (w *world) snapshot() []attempt {
	w.mu.Lock()
	defer w.mu.Unlock()
	return append([]attempt(nil), w.attempts...)
}

func (w *world) count() int {
	w.mu.Lock()
	defer w.mu.Unlock()
	return len(w.attempts)
}

func partialErr(signal string, err error, remaining []byte) error {
	v, derr := sig.Decode(signal, remaining)
	if derr != nil {
		panic(derr)
	}
	switch x := v.(type) {
	case plog.Logs:
		return consumererror.NewLogs(err, x)
	case ptrace.Traces:
		return consumererror.NewTraces(err, x)
	case pmetric.Metrics:
		return consumererror.NewMetrics(err, x)
	case pprofile.Profiles:
		return xconsumererror.NewProfiles(err, x)
	}
	panic("unknown signal")
}

var perms = map[int][][]int{
	1: {{0}},
	2: {{0, 1}, {1, 0}},
	3: {{0, 1, 2}, {0, 2, 1}, {1, 0, 2}, {1, 2, 0}, {2, 0, 1}, {2, 1, 0}},
}

// buildErr decorates base as the outcome says; the decorations wrap each other
// in the order selected by Nest (classification must look through the chain).
func buildErr(signal string, o Outcome, base error) error {
	var layers []func(error) error
	if o.Partial {
		layers = append(layers, func(e error) error { return partialErr(signal, e, o.Remaining) })
	}
	if o.Throttle {
		layers = append(layers, func(e error) error {
			return exporterhelper.NewThrottleRetry(e, time.Duration(o.ThrottleUS)*time.Microsecond)
		})
	}
	if o.Perm {
		layers = append(layers, func(e error) error { return consumererror.NewPermanent(e) })
	}
	err := base
	if n := len(layers); n > 0 {
		ps := perms[n]
		for _, i := range ps[o.Nest%len(ps)] {
			err = layers[i](err)
		}
	}
	switch o.Wrap {
	case 1:
		err = fmt.Errorf("backend said: %w", err)
	case 2:
		err = errors.Join(errors.New("unrelated"), err)
	case 3:
		err = errors.Join(err, errors.New("unrelated"))
	}
	return err
}

func (w *world) push(ctx context.Context, v any) error {
	if w.companion != nil {
		if handled, err := w.companion(v); handled {
			return err
		}
	}
	if p := w.s.Prelude; p != nil && w.prelude.Load() {
		// the earlier request: its own counter, nothing recorded in the judged request's trace
		w.mu.Lock()
		i := w.preN
		w.preN++
		w.mu.Unlock()
		switch {
		case i < p.Failures:
			return fmt.Errorf("earlier request: backend failure #%d", i)
		case p.FinalPerm:
			return consumererror.NewPermanent(errors.New("earlier request: rejected"))
		}
		return nil
	}
	start := time.Now()
	dl, has := ctx.Deadline()
	tree := pview.Of(v)
	w.mu.Lock()
	idx := len(w.attempts)
	w.attempts = append(w.attempts, attempt{start: start, tree: tree, dl: dl, hasDL: has})
	w.mu.Unlock()
	w.firstOnce.Do(func() { close(w.first) })
	o := w.s.outcome(idx)
	if o.WorkUS > 0 {
		time.Sleep(time.Duration(o.WorkUS) * time.Microsecond)
	}
	var err error
	if !o.OK {
		base := fmt.Errorf("backend failure #%d", idx)
		if o.Expire && has {
			<-ctx.Done()
			base = ctx.Err()
		}
		err = buildErr(w.s.Signal, o, base)
	}
	if st := w.s.Stop; st != nil && st.At == idx {
		switch st.Mode {
		case "attempt":
			w.triggered.Store(true)
			if st.Kind == "shutdown" {
				if w.queued {
					go w.shutdown() // Shutdown joins the queue consumer this attempt runs on
				} else {
					w.shutdown()
				}
			} else {
				w.cancel()
			}
		case "wait":
			w.reachOnce.Do(func() { close(w.reached) })
			if w.linger > 0 {
				time.Sleep(w.linger)
			}
		}
	}
	if !o.retryable() {
		defer w.verdOnce.Do(func() { close(w.verdict) })
	}
	end := time.Now()
	w.mu.Lock()
	w.attempts[idx].end = end
	w.mu.Unlock()
	return err
}

func settings() exporter.Settings {
	set := exportertest.NewNopSettings(xh.Type)
	set.ID = component.NewIDWithName(xh.Type, "c05") // fixed: a second incarnation must find the first one's storage
	return set
}

// ---------------------------------------------------------------- oracle

// trace is what one incarnation observed.
type trace struct {
	s        *Script
	attempts []attempt
	t0       time.Time // taken before the request was handed in
	haveRet  bool      // the verdict is observable (no queue)
	tRet     time.Time
	ret      error
	deadline time.Time // request deadline (zero: none)
	stopped  bool      // a shutdown / cancel was started during the call
	detached bool      // the request context does not reach the retry sender (plain async queue)
}

func describe(tr *trace) string {
	out := ""
	for i, a := range tr.attempts {
		out += fmt.Sprintf(" #%d[+%v..+%v]", i, a.start.Sub(tr.t0).Round(10*time.Microsecond), a.end.Sub(tr.t0).Round(10*time.Microsecond))
	}
	return out
}

// evalTrace evaluates the reference retry policy on an observed trace.
func evalTrace(c *vt.C, tr *trace) *vt.Finding {
	s := tr.s
	pv, err := sig.Decode(s.Signal, s.Payload)
	if err != nil {
		return vt.Failf("harness/payload", "%v", err)
	}
	exp := pview.Of(pv)
	T := time.Duration(s.TimeoutMS) * time.Millisecond
	maxE := time.Duration(s.Backoff.MaxElapsedMS) * time.Millisecond
	D := tr.deadline
	at := tr.attempts
	for i := range at {
		a := at[i]
		var lo, hi time.Duration
		if i > 0 {
			p := s.outcome(i - 1)
			prev := at[i-1]
			switch {
			case p.OK:
				return vt.Failf("call-after-verdict/success", "attempt %d was made after attempt %d succeeded;%s", i, i-1, describe(tr))
			case p.Perm:
				return vt.Failf("call-after-verdict/permanent", "attempt %d was made after attempt %d failed permanently (partial=%v throttle=%v nest=%d wrap=%d)", i, i-1, p.Partial, p.Throttle, p.Nest, p.Wrap)
			case !s.Backoff.Enabled:
				return vt.Failf("retry-while-disabled", "attempt %d was made although retry is disabled", i)
			}
			old := exp
			if p.Partial {
				rv, err := sig.Decode(s.Signal, p.Remaining)
				if err != nil {
					return vt.Failf("harness/payload", "%v", err)
				}
				exp = pview.Of(rv)
			}
			if !pview.Equal(a.tree, exp) {
				if p.Partial && pview.Equal(a.tree, old) {
					return vt.Failf("payload/partial-ignored", "attempt %d failed naming an undelivered subset (%d items, nest=%d wrap=%d throttle=%v) but attempt %d resent the previous payload", i-1, sig.Count(mustDecode(s.Signal, p.Remaining)), p.Nest, p.Wrap, p.Throttle, i)
				}
				return vt.Failf("payload/changed", "attempt %d carries a payload that is neither the subset named by attempt %d nor the previous payload: %s", i, i-1, pview.Diff(exp, a.tree))
			}
			lo, hi = s.bounds(i - 1)
			wait := a.start.Sub(prev.end)
			if wait < lo-tolLo(lo) {
				which := "backoff"
				if th := p.throttle(); th > 0 && th >= lo {
					which = "throttle"
				}
				return vt.Failf("wait-too-short/"+which, "wait before attempt %d was %v < lower bound %v (throttle %v, interval %v, rf %.2f);%s", i, wait, lo, p.throttle(), s.Backoff.interval(i-1), float64(s.Backoff.RandX100)/100, describe(tr))
			}
			if wait > hi+upperSlack {
				return vt.Failf("wait-too-long/timing", "wait before attempt %d was %v > upper bound %v + %v slack", i, wait, hi, upperSlack)
			}
			earliest := prev.end.Add(lo - tolLo(lo))
			if maxE > 0 && earliest.After(at[0].start.Add(maxE)) {
				return vt.Failf("retry-beyond-budget", "attempt %d was made although the earliest possible retry time (+%v) is past max_elapsed_time %v counted from the first attempt;%s", i, earliest.Sub(at[0].start), maxE, describe(tr))
			}
			if !D.IsZero() && !tr.detached && earliest.After(D) {
				return vt.Failf("retry-beyond-deadline", "attempt %d was made although the earliest possible retry time is %v past the request deadline;%s", i, earliest.Sub(D), describe(tr))
			}
		} else if !pview.Equal(a.tree, exp) {
			return vt.Failf("payload/changed", "first attempt does not carry the submitted payload: %s", pview.Diff(exp, a.tree))
		}
	}
	// per-attempt deadline (second pass, so that the retry clauses above are reported first)
	for i := range at {
		a := at[i]
		var lo time.Duration
		if i > 0 {
			lo, _ = s.bounds(i - 1)
		}
		if T > 0 {
			if !a.hasDL {
				return vt.Failf("attempt-deadline/missing", "attempt %d has no context deadline although timeout=%v", i, T)
			}
			low := tr.t0
			if i > 0 {
				low = at[i-1].end.Add(lo - tolLo(lo))
			}
			lowExp, upExp := low.Add(T), a.start.Add(T)
			if !D.IsZero() {
				if D.Before(lowExp) {
					lowExp = D
				}
				if D.Before(upExp) && !tr.detached { // detached: the statement does not say whether D applies; accept both
					upExp = D
				}
			}
			if a.dl.Before(lowExp.Add(-tolDL)) {
				if i > 0 && at[i-1].hasDL && a.dl.Equal(at[i-1].dl) {
					return vt.Failf("attempt-deadline/stale", "attempt %d carries the deadline of attempt %d (timeout %v is not per attempt)", i, i-1, T)
				}
				return vt.Failf("attempt-deadline/early", "attempt %d: context deadline is %v before min(request deadline, earliest start + timeout %v)", i, lowExp.Sub(a.dl), T)
			}
			if a.dl.After(upExp.Add(tolDL)) {
				return vt.Failf("attempt-deadline/late", "attempt %d: context deadline is %v after min(request deadline, attempt start + timeout %v)", i, a.dl.Sub(upExp), T)
			}
		} else if tr.detached {
			// no per-attempt timeout and a detached request context: nothing to assert
		} else if !D.IsZero() {
			if !a.hasDL || !a.dl.Equal(D) {
				return vt.Failf("attempt-deadline/request-deadline-lost", "attempt %d: context deadline (has=%v) is not the request deadline", i, a.hasDL)
			}
		} else if a.hasDL {
			return vt.Failf("attempt-deadline/unexpected", "attempt %d has a context deadline although neither timeout nor request deadline is set", i)
		}
	}
	if !tr.haveRet {
		return nil
	}
	if len(at) == 0 {
		if tr.stopped {
			return nil
		}
		return vt.Failf("no-attempt", "the call returned %v without any attempt", tr.ret)
	}
	li := len(at) - 1
	o := s.outcome(li)
	if o.OK && tr.ret != nil {
		return vt.Failf("verdict/error-after-success", "last attempt %d succeeded but the call returned %v", li, tr.ret)
	}
	if !o.OK && tr.ret == nil {
		return vt.Failf("verdict/nil-after-failure", "last attempt %d failed but the call returned nil", li)
	}
	if o.retryable() && s.Backoff.Enabled && !tr.stopped {
		lo, hi := s.bounds(li)
		latest := tr.tRet.Add(hi + time.Millisecond)
		budgetFits := maxE == 0 || !tr.t0.Add(maxE).Before(latest)
		deadlineFits := D.IsZero() || !D.Before(latest)
		if budgetFits && deadlineFits {
			return vt.Failf("gave-up-early", "the call gave up after retryable failure %d (%v) although the longest possible next wait %v fits the budget (max_elapsed %v, elapsed %v) and the deadline (left %v);%s", li, tr.ret, hi, maxE, tr.tRet.Sub(tr.t0), leftOf(D, tr.tRet), describe(tr))
		}
		earliest := at[li].end.Add(lo - tolLo(lo))
		decided := (maxE > 0 && earliest.After(at[0].start.Add(maxE))) || (!D.IsZero() && earliest.After(D))
		if !budgetFits {
			c.Class("stop:budget")
		}
		if !deadlineFits {
			c.Class("stop:deadline")
		}
		if !decided {
			c.Class("timing-indeterminate")
		}
	}
	return nil
}

func leftOf(d, now time.Time) string {
	if d.IsZero() {
		return "none"
	}
	return d.Sub(now).String()
}

func mustDecode(signal string, b []byte) any {
	v, err := sig.Decode(signal, b)
	if err != nil {
		panic(err)
	}
	return v
}

// ---------------------------------------------------------------- check 1

var cR = vt.New("C05", "retry-policy")

func scriptKey(v any) string {
	b, _ := json.Marshal(v)
	h := sha256.Sum256(b)
	return string(h[:])
}

func run(s Script) (nontrivial bool, key string, f *vt.Finding) {
	key = scriptKey(s)
	cR.HangGuard(90*time.Second, s, "hang/retry", func() { nontrivial, f = runInner(&s) })
	return nontrivial, key, f
}

func runInner(s *Script) (bool, *vt.Finding) {
	cfg := s.Backoff.config()
	if err := cfg.Validate(); err != nil {
		return false, vt.Failf("harness/config", "generated retry config rejected: %v", err)
	}
	w := newWorld(s)
	opts := []exporterhelper.Option{
		exporterhelper.WithRetry(cfg),
		exporterhelper.WithTimeout(exporterhelper.TimeoutConfig{Timeout: time.Duration(s.TimeoutMS) * time.Millisecond}),
	}
	switch s.Queue {
	case "wfr", "async":
		qcfg := exporterhelper.NewDefaultQueueConfig()
		qcfg.NumConsumers = 2
		qcfg.QueueSize = 10
		qcfg.WaitForResult = s.Queue == "wfr"
		if err := qcfg.Validate(); err != nil {
			return false, vt.Failf("harness/config", "queue config rejected: %v", err)
		}
		opts = append(opts, exporterhelper.WithQueue(qcfg))
	case "batcher":
		bcfg := exporterhelper.NewDefaultBatcherConfig()
		bcfg.FlushTimeout = time.Hour
		bcfg.MinSize = 0
		bcfg.MaxSize = 0
		if err := bcfg.Validate(); err != nil {
			return false, vt.Failf("harness/config", "batcher config rejected: %v", err)
		}
		opts = append(opts, exporterhelper.WithBatcher(bcfg))
	}
	w.queued = s.Queue != ""
	exp, err := xh.NewExporter(s.Signal, settings(), w.push, opts...)
	if err != nil {
		return false, vt.Failf("harness/new", "NewExporter: %v", err)
	}
	if err := exp.Start(context.Background(), componenttest.NewNopHost()); err != nil {
		return false, vt.Failf("harness/start", "Start: %v", err)
	}
	var sdOnce sync.Once
	var sdErr error
	var sdRet time.Time
	var sdMu sync.Mutex
	var sdDone atomic.Bool
	w.shutdown = func() {
		sdOnce.Do(func() {
			e := exp.Shutdown(context.Background())
			sdMu.Lock()
			sdErr, sdRet = e, time.Now()
			sdMu.Unlock()
			sdDone.Store(true)
		})
	}
	if p := s.Prelude; p != nil {
		// The earlier request, on a context of its own.  The call returns the retry sender's verdict (no queue, or a
		// wait_for_result queue under a context that never ends), so its retry loop is over when Consume returns.
		w.prelude.Store(true)
		perr := exp.Consume(context.Background(), mustDecode(s.Signal, s.Payload))
		w.prelude.Store(false)
		w.mu.Lock()
		seen := w.preN
		w.mu.Unlock()
		switch {
		case perr == nil:
			cR.Class("prelude:earlier-request-succeeded")
		case seen > p.Failures:
			cR.Class("prelude:earlier-request-rejected")
		default:
			cR.Class("prelude:earlier-request-out-of-budget")
		}
		cR.Class("prelude", "prelude:variant:"+p.Variant, fmt.Sprintf("prelude:earlier-failures:%d", min(seen, p.Failures)),
			fmt.Sprintf("prelude:max_interval/initial:%d", s.Backoff.MaxIntUS/s.Backoff.InitialUS))
	}
	ctx := context.Background()
	tr := &trace{s: s, haveRet: true, detached: s.Queue == "async"}
	if s.DeadlineMS > 0 {
		tr.deadline = time.Now().Add(time.Duration(s.DeadlineMS) * time.Millisecond)
		var cancel context.CancelFunc
		ctx, cancel = context.WithDeadline(ctx, tr.deadline)
		defer cancel()
	}
	if s.Stop != nil && s.Stop.Kind == "cancel" {
		var cancel context.CancelFunc
		ctx, cancel = context.WithCancel(ctx)
		w.cancel = cancel
		defer cancel()
	}
	payload := mustDecode(s.Signal, s.Payload)
	done := make(chan struct{})
	var helper sync.WaitGroup
	if st := s.Stop; st != nil && st.Mode != "attempt" {
		helper.Add(1)
		go func() {
			defer helper.Done()
			if st.Mode == "wait" {
				select {
				case <-w.reached:
				case <-done:
					return
				}
			} else if s.Queue != "" {
				// Component lifecycle: nothing is handed to an exporter that has been shut down (a wait_for_result
				// queue would block such a producer forever).  With a queue the random stop instant is therefore
				// counted from the moment the request is in flight, i.e. its first attempt has started.
				select {
				case <-w.first:
				case <-done:
					return
				}
			}
			select {
			case <-time.After(time.Duration(st.DelayUS) * time.Microsecond):
			case <-done:
				return
			}
			w.triggered.Store(true)
			if st.Kind == "shutdown" {
				w.shutdown()
			} else {
				w.cancel()
			}
		}()
	}
	tr.t0 = time.Now()
	tr.ret = exp.Consume(ctx, payload)
	tr.tRet = time.Now()
	// With a queue the call can return before the retry loop is over: always with the plain async queue, and in
	// the wait_for_result modes when the producer's context ended first (Offer then returns ctx.Err()).  If the
	// context is still alive here, Offer returned the consumer's result, i.e. the loop is over.
	if s.Queue == "async" || (s.Queue != "" && ctx.Err() != nil) {
		tr.haveRet = false
		// keep observing until the loop has visibly ended: a final outcome, a completed Shutdown, or silence for
		// longer than the longest possible next wait (observing for too short a time can only hide a violation)
		for hard := time.Now().Add(20 * time.Second); time.Now().Before(hard); time.Sleep(200 * time.Microsecond) {
			if settled(w, s, tr.tRet, &sdDone) {
				break
			}
		}
	}
	close(done)
	helper.Wait()
	tr.stopped = w.triggered.Load()
	n0 := w.count()
	w.shutdown()
	if sdErr != nil {
		return false, vt.Failf("shutdown-error", "Shutdown: %v", sdErr)
	}
	tr.attempts = w.snapshot()
	if tr.haveRet && len(tr.attempts) != n0 {
		return true, vt.Failf("call-after-return", "%d attempts were made after the call returned", len(tr.attempts)-n0)
	}

	// shutdown in / right after attempt At whose failure asked for a long wait
	if st := s.Stop; st != nil && st.Kind == "shutdown" && st.Mode != "timer" && tr.stopped && len(tr.attempts) > st.At {
		o := s.outcome(st.At)
		if lo, _ := s.bounds(st.At); o.retryable() && s.Backoff.Enabled && lo >= longWait {
			if len(tr.attempts) > st.At+1 {
				return true, vt.Failf("attempt-after-shutdown", "shutdown arrived (%s) at attempt %d, whose failure asked for a wait of at least %v, yet attempt %d was made;%s", st.Mode, st.At, lo, st.At+1, describe(tr))
			}
			if tr.haveRet && tr.ret == nil {
				return true, vt.Failf("verdict/nil-after-failure", "shutdown interrupted the wait after failed attempt %d but the call returned nil", st.At)
			}
			sdMu.Lock()
			late := tr.tRet.Sub(sdRet)
			sdMu.Unlock()
			if tr.haveRet && late > promptness {
				return true, vt.Failf("shutdown-return-slow/timing", "the call returned %v after Shutdown returned (wait asked for: %v)", late, lo)
			}
			cR.Class("shutdown-interrupts-wait:" + st.Mode)
		}
	}
	if st := s.Stop; st != nil && st.Kind == "shutdown" && s.Backoff.Enabled && s.Backoff.InitialUS == 0 && tr.stopped {
		sdMu.Lock()
		ret := sdRet
		sdMu.Unlock()
		later := 0
		for _, a := range tr.attempts {
			if !ret.IsZero() && a.start.After(ret) {
				later++
			}
		}
		cR.Class("shutdown-during-zero-interval-retrying")
		if later > laterAttemptsAllowed {
			return true, vt.Failf("retrying-continues-after-shutdown", "initial_interval 0, backend failing transiently: %d attempts were started after Shutdown had returned (%d attempts in all)", later, len(tr.attempts))
		}
	}
	if f := evalTrace(cR, tr); f != nil {
		return true, f
	}
	classify(cR, tr)
	return len(tr.attempts) >= 2, nil
}

// settled reports whether the retry loop behind a queue has visibly ended.
func settled(w *world, s *Script, tRet time.Time, sdDone *atomic.Bool) bool {
	select {
	case <-w.verdict:
		return true
	default:
	}
	if sdDone.Load() {
		return true
	}
	at := w.snapshot()
	n := len(at)
	if n == 0 {
		return time.Since(tRet) > 50*time.Millisecond
	}
	if at[n-1].end.IsZero() {
		return false
	}
	_, hi := s.bounds(n - 1)
	return time.Since(at[n-1].end) > hi+25*time.Millisecond
}

func classify(c *vt.C, tr *trace) {
	s := tr.s
	n := len(tr.attempts)
	qn := s.Queue
	if qn == "" {
		qn = "none"
	}
	c.Class("signal:"+s.Signal, fmt.Sprintf("attempts:%d", min(n, 7)), "queue:"+qn)
	if s.Backoff.Enabled && n >= 2 {
		switch m := s.Backoff.MultX100; {
		case m == 0:
			c.Class("multiplier:0(constant)")
			if n >= 4 {
				c.Class("multiplier:0(constant)/3+retries")
			}
		case m < 100:
			c.Class("multiplier:(0,1)")
		case m == 100:
			c.Class("multiplier:1")
		case m <= 300:
			c.Class("multiplier:(1,3]")
		default:
			c.Class("multiplier:>3")
		}
	}
	if s.Queue != "" && s.Queue != "async" {
		if !tr.haveRet {
			c.Class("queue:" + qn + "/producer-context-ended-first")
		}
		if !tr.deadline.IsZero() && n >= 2 {
			c.Class("queue:" + qn + "/retry-under-request-deadline")
		}
	}
	if !s.Backoff.Enabled {
		c.Class("retry-disabled")
		if n == 1 && !s.outcome(0).OK {
			c.Class("retry-disabled:single-failed-attempt")
		}
	}
	narrowed := false
	for i := 0; i < n; i++ {
		o := s.outcome(i)
		last := i == n-1
		switch {
		case o.OK:
			if i > 0 {
				c.Class("success-after-retry")
			}
		case o.Perm:
			c.Class("permanent-stop")
			if o.Partial || o.Throttle || o.Wrap != 0 {
				c.Class("permanent-stop:decorated")
			}
		}
		if last {
			break
		}
		// a retry followed attempt i
		lo, _ := s.bounds(i)
		if th := o.throttle(); th > 0 && th >= lo {
			c.Class("retry:throttle-wait")
		} else {
			c.Class("retry:backoff-wait")
		}
		if o.Partial {
			c.Class("retry:narrowed")
			if o.Throttle {
				c.Class("retry:narrowed+throttle")
			}
			if len(o.Remaining) == 0 || sig.Count(mustDecode(s.Signal, o.Remaining)) == 0 {
				c.Class("retry:narrowed-to-empty")
			}
			narrowed = true
		} else if narrowed {
			c.Class("retry:unchanged-after-narrowing")
		}
		if o.Expire && tr.attempts[i].hasDL {
			c.Class("retry:after-attempt-timeout")
		}
		if o.Wrap != 0 {
			c.Class("retry:wrapped-error")
		}
	}
	if n > 0 {
		if o := s.outcome(n - 1); o.Expire && tr.attempts[n-1].hasDL && !tr.deadline.IsZero() && !tr.attempts[n-1].end.Before(tr.deadline) {
			c.Class("request-deadline-expired-in-attempt")
		}
	}
	if p := s.Prelude; p != nil && n > 0 && s.outcome(0).retryable() {
		if n >= 2 {
			c.Class("prelude:judged-request-retried-after-first-failure")
			if p.Variant != "free" {
				c.Class("prelude:judged-request-retried-after-first-failure/" + p.Variant + "-between-fresh-and-escalated-interval")
			}
		} else {
			c.Class("prelude:judged-request-not-retried(budget/deadline/timeout)")
		}
	}
	if s.TimeoutMS > 0 {
		c.Class("per-attempt-timeout")
	}
	if !tr.deadline.IsZero() {
		c.Class("request-deadline")
	}
	if s.Backoff.MaxElapsedMS == 0 {
		c.Class("no-budget")
	}
	if st := s.Stop; st != nil {
		l := "stop:" + st.Kind + "/" + st.Mode
		if !tr.stopped {
			l += ":not-reached"
		}
		c.Class(l)
	}
}

func TestRetryPolicy(t *testing.T) {
	vt.Run(t, cR, vt.N(6400, 400000), gen, run)
}
