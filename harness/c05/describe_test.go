package c05

import (
	"encoding/json"
	"os"
	"path/filepath"
	"testing"

	"go.opentelemetry.io/collector/pdata/plog"
	"go.opentelemetry.io/collector/verifharness/pitems"
	"go.opentelemetry.io/collector/verifharness/pview"
	"go.opentelemetry.io/collector/verifharness/sig"
	"go.opentelemetry.io/collector/verifharness/vt"
)

// TestDescribe prints a replay script in readable form (debug aid):
// VT_DESCRIBE=<replay.json> go test -run TestDescribe -v
func TestDescribe(t *testing.T) {
	p := os.Getenv("VT_DESCRIBE")
	if p == "" {
		t.Skip()
	}
	var s PScript
	if _, err := vt.LoadReplay(p, &s); err != nil {
		t.Fatal(err)
	}
	t.Logf("signal=%s backoff=%+v timeout=%dms deadline=%dms stop=%+v linger=%dus", s.Signal, s.Backoff, s.TimeoutMS, s.DeadlineMS, s.Stop, s.LingerUS)
	t.Logf("payload: %d items\n%s", sig.Count(mustDecode(s.Signal, s.Payload)), pview.String(pview.Of(mustDecode(s.Signal, s.Payload))))
	for i, o := range s.Outcomes {
		lo, hi := s.bounds(i)
		rem := -1
		if o.Partial {
			rem = sig.Count(mustDecode(s.Signal, o.Remaining))
		}
		t.Logf("outcome %d: ok=%v expire=%v perm=%v throttle=%v(%dus) partial=%v(remaining items %d) nest=%d wrap=%d work=%dus  -> wait in [%v, %v]",
			i, o.OK, o.Expire, o.Perm, o.Throttle, o.ThrottleUS, o.Partial, rem, o.Nest, o.Wrap, o.WorkUS, lo, hi)
	}
}

func logsPayload(n int) []byte {
	ld := plog.NewLogs()
	rl := ld.ResourceLogs().AppendEmpty()
	rl.Resource().Attributes().PutStr("host", "h1")
	rl.SetSchemaUrl("https://example/schema/1")
	sl := rl.ScopeLogs().AppendEmpty()
	sl.Scope().SetName("scope")
	for i := 0; i < n; i++ {
		r := sl.LogRecords().AppendEmpty()
		r.Body().SetStr("record")
		r.SetSeverityNumber(plog.SeverityNumber(i + 1))
	}
	var next int64 = 1
	pitems.TagLogs(ld, &next)
	return sig.Encode(ld)
}

func companionLogs() []byte {
	ld := plog.NewLogs()
	r := ld.ResourceLogs().AppendEmpty().ScopeLogs().AppendEmpty().LogRecords().AppendEmpty()
	r.Body().SetStr("second request")
	var next int64 = companionBase
	pitems.TagLogs(ld, &next)
	return sig.Encode(ld)
}

// TestWriteReplays regenerates the curated replay files
// (VT_WRITE_REPLAYS=/verif/replays/C05 go test -run TestWriteReplays).
func TestWriteReplays(t *testing.T) {
	dir := os.Getenv("VT_WRITE_REPLAYS")
	if dir == "" {
		t.Skip()
	}
	full := logsPayload(4)
	rem2 := subset(sig.Logs, full, map[int64]bool{2: true, 4: true}, false)
	rem1 := subset(sig.Logs, rem2, map[int64]bool{4: true}, true)
	bo := Backoff{Enabled: true, InitialUS: 2000, MultX100: 200, RandX100: 0, MaxIntUS: 16000}
	write := func(name, check string, script any) {
		b, err := json.MarshalIndent(map[string]any{"property": "C05", "check": check, "script": script}, "", " ")
		if err != nil {
			t.Fatal(err)
		}
		if err := os.WriteFile(filepath.Join(dir, name), b, 0o644); err != nil {
			t.Fatal(err)
		}
	}
	// 1. two partial failures narrow the request twice, a plain failure keeps it, then success
	write("01-partial-narrowing.json", "retry-policy", Script{Signal: sig.Logs, Payload: full, Backoff: bo, TimeoutMS: 20,
		Outcomes: []Outcome{
			{Partial: true, Remaining: rem2, Wrap: 1},
			{Partial: true, Remaining: rem1, Throttle: true, ThrottleUS: 9000, Nest: 1},
			{},
			{OK: true},
		}})
	// 2. throttle delay far above the back-off interval, then a permanent error buried in the chain
	write("02-throttle-then-buried-permanent.json", "retry-policy", Script{Signal: sig.Logs, Payload: full, Backoff: bo,
		Outcomes: []Outcome{
			{Throttle: true, ThrottleUS: 25000, Wrap: 2},
			{Perm: true, Throttle: true, ThrottleUS: 1000, Partial: true, Remaining: rem2, Nest: 0, Wrap: 3},
			{OK: true},
		}})
	// 3. budget: 30ms, intervals 4,8,16,16...: must retry at least twice, cannot retry four times
	write("03-budget.json", "retry-policy", Script{Signal: sig.Logs, Payload: full,
		Backoff:  Backoff{Enabled: true, InitialUS: 4000, MultX100: 200, RandX100: 0, MaxIntUS: 16000, MaxElapsedMS: 30},
		Outcomes: []Outcome{{}, {}, {}, {}, {}, {}}})
	// 4. shutdown inside attempt 1, whose failure asks for a 10s wait
	write("04-shutdown-in-wait.json", "retry-policy", Script{Signal: sig.Logs, Payload: full, Backoff: bo, TimeoutMS: 20,
		Outcomes: []Outcome{{}, {Throttle: true, ThrottleUS: 3_600_000_000}, {OK: true}},
		Stop:     &Stop{Kind: "shutdown", Mode: "wait", At: 1, DelayUS: 500}})
	// 5. persistent queue: shutdown during the wait after a partial failure; next incarnation must redeliver
	write("05-persist-shutdown-in-wait.json", "shutdown-persist", PScript{Script: Script{Signal: sig.Logs, Payload: full, Backoff: bo,
		Outcomes: []Outcome{{Partial: true, Remaining: rem2}, {Throttle: true, ThrottleUS: 3_600_000_000}},
		Stop:     &Stop{Kind: "shutdown", Mode: "wait", At: 1, DelayUS: 300}}})
	// 7. far request deadline (must keep retrying) with a per-attempt timeout that expires twice
	write("07-far-deadline-attempt-timeouts.json", "retry-policy", Script{Signal: sig.Logs, Payload: full, Backoff: bo, TimeoutMS: 8, DeadlineMS: 60000,
		Outcomes: []Outcome{{Expire: true}, {}, {Expire: true, Partial: true, Remaining: rem2}, {OK: true}}})
	// 8. near request deadline: 25ms, intervals 4,8,16: the third retry cannot fit
	write("08-near-deadline.json", "retry-policy", Script{Signal: sig.Logs, Payload: full, DeadlineMS: 25,
		Backoff:  Backoff{Enabled: true, InitialUS: 4000, MultX100: 200, RandX100: 0, MaxIntUS: 16000},
		Outcomes: []Outcome{{}, {}, {}, {}, {}, {}}})
	// 9. persistent queue + batcher max_size 2: part {1,2} fails permanently, part {3,4} is parked when Shutdown arrives
	write("09-split-permanent-then-parked.json", "shutdown-persist-split", SScript{Signal: sig.Logs, Payload: full, Backoff: bo, MaxSize: 2,
		Fates: []Fate{{Kind: "perm", Wrap: 1}, {Kind: "ok"}, {Kind: "park", ThrottleUS: 3_600_000_000}, {Kind: "ok"}}, DelayUS: 300})
	// 10. same, the earlier part exhausts max_elapsed_time instead; a third part is tried once while draining
	write("10-split-exhausted-then-parked.json", "shutdown-persist-split", SScript{Signal: sig.Logs, Payload: logsPayload(6), MaxSize: 2,
		Backoff: Backoff{Enabled: true, InitialUS: 2000, MultX100: 200, RandX100: 0, MaxIntUS: 16000, MaxElapsedMS: farMS},
		Fates:   []Fate{{Kind: "ok"}, {Kind: "exhaust"}, {Kind: "park", ThrottleUS: 3_600_000_000}, {Kind: "ok"}, {Kind: "flaky", K: 1}, {Kind: "ok"}}, LingerUS: 500})
	// 11/12. near request deadline behind a wait_for_result queue / the legacy batcher: the deadline must still reach the retry sender
	for name, q := range map[string]string{"11-near-deadline-wait-for-result-queue.json": "wfr", "12-near-deadline-legacy-batcher.json": "batcher"} {
		write(name, "retry-policy", Script{Signal: sig.Logs, Payload: full, DeadlineMS: 25, Queue: q, TimeoutMS: 40,
			Backoff:  Backoff{Enabled: true, InitialUS: 4000, MultX100: 200, RandX100: 0, MaxIntUS: 16000},
			Outcomes: []Outcome{{}, {}, {}, {}, {}, {}}})
	}
	// 13. plain async queue: the producer's 5ms deadline does not apply, the retries go on until the backend recovers
	write("13-async-queue-detached-deadline.json", "retry-policy", Script{Signal: sig.Logs, Payload: full, DeadlineMS: 5, Queue: "async",
		Backoff:  Backoff{Enabled: true, InitialUS: 4000, MultX100: 200, RandX100: 0, MaxIntUS: 16000},
		Outcomes: []Outcome{{}, {Partial: true, Remaining: rem2}, {}, {OK: true}}})
	// 14. two consumers: one request parked in its back-off, a second one inside an attempt that succeeds 5ms after Shutdown was called
	write("14-persist-second-request-in-attempt.json", "shutdown-persist", PScript{Script: Script{Signal: sig.Logs, Payload: full, Backoff: bo,
		Outcomes: []Outcome{{}, {Throttle: true, ThrottleUS: 3_600_000_000}},
		Stop:     &Stop{Kind: "shutdown", Mode: "wait", At: 1, DelayUS: 300}},
		Companion: &Companion{Payload: companionLogs(), Outcome: "ok", ReleaseUS: 5000}})
	// 15. multiplier 0 is legal and means a constant back-off of initial_interval: 12 failures 4ms apart fit a 110ms budget
	// (an envelope that grows instead - 4,6,9,13.5,20,20,... - runs out of budget after 7 retries)
	write("15-zero-multiplier-constant-backoff.json", "retry-policy", Script{Signal: sig.Logs, Payload: full,
		Backoff:  Backoff{Enabled: true, InitialUS: 4000, MultX100: 0, RandX100: 0, MaxIntUS: 20000, MaxElapsedMS: 110},
		Outcomes: []Outcome{{}, {}, {}, {}, {}, {}, {}, {}, {}, {}, {}, {}}})
	// 16. multiplier 0.5: shrinking back-off 8,4,2,1,0.5ms
	write("16-multiplier-below-one.json", "retry-policy", Script{Signal: sig.Logs, Payload: full, DeadlineMS: 60000,
		Backoff:  Backoff{Enabled: true, InitialUS: 8000, MultX100: 50, RandX100: 0, MaxIntUS: 20000, MaxElapsedMS: 100},
		Outcomes: []Outcome{{}, {}, {}, {}, {}, {OK: true}}})
	// 6. persistent queue control: permanent error, clean shutdown, nothing may come back
	write("06-persist-permanent-control.json", "shutdown-persist", PScript{Script: Script{Signal: sig.Logs, Payload: full, Backoff: bo,
		Outcomes: []Outcome{{}, {Perm: true, Wrap: 1}}}})
}
