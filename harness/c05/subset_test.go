package c05

import (
	"go.opentelemetry.io/collector/pdata/pcommon"
	"go.opentelemetry.io/collector/pdata/plog"
	"go.opentelemetry.io/collector/pdata/pmetric"
	"go.opentelemetry.io/collector/pdata/pprofile"
	"go.opentelemetry.io/collector/pdata/ptrace"
	"go.opentelemetry.io/collector/verifharness/pitems"
	"go.opentelemetry.io/collector/verifharness/sig"
)

func idOf(m pcommon.Map) int64 {
	v, ok := m.Get(pitems.IDKey)
	if !ok || v.Type() != pcommon.ValueTypeInt {
		return -1
	}
	return v.Int()
}

// subset returns the proto bytes of the payload restricted to the items whose
// id is in keep (what a backend that accepted the other items would name as
// "remaining").  With prune, containers that became empty are dropped too.
func subset(signal string, b []byte, keep map[int64]bool, prune bool) []byte {
	v, err := sig.Decode(signal, b)
	if err != nil {
		panic(err)
	}
	drop := func(id int64) bool { return !keep[id] }
	switch x := v.(type) {
	case plog.Logs:
		x.ResourceLogs().RemoveIf(func(rl plog.ResourceLogs) bool {
			rl.ScopeLogs().RemoveIf(func(sl plog.ScopeLogs) bool {
				sl.LogRecords().RemoveIf(func(r plog.LogRecord) bool { return drop(idOf(r.Attributes())) })
				return prune && sl.LogRecords().Len() == 0
			})
			return prune && rl.ScopeLogs().Len() == 0
		})
	case ptrace.Traces:
		x.ResourceSpans().RemoveIf(func(rs ptrace.ResourceSpans) bool {
			rs.ScopeSpans().RemoveIf(func(ss ptrace.ScopeSpans) bool {
				ss.Spans().RemoveIf(func(s ptrace.Span) bool { return drop(idOf(s.Attributes())) })
				return prune && ss.Spans().Len() == 0
			})
			return prune && rs.ScopeSpans().Len() == 0
		})
	case pmetric.Metrics:
		x.ResourceMetrics().RemoveIf(func(rm pmetric.ResourceMetrics) bool {
			rm.ScopeMetrics().RemoveIf(func(sm pmetric.ScopeMetrics) bool {
				sm.Metrics().RemoveIf(func(m pmetric.Metric) bool {
					n := 0
					switch m.Type() {
					case pmetric.MetricTypeGauge:
						m.Gauge().DataPoints().RemoveIf(func(p pmetric.NumberDataPoint) bool { return drop(idOf(p.Attributes())) })
						n = m.Gauge().DataPoints().Len()
					case pmetric.MetricTypeSum:
						m.Sum().DataPoints().RemoveIf(func(p pmetric.NumberDataPoint) bool { return drop(idOf(p.Attributes())) })
						n = m.Sum().DataPoints().Len()
					case pmetric.MetricTypeHistogram:
						m.Histogram().DataPoints().RemoveIf(func(p pmetric.HistogramDataPoint) bool { return drop(idOf(p.Attributes())) })
						n = m.Histogram().DataPoints().Len()
					case pmetric.MetricTypeExponentialHistogram:
						m.ExponentialHistogram().DataPoints().RemoveIf(func(p pmetric.ExponentialHistogramDataPoint) bool { return drop(idOf(p.Attributes())) })
						n = m.ExponentialHistogram().DataPoints().Len()
					case pmetric.MetricTypeSummary:
						m.Summary().DataPoints().RemoveIf(func(p pmetric.SummaryDataPoint) bool { return drop(idOf(p.Attributes())) })
						n = m.Summary().DataPoints().Len()
					}
					return prune && n == 0
				})
				return prune && sm.Metrics().Len() == 0
			})
			return prune && rm.ScopeMetrics().Len() == 0
		})
	case pprofile.Profiles:
		x.ResourceProfiles().RemoveIf(func(rp pprofile.ResourceProfiles) bool {
			rp.ScopeProfiles().RemoveIf(func(sp pprofile.ScopeProfiles) bool {
				sp.Profiles().RemoveIf(func(p pprofile.Profile) bool {
					p.Sample().RemoveIf(func(s pprofile.Sample) bool {
						id := int64(-1)
						if s.Value().Len() == 1 {
							id = s.Value().At(0)
						}
						return drop(id)
					})
					return prune && p.Sample().Len() == 0
				})
				return prune && sp.Profiles().Len() == 0
			})
			return prune && rp.ScopeProfiles().Len() == 0
		})
	}
	return sig.Encode(v)
}

// idsOf lists the item ids of a payload in order.
func idsOf(signal string, b []byte) []int64 {
	var out []int64
	for _, it := range sig.ItemsOfBytes(signal, b) {
		out = append(out, it.ID)
	}
	return out
}
