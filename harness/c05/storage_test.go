package c05

import (
	"context"
	"sync"

	"go.opentelemetry.io/collector/component"
	"go.opentelemetry.io/collector/extension/xextension/storage"
)

// memStorage is a storage extension whose clients all share one in-memory map
// per (kind, component id, storage name); the map outlives the clients, which
// is what makes a second exporter "incarnation" see what the first one left.
type memStorage struct {
	component.StartFunc
	component.ShutdownFunc
	mu     sync.Mutex
	spaces map[string]map[string][]byte
}

func newMemStorage() *memStorage { return &memStorage{spaces: map[string]map[string][]byte{}} }

func (m *memStorage) GetClient(_ context.Context, kind component.Kind, id component.ID, name string) (storage.Client, error) {
	m.mu.Lock()
	defer m.mu.Unlock()
	k := kind.String() + "|" + id.String() + "|" + name
	sp, ok := m.spaces[k]
	if !ok {
		sp = map[string][]byte{}
		m.spaces[k] = sp
	}
	return &memClient{ext: m, data: sp}, nil
}

// values returns a copy of every stored value (all spaces).
func (m *memStorage) values() [][]byte {
	m.mu.Lock()
	defer m.mu.Unlock()
	var out [][]byte
	for _, sp := range m.spaces {
		for _, v := range sp {
			out = append(out, append([]byte(nil), v...))
		}
	}
	return out
}

type memClient struct {
	ext  *memStorage
	data map[string][]byte
}

func (c *memClient) Get(_ context.Context, key string) ([]byte, error) {
	c.ext.mu.Lock()
	defer c.ext.mu.Unlock()
	return c.get(key), nil
}

func (c *memClient) get(key string) []byte {
	v, ok := c.data[key]
	if !ok {
		return nil
	}
	return append([]byte{}, v...)
}

func (c *memClient) Set(_ context.Context, key string, value []byte) error {
	c.ext.mu.Lock()
	defer c.ext.mu.Unlock()
	c.data[key] = append([]byte{}, value...)
	return nil
}

func (c *memClient) Delete(_ context.Context, key string) error {
	c.ext.mu.Lock()
	defer c.ext.mu.Unlock()
	delete(c.data, key)
	return nil
}

func (c *memClient) Batch(_ context.Context, ops ...*storage.Operation) error {
	c.ext.mu.Lock()
	defer c.ext.mu.Unlock()
	for _, op := range ops {
		switch op.Type {
		case storage.Get:
			op.Value = c.get(op.Key)
		case storage.Set:
			c.data[op.Key] = append([]byte{}, op.Value...)
		case storage.Delete:
			delete(c.data, op.Key)
		}
	}
	return nil
}

func (c *memClient) Close(context.Context) error { return nil }

// extHost is a component.Host that offers the given extensions.
type extHost struct {
	exts map[component.ID]component.Component
}

func (h *extHost) GetExtensions() map[component.ID]component.Component { return h.exts }

var storageID = component.MustNewIDWithName("vtstorage", "mem")
