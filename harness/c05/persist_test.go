package c05

import (
	"context"
	"errors"
	"sync"
	"testing"
	"time"

	"pgregory.net/rapid"

	"go.opentelemetry.io/collector/component"
	"go.opentelemetry.io/collector/consumer/consumererror"
	"go.opentelemetry.io/collector/exporter/exporterhelper"
	"go.opentelemetry.io/collector/verifharness/pgen"
	"go.opentelemetry.io/collector/verifharness/pview"
	"go.opentelemetry.io/collector/verifharness/sig"
	"go.opentelemetry.io/collector/verifharness/vt"
	"go.opentelemetry.io/collector/verifharness/xh"
)

// PScript: an exporter with a persistent queue (fake storage extension) and
// retry.  Either the request is parked in a long retry wait when Shutdown
// arrives (Stop set), or - control - the sequence ends with a verdict before a
// clean Shutdown.  A second incarnation on the same storage then shows whether
// the queue kept the request.
type PScript struct {
	Script
	LingerUS int // how long the parked attempt stays in the backend after Shutdown was asked for
	// Companion: a second request (item ids >= 1001) handed in once the first one is parked; the exporter then
	// has two consumers.  Its first attempt is still inside the backend when Shutdown is called and is released
	// ReleaseUS later, i.e. normally after the parked request's wait was interrupted, and ends as Outcome says.
	Companion *Companion `json:",omitempty"`
}

// Companion is the second in-flight request of a shutdown-persist case.
type Companion struct {
	Payload   []byte
	Outcome   string // ok | perm | transient (transient: interrupted by the shutdown as well, must come back too)
	ReleaseUS int
}

const companionBase = 1001

func isCompanion(v any) bool {
	for _, it := range sig.Items(v) {
		if it.ID >= companionBase {
			return true
		}
	}
	return false
}

var cP = vt.New("C05", "shutdown-persist")

func genP(t *rapid.T) PScript {
	var s PScript
	s.Signal = rapid.SampledFrom([]string{sig.Logs, sig.Logs, sig.Traces, sig.Metrics, sig.Profiles}).Draw(t, "signal")
	s.Payload = genPayload(t, s.Signal)
	s.Backoff = genBackoff(t)
	if s.Backoff.MaxElapsedMS != 0 {
		s.Backoff.MaxElapsedMS = farMS
	}
	if rapid.Bool().Draw(t, "timeout?") {
		s.TimeoutMS = rapid.IntRange(5, 40).Draw(t, "timeout_ms")
	}
	cur := s.Payload
	control := rapid.IntRange(0, 4).Draw(t, "control") == 0
	at := rapid.IntRange(0, 3).Draw(t, "park_at")
	longInitial := !control && at == 0 && rapid.Bool().Draw(t, "long-initial")
	for i := 0; i <= at; i++ {
		if control && i == at {
			o := Outcome{OK: rapid.Bool().Draw(t, "final-ok")}
			if !o.OK {
				o.Perm = true
				o.Wrap = rapid.IntRange(0, 3).Draw(t, "wrap")
			}
			s.Outcomes = append(s.Outcomes, o)
			break
		}
		o := genOutcome(t, s.Signal, &cur, s.TimeoutMS > 0, true)
		if o.Throttle && o.ThrottleUS > 10000 {
			o.ThrottleUS = 10000
		}
		if !control && i == at {
			if longInitial {
				s.Backoff.InitialUS = int64(rapid.IntRange(5_400_000_000, 7_200_000_000).Draw(t, "long_initial_us"))
				s.Backoff.MaxIntUS = s.Backoff.InitialUS
				if s.Backoff.RandX100 > 30 {
					s.Backoff.RandX100 = 30
				}
			} else {
				o.Throttle = true
				o.ThrottleUS = int64(rapid.IntRange(3_600_000_000, 7_200_000_000).Draw(t, "long_throttle_us"))
			}
		}
		s.Outcomes = append(s.Outcomes, o)
	}
	if !control {
		s.Stop = &Stop{Kind: "shutdown", Mode: "wait", At: at, DelayUS: rapid.SampledFrom([]int{0, 0, 100, 1000, 3000}).Draw(t, "stop_delay_us")}
		s.LingerUS = rapid.SampledFrom([]int{0, 0, 500, 3000}).Draw(t, "linger_us")
		if rapid.IntRange(0, 2).Draw(t, "companion?") == 0 {
			o := pgen.Structural()
			o.MaxRes, o.MaxScope, o.MaxItems = 2, 2, 3
			for try := 0; try < 4; try++ {
				var next int64 = companionBase
				b := sig.Gen(t, s.Signal, o, &next)
				if next > companionBase {
					s.Companion = &Companion{Payload: b,
						Outcome:   rapid.SampledFrom([]string{"ok", "ok", "perm", "transient"}).Draw(t, "companion_outcome"),
						ReleaseUS: rapid.SampledFrom([]int{2000, 5000, 10000}).Draw(t, "release_us")}
					break
				}
			}
		}
	}
	return s
}

func runP(s PScript) (nontrivial bool, key string, f *vt.Finding) {
	key = scriptKey(s)
	cP.HangGuard(150*time.Second, s, "hang/shutdown-persist", func() { nontrivial, f = runPInner(&s) })
	return nontrivial, key, f
}

func newQueued(s *Script, w *world, consumers int) (*xh.Exporter, *vt.Finding) {
	cfg := s.Backoff.config()
	if err := cfg.Validate(); err != nil {
		return nil, vt.Failf("harness/config", "generated retry config rejected: %v", err)
	}
	qcfg := exporterhelper.NewDefaultQueueConfig()
	qcfg.NumConsumers = consumers
	qcfg.QueueSize = 100
	id := storageID
	qcfg.StorageID = &id
	if err := qcfg.Validate(); err != nil {
		return nil, vt.Failf("harness/config", "queue config rejected: %v", err)
	}
	exp, err := xh.NewExporter(s.Signal, settings(), w.push,
		exporterhelper.WithRetry(cfg),
		exporterhelper.WithTimeout(exporterhelper.TimeoutConfig{Timeout: time.Duration(s.TimeoutMS) * time.Millisecond}),
		exporterhelper.WithQueue(qcfg))
	if err != nil {
		return nil, vt.Failf("harness/new", "NewExporter: %v", err)
	}
	return exp, nil
}

func runPInner(s *PScript) (bool, *vt.Finding) {
	store := newMemStorage()
	host := &extHost{exts: map[component.ID]component.Component{storageID: store}}
	bg := context.Background()

	// ---- incarnation 1
	w1 := newWorld(&s.Script)
	w1.linger = time.Duration(s.LingerUS) * time.Microsecond
	consumers := 1
	comp := s.Companion
	if s.Stop == nil {
		comp = nil
	}
	var compMu sync.Mutex
	compAttempts, compDelivered := 0, 0
	compIn, compRelease := make(chan struct{}), make(chan struct{})
	if comp != nil {
		consumers = 2
		w1.companion = func(v any) (bool, error) {
			if !isCompanion(v) {
				return false, nil
			}
			compMu.Lock()
			compAttempts++
			first := compAttempts == 1
			compMu.Unlock()
			if first {
				close(compIn)
				<-compRelease
			}
			switch comp.Outcome {
			case "perm":
				return true, consumererror.NewPermanent(errors.New("backend rejects the companion request"))
			case "transient":
				return true, errors.New("backend hiccup for the companion request")
			}
			return true, nil
		}
	}
	exp1, f := newQueued(&s.Script, w1, consumers)
	if f != nil {
		return false, f
	}
	if err := exp1.Start(bg, host); err != nil {
		return false, vt.Failf("harness/start", "Start: %v", err)
	}
	tr := &trace{s: &s.Script, t0: time.Now()}
	if err := exp1.ConsumeBytes(bg, s.Payload); err != nil {
		return false, vt.Failf("harness/enqueue", "persistent queue refused the request: %v", err)
	}
	parked := s.Stop != nil
	if parked {
		select {
		case <-w1.reached:
		case <-time.After(30 * time.Second):
			return false, vt.Failf("harness/park", "attempt %d was not reached within 30s (%d attempts)", s.Stop.At, w1.count())
		}
		time.Sleep(time.Duration(s.Stop.DelayUS) * time.Microsecond)
	} else {
		select {
		case <-w1.verdict:
		case <-time.After(30 * time.Second):
			return false, vt.Failf("harness/verdict", "no final outcome within 30s (%d attempts)", w1.count())
		}
	}
	tr.stopped = parked
	var sdTook time.Duration
	if comp != nil {
		// second request: in flight (inside its attempt) while the first one sits in its back-off
		if err := exp1.ConsumeBytes(bg, comp.Payload); err != nil {
			return false, vt.Failf("harness/enqueue", "persistent queue refused the companion request: %v", err)
		}
		select {
		case <-compIn:
		case <-time.After(30 * time.Second):
			return false, vt.Failf("harness/companion", "the companion request was not attempted within 30s")
		}
		sdErr := make(chan error, 1)
		go func() { sdErr <- exp1.Shutdown(bg) }() // blocks until the companion's attempt is released
		time.Sleep(time.Duration(comp.ReleaseUS) * time.Microsecond)
		rel := time.Now()
		close(compRelease)
		if err := <-sdErr; err != nil {
			return false, vt.Failf("shutdown-error", "Shutdown: %v", err)
		}
		sdTook = time.Since(rel)
	} else {
		sd0 := time.Now()
		if err := exp1.Shutdown(bg); err != nil {
			return false, vt.Failf("shutdown-error", "Shutdown: %v", err)
		}
		sdTook = time.Since(sd0)
	}
	n1 := w1.count()
	lo := time.Duration(0)
	if parked {
		lo, _ = s.bounds(s.Stop.At)
		if n1 > s.Stop.At+1 {
			return true, vt.Failf("attempt-after-shutdown", "shutdown arrived during the wait (>= %v) after failed attempt %d, yet attempt %d was made", lo, s.Stop.At, s.Stop.At+1)
		}
		if sdTook > promptness {
			return true, vt.Failf("shutdown-return-slow/timing", "Shutdown took %v while a request was parked in a retry wait of >= %v", sdTook, lo)
		}
	}

	// ---- incarnation 2: same storage, healthy backend
	s2 := Script{Signal: s.Signal, Payload: s.Payload, Backoff: s.Backoff, TimeoutMS: s.TimeoutMS}
	w2 := newWorld(&s2)
	if comp != nil {
		w2.companion = func(v any) (bool, error) {
			if !isCompanion(v) {
				return false, nil
			}
			compMu.Lock()
			compDelivered++
			compMu.Unlock()
			return true, nil
		}
	}
	compBack := func() int {
		compMu.Lock()
		defer compMu.Unlock()
		return compDelivered
	}
	compPending := comp != nil && comp.Outcome == "transient"
	exp2, f := newQueued(&s2, w2, consumers)
	if f != nil {
		return false, f
	}
	if err := exp2.Start(bg, host); err != nil {
		return false, vt.Failf("harness/start", "Start (second incarnation): %v", err)
	}
	if parked {
		select {
		case <-w2.first:
			for limit := time.Now().Add(30 * time.Second); compPending && compBack() == 0 && time.Now().Before(limit); {
				time.Sleep(500 * time.Microsecond)
			}
			// leave a little room for a duplicate to show up
			time.Sleep(2 * time.Millisecond)
		case <-time.After(30 * time.Second):
		}
	} else {
		select {
		case <-w2.first:
		case <-time.After(30 * time.Millisecond):
		}
	}
	if err := exp2.Shutdown(bg); err != nil {
		return false, vt.Failf("shutdown-error", "Shutdown (second incarnation): %v", err)
	}
	if n := w1.count(); n != n1 {
		return true, vt.Failf("attempt-after-shutdown", "%d attempts were made by the first incarnation after its Shutdown returned", n-n1)
	}
	tr.attempts = w1.snapshot()
	if f := evalTrace(cP, tr); f != nil {
		return true, f
	}
	re := w2.snapshot()
	orig := pview.Of(mustDecode(s.Signal, s.Payload))
	if !parked {
		if len(re) != 0 {
			return true, vt.Failf("redelivered-after-verdict", "the request reached a final outcome (ok=%v) in attempt %d, yet the next incarnation delivered it again", s.outcome(n1-1).OK, n1-1)
		}
		cP.Class("control:verdict-then-clean-shutdown", "signal:"+s.Signal)
		return false, nil
	}
	if comp != nil {
		switch back := compBack(); {
		case compPending && back == 0:
			return true, vt.Failf("shutdown-lost-request", "the companion request failed transiently while the exporter was shutting down (its retry was interrupted), yet the next incarnation did not deliver it")
		case !compPending && back > 0:
			return true, vt.Failf("redelivered-after-verdict", "the companion request ended with a final outcome (%s) during shutdown, yet the next incarnation delivered it again", comp.Outcome)
		}
	}
	if len(re) == 0 && comp != nil {
		return true, vt.Failf("shutdown-lost-request/other-request-in-flight", "Shutdown interrupted the retry wait (>= %v) after failed attempt %d of one request while another request was inside an attempt that ended (%s) %dus after Shutdown was called; the next incarnation on the same storage did not deliver the interrupted request (stored values: %d)", lo, s.Stop.At, comp.Outcome, comp.ReleaseUS, len(store.values()))
	}
	if len(re) == 0 {
		return true, vt.Failf("shutdown-lost-request", "Shutdown interrupted the retry wait (>= %v) after failed attempt %d (%d attempts made); the next incarnation on the same storage did not deliver the request (stored values: %d)", lo, s.Stop.At, n1, len(store.values()))
	}
	// what is redelivered must be the stored request: the submitted payload, or
	// the narrowed remainder if the queue had updated it.
	rem := orig
	for i := 0; i < n1; i++ {
		if o := s.outcome(i); o.Partial && o.retryable() {
			rem = pview.Of(mustDecode(s.Signal, o.Remaining))
		}
	}
	for i, a := range re {
		switch {
		case pview.Equal(a.tree, orig):
			if !pview.Equal(orig, rem) {
				cP.Class("redelivery:full-request-after-partial")
			}
		case pview.Equal(a.tree, rem):
			cP.Class("redelivery:narrowed")
		default:
			return true, vt.Failf("redelivery/payload", "delivery %d of the next incarnation is neither the submitted request nor its undelivered remainder: %s", i, pview.Diff(orig, a.tree))
		}
	}
	cP.Class("parked:"+map[bool]string{true: "long-initial", false: "long-throttle"}[s.Backoff.InitialUS >= 1_000_000],
		"signal:"+s.Signal, "redelivered", "parked-at:"+string(rune('0'+s.Stop.At)))
	if len(re) > 1 {
		cP.Class("redelivery:more-than-once")
	}
	if comp != nil {
		cP.Class("second-request-in-attempt-at-shutdown:" + comp.Outcome)
	}
	if s.LingerUS > s.Stop.DelayUS {
		cP.Class("shutdown-lands-inside-attempt")
	} else {
		cP.Class("shutdown-lands-in-wait")
	}
	return true, nil
}

func TestShutdownPersist(t *testing.T) {
	vt.Run(t, cP, vt.N(1600, 80000), genP, runP)
}
