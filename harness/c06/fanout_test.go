package c06

import (
	"context"
	"crypto/sha256"
	"encoding/json"
	"errors"
	"fmt"
	"go.opentelemetry.io/collector/consumer/consumererror"
	"sync"
	"testing"

	"pgregory.net/rapid"

	"go.opentelemetry.io/collector/pipeline"
	"go.opentelemetry.io/collector/verifharness/pgen"
	"go.opentelemetry.io/collector/verifharness/pview"
	"go.opentelemetry.io/collector/verifharness/sig"
	"go.opentelemetry.io/collector/verifharness/vt"
)

func TestMain(m *testing.M) { vt.Main(m) }

// Cons is one leaf consumer behind the fan-out.
type Cons struct {
	// Mutates is the declared capability.
	Mutates bool `json:"mut"`
	// Sync is run on the received payload before ConsumeX returns, Async in a
	// goroutine afterwards (declared mutators only).
	Sync  []Op `json:"sync,omitempty"`
	Async []Op `json:"async,omitempty"`
	// Gate schedules the asynchronous program: -1 = the goroutine runs freely
	// from the moment ConsumeX returns (joined before the final comparison);
	// g >= 0 = the goroutine is parked and runs, to completion, right before the
	// (g+1)-th later consumer invocation looks at its payload — or after the
	// fan-out call returned when there is no such invocation.
	Gate int `json:"gate,omitempty"`
	// Fail: ConsumeX returns this consumer's own error value (Wrap: wrapped with %w).
	Fail bool `json:"fail,omitempty"`
	Wrap bool `json:"wrap,omitempty"`
	// ErrKind: what else the returned error is (it always satisfies errors.Is(result, the leaf's own value)):
	// "" | deadline | canceled (it wraps a context error of the CONSUMER's own making - an export timeout, a
	// component shutting down - while the fan-out's context is alive) | permanent | joined
	ErrKind string `json:"err_kind,omitempty"`
	// Undeclared is a mutation attempt of a consumer that did NOT declare
	// MutatesData (every step is tried separately, panics are recovered).
	Undeclared []Op `json:"undeclared,omitempty"`
}

// Member is one consumer handed to the fan-out under test: a leaf, or an
// inner fanoutconsumer over several leaves (as the graph nests them).
type Member struct {
	Leaves []int `json:"leaves"`
	Wrap   bool  `json:"wrap,omitempty"`
}

// FanScript is one layer-1 case.
type FanScript struct {
	Signal  string `json:"signal"`
	Payload []byte `json:"payload"`
	// Pre is applied by the harness to the decoded payload before it is sent
	// (in-memory shapes a decoder never produces: spare capacity, moved elements).
	Pre      []Op `json:"pre,omitempty"`
	ReadOnly bool `json:"readonly,omitempty"`
	// Via: fanout (fanoutconsumer.NewX) | router-all (connector.NewXRouter(m).ConsumeX)
	// | router-pick (connector.NewXRouter(m).Consumer(ids...)).
	Via string `json:"via"`
	// Pick (router-pick only): the ids handed to Consumer(ids...), as member
	// indexes.  An index may be repeated; an index >= len(Layout) names a
	// pipeline of the right signal that is not attached to the router.
	Pick   []int    `json:"pick,omitempty"`
	Cons   []Cons   `json:"cons"`
	Layout []Member `json:"layout"`
}

var cFan = vt.New("C06", "fanout-isolation")

func init() { cFan.ReplayRepeat = 20 } // router-all iterates a Go map: invocation order varies

func smallOpts() pgen.Opts {
	return pgen.Opts{MaxRes: 2, MaxScope: 2, MaxItems: 3, MaxList: 2, MaxAttr: 3, ValDepth: 2, PSet: 50, ASCII: true}
}

// pct is true with probability ≈ p percent.  rapid's integer generators are
// biased towards small values, so the draw is assembled from fair coin flips;
// all-false (the shrink target) yields false.
func pct(t *rapid.T, label string, p int) bool {
	if p <= 0 {
		return false
	}
	v := 0
	for i := 0; i < 5; i++ {
		v <<= 1
		if rapid.Bool().Draw(t, label) {
			v |= 1
		}
	}
	return v >= 32-(p*32+50)/100
}

func genCons(t *rapid.T, i int, ix *siteIndex) Cons {
	c := Cons{Mutates: rapid.Bool().Draw(t, "mutates")}
	if c.Mutates {
		c.Sync = genProgram(t, "sync", 3, ix)
		if pct(t, "marksync", 75) {
			c.Sync = append([]Op{Mark(fmt.Sprintf("c%d.sync", i))}, c.Sync...)
		}
		if pct(t, "async?", 55) {
			c.Async = genProgram(t, "async", 3, ix)
			if pct(t, "markasync", 85) {
				c.Async = append([]Op{Mark(fmt.Sprintf("c%d.async", i))}, c.Async...)
			}
			c.Gate = rapid.SampledFrom([]int{-1, 0, 0, 1, 2, 9}).Draw(t, "gate")
		}
	} else if pct(t, "undeclared?", 35) {
		c.Undeclared = genProgram(t, "undeclared", 2, ix)
		if len(c.Undeclared) == 0 || pct(t, "markundeclared", 50) {
			c.Undeclared = append(c.Undeclared, Mark(fmt.Sprintf("c%d.undeclared", i)))
		}
	}
	c.Fail = pct(t, "fail", 30)
	c.Wrap = c.Fail && rapid.Bool().Draw(t, "wraperr")
	if c.Fail {
		c.ErrKind = rapid.SampledFrom([]string{"", "", "deadline", "canceled", "permanent", "joined"}).Draw(t, "errkind")
	}
	return c
}

// shapeErr dresses a leaf's error value up as kind.
func shapeErr(e error, kind string) error {
	switch kind {
	case "deadline":
		return fmt.Errorf("%w: export attempt timed out: %w", e, context.DeadlineExceeded)
	case "canceled":
		return errors.Join(context.Canceled, e)
	case "permanent":
		return consumererror.NewPermanent(e)
	case "joined":
		return errors.Join(errors.New("some other failure"), e)
	}
	return e
}

func genFan(t *rapid.T) FanScript {
	s := FanScript{Signal: rapid.SampledFrom(sig.All).Draw(t, "signal")}
	var next int64 = 1
	s.Payload = sig.Gen(t, s.Signal, smallOpts(), &next)
	var ix *siteIndex
	if v, err := sig.Decode(s.Signal, s.Payload); err == nil {
		ix = indexSites(v)
	}
	n := rapid.IntRange(1, 5).Draw(t, "nconsumers")
	for i := 0; i < n; i++ {
		s.Cons = append(s.Cons, genCons(t, i, ix))
	}
	if pct(t, "nested", 30) {
		groups := map[int][]int{}
		var order []int
		for i := 0; i < n; i++ {
			g := rapid.IntRange(0, 2).Draw(t, "group")
			if _, ok := groups[g]; !ok {
				order = append(order, g)
			}
			groups[g] = append(groups[g], i)
		}
		for _, g := range order {
			m := Member{Leaves: groups[g]}
			m.Wrap = len(m.Leaves) > 1 || rapid.Bool().Draw(t, "wrapsingle")
			s.Layout = append(s.Layout, m)
		}
	} else {
		for i := 0; i < n; i++ {
			s.Layout = append(s.Layout, Member{Leaves: []int{i}})
		}
	}
	s.Via = rapid.SampledFrom([]string{"fanout", "fanout", "fanout", "router-all", "router-pick"}).Draw(t, "via")
	if s.Via == "router-pick" {
		idx := make([]int, len(s.Layout))
		for i := range idx {
			idx[i] = i
		}
		switch rapid.SampledFrom([]string{"distinct", "distinct", "repeated", "unknown"}).Draw(t, "pickmode") {
		case "distinct":
			perm := rapid.Permutation(idx).Draw(t, "pickperm")
			k := rapid.IntRange(1, len(perm)).Draw(t, "npick")
			s.Pick = append([]int(nil), perm[:k]...)
		case "repeated":
			// with replacement; lengths around the number of attached pipelines matter
			// (a router may special-case "as many ids as pipelines")
			k := rapid.IntRange(1, len(idx)+1).Draw(t, "npick")
			for i := 0; i < k; i++ {
				s.Pick = append(s.Pick, rapid.SampledFrom(idx).Draw(t, "pick"))
			}
		default:
			k := rapid.IntRange(1, len(idx)+1).Draw(t, "npick")
			for i := 0; i < k; i++ {
				s.Pick = append(s.Pick, rapid.IntRange(0, len(idx)+1).Draw(t, "pick"))
			}
			s.Pick[rapid.IntRange(0, k-1).Draw(t, "unknownpos")] = len(idx) + rapid.IntRange(0, 1).Draw(t, "unknownid")
		}
	}
	s.ReadOnly = pct(t, "readonly", 30)
	if pct(t, "pre?", 30) {
		s.Pre = genProgram(t, "pre", 3, ix)
	}
	return s
}

// sched runs the asynchronous programs at scripted points.
type sched struct {
	mu      sync.Mutex
	invoked int // consumer invocations so far
	parked  []*task
	free    sync.WaitGroup
}

type task struct {
	due     int
	release chan struct{}
	done    chan struct{}
}

// enter is called at the very beginning of every consumer invocation: it
// returns the invocation index after having run every parked task that is due.
func (h *sched) enter() int {
	h.mu.Lock()
	idx := h.invoked
	h.invoked++
	var due, rest []*task
	for _, tk := range h.parked {
		if tk.due <= idx {
			due = append(due, tk)
		} else {
			rest = append(rest, tk)
		}
	}
	h.parked = rest
	h.mu.Unlock()
	for _, tk := range due {
		close(tk.release)
		<-tk.done
	}
	return idx
}

// spawn starts fn in a goroutine: freely running (gate < 0) or parked until
// invocation index `at+1+gate`.
func (h *sched) spawn(at, gate int, fn func()) {
	if gate < 0 {
		h.free.Add(1)
		go func() {
			defer h.free.Done()
			fn()
		}()
		return
	}
	tk := &task{due: at + 1 + gate, release: make(chan struct{}), done: make(chan struct{})}
	go func() {
		defer close(tk.done)
		<-tk.release
		fn()
	}()
	h.mu.Lock()
	h.parked = append(h.parked, tk)
	h.mu.Unlock()
}

// join releases everything still parked and waits for all asynchronous work.
func (h *sched) join() {
	h.mu.Lock()
	rest := h.parked
	h.parked = nil
	h.mu.Unlock()
	for _, tk := range rest {
		close(tk.release)
		<-tk.done
	}
	h.free.Wait()
}

// leafErr is the distinct error value of one leaf.
type leafErr struct{ i int }

func (e *leafErr) Error() string { return fmt.Sprintf("c06 leaf %d failed", e.i) }

// leaf is what one consumer observed.
type leaf struct {
	mu         sync.Mutex
	calls      int
	seenEq     bool
	seenDiff   string
	ro         bool // payload was read-only at call time
	retained   any
	mutPanic   string // a declared mutator's program panicked on a mutable payload
	attempted  int    // undeclared steps tried
	panicked   int    // … of which panicked
	selfChange bool   // an undeclared step went through without panic
	err        *leafErr
}

// applyRecovered runs a program step by step; it returns a description of the
// first step that panicked ("" when none did).
func applyRecovered(v any, prog []Op) string {
	first := ""
	for k, op := range prog {
		if p, _ := vt.Recover(func() { ApplyOp(v, op) }); p != nil && first == "" {
			first = fmt.Sprintf("step %d %+v: %v", k, op, p)
		}
	}
	return first
}

func decodeWithPre(signal string, payload []byte, pre []Op) (any, string) {
	v, err := sig.Decode(signal, payload)
	if err != nil {
		return nil, "cannot decode payload: " + err.Error()
	}
	if msg := applyRecovered(v, pre); msg != "" {
		return nil, "pre-program panicked on a fresh payload: " + msg
	}
	return v, ""
}

func memberMutates(s *FanScript, m Member) bool {
	for _, i := range m.Leaves {
		if !s.Cons[i].Mutates {
			return false
		}
	}
	return true
}

func runFan(s FanScript) (nontrivial bool, key string, f *vt.Finding) {
	jb, _ := json.Marshal(&s)
	h := sha256.Sum256(jb)
	key = string(h[:])
	api := apis[s.Signal]
	if api == nil || len(s.Cons) == 0 || len(s.Layout) == 0 {
		return false, key, nil
	}

	in, msg := decodeWithPre(s.Signal, s.Payload, s.Pre)
	if msg != "" {
		return false, key, vt.Failf("harness/pre", "%s", msg)
	}
	orig := pview.Of(in)
	if s.ReadOnly {
		markReadOnly(in)
	}

	hs := &sched{}
	leaves := make([]*leaf, len(s.Cons))
	cons := make([]capser, len(s.Cons))
	for i := range s.Cons {
		i := i
		c := s.Cons[i]
		st := &leaf{err: &leafErr{i}}
		leaves[i] = st
		cons[i] = api.newCons(c.Mutates, func(_ context.Context, v any) error {
			at := hs.enter()
			st.mu.Lock()
			st.calls++
			first := st.calls == 1
			st.mu.Unlock()
			if first {
				tree := pview.Of(v)
				eq := pview.Equal(orig, tree)
				diff := ""
				if !eq {
					diff = pview.Diff(orig, tree)
				}
				ro := isReadOnly(v)
				st.mu.Lock()
				st.seenEq, st.seenDiff, st.ro, st.retained = eq, diff, ro, v
				st.mu.Unlock()
				switch {
				case c.Mutates && !ro:
					if msg := applyRecovered(v, c.Sync); msg != "" {
						st.mu.Lock()
						st.mutPanic = "sync " + msg
						st.mu.Unlock()
					}
					if len(c.Async) > 0 {
						hs.spawn(at, c.Gate, func() {
							if msg := applyRecovered(v, c.Async); msg != "" {
								st.mu.Lock()
								if st.mutPanic == "" {
									st.mutPanic = "async " + msg
								}
								st.mu.Unlock()
							}
						})
					}
				case !c.Mutates:
					for _, op := range c.Undeclared {
						p, _ := vt.Recover(func() { ApplyOp(v, op) })
						st.mu.Lock()
						st.attempted++
						if p != nil {
							st.panicked++
						} else {
							st.selfChange = true
						}
						st.mu.Unlock()
					}
				}
			}
			if c.Fail {
				if c.Wrap {
					return fmt.Errorf("wrapped by leaf %d: %w", i, shapeErr(st.err, c.ErrKind))
				}
				return shapeErr(st.err, c.ErrKind)
			}
			return nil
		})
	}

	// members and the fan-out under test
	members := make([]capser, len(s.Layout))
	for k, m := range s.Layout {
		if len(m.Leaves) == 1 && !m.Wrap {
			members[k] = cons[m.Leaves[0]]
			continue
		}
		var inner []capser
		for _, i := range m.Leaves {
			inner = append(inner, cons[i])
		}
		members[k] = api.fanout(inner)
	}
	used := make([]int, 0, len(s.Layout))
	named := map[int]int{} // router-pick: how often a member was named
	anyRepeat := false
	var top capser
	switch s.Via {
	case "router-all", "router-pick":
		mm := map[pipeline.ID]capser{}
		ids := make([]pipeline.ID, len(members))
		for k := range members {
			ids[k] = pipeline.NewIDWithName(api.signal, fmt.Sprintf("m%d", k))
			mm[ids[k]] = members[k]
		}
		if s.Via == "router-all" {
			top = api.routerAll(mm)
			for k := range members {
				used = append(used, k)
			}
		} else {
			var pick []pipeline.ID
			unknown := false
			for _, k := range s.Pick {
				switch {
				case k < 0:
				case k >= len(members):
					unknown = true
					pick = append(pick, pipeline.NewIDWithName(api.signal, fmt.Sprintf("unattached%d", k)))
				default:
					pick = append(pick, ids[k])
					if named[k] == 0 {
						used = append(used, k)
					}
					named[k]++
					if named[k] > 1 {
						anyRepeat = true
					}
				}
			}
			if len(pick) == 0 {
				return false, key, nil
			}
			var err error
			top, err = api.routerPick(mm, pick)
			if unknown {
				// an id that is not attached to the router: Consumer must refuse, so nothing can be delivered
				cFan.Class("signal:"+s.Signal, "via:router-pick", "pick:unknown-id", fmt.Sprintf("pick:%d-ids-of-%d-pipelines", len(pick), len(members)))
				if err == nil {
					return true, key, vt.Failf("router/unknown-id-accepted", "router over %d pipelines: Consumer(%v) names a pipeline that is not attached but returned a consumer and no error", len(members), pick)
				}
				return false, key, nil
			}
			if err != nil {
				return true, key, vt.Failf("router/consumer-error", "router.Consumer(%v) failed: %v", pick, err)
			}
			if anyRepeat {
				cFan.Class("pick:repeated-id")
			}
			if len(pick) == len(members) {
				cFan.Class("pick:as-many-ids-as-pipelines")
			}
		}
	default:
		top = api.fanout(members)
		for k := range members {
			used = append(used, k)
		}
	}
	invoked := make([]bool, len(s.Cons))
	repeated := make([]bool, len(s.Cons)) // leaf belongs to a pipeline named more than once: invocation count not asserted beyond >= 1
	allMembersMutate := true
	for _, k := range used {
		for _, i := range s.Layout[k].Leaves {
			invoked[i] = true
			repeated[i] = named[k] > 1
		}
		if !memberMutates(&s, s.Layout[k]) {
			allMembersMutate = false
		}
	}

	caps := top.Capabilities().MutatesData
	var result error
	p, stack := vt.Recover(func() { result = api.consume(top, context.Background(), in) })
	hs.join()
	if p != nil {
		return true, key, vt.Failf("panic/fanout", "the fan-out call panicked: %v\n%s", p, stack)
	}

	// ---- classification
	nMut, nRO, nInv, nFail, nAsyncFree, nAsyncGated := 0, 0, 0, 0, 0, 0
	for i, c := range s.Cons {
		if !invoked[i] {
			continue
		}
		nInv++
		if c.Mutates {
			nMut++
			if len(c.Async) > 0 {
				if c.Gate < 0 {
					nAsyncFree++
				} else {
					nAsyncGated++
				}
			}
		} else {
			nRO++
		}
		if c.Fail {
			nFail++
		}
	}
	cFan.Class("signal:"+s.Signal, "via:"+s.Via, fmt.Sprintf("invoked:%d", nInv), fmt.Sprintf("layout:mut%d/ro%d", nMut, nRO),
		fmt.Sprintf("failing:%d", nFail))
	if s.ReadOnly {
		cFan.Class("input:readonly")
	} else {
		cFan.Class("input:mutable")
	}
	if len(s.Layout) != len(s.Cons) {
		cFan.Class("nested")
	}
	if nAsyncFree > 0 {
		cFan.Class("async:free-running")
	}
	if nAsyncGated > 0 {
		cFan.Class("async:gated")
	}
	if len(s.Pre) > 0 {
		cFan.Class("pre-program")
	}

	// ---- oracle
	// (a) every consumer behind the fan-out is invoked exactly once, whatever earlier ones returned
	for i := range s.Cons {
		st := leaves[i]
		switch {
		case invoked[i] && st.calls == 0:
			return true, key, vt.Failf("invocation/missing", "leaf %d (mutates=%v) was never invoked (%d of the invoked leaves fail)", i, s.Cons[i].Mutates, nFail)
		case invoked[i] && st.calls > 1 && !repeated[i]:
			return true, key, vt.Failf("invocation/repeated", "leaf %d was invoked %d times", i, st.calls)
		case !invoked[i] && st.calls > 0:
			return true, key, vt.Failf("invocation/unpicked", "leaf %d belongs to no picked pipeline but was invoked %d times", i, st.calls)
		}
	}
	// (b) content at call time
	for i, c := range s.Cons {
		st := leaves[i]
		if invoked[i] && !st.seenEq {
			kind := "readonly"
			if c.Mutates {
				kind = "mutating"
			}
			return true, key, vt.Failf("content-at-call/"+kind, "leaf %d received content that differs from what was sent: %s", i, st.seenDiff)
		}
	}
	// (c) a declared mutator works on data it may mutate
	for i, c := range s.Cons {
		st := leaves[i]
		if !invoked[i] || !c.Mutates {
			continue
		}
		if st.ro {
			return true, key, vt.Failf("readonly-to-mutator", "leaf %d declares MutatesData but was handed a read-only payload (input read-only: %v)", i, s.ReadOnly)
		}
		if st.mutPanic != "" {
			return true, key, vt.Failf("mutator-panic", "leaf %d: mutation program panicked on a payload that is not read-only: %s", i, st.mutPanic)
		}
	}
	// (d) read-only marking of shared data and undeclared mutation
	for i, c := range s.Cons {
		st := leaves[i]
		if !invoked[i] || c.Mutates {
			continue
		}
		if nRO >= 2 && !st.ro {
			return true, key, vt.Failf("shared-not-readonly", "%d non-mutating consumers share the payload but leaf %d saw it not marked read-only", nRO, i)
		}
		if st.attempted > 0 {
			switch {
			case st.ro:
				cFan.Class("undeclared:on-readonly")
				if st.panicked != st.attempted {
					return true, key, vt.Failf("undeclared-mutation-succeeded", "leaf %d: %d of %d undeclared mutation steps on a read-only payload did not panic", i, st.attempted-st.panicked, st.attempted)
				}
			default:
				cFan.Class("undeclared:sole-reader(unasserted)")
			}
		}
	}
	// (e) after all asynchronous work: isolation
	changed := false
	selfChanged := false
	for i, c := range s.Cons {
		st := leaves[i]
		if !invoked[i] {
			continue
		}
		final := pview.Of(st.retained)
		if !c.Mutates {
			if st.selfChange && !st.ro {
				selfChanged = true
				continue // the sole reader edited its own payload: nothing is promised about it
			}
			if !pview.Equal(orig, final) {
				return true, key, vt.Failf("reader-sees-mutation", "non-mutating leaf %d: retained payload changed after the call: %s", i, pview.Diff(orig, final))
			}
			continue
		}
		ref, msg := decodeWithPre(s.Signal, s.Payload, s.Pre)
		if msg != "" {
			return false, key, vt.Failf("harness/pre", "%s", msg)
		}
		if msg := applyRecovered(ref, append(append([]Op(nil), c.Sync...), c.Async...)); msg != "" {
			return false, key, vt.Failf("harness/ref-panic", "reference application of leaf %d's program panicked: %s", i, msg)
		}
		want := pview.Of(ref)
		if !pview.Equal(want, final) {
			return true, key, vt.Failf("mutator-not-isolated", "mutating leaf %d: retained payload is not the original plus exactly its own edits: %s", i, pview.Diff(want, final))
		}
		if !pview.Equal(orig, final) {
			changed = true
		}
	}
	// (f) error aggregation
	for i, c := range s.Cons {
		st := leaves[i]
		is := errors.Is(result, st.err)
		switch {
		case invoked[i] && c.Fail && !is:
			return true, key, vt.Failf("error-aggregation/missing", "leaf %d failed but errors.Is(result, its error) is false; result = %v", i, result)
		case !(invoked[i] && c.Fail) && is:
			return true, key, vt.Failf("error-aggregation/spurious", "leaf %d did not fail but its error value is in the result %v", i, result)
		}
	}
	if (result == nil) != (nFail == 0) {
		return true, key, vt.Failf("error-aggregation/nil", "%d leaves failed but result = %v", nFail, result)
	}
	// (g) advertised capability of the fan-out: it mutates what it is given exactly when every member does
	if caps != allMembersMutate {
		return true, key, vt.Failf("fanout-capabilities", "fan-out over members %v advertises MutatesData=%v, want %v", used, caps, allMembersMutate)
	}
	if !caps && !selfChanged {
		if after := pview.Of(in); !pview.Equal(orig, after) {
			return true, key, vt.Failf("nonmutating-fanout-changed-input", "the fan-out advertises MutatesData=false but the payload it was given changed: %s", pview.Diff(orig, after))
		}
	}
	if changed {
		cFan.Class("mutation-performed")
	}
	return nInv >= 2 && nMut >= 1 && changed, key, nil
}

func TestFanout(t *testing.T) {
	defer flushOpReach(cFan)
	vt.Run(t, cFan, vt.N(16000, 800000), genFan, runFan)
}
