package c06

import (
	"context"
	"crypto/sha256"
	"encoding/json"
	"fmt"
	"os"
	"path/filepath"
	"sync"
	"testing"
	"time"

	"go.uber.org/zap"
	"go.uber.org/zap/zapcore"
	"pgregory.net/rapid"

	"go.opentelemetry.io/collector/component"
	"go.opentelemetry.io/collector/component/componenttest"
	"go.opentelemetry.io/collector/consumer"
	"go.opentelemetry.io/collector/exporter"
	"go.opentelemetry.io/collector/exporter/exporterhelper"
	"go.opentelemetry.io/collector/exporter/exportertest"
	"go.opentelemetry.io/collector/pdata/plog"
	"go.opentelemetry.io/collector/pdata/pmetric"
	"go.opentelemetry.io/collector/pdata/ptrace"
	"go.opentelemetry.io/collector/processor"
	"go.opentelemetry.io/collector/processor/processorhelper"
	"go.opentelemetry.io/collector/receiver"
	"go.opentelemetry.io/collector/service"
	"go.opentelemetry.io/collector/verifharness/pgen"
	"go.opentelemetry.io/collector/verifharness/pview"
	"go.opentelemetry.io/collector/verifharness/sig"
	"go.opentelemetry.io/collector/verifharness/vt"
	"go.opentelemetry.io/collector/verifharness/xh"
)

// Layer 3: components built with the PUBLIC helpers (exporterhelper.New<Signal>
// with queue / batch / legacy batcher / capabilities options,
// processorhelper.New<Signal> with or without WithCapabilities) used as leaves
// next to non-mutating recording siblings.  The helper decides what the
// component advertises; the check asks whether the advertisement is true —
// also for what the component does on its own goroutines after ConsumeX
// returned — and whether siblings keep what they were sent.

const (
	hexpType  = "c6hexp"  // exporterhelper-built exporter
	hprocType = "c6hproc" // processorhelper-built processor
	recType   = "c6rec"   // recording exporter, MutatesData=false
	mutType   = "c6mut"   // test exporter that declares MutatesData and appends a marker
)

// HExp configures the helper-built exporter.
type HExp struct {
	Caps          string `json:"caps"`             // default | false | true  (WithCapabilities)
	Queue         bool   `json:"queue,omitempty"`  // WithQueue(enabled, memory)
	Batch         string `json:"batch,omitempty"`  // "" (absent) | min | max | both | zero   (sending_queue::batch)
	Legacy        string `json:"legacy,omitempty"` // "" (off) | min | max | both   (deprecated WithBatcher, items)
	Sizer         string `json:"sizer,omitempty"`  // items | bytes (queue batch)
	Min           int64  `json:"min,omitempty"`
	Max           int64  `json:"max,omitempty"`
	FlushMS       int    `json:"flush_ms,omitempty"`
	Consumers     int    `json:"consumers,omitempty"`
	WaitForResult bool   `json:"wait_for_result,omitempty"`
}

// mayMutate: the configuration makes the exporter's own machinery edit the
// payload it is given (merge another request into it, or split it).
func (h HExp) mayMutate() bool {
	if h.Legacy != "" {
		return true
	}
	return h.Queue && h.Batch != "" && (h.Min > 0 || h.Max > 0)
}

func (h HExp) options() []exporterhelper.Option {
	o := []exporterhelper.Option{exporterhelper.WithTimeout(exporterhelper.TimeoutConfig{Timeout: 0})}
	switch h.Caps {
	case "false":
		o = append(o, exporterhelper.WithCapabilities(consumer.Capabilities{MutatesData: false}))
	case "true":
		o = append(o, exporterhelper.WithCapabilities(consumer.Capabilities{MutatesData: true}))
	}
	flush := time.Duration(h.FlushMS) * time.Millisecond
	if flush <= 0 {
		flush = 5 * time.Millisecond
	}
	if h.Queue {
		q := exporterhelper.NewDefaultQueueConfig()
		q.NumConsumers = h.Consumers
		if q.NumConsumers <= 0 {
			q.NumConsumers = 1
		}
		q.WaitForResult = h.WaitForResult
		q.BlockOnOverflow = true
		if h.Batch != "" {
			q.Sizer = exporterhelper.RequestSizerTypeItems
			if h.Sizer == "bytes" {
				q.Sizer = exporterhelper.RequestSizerTypeBytes
			}
			q.QueueSize = 1 << 30
			q.Batch = &exporterhelper.BatchConfig{FlushTimeout: flush, MinSize: h.Min, MaxSize: h.Max}
		}
		o = append(o, exporterhelper.WithQueue(q))
	}
	if h.Legacy != "" {
		b := exporterhelper.NewDefaultBatcherConfig()
		b.FlushTimeout = flush
		b.MinSize, b.MaxSize = h.Min, h.Max
		o = append(o, exporterhelper.WithBatcher(b))
	}
	return o
}

// HProc configures one processorhelper-built processor.
type HProc struct {
	Caps string `json:"caps"` // default (= mutating) | false | true
	// Act: pass (returns what it got) | edit (runs Ops on what it got; only with
	// a mutating capability) | replace (returns an edited private copy).
	Act string `json:"act"`
	Ops []Op   `json:"ops,omitempty"`
}

func (p HProc) declares() bool { return p.Caps != "false" }

// HelperScript is one layer-3 case.
type HelperScript struct {
	Signal  string  `json:"signal"`
	Payload []byte  `json:"payload"`
	Sends   int     `json:"sends"`
	Exp     HExp    `json:"exp"`
	Procs   []HProc `json:"procs,omitempty"`
	// Shape: same-pipeline (helper exporter and recorder are exporters of one
	// pipeline) | two-pipelines (one receiver feeds the helper exporter's
	// pipeline and the recorder's pipeline).
	Shape string `json:"shape"`
	// MutSibling adds a test exporter that declares MutatesData next to the recorder.
	MutSibling bool `json:"mut_sibling,omitempty"`
}

var cHelper = vt.New("C06", "helper-capabilities")

func genHelper(t *rapid.T) HelperScript {
	s := HelperScript{Signal: rapid.SampledFrom(sig.Three).Draw(t, "signal")}
	var next int64 = 1
	o := pgen.Structural()
	o.MinList = 0
	s.Payload = sig.Gen(t, s.Signal, o, &next)
	v, _ := sig.Decode(s.Signal, s.Payload)
	count, size, maxAlone := int64(sig.Count(v)), int64(sig.Size(v)), int64(0)
	for _, a := range sig.StandaloneSizes(v) {
		if int64(a) > maxAlone {
			maxAlone = int64(a)
		}
	}
	s.Sends = rapid.IntRange(1, 2).Draw(t, "sends")
	s.Shape = rapid.SampledFrom([]string{"same-pipeline", "two-pipelines"}).Draw(t, "shape")
	s.MutSibling = pct(t, "mutsibling", 25)

	e := HExp{Caps: rapid.SampledFrom([]string{"default", "false", "false", "true"}).Draw(t, "caps"),
		FlushMS: rapid.SampledFrom([]int{1, 5, 20}).Draw(t, "flush"), Consumers: rapid.IntRange(1, 3).Draw(t, "consumers")}
	limits := func(mode string, unitCount, lo int64) {
		if lo < 1 {
			lo = 1
		}
		hi := unitCount + 2
		if hi < lo {
			hi = lo
		}
		switch mode {
		case "min":
			e.Min = int64(rapid.Int64Range(1, hi*2).Draw(t, "min"))
		case "max":
			e.Max = int64(rapid.Int64Range(lo, hi).Draw(t, "max"))
		case "both":
			e.Max = int64(rapid.Int64Range(lo, hi).Draw(t, "max"))
			e.Min = int64(rapid.Int64Range(1, e.Max).Draw(t, "min"))
		}
	}
	switch rapid.SampledFrom([]string{"plain", "queue", "queue-batch", "queue-batch", "queue-batch", "legacy", "legacy+queue"}).Draw(t, "mode") {
	case "queue":
		e.Queue = true
	case "queue-batch":
		e.Queue = true
		e.Batch = rapid.SampledFrom([]string{"min", "max", "max", "both", "zero"}).Draw(t, "batch")
		e.Sizer = rapid.SampledFrom([]string{"items", "items", "bytes"}).Draw(t, "sizer")
		if e.Sizer == "bytes" {
			// stay above the largest indivisible unit (what a sane max_size in bytes is)
			limits(e.Batch, size, maxAlone+24)
			if e.Batch == "min" {
				e.Min = int64(rapid.Int64Range(1, size*2+1).Draw(t, "minbytes"))
			}
		} else {
			limits(e.Batch, count, 1)
		}
	case "legacy":
		e.Legacy = rapid.SampledFrom([]string{"min", "max", "both"}).Draw(t, "legacy")
		limits(e.Legacy, count, 1)
	case "legacy+queue":
		e.Queue = true
		e.Legacy = rapid.SampledFrom([]string{"min", "max", "both"}).Draw(t, "legacy")
		limits(e.Legacy, count, 1)
	}
	e.WaitForResult = e.Queue && pct(t, "wait", 30)
	s.Exp = e

	ix := indexSites(v)
	for i, n := 0, rapid.IntRange(0, 2).Draw(t, "nproc"); i < n; i++ {
		p := HProc{Caps: rapid.SampledFrom([]string{"default", "false", "true"}).Draw(t, "proccaps")}
		acts := []string{"pass", "replace", "edit"}
		if !p.declares() {
			acts = acts[:2] // a processor that says it does not mutate must not edit in place
		}
		p.Act = rapid.SampledFrom(acts).Draw(t, "act")
		if p.Act != "pass" {
			p.Ops = append([]Op{Mark(fmt.Sprintf("hproc%d", i))}, genProgram(t, "hprocops", 2, ix)...)
		}
		s.Procs = append(s.Procs, p)
	}
	return s
}

// crashSentinel leaves a fail file behind for the time a case runs code that
// may panic on a goroutine the harness does not own (queue consumers, batch
// timers): if the process dies the driver finds the file, replays the script
// in a fresh process and — when that dies again — reports the violation.
func crashSentinel(check string, script any) (clear func()) {
	out := os.Getenv("VT_OUT")
	if out == "" {
		return func() {}
	}
	path := filepath.Join(out, "fail-"+check+".crash-last.json")
	b, err := json.Marshal(map[string]any{"property": "C06", "check": check, "sig": "process-died/helper-goroutine",
		"msg": "the process died while this case was running: a panic on a goroutine of a helper-built component (queue consumer / batcher), e.g. \"invalid access to shared data\"", "script": script})
	if err != nil {
		return func() {}
	}
	_ = os.WriteFile(path, b, 0o644)
	return func() { _ = os.Remove(path) }
}

// ---------------------------------------------------------------- world

type hrecord struct {
	key      string
	call     any // tree at call time
	retained any
	mutates  bool
}

type hworld struct {
	s        *HelperScript
	mu       sync.Mutex
	next     map[string]capser // receiver id → consumer
	records  []*hrecord
	pushes   int
	pushed   int
	hcaps    *bool
	pcaps    map[int]bool
	problems []*vt.Finding
}

func (w *hworld) push(_ context.Context, v any) error {
	w.mu.Lock()
	w.pushes++
	w.pushed += sig.Count(v)
	w.mu.Unlock()
	return nil
}

func (w *hworld) recorder(signal, key string, mutates bool) capser {
	return apis[signal].newCons(mutates, func(_ context.Context, v any) error {
		r := &hrecord{key: key, call: pview.Of(v), retained: v, mutates: mutates}
		if mutates {
			if isReadOnly(v) {
				w.problem(vt.Failf("readonly-to-mutator", "%s declares MutatesData but was handed a read-only payload", key))
			} else if msg := applyRecovered(v, []Op{Mark(key)}); msg != "" {
				w.problem(vt.Failf("mutator-panic", "%s: %s", key, msg))
			}
		}
		w.mu.Lock()
		w.records = append(w.records, r)
		w.mu.Unlock()
		return nil
	})
}

func (w *hworld) problem(f *vt.Finding) {
	w.mu.Lock()
	w.problems = append(w.problems, f)
	w.mu.Unlock()
}

// process is the body of helper processor #i.
func (w *hworld) process(i int, v any) (any, error) {
	p := w.s.Procs[i]
	switch p.Act {
	case "edit":
		if isReadOnly(v) {
			w.problem(vt.Failf("readonly-to-mutator", "helper processor %d (capabilities %q) was handed a read-only payload", i, p.Caps))
			return v, nil
		}
		if msg := applyRecovered(v, p.Ops); msg != "" {
			w.problem(vt.Failf("mutator-panic", "helper processor %d: %s", i, msg))
		}
		return v, nil
	case "replace":
		c := sig.Clone(v)
		if msg := applyRecovered(c, p.Ops); msg != "" {
			w.problem(vt.Failf("mutator-panic", "helper processor %d (private copy): %s", i, msg))
		}
		return c, nil
	}
	return v, nil
}

func procIndex(id component.ID) int {
	var i int
	_, _ = fmt.Sscanf(id.Name(), "p%d", &i)
	return i
}

func (w *hworld) procOpts(i int) []processorhelper.Option {
	switch w.s.Procs[i].Caps {
	case "false":
		return []processorhelper.Option{processorhelper.WithCapabilities(consumer.Capabilities{MutatesData: false})}
	case "true":
		return []processorhelper.Option{processorhelper.WithCapabilities(consumer.Capabilities{MutatesData: true})}
	}
	return nil
}

func (w *hworld) noteProc(i int, c capser) {
	w.mu.Lock()
	w.pcaps[i] = c.Capabilities().MutatesData
	w.mu.Unlock()
}

func (w *hworld) noteExp(c component.Component) {
	b := c.(capser).Capabilities().MutatesData
	w.mu.Lock()
	w.hcaps = &b
	w.mu.Unlock()
}

func (w *hworld) settings() service.Settings {
	reg := func(id component.ID, n capser) {
		w.mu.Lock()
		w.next[id.String()] = n
		w.mu.Unlock()
	}
	rf := receiver.NewFactory(component.MustNewType(recvType), newCfg,
		receiver.WithLogs(func(_ context.Context, s receiver.Settings, _ component.Config, n consumer.Logs) (receiver.Logs, error) {
			reg(s.ID, n)
			return nop{}, nil
		}, stable),
		receiver.WithTraces(func(_ context.Context, s receiver.Settings, _ component.Config, n consumer.Traces) (receiver.Traces, error) {
			reg(s.ID, n)
			return nop{}, nil
		}, stable),
		receiver.WithMetrics(func(_ context.Context, s receiver.Settings, _ component.Config, n consumer.Metrics) (receiver.Metrics, error) {
			reg(s.ID, n)
			return nop{}, nil
		}, stable))
	pf := processor.NewFactory(component.MustNewType(hprocType), newCfg,
		processor.WithLogs(func(ctx context.Context, s processor.Settings, c component.Config, n consumer.Logs) (processor.Logs, error) {
			i := procIndex(s.ID)
			p, err := processorhelper.NewLogs(ctx, s, c, n, func(_ context.Context, ld plog.Logs) (plog.Logs, error) {
				v, err := w.process(i, ld)
				return v.(plog.Logs), err
			}, w.procOpts(i)...)
			if err == nil {
				w.noteProc(i, p)
			}
			return p, err
		}, stable),
		processor.WithTraces(func(ctx context.Context, s processor.Settings, c component.Config, n consumer.Traces) (processor.Traces, error) {
			i := procIndex(s.ID)
			p, err := processorhelper.NewTraces(ctx, s, c, n, func(_ context.Context, td ptrace.Traces) (ptrace.Traces, error) {
				v, err := w.process(i, td)
				return v.(ptrace.Traces), err
			}, w.procOpts(i)...)
			if err == nil {
				w.noteProc(i, p)
			}
			return p, err
		}, stable),
		processor.WithMetrics(func(ctx context.Context, s processor.Settings, c component.Config, n consumer.Metrics) (processor.Metrics, error) {
			i := procIndex(s.ID)
			p, err := processorhelper.NewMetrics(ctx, s, c, n, func(_ context.Context, md pmetric.Metrics) (pmetric.Metrics, error) {
				v, err := w.process(i, md)
				return v.(pmetric.Metrics), err
			}, w.procOpts(i)...)
			if err == nil {
				w.noteProc(i, p)
			}
			return p, err
		}, stable))
	hexp := func(signal string, set exporter.Settings) (component.Component, error) {
		e, err := xh.NewExporter(signal, set, w.push, w.s.Exp.options()...)
		if err != nil {
			return nil, err
		}
		w.noteExp(e.Component)
		return e.Component, nil
	}
	hf := exporter.NewFactory(component.MustNewType(hexpType), newCfg,
		exporter.WithLogs(func(_ context.Context, s exporter.Settings, _ component.Config) (exporter.Logs, error) {
			c, err := hexp(sig.Logs, s)
			if err != nil {
				return nil, err
			}
			return c.(exporter.Logs), nil
		}, stable),
		exporter.WithTraces(func(_ context.Context, s exporter.Settings, _ component.Config) (exporter.Traces, error) {
			c, err := hexp(sig.Traces, s)
			if err != nil {
				return nil, err
			}
			return c.(exporter.Traces), nil
		}, stable),
		exporter.WithMetrics(func(_ context.Context, s exporter.Settings, _ component.Config) (exporter.Metrics, error) {
			c, err := hexp(sig.Metrics, s)
			if err != nil {
				return nil, err
			}
			return c.(exporter.Metrics), nil
		}, stable))
	testExp := func(typ string, mutates bool) exporter.Factory {
		return exporter.NewFactory(component.MustNewType(typ), newCfg,
			exporter.WithLogs(func(_ context.Context, s exporter.Settings, _ component.Config) (exporter.Logs, error) {
				return lComp{Logs: w.recorder(sig.Logs, s.ID.String(), mutates).(consumer.Logs)}, nil
			}, stable),
			exporter.WithTraces(func(_ context.Context, s exporter.Settings, _ component.Config) (exporter.Traces, error) {
				return tComp{Traces: w.recorder(sig.Traces, s.ID.String(), mutates).(consumer.Traces)}, nil
			}, stable),
			exporter.WithMetrics(func(_ context.Context, s exporter.Settings, _ component.Config) (exporter.Metrics, error) {
				return mComp{Metrics: w.recorder(sig.Metrics, s.ID.String(), mutates).(consumer.Metrics)}, nil
			}, stable))
	}
	recf, mutf := testExp(recType, false), testExp(mutType, true)

	cfgs := func(ids ...string) map[component.ID]component.Config {
		m := map[component.ID]component.Config{}
		for _, id := range ids {
			m[mustID(id)] = newCfg()
		}
		return m
	}
	var procs []string
	for i := range w.s.Procs {
		procs = append(procs, fmt.Sprintf("%s/p%d", hprocType, i))
	}
	return service.Settings{
		BuildInfo:           component.NewDefaultBuildInfo(),
		ReceiversConfigs:    cfgs(recvType+"/r0", recvType+"/r1"),
		ReceiversFactories:  map[component.Type]receiver.Factory{rf.Type(): rf},
		ProcessorsConfigs:   cfgs(procs...),
		ProcessorsFactories: map[component.Type]processor.Factory{pf.Type(): pf},
		ExportersConfigs:    cfgs(hexpType+"/h", recType+"/a", recType+"/b", mutType+"/m"),
		ExportersFactories:  map[component.Type]exporter.Factory{hf.Type(): hf, recf.Type(): recf, mutf.Type(): mutf},
		AsyncErrorChannel:   make(chan error, 16),
		LoggingOptions:      []zap.Option{zap.WrapCore(func(zapcore.Core) zapcore.Core { return zapcore.NewNopCore() })},
	}
}

// pipes renders the configuration as GPipe (reusing gworld.config).
func (s *HelperScript) pipes() []GPipe {
	var procs []string
	for i := range s.Procs {
		procs = append(procs, fmt.Sprintf("%s/p%d", hprocType, i))
	}
	r0, r1 := recvType+"/r0", recvType+"/r1"
	a := GPipe{Signal: s.Signal, Name: "a", Receivers: []string{r0, r1}, Processors: procs, Exporters: []string{hexpType + "/h"}}
	if s.Shape == "same-pipeline" {
		a.Receivers = []string{r0}
		a.Exporters = append(a.Exporters, recType+"/a")
		if s.MutSibling {
			a.Exporters = append(a.Exporters, mutType+"/m")
		}
		// r1 feeds a pipeline that holds nothing but the helper exporter behind the same processors
		solo := GPipe{Signal: s.Signal, Name: "solo", Receivers: []string{r1}, Processors: procs, Exporters: []string{hexpType + "/h"}}
		return []GPipe{a, solo}
	}
	b := GPipe{Signal: s.Signal, Name: "b", Receivers: []string{r0}, Exporters: []string{recType + "/b"}}
	if s.MutSibling {
		b.Exporters = append(b.Exporters, mutType+"/m")
	}
	return []GPipe{a, b}
}

// ---------------------------------------------------------------- run

func runHelper(s HelperScript) (nontrivial bool, key string, f *vt.Finding) {
	jb, _ := json.Marshal(&s)
	hsum := sha256.Sum256(jb)
	key = string(hsum[:])
	if apis[s.Signal] == nil || s.Signal == sig.Profiles {
		return false, key, nil
	}
	if s.Sends < 1 {
		s.Sends = 1
	}
	clear := crashSentinel("helper-capabilities", &s)
	defer clear()
	cHelper.HangGuard(60*time.Second, &s, "hang/helper", func() { nontrivial, f = runHelperInner(&s) })
	return nontrivial, key, f
}

func runHelperInner(s *HelperScript) (bool, *vt.Finding) {
	ctx := context.Background()
	api := apis[s.Signal]
	// debug aid (sensitivity runs only): C06_HELPER_DEBUG=no-structural skips the configuration-derived
	// capability clauses (to watch the behavioural clause work), =only-graph also skips the standalone
	// phase (to watch the crash path work).
	dbg := os.Getenv("C06_HELPER_DEBUG")
	onlyGraph, structural := dbg == "only-graph", dbg == ""

	mode := "plain"
	switch {
	case s.Exp.Legacy != "" && s.Exp.Queue:
		mode = "legacy+queue:" + s.Exp.Legacy
	case s.Exp.Legacy != "":
		mode = "legacy:" + s.Exp.Legacy
	case s.Exp.Queue && s.Exp.Batch != "":
		mode = "queue-batch:" + s.Exp.Batch + ":" + s.Exp.Sizer
	case s.Exp.Queue:
		mode = "queue"
	}
	cHelper.Class("signal:"+s.Signal, "exporter:"+mode, "exporter-caps-option:"+s.Exp.Caps, "shape:"+s.Shape, fmt.Sprintf("helper-processors:%d", len(s.Procs)))

	in0, err := sig.Decode(s.Signal, s.Payload)
	if err != nil {
		return false, vt.Failf("harness/decode", "%v", err)
	}
	orig := pview.Of(in0)
	count := sig.Count(in0)

	// ---- phase 1: the exporter alone, on a private mutable payload
	if !onlyGraph {
		w := &hworld{s: s}
		set := exportertest.NewNopSettings(component.MustNewType(hexpType))
		e, err := xh.NewExporter(s.Signal, set, w.push, s.Exp.options()...)
		if err != nil {
			return false, vt.Failf("harness/exporter-config", "exporterhelper rejected the generated options %+v: %v", s.Exp, err)
		}
		adv := e.Component.(capser).Capabilities().MutatesData
		// (a) what the helper advertises covers what its configuration makes it do
		if structural && s.Exp.mayMutate() && !adv {
			return true, vt.Failf("helper-exporter/under-advertises", "exporter built with %+v merges or splits the payloads it is given (batch min_size=%d max_size=%d) but advertises MutatesData=false", s.Exp, s.Exp.Min, s.Exp.Max)
		}
		if s.Exp.Caps == "true" && !adv {
			return true, vt.Failf("helper-exporter/capability-option-lost", "WithCapabilities(MutatesData:true) but the exporter advertises false")
		}
		// (b) behaviour: an exporter that advertises false leaves what it is given untouched, also after returning
		if err := e.Start(ctx, componenttest.NewNopHost()); err != nil {
			return false, vt.Failf("harness/exporter-start", "%v", err)
		}
		var held []any
		for i := 0; i < s.Sends; i++ {
			v, _ := sig.Decode(s.Signal, s.Payload)
			held = append(held, v)
			if err := e.Consume(ctx, v); err != nil {
				_ = e.Shutdown(ctx)
				return false, vt.Failf("harness/exporter-consume", "standalone exporter refused the payload: %v", err)
			}
		}
		if err := e.Shutdown(ctx); err != nil {
			return false, vt.Failf("harness/exporter-shutdown", "%v", err)
		}
		if !adv {
			for i, v := range held {
				if after := pview.Of(v); !pview.Equal(orig, after) {
					return true, vt.Failf("nonmutating-exporter-changed-input", "exporter built with %+v advertises MutatesData=false but payload %d it was given changed (after Shutdown drained it): %s", s.Exp, i, pview.Diff(orig, after))
				}
			}
		}
		if w.pushes > s.Sends {
			cHelper.Class("standalone:split")
		} else if w.pushes < s.Sends {
			cHelper.Class("standalone:merged")
		}
	}

	// ---- phase 2: in a service graph next to recording siblings
	w := &hworld{s: s, next: map[string]capser{}, pcaps: map[int]bool{}}
	gw := &gworld{s: &GraphScript{Pipes: s.pipes()}}
	var srv *service.Service
	if p, stack := vt.Recover(func() { srv, err = service.New(ctx, w.settings(), gw.config()) }); p != nil {
		return true, vt.Failf("panic/service-new", "service.New panicked: %v\n%s", p, stack)
	}
	if err != nil {
		return false, vt.Failf("harness/service-new", "service.New rejected the generated configuration: %v", err)
	}
	if err := srv.Start(ctx); err != nil {
		_ = srv.Shutdown(ctx)
		return false, vt.Failf("harness/service-start", "%v", err)
	}
	stopped := false
	stop := func() *vt.Finding {
		if stopped {
			return nil
		}
		stopped = true
		var serr error
		if p, stack := vt.Recover(func() { serr = srv.Shutdown(ctx) }); p != nil {
			return vt.Failf("panic/shutdown", "Shutdown panicked: %v\n%s", p, stack)
		}
		if serr != nil {
			return vt.Failf("harness/service-shutdown", "%v", serr)
		}
		return nil
	}
	defer stop()

	// advertised capabilities
	anyProc := false
	for i, p := range s.Procs {
		anyProc = anyProc || p.declares()
		if got, ok := w.pcaps[i]; !ok || got != p.declares() {
			return true, vt.Failf("helper-processor/capability", "processorhelper processor %d built with capabilities option %q advertises MutatesData=%v (built: %v), want %v", i, p.Caps, got, ok, p.declares())
		}
	}
	if w.hcaps == nil {
		return false, vt.Failf("harness/no-helper-exporter", "the helper exporter was never built")
	}
	hadv := *w.hcaps
	if structural {
		if s.Exp.mayMutate() && !hadv {
			return true, vt.Failf("helper-exporter/under-advertises", "exporter built with %+v (in the graph) advertises MutatesData=false", s.Exp)
		}
		// a pipeline whose only exporter is the helper exporter advertises: some processor declares mutation, or the exporter does
		r1 := w.next[recvType+"/r1"]
		if r1 == nil {
			return false, vt.Failf("harness/no-receiver", "receiver r1 was never built")
		}
		if got, want := r1.Capabilities().MutatesData, anyProc || hadv; got != want {
			return true, vt.Failf("capabilities/pipeline", "pipeline with helper processors %+v and only the helper exporter (advertising %v) advertises MutatesData=%v, want %v", s.Procs, hadv, got, want)
		}
		if s.Exp.mayMutate() && !r1.Capabilities().MutatesData {
			return true, vt.Failf("capabilities/pipeline", "pipeline whose exporter stage splits/merges payloads (%+v) advertises MutatesData=false", s.Exp)
		}
	}

	// expected content downstream of the helper processors
	ref, _ := sig.Decode(s.Signal, s.Payload)
	for _, p := range s.Procs {
		if p.Act != "pass" {
			if msg := applyRecovered(ref, p.Ops); msg != "" {
				return false, vt.Failf("harness/ref-panic", "%s", msg)
			}
		}
	}
	afterProcs := pview.Of(ref)

	r0 := w.next[recvType+"/r0"]
	if r0 == nil {
		return false, vt.Failf("harness/no-receiver", "receiver r0 was never built")
	}
	var sent []any
	for i := 0; i < s.Sends; i++ {
		v, _ := sig.Decode(s.Signal, s.Payload)
		sent = append(sent, v)
		var cerr error
		if p, stack := vt.Recover(func() { cerr = api.consume(r0, ctx, v) }); p != nil {
			return true, vt.Failf("panic/consume", "panic while the receiver emitted payload %d: %v\n%s", i, p, stack)
		}
		if cerr != nil {
			return true, vt.Failf("consume-error", "payload %d was refused: %v", i, cerr)
		}
	}
	if f := stop(); f != nil { // drains the exporter's queue and batches
		return true, f
	}
	if len(w.problems) > 0 {
		return true, w.problems[0]
	}
	// siblings: what they saw and what they hold now
	wantRec := s.Sends
	nRec, nMut := 0, 0
	for _, r := range w.records {
		want := orig
		if s.Shape == "same-pipeline" {
			want = afterProcs
		}
		if !pview.Equal(want, r.call) {
			return true, vt.Failf("content-at-call/exp", "%s received content that differs from what was sent (plus the edits of the helper processors upstream): %s", r.key, pview.Diff(want, r.call))
		}
		final := pview.Of(r.retained)
		if r.mutates {
			nMut++
			m, _ := sig.Decode(s.Signal, s.Payload)
			if s.Shape == "same-pipeline" {
				for _, p := range s.Procs {
					if p.Act != "pass" {
						applyRecovered(m, p.Ops)
					}
				}
			}
			applyRecovered(m, []Op{Mark(r.key)})
			if wantM := pview.Of(m); !pview.Equal(wantM, final) {
				return true, vt.Failf("mutator-not-isolated", "%s: retained payload is not what it received plus exactly its own edit: %s", r.key, pview.Diff(wantM, final))
			}
			continue
		}
		nRec++
		if !pview.Equal(r.call, final) {
			return true, vt.Failf("reader-sees-mutation", "%s (MutatesData=false): the payload it retained changed after the call (exporter %+v): %s", r.key, s.Exp, pview.Diff(r.call, final))
		}
	}
	if nRec != wantRec {
		return true, vt.Failf("invocation/missing", "recorder invoked %d times for %d payloads", nRec, wantRec)
	}
	if s.MutSibling && nMut != s.Sends {
		return true, vt.Failf("invocation/missing", "mutating sibling invoked %d times for %d payloads", nMut, s.Sends)
	}
	// a consumer that advertises false leaves the emitted payload untouched
	if !r0.Capabilities().MutatesData {
		for i, v := range sent {
			if after := pview.Of(v); !pview.Equal(orig, after) {
				return true, vt.Failf("nonmutating-pipeline-changed-input", "the consumer handed to receiver r0 advertises MutatesData=false but payload %d changed: %s", i, pview.Diff(orig, after))
			}
		}
	}
	big := false
	if s.Exp.Max > 0 && (s.Exp.Legacy != "" || s.Exp.Batch != "") {
		if s.Exp.Sizer == "bytes" && s.Exp.Legacy == "" {
			big = int64(len(s.Payload)) > s.Exp.Max
		} else {
			big = int64(count) > s.Exp.Max
		}
	}
	if big {
		cHelper.Class("payload-larger-than-max_size")
	}
	if w.pushes > s.Sends {
		cHelper.Class("graph:split")
	} else if w.pushes < s.Sends && w.pushes > 0 {
		cHelper.Class("graph:merged")
	}
	if hadv {
		cHelper.Class("helper-exporter-advertises:true")
	} else {
		cHelper.Class("helper-exporter-advertises:false")
	}
	return s.Exp.mayMutate() && (big || w.pushes != s.Sends), nil
}

func TestHelper(t *testing.T) { vt.Run(t, cHelper, vt.N(2000, 100000), genHelper, runHelper) }
