package c06

import (
	"context"
	"crypto/sha256"
	"encoding/json"
	"errors"
	"fmt"
	"sync"
	"testing"
	"time"

	"pgregory.net/rapid"

	"go.opentelemetry.io/collector/pipeline"
	"go.opentelemetry.io/collector/verifharness/pview"
	"go.opentelemetry.io/collector/verifharness/sig"
	"go.opentelemetry.io/collector/verifharness/vt"
)

// Layer 1b: ONE fan-out object, several Consume calls that overlap in time.
// A receiver hands every delivery to the same fan-out object from as many
// goroutines as it likes, so everything the property promises is promised
// per call: every consumer invoked once with THAT call's payload, the
// returned error aggregates exactly THAT call's failures, payloads of
// different calls do not influence each other.

// CLeaf is one consumer behind the shared fan-out.
type CLeaf struct {
	Mutates bool `json:"mut"`
}

// CCall is one Consume call on the shared fan-out.
type CCall struct {
	Payload  []byte `json:"payload"`
	ReadOnly bool   `json:"readonly,omitempty"`
	// per leaf: does it fail in this call, how is the error dressed, what does a declared mutator do to the payload
	Fail []bool   `json:"fail"`
	Wrap []bool   `json:"wrap,omitempty"`
	Kind []string `json:"kind,omitempty"`
	Prog [][]Op   `json:"prog,omitempty"`
	// Mode: how the driver forces the overlap with the calls started after this one.
	//   park: leaf Park of this call does not return before every later call has returned (the next call is
	//         started once this call sits in that leaf - or has returned, should the leaf never be reached);
	//   free: the next call is started right away, both run as the scheduler likes;
	//   seq:  the next call is started after this one returned (no overlap with later calls).
	// The last call always behaves as "free".  Waiting is only ever for LATER calls, so no schedule deadlocks.
	Mode string `json:"mode"`
	Park int    `json:"park,omitempty"`
}

// ConcScript is one layer-1b case.
type ConcScript struct {
	Signal string   `json:"signal"`
	Via    string   `json:"via"` // fanout | router-all
	Leaves []CLeaf  `json:"leaves"`
	Layout []Member `json:"layout"`
	Calls  []CCall  `json:"calls"`
}

var cConc = vt.New("C06", "fanout-concurrent")

func init() { cConc.ReplayRepeat = 20 }

func genConc(t *rapid.T) ConcScript {
	s := ConcScript{Signal: rapid.SampledFrom(sig.All).Draw(t, "signal")}
	n := rapid.IntRange(2, 5).Draw(t, "nleaves")
	for i := 0; i < n; i++ {
		s.Leaves = append(s.Leaves, CLeaf{Mutates: pct(t, "mutates", 40)})
	}
	if pct(t, "nested", 25) {
		groups := map[int][]int{}
		var order []int
		for i := 0; i < n; i++ {
			g := rapid.IntRange(0, 2).Draw(t, "group")
			if _, ok := groups[g]; !ok {
				order = append(order, g)
			}
			groups[g] = append(groups[g], i)
		}
		for _, g := range order {
			m := Member{Leaves: groups[g]}
			m.Wrap = len(m.Leaves) > 1 || rapid.Bool().Draw(t, "wrapsingle")
			s.Layout = append(s.Layout, m)
		}
	} else {
		for i := 0; i < n; i++ {
			s.Layout = append(s.Layout, Member{Leaves: []int{i}})
		}
	}
	s.Via = rapid.SampledFrom([]string{"fanout", "fanout", "router-all"}).Draw(t, "via")
	nc := rapid.IntRange(2, 4).Draw(t, "ncalls")
	var next int64 = 1 // shared by all payloads of the case: ids are distinct across calls
	for k := 0; k < nc; k++ {
		c := CCall{Payload: sig.Gen(t, s.Signal, smallOpts(), &next)}
		var ix *siteIndex
		if v, err := sig.Decode(s.Signal, c.Payload); err == nil {
			ix = indexSites(v)
		}
		c.ReadOnly = pct(t, "readonly", 25)
		for i := 0; i < n; i++ {
			fail := pct(t, "fail", 40)
			c.Fail = append(c.Fail, fail)
			c.Wrap = append(c.Wrap, fail && rapid.Bool().Draw(t, "wraperr"))
			kind := ""
			if fail {
				kind = rapid.SampledFrom([]string{"", "", "deadline", "canceled", "permanent", "joined"}).Draw(t, "errkind")
			}
			c.Kind = append(c.Kind, kind)
			var prog []Op
			if s.Leaves[i].Mutates {
				prog = append([]Op{Mark(fmt.Sprintf("k%d.c%d", k, i))}, genProgram(t, "prog", 2, ix)...)
			}
			c.Prog = append(c.Prog, prog)
		}
		c.Mode = rapid.SampledFrom([]string{"park", "park", "park", "free", "seq"}).Draw(t, "mode")
		if c.Mode == "park" {
			// later leaves are the interesting ones (more of the call is behind the parked leaf)
			c.Park = n - 1 - rapid.IntRange(0, n-1).Draw(t, "park-from-end")
		}
		s.Calls = append(s.Calls, c)
	}
	return s
}

// concErr is the distinct error value of one (call, leaf).
type concErr struct{ k, i int }

func (e *concErr) Error() string { return fmt.Sprintf("c06 call %d leaf %d failed", e.k, e.i) }

type callKey struct{}

// cobs is what one leaf observed in one call.
type cobs struct {
	calls    int
	seenEq   bool
	seenDiff string
	ro       bool
	retained any
	mutPanic string
}

func runConc(s ConcScript) (nontrivial bool, key string, f *vt.Finding) {
	jb, _ := json.Marshal(&s)
	h := sha256.Sum256(jb)
	key = string(h[:])
	cConc.HangGuard(60*time.Second, &s, "hang/fanout-concurrent", func() { nontrivial, f = runConcInner(&s) })
	return nontrivial, key, f
}

func runConcInner(s *ConcScript) (bool, *vt.Finding) {
	api := apis[s.Signal]
	nl, nc := len(s.Leaves), len(s.Calls)
	if api == nil || nl == 0 || nc == 0 || len(s.Layout) == 0 {
		return false, nil
	}
	for _, c := range s.Calls {
		if len(c.Fail) != nl || len(c.Wrap) != nl || len(c.Kind) != nl || len(c.Prog) != nl || c.Park < 0 || c.Park >= nl {
			return false, nil
		}
	}
	covered := make([]int, nl)
	for _, m := range s.Layout {
		for _, i := range m.Leaves {
			if i < 0 || i >= nl {
				return false, nil
			}
			covered[i]++
		}
	}
	for _, n := range covered {
		if n != 1 {
			return false, nil
		}
	}

	ins := make([]any, nc)
	origs := make([]any, nc)
	for k, c := range s.Calls {
		v, err := sig.Decode(s.Signal, c.Payload)
		if err != nil {
			return false, vt.Failf("harness/decode", "cannot decode payload of call %d: %v", k, err)
		}
		ins[k] = v
		origs[k] = pview.Of(v)
		if c.ReadOnly {
			markReadOnly(v)
		}
	}

	var mu sync.Mutex
	obs := make([][]*cobs, nc)
	errv := make([][]*concErr, nc)
	for k := range obs {
		obs[k] = make([]*cobs, nl)
		errv[k] = make([]*concErr, nl)
		for i := range obs[k] {
			obs[k][i] = &cobs{}
			errv[k][i] = &concErr{k, i}
		}
	}
	lostCtx := 0
	parked := make([]chan struct{}, nc) // closed when call k sits in its park leaf
	done := make([]chan struct{}, nc)   // closed when call k returned
	var parkOnce []sync.Once = make([]sync.Once, nc)
	for k := range parked {
		parked[k] = make(chan struct{})
		done[k] = make(chan struct{})
	}

	cons := make([]capser, nl)
	for i := range s.Leaves {
		i := i
		lf := s.Leaves[i]
		cons[i] = api.newCons(lf.Mutates, func(ctx context.Context, v any) error {
			k, ok := ctx.Value(callKey{}).(int)
			if !ok || k < 0 || k >= nc {
				mu.Lock()
				lostCtx++
				mu.Unlock()
				return nil
			}
			c := &s.Calls[k]
			o := obs[k][i]
			mu.Lock()
			o.calls++
			first := o.calls == 1
			mu.Unlock()
			if first {
				tree := pview.Of(v)
				eq := pview.Equal(origs[k], tree)
				diff := ""
				if !eq {
					diff = pview.Diff(origs[k], tree)
				}
				ro := isReadOnly(v)
				mp := ""
				if lf.Mutates && !ro {
					if msg := applyRecovered(v, c.Prog[i]); msg != "" {
						mp = msg
					}
				}
				mu.Lock()
				o.seenEq, o.seenDiff, o.ro, o.retained, o.mutPanic = eq, diff, ro, v, mp
				mu.Unlock()
				if c.Mode == "park" && c.Park == i && k < nc-1 {
					parkOnce[k].Do(func() { close(parked[k]) })
					for j := k + 1; j < nc; j++ {
						<-done[j]
					}
				}
			}
			if c.Fail[i] {
				e := shapeErr(errv[k][i], c.Kind[i])
				if c.Wrap[i] {
					return fmt.Errorf("wrapped by leaf %d in call %d: %w", i, k, e)
				}
				return e
			}
			return nil
		})
	}

	members := make([]capser, len(s.Layout))
	for m, mem := range s.Layout {
		if len(mem.Leaves) == 1 && !mem.Wrap {
			members[m] = cons[mem.Leaves[0]]
			continue
		}
		var inner []capser
		for _, i := range mem.Leaves {
			inner = append(inner, cons[i])
		}
		members[m] = api.fanout(inner)
	}
	var top capser
	if s.Via == "router-all" {
		mm := map[pipeline.ID]capser{}
		for m := range members {
			mm[pipeline.NewIDWithName(api.signal, fmt.Sprintf("m%d", m))] = members[m]
		}
		top = api.routerAll(mm)
	} else {
		top = api.fanout(members)
	}
	caps := top.Capabilities().MutatesData

	// ---- drive: calls are started in order, each one's Mode says when the next one starts
	results := make([]error, nc)
	panics := make([]string, nc)
	for k := 0; k < nc; k++ {
		k := k
		go func() {
			defer close(done[k])
			ctx := context.WithValue(context.Background(), callKey{}, k)
			if p, stack := vt.Recover(func() { results[k] = api.consume(top, ctx, ins[k]) }); p != nil {
				panics[k] = fmt.Sprintf("%v\n%s", p, stack)
			}
		}()
		if k == nc-1 {
			break
		}
		switch s.Calls[k].Mode {
		case "park":
			select {
			case <-parked[k]:
			case <-done[k]:
			}
		case "seq":
			<-done[k]
		}
	}
	for k := range done {
		<-done[k]
	}

	// ---- classification
	nMut := 0
	for _, l := range s.Leaves {
		if l.Mutates {
			nMut++
		}
	}
	nPark, nFailCalls, nCleanCalls, nRO := 0, 0, 0, 0
	failSets := map[string]bool{}
	for k, c := range s.Calls {
		if c.Mode == "park" && k < nc-1 {
			nPark++
		}
		fs := ""
		any := false
		for _, b := range c.Fail {
			if b {
				fs += "1"
				any = true
			} else {
				fs += "0"
			}
		}
		failSets[fs] = true
		if any {
			nFailCalls++
		} else {
			nCleanCalls++
		}
		if c.ReadOnly {
			nRO++
		}
		if k < nc-1 {
			cConc.Class("mode:" + c.Mode)
		}
	}
	cConc.Class("signal:"+s.Signal, "via:"+s.Via, fmt.Sprintf("calls:%d", nc), fmt.Sprintf("leaves:%d", nl),
		fmt.Sprintf("layout:mut%d/ro%d", nMut, nl-nMut), fmt.Sprintf("parked-calls:%d", nPark))
	if len(s.Layout) != nl {
		cConc.Class("nested")
	}
	switch {
	case nFailCalls > 0 && nCleanCalls > 0:
		cConc.Class("failures:some-calls-fail-some-clean")
	case nFailCalls > 0:
		cConc.Class("failures:every-call-has-a-failure")
	default:
		cConc.Class("failures:none")
	}
	if len(failSets) > 1 {
		cConc.Class("failures:failing-set-differs-between-calls")
	}
	if nRO > 0 && nRO < nc {
		cConc.Class("input:readonly-and-mutable-mixed")
	}
	forced := nPark > 0
	if forced {
		cConc.Class("overlap:forced")
	}

	// ---- oracle (per call; nothing here depends on how the calls interleaved)
	for k := range s.Calls {
		if panics[k] != "" {
			return true, vt.Failf("concurrent/panic", "call %d on the shared fan-out panicked: %s", k, panics[k])
		}
	}
	if lostCtx > 0 {
		return true, vt.Failf("concurrent/context-not-passed", "%d consumer invocations received a context without the value the caller put into it", lostCtx)
	}
	// (a) every consumer invoked exactly once per call
	for k := range s.Calls {
		for i := range s.Leaves {
			switch n := obs[k][i].calls; {
			case n == 0:
				return true, vt.Failf("concurrent/invocation/missing", "call %d of %d overlapping calls: leaf %d was never invoked", k, nc, i)
			case n > 1:
				return true, vt.Failf("concurrent/invocation/repeated", "call %d of %d overlapping calls: leaf %d was invoked %d times", k, nc, i, n)
			}
		}
	}
	// (b) with that call's payload; a declared mutator gets data it may mutate
	nROLeaves := nl - nMut
	for k := range s.Calls {
		for i, l := range s.Leaves {
			o := obs[k][i]
			if !o.seenEq {
				for k2 := range s.Calls {
					if k2 != k && pview.Equal(origs[k2], pview.Of(o.retained)) && !pview.Equal(origs[k2], origs[k]) {
						return true, vt.Failf("concurrent/content-at-call/other-call", "call %d leaf %d received the payload of call %d", k, i, k2)
					}
				}
				return true, vt.Failf("concurrent/content-at-call", "call %d leaf %d received content that differs from what that call sent: %s", k, i, o.seenDiff)
			}
			if l.Mutates && o.ro {
				return true, vt.Failf("concurrent/readonly-to-mutator", "call %d leaf %d declares MutatesData but was handed a read-only payload", k, i)
			}
			if l.Mutates && o.mutPanic != "" {
				return true, vt.Failf("concurrent/mutator-panic", "call %d leaf %d: mutation program panicked on a payload that is not read-only: %s", k, i, o.mutPanic)
			}
			if !l.Mutates && nROLeaves >= 2 && !o.ro {
				return true, vt.Failf("concurrent/shared-not-readonly", "call %d: %d non-mutating consumers share the payload but leaf %d saw it not marked read-only", k, nROLeaves, i)
			}
		}
	}
	// (c) isolation, between the consumers of a call and between calls
	changed := false
	for k, c := range s.Calls {
		for i, l := range s.Leaves {
			final := pview.Of(obs[k][i].retained)
			if !l.Mutates {
				if !pview.Equal(origs[k], final) {
					return true, vt.Failf("concurrent/reader-sees-mutation", "call %d non-mutating leaf %d: retained payload changed: %s", k, i, pview.Diff(origs[k], final))
				}
				continue
			}
			ref, err := sig.Decode(s.Signal, c.Payload)
			if err != nil {
				return false, vt.Failf("harness/decode", "%v", err)
			}
			if msg := applyRecovered(ref, c.Prog[i]); msg != "" {
				return false, vt.Failf("harness/ref-panic", "reference application of call %d leaf %d's program panicked: %s", k, i, msg)
			}
			want := pview.Of(ref)
			if !pview.Equal(want, final) {
				return true, vt.Failf("concurrent/mutator-not-isolated", "call %d mutating leaf %d: retained payload is not that call's payload plus exactly its own edits: %s", k, i, pview.Diff(want, final))
			}
			if !pview.Equal(origs[k], final) {
				changed = true
			}
		}
		if !caps {
			if after := pview.Of(ins[k]); !pview.Equal(origs[k], after) {
				return true, vt.Failf("concurrent/nonmutating-fanout-changed-input", "the fan-out advertises MutatesData=false but the payload given to call %d changed: %s", k, pview.Diff(origs[k], after))
			}
		}
	}
	// (d) the returned error aggregates exactly the failures of THAT call
	for k, c := range s.Calls {
		res := results[k]
		nFail := 0
		for i := range s.Leaves {
			if c.Fail[i] {
				nFail++
			}
		}
		for k2 := range s.Calls {
			for i := range s.Leaves {
				is := errors.Is(res, errv[k2][i])
				switch {
				case k2 == k && c.Fail[i] && !is:
					return true, vt.Failf("concurrent/error-aggregation/missing", "%d overlapping calls on one fan-out: leaf %d failed in call %d but errors.Is(result of call %d, its error) is false; result = %v", nc, i, k, k, res)
				case k2 == k && !c.Fail[i] && is:
					return true, vt.Failf("concurrent/error-aggregation/spurious", "leaf %d did not fail in call %d but its error value is in that call's result %v", i, k, res)
				case k2 != k && is:
					return true, vt.Failf("concurrent/error-aggregation/other-call", "the result of call %d contains the error leaf %d returned in call %d: %v", k, i, k2, res)
				}
			}
		}
		if (res == nil) != (nFail == 0) {
			return true, vt.Failf("concurrent/error-aggregation/nil", "%d leaves failed in call %d but its result = %v", nFail, k, res)
		}
	}
	if changed {
		cConc.Class("mutation-performed")
	}
	// non-trivial: an overlap was forced and the calls differ in who fails (so a mixed-up result is visible)
	return forced && len(failSets) > 1, nil
}

func TestFanoutConcurrent(t *testing.T) {
	defer flushOpReach(cConc)
	vt.Run(t, cConc, vt.N(3000, 150000), genConc, runConc)
}
