package c06

import (
	"fmt"
	"reflect"
	"sort"
	"strings"
	"sync"

	"pgregory.net/rapid"

	"go.opentelemetry.io/collector/pdata/pcommon"
	"go.opentelemetry.io/collector/pdata/plog"
	"go.opentelemetry.io/collector/pdata/pmetric"
	"go.opentelemetry.io/collector/pdata/pprofile"
	"go.opentelemetry.io/collector/pdata/ptrace"
	"go.opentelemetry.io/collector/verifharness/pview"
)

// Op is one step of a mutation program.  A program is signal-generic: the
// node to mutate is found by walking the payload through its public getters
// (Path: at every node the selector picks child "sel mod #children"), and the
// operation applied there depends on the class of the node reached (message,
// message slice, attribute map, attribute value, value slice, primitive
// slice, trace state).  A program is a deterministic function of the content
// of the payload it is applied to, so applying it to an independent copy of
// the same content yields the content the mutator must end up with.
//
// Kind < 0 is the marker operation: append a resource entry carrying the
// attribute c06.by=S (never idempotent, so that a program that ran twice on
// the same payload, or on a payload somebody else also edited, always shows).
type Op struct {
	Path []int  `json:"p,omitempty"`
	Kind int    `json:"k"`
	N    int    `json:"n,omitempty"`
	S    string `json:"s,omitempty"`
}

const markAttr = "c06.by"

// Mark builds the marker operation.
func Mark(who string) Op { return Op{Kind: -1, S: who} }

var (
	mapType   = reflect.TypeOf(pcommon.Map{})
	valueType = reflect.TypeOf(pcommon.Value{})
	tsType    = reflect.TypeOf(pcommon.TraceState{})
)

var mutPrefixes = []string{"Set", "Put", "Remove", "Append", "Move", "Copy", "Mark", "Ensure", "From", "New", "Sort", "Range", "Get", "Has", "Equal"}

var skipGetters = map[string]bool{"All": true, "AsRaw": true, "AsString": true, "String": true}

func isMutatorName(n string) bool {
	for _, p := range mutPrefixes {
		if strings.HasPrefix(n, p) {
			return true
		}
	}
	return false
}

type getter struct {
	idx   int
	name  string
	alt   bool // one-of alternative: only valid while active
	known bool // pview knows the discriminator
	disc  string
	want  string
}

type tinfo struct {
	class    string
	name     string
	getters  []getter
	setters  []int
	empties  []int
	removers []int
}

var tcache sync.Map

func typeName(t reflect.Type) string {
	p := t.PkgPath()
	if i := strings.LastIndex(p, "/"); i >= 0 {
		p = p[i+1:]
	}
	return p + "." + t.Name()
}

func scalarKind(t reflect.Type) bool {
	switch t.Kind() {
	case reflect.Bool, reflect.Int, reflect.Int32, reflect.Int64, reflect.Uint32, reflect.Uint64, reflect.Float64, reflect.String:
		return true
	case reflect.Array:
		return t.Elem().Kind() == reflect.Uint8
	}
	return false
}

func infoOf(t reflect.Type) *tinfo {
	if v, ok := tcache.Load(t); ok {
		return v.(*tinfo)
	}
	ti := &tinfo{name: typeName(t)}
	switch {
	case t == mapType:
		ti.class = "map"
	case t == valueType:
		ti.class = "value"
	case t == tsType:
		ti.class = "tracestate"
	case t.Kind() != reflect.Struct:
		ti.class = "scalar"
	default:
		_, hasAE := t.MethodByName("AppendEmpty")
		_, hasFR := t.MethodByName("FromRaw")
		_, hasAp := t.MethodByName("Append")
		switch {
		case hasAE && hasFR:
			ti.class = "vslice"
		case hasAE:
			ti.class = "mslice"
		case hasAp:
			ti.class = "pslice"
		default:
			ti.class = "message"
		}
	}
	if ti.class == "message" {
		for i := 0; i < t.NumMethod(); i++ {
			m := t.Method(i)
			switch {
			case strings.HasPrefix(m.Name, "SetEmpty") && m.Type.NumIn() == 1 && m.Type.NumOut() == 1:
				ti.empties = append(ti.empties, i)
			case strings.HasPrefix(m.Name, "Set") && m.Type.NumIn() == 2 && m.Type.NumOut() == 0 && scalarKind(m.Type.In(1)):
				ti.setters = append(ti.setters, i)
			case strings.HasPrefix(m.Name, "Remove") && m.Type.NumIn() == 1 && m.Type.NumOut() == 0:
				ti.removers = append(ti.removers, i)
			case m.Type.NumIn() == 1 && m.Type.NumOut() == 1 && !isMutatorName(m.Name) && !skipGetters[m.Name]:
				ot := m.Type.Out(0)
				if ot.Kind() != reflect.Struct || !strings.Contains(ot.PkgPath(), "/pdata/") {
					continue
				}
				g := getter{idx: i, name: m.Name}
				if _, isAlt := t.MethodByName("SetEmpty" + m.Name); isAlt {
					g.alt = true
					g.disc, g.want, g.known = pview.OneofAlt(ti.name, m.Name)
				}
				ti.getters = append(ti.getters, g)
			}
		}
	}
	tcache.Store(t, ti)
	return ti
}

func call0(rv reflect.Value, name string) reflect.Value { return rv.MethodByName(name).Call(nil)[0] }

func lenOf(rv reflect.Value) int { return int(call0(rv, "Len").Int()) }

func atOf(rv reflect.Value, i int) reflect.Value {
	return rv.MethodByName("At").Call([]reflect.Value{reflect.ValueOf(i)})[0]
}

// activeGetters lists the child getters of a message that may be followed now.
func activeGetters(rv reflect.Value, ti *tinfo) []getter {
	out := make([]getter, 0, len(ti.getters))
	for _, g := range ti.getters {
		if g.alt {
			if !g.known {
				continue
			}
			if fmt.Sprint(call0(rv, g.disc).Interface()) != g.want {
				continue
			}
		}
		out = append(out, g)
	}
	return out
}

func numChildren(rv reflect.Value) int {
	ti := infoOf(rv.Type())
	switch ti.class {
	case "message":
		return len(activeGetters(rv, ti))
	case "mslice", "vslice":
		return lenOf(rv)
	case "map":
		return rv.Interface().(pcommon.Map).Len()
	case "value":
		switch rv.Interface().(pcommon.Value).Type() {
		case pcommon.ValueTypeMap, pcommon.ValueTypeSlice, pcommon.ValueTypeBytes:
			return 1
		}
	}
	return 0
}

func childOf(rv reflect.Value, i int) reflect.Value {
	ti := infoOf(rv.Type())
	switch ti.class {
	case "message":
		return rv.Method(activeGetters(rv, ti)[i].idx).Call(nil)[0]
	case "mslice", "vslice":
		return atOf(rv, i)
	case "map":
		var out pcommon.Value
		k := 0
		rv.Interface().(pcommon.Map).Range(func(_ string, v pcommon.Value) bool {
			if k == i {
				out = v
				return false
			}
			k++
			return true
		})
		return reflect.ValueOf(out)
	case "value":
		v := rv.Interface().(pcommon.Value)
		switch v.Type() {
		case pcommon.ValueTypeMap:
			return reflect.ValueOf(v.Map())
		case pcommon.ValueTypeSlice:
			return reflect.ValueOf(v.Slice())
		case pcommon.ValueTypeBytes:
			return reflect.ValueOf(v.Bytes())
		}
	}
	panic("c06: childOf on a leaf")
}

func navigate(rv reflect.Value, path []int) reflect.Value {
	for _, sel := range path {
		n := numChildren(rv)
		if n == 0 {
			break
		}
		rv = childOf(rv, mod(sel, n))
	}
	return rv
}

func mod(a, n int) int {
	if n <= 0 {
		return 0
	}
	a %= n
	if a < 0 {
		a += n
	}
	return a
}

// scalarFrom builds an argument of type t from the op's arguments.
func scalarFrom(t reflect.Type, n int, s string) reflect.Value {
	out := reflect.New(t).Elem()
	switch t.Kind() {
	case reflect.Bool:
		out.SetBool(n%2 != 0)
	case reflect.Int, reflect.Int32, reflect.Int64:
		out.SetInt(int64(n))
	case reflect.Uint8, reflect.Uint32, reflect.Uint64:
		out.SetUint(uint64(mod(n, 251)))
	case reflect.Float64:
		out.SetFloat(float64(n) / 4)
	case reflect.String:
		out.SetString(s)
	case reflect.Array:
		for i := 0; i < t.Len(); i++ {
			out.Index(i).SetUint(uint64(mod(n+i, 251) + 1))
		}
	}
	return out
}

// ApplyOp executes one operation on the payload root (a pdata root value).
// On a read-only payload every operation panics (the first mutator call it
// makes asserts the shared state); every operation makes at least one
// mutator call whatever the content is.
func ApplyOp(root any, op Op) {
	if op.Kind < 0 {
		markRoot(root, op.S)
		return
	}
	mutate(navigate(reflect.ValueOf(root), op.Path), op, 0)
}

// ApplyProgram executes a program.
func ApplyProgram(root any, prog []Op) {
	for _, op := range prog {
		ApplyOp(root, op)
	}
}

func markRoot(root any, who string) {
	switch x := root.(type) {
	case plog.Logs:
		x.ResourceLogs().AppendEmpty().Resource().Attributes().PutStr(markAttr, who)
	case ptrace.Traces:
		x.ResourceSpans().AppendEmpty().Resource().Attributes().PutStr(markAttr, who)
	case pmetric.Metrics:
		x.ResourceMetrics().AppendEmpty().Resource().Attributes().PutStr(markAttr, who)
	case pprofile.Profiles:
		x.ResourceProfiles().AppendEmpty().Resource().Attributes().PutStr(markAttr, who)
	default:
		panic(fmt.Sprintf("c06: markRoot: %T", root))
	}
}

func removeIfFunc(rv reflect.Value, pred func(i int) bool) {
	m := rv.MethodByName("RemoveIf")
	ft := m.Type().In(0)
	i := -1
	fn := reflect.MakeFunc(ft, func([]reflect.Value) []reflect.Value {
		i++
		return []reflect.Value{reflect.ValueOf(pred(i))}
	})
	m.Call([]reflect.Value{fn})
}

func maskPred(n, length int) func(int) bool {
	victim := mod(n, length)
	return func(i int) bool { return i == victim || (n>>(uint(i)%16+3))&1 == 1 }
}

func key(op Op) string {
	if op.S != "" {
		return op.S
	}
	return "k"
}

// opReach counts, per node class, how many operations were aimed at it (both
// on real payloads and on reference copies); flushed into the class histogram.
var opReach struct {
	mu sync.Mutex
	m  map[string]int64
}

func flushOpReach(c interface{ ClassN(string, int64) }) {
	opReach.mu.Lock()
	defer opReach.mu.Unlock()
	for k, v := range opReach.m {
		c.ClassN("op-target:"+k, v)
	}
	opReach.m = nil
}

func mutate(rv reflect.Value, op Op, depth int) {
	ti := infoOf(rv.Type())
	if depth == 0 {
		opReach.mu.Lock()
		if opReach.m == nil {
			opReach.m = map[string]int64{}
		}
		opReach.m[ti.class]++
		opReach.mu.Unlock()
	}
	switch ti.class {
	case "message":
		mutateMessage(rv, ti, op, depth)
	case "mslice":
		n := lenOf(rv)
		switch k := mod(op.Kind, 6); {
		case k == 1:
			removeIfFunc(rv, maskPred(op.N, n))
		case k == 2 && n >= 2:
			i := mod(op.N, n)
			j := mod(i+1+mod(op.N/7, n-1), n)
			atOf(rv, i).MethodByName("MoveTo").Call([]reflect.Value{atOf(rv, j)})
		case k == 3 && n >= 1:
			src := atOf(rv, mod(op.N, n))
			dst := call0(rv, "AppendEmpty")
			// re-fetch the source: AppendEmpty may have grown the slice
			src = atOf(rv, mod(op.N, n))
			src.MethodByName("CopyTo").Call([]reflect.Value{dst})
		case k == 4:
			rv.MethodByName("EnsureCapacity").Call([]reflect.Value{reflect.ValueOf(n + 1 + mod(op.N, 8))})
			touch(call0(rv, "AppendEmpty"), op, depth)
		case k == 5 && n >= 1:
			removeIfFunc(rv, func(int) bool { return true })
		default:
			touch(call0(rv, "AppendEmpty"), op, depth)
		}
	case "vslice":
		s := rv.Interface().(pcommon.Slice)
		switch k := mod(op.Kind, 4); {
		case k == 1:
			removeIfFunc(rv, maskPred(op.N, s.Len()))
		case k == 2:
			s.EnsureCapacity(s.Len() + 2)
			s.AppendEmpty().SetInt(int64(op.N))
		case k == 3:
			_ = s.FromRaw([]any{op.S, int64(op.N)})
		default:
			s.AppendEmpty().SetStr(op.S)
		}
	case "map":
		m := rv.Interface().(pcommon.Map)
		switch k := mod(op.Kind, 9); {
		case k == 1:
			m.PutInt(key(op), int64(op.N))
		case k == 2:
			victim := key(op)
			if n := m.Len(); n > 0 {
				i := 0
				m.Range(func(k string, _ pcommon.Value) bool {
					if i == mod(op.N, n) {
						victim = k
						return false
					}
					i++
					return true
				})
			}
			m.Remove(victim)
		case k == 3:
			i := -1
			pred := maskPred(op.N, m.Len())
			m.RemoveIf(func(string, pcommon.Value) bool { i++; return pred(i) })
		case k == 4:
			m.Clear()
		case k == 5:
			m.PutEmptyMap(key(op)).PutStr("n", op.S)
		case k == 6:
			m.PutEmptySlice(key(op)).AppendEmpty().SetInt(int64(op.N))
		case k == 7:
			m.EnsureCapacity(m.Len() + 3)
			m.PutBool(key(op), op.N%2 == 0)
		case k == 8:
			_ = m.FromRaw(map[string]any{key(op): int64(op.N)})
		default:
			m.PutStr(key(op), fmt.Sprintf("%s#%d", op.S, op.N))
		}
	case "value":
		v := rv.Interface().(pcommon.Value)
		switch mod(op.Kind, 9) {
		case 1:
			v.SetInt(int64(op.N))
		case 2:
			v.SetDouble(float64(op.N) / 8)
		case 3:
			v.SetBool(op.N%2 == 0)
		case 4:
			v.SetEmptyMap().PutStr(key(op), op.S)
		case 5:
			v.SetEmptySlice().AppendEmpty().SetStr(op.S)
		case 6:
			v.SetEmptyBytes().FromRaw([]byte(op.S + "!"))
		case 7:
			_ = v.FromRaw(int64(op.N))
		case 8:
			_ = v.FromRaw(nil)
		default:
			v.SetStr(fmt.Sprintf("%s#%d", op.S, op.N))
		}
	case "pslice":
		n := lenOf(rv)
		st := rv.MethodByName("FromRaw").Type().In(0)
		et := st.Elem()
		a, b := scalarFrom(et, op.N, op.S), scalarFrom(et, op.N+1, op.S+"x")
		switch k := mod(op.Kind, 5); {
		case k == 1 && n >= 1:
			rv.MethodByName("SetAt").Call([]reflect.Value{reflect.ValueOf(mod(op.N, n)), a})
		case k == 2:
			s := reflect.MakeSlice(st, 2, 2)
			s.Index(0).Set(a)
			s.Index(1).Set(b)
			rv.MethodByName("FromRaw").Call([]reflect.Value{s})
		case k == 3:
			rv.MethodByName("EnsureCapacity").Call([]reflect.Value{reflect.ValueOf(n + 4)})
			rv.MethodByName("Append").Call([]reflect.Value{a, b})
		case k == 4:
			rv.MethodByName("FromRaw").Call([]reflect.Value{reflect.MakeSlice(st, 0, 0)})
		default:
			rv.MethodByName("Append").Call([]reflect.Value{a})
		}
	case "tracestate":
		rv.Interface().(pcommon.TraceState).FromRaw(fmt.Sprintf("%s=%d", key(op), op.N))
	default:
		panic("c06: mutate reached " + ti.class + " " + ti.name)
	}
}

// touch sets something on a freshly appended element so that it is not just
// the zero element.
func touch(rv reflect.Value, op Op, depth int) {
	ti := infoOf(rv.Type())
	if ti.class == "message" && len(ti.setters) > 0 {
		callSetter(rv, ti, op)
	}
}

func callSetter(rv reflect.Value, ti *tinfo, op Op) {
	idx := ti.setters[mod(op.N, len(ti.setters))]
	m := rv.Method(idx)
	m.Call([]reflect.Value{scalarFrom(m.Type().In(0), op.N, op.S)})
}

func mutateMessage(rv reflect.Value, ti *tinfo, op Op, depth int) {
	k := mod(op.Kind, 4)
	switch {
	case k == 1 && len(ti.empties) > 0:
		rv.Method(ti.empties[mod(op.N, len(ti.empties))]).Call(nil)
		return
	case k == 2 && len(ti.removers) > 0:
		// clearing an optional scalar: set it first (so that there is something to clear half of the time)
		if op.N%2 == 0 && len(ti.setters) > 0 {
			callSetter(rv, ti, op)
		}
		rv.Method(ti.removers[mod(op.N, len(ti.removers))]).Call(nil)
		return
	}
	if len(ti.setters) > 0 {
		callSetter(rv, ti, op)
		return
	}
	// a pure container message (roots, …): descend
	if n := numChildren(rv); n > 0 && depth < 8 {
		mutate(childOf(rv, mod(op.N, n)), op, depth+1)
		return
	}
	panic("c06: message without setters or children: " + ti.name)
}

// siteIndex lists, per node class, the exact paths of the nodes of a payload
// (generator side only: it lets a program aim at deep and rare nodes — a
// bucket-count slice of a histogram point sits ten getters below the root —
// instead of hoping that random selectors get there).
type siteIndex struct {
	classes []string
	paths   map[string][][]int
}

func indexSites(root any) *siteIndex {
	ix := &siteIndex{paths: map[string][][]int{}}
	budget := 4000
	var dfs func(rv reflect.Value, path []int)
	dfs = func(rv reflect.Value, path []int) {
		if budget <= 0 {
			return
		}
		budget--
		cl := infoOf(rv.Type()).class
		if _, ok := ix.paths[cl]; !ok {
			ix.classes = append(ix.classes, cl)
		}
		ix.paths[cl] = append(ix.paths[cl], append([]int(nil), path...))
		n := numChildren(rv)
		for i := 0; i < n; i++ {
			dfs(childOf(rv, i), append(path, i))
		}
	}
	dfs(reflect.ValueOf(root), nil)
	sort.Strings(ix.classes)
	return ix
}

// genProgram draws a mutation program of 0..max steps; ix (may be nil) is the
// site index of the payload the program will (first) be applied to.
func genProgram(t *rapid.T, label string, max int, ix *siteIndex) []Op {
	n := rapid.IntRange(0, max).Draw(t, label+"#")
	var out []Op
	for i := 0; i < n; i++ {
		out = append(out, genOp(t, label, ix))
	}
	return out
}

func genOp(t *rapid.T, label string, ix *siteIndex) Op {
	op := Op{
		Kind: rapid.IntRange(0, 35).Draw(t, label+"-kind"),
		N:    rapid.IntRange(0, 4095).Draw(t, label+"-n"),
		S:    rapid.SampledFrom([]string{"a", "b", "c", "zz", "k.long.key", ""}).Draw(t, label+"-s"),
	}
	if ix != nil && len(ix.classes) > 0 && rapid.IntRange(0, 3).Draw(t, label+"-aimed") > 0 {
		cl := rapid.SampledFrom(ix.classes).Draw(t, label+"-class")
		op.Path = append([]int(nil), rapid.SampledFrom(ix.paths[cl]).Draw(t, label+"-site")...)
		return op
	}
	depth := rapid.IntRange(0, 12).Draw(t, label+"-depth")
	for i := 0; i < depth; i++ {
		op.Path = append(op.Path, rapid.IntRange(0, 11).Draw(t, label+"-sel"))
	}
	return op
}
