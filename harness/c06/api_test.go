package c06

import (
	"context"
	"errors"

	"go.opentelemetry.io/collector/connector"
	"go.opentelemetry.io/collector/connector/xconnector"
	"go.opentelemetry.io/collector/consumer"
	"go.opentelemetry.io/collector/consumer/xconsumer"
	"go.opentelemetry.io/collector/internal/fanoutconsumer"
	"go.opentelemetry.io/collector/pdata/plog"
	"go.opentelemetry.io/collector/pdata/pmetric"
	"go.opentelemetry.io/collector/pdata/pprofile"
	"go.opentelemetry.io/collector/pdata/ptrace"
	"go.opentelemetry.io/collector/pipeline"
	"go.opentelemetry.io/collector/pipeline/xpipeline"
	"go.opentelemetry.io/collector/verifharness/sig"
)

// capser is what every consumer of every signal offers.
type capser interface {
	Capabilities() consumer.Capabilities
}

// consumeFn is the signal-erased body of a test consumer.
type consumeFn func(ctx context.Context, v any) error

// sigAPI erases the signal from the fan-out entry points.
type sigAPI struct {
	name   string
	signal pipeline.Signal
	// newCons builds a consumer with the declared capability.
	newCons func(mutates bool, fn consumeFn) capser
	// fanout is fanoutconsumer.New<Signal>.
	fanout func(cs []capser) capser
	// routerAll is the consumer side of connector.New<Signal>Router(m).
	routerAll func(m map[pipeline.ID]capser) capser
	// routerPick is connector.New<Signal>Router(m).Consumer(ids...).
	routerPick func(m map[pipeline.ID]capser, ids []pipeline.ID) (capser, error)
	// consume calls Consume<Signal> on c.
	consume func(c capser, ctx context.Context, v any) error
	// pickFrom calls Consumer(ids...) on a router handed to a connector by the graph.
	pickFrom func(router capser, ids []pipeline.ID) (capser, error)
}

// routerIDs calls PipelineIDs() on a router handed to a connector by the graph.
func routerIDs(router capser) ([]pipeline.ID, bool) {
	r, ok := router.(interface{ PipelineIDs() []pipeline.ID })
	if !ok {
		return nil, false
	}
	return r.PipelineIDs(), true
}

func opt(mutates bool) consumer.Option {
	return consumer.WithCapabilities(consumer.Capabilities{MutatesData: mutates})
}

func conv[C any](cs []capser) []C {
	out := make([]C, 0, len(cs))
	for _, c := range cs {
		out = append(out, c.(C))
	}
	return out
}

func convMap[C any](m map[pipeline.ID]capser) map[pipeline.ID]C {
	out := make(map[pipeline.ID]C, len(m))
	for k, c := range m {
		out[k] = c.(C)
	}
	return out
}

var apis = map[string]*sigAPI{
	sig.Logs: {
		name: sig.Logs, signal: pipeline.SignalLogs,
		newCons: func(mutates bool, fn consumeFn) capser {
			c, err := consumer.NewLogs(func(ctx context.Context, v plog.Logs) error { return fn(ctx, v) }, opt(mutates))
			if err != nil {
				panic(err)
			}
			return c
		},
		fanout: func(cs []capser) capser { return fanoutconsumer.NewLogs(conv[consumer.Logs](cs)) },
		routerAll: func(m map[pipeline.ID]capser) capser {
			return connector.NewLogsRouter(convMap[consumer.Logs](m))
		},
		routerPick: func(m map[pipeline.ID]capser, ids []pipeline.ID) (capser, error) {
			return connector.NewLogsRouter(convMap[consumer.Logs](m)).Consumer(ids...)
		},
		consume: func(c capser, ctx context.Context, v any) error {
			return c.(consumer.Logs).ConsumeLogs(ctx, v.(plog.Logs))
		},
		pickFrom: func(router capser, ids []pipeline.ID) (capser, error) {
			r, ok := router.(connector.LogsRouterAndConsumer)
			if !ok {
				return nil, errNotRouter
			}
			return r.Consumer(ids...)
		},
	},
	sig.Traces: {
		name: sig.Traces, signal: pipeline.SignalTraces,
		newCons: func(mutates bool, fn consumeFn) capser {
			c, err := consumer.NewTraces(func(ctx context.Context, v ptrace.Traces) error { return fn(ctx, v) }, opt(mutates))
			if err != nil {
				panic(err)
			}
			return c
		},
		fanout: func(cs []capser) capser { return fanoutconsumer.NewTraces(conv[consumer.Traces](cs)) },
		routerAll: func(m map[pipeline.ID]capser) capser {
			return connector.NewTracesRouter(convMap[consumer.Traces](m))
		},
		routerPick: func(m map[pipeline.ID]capser, ids []pipeline.ID) (capser, error) {
			return connector.NewTracesRouter(convMap[consumer.Traces](m)).Consumer(ids...)
		},
		consume: func(c capser, ctx context.Context, v any) error {
			return c.(consumer.Traces).ConsumeTraces(ctx, v.(ptrace.Traces))
		},
		pickFrom: func(router capser, ids []pipeline.ID) (capser, error) {
			r, ok := router.(connector.TracesRouterAndConsumer)
			if !ok {
				return nil, errNotRouter
			}
			return r.Consumer(ids...)
		},
	},
	sig.Metrics: {
		name: sig.Metrics, signal: pipeline.SignalMetrics,
		newCons: func(mutates bool, fn consumeFn) capser {
			c, err := consumer.NewMetrics(func(ctx context.Context, v pmetric.Metrics) error { return fn(ctx, v) }, opt(mutates))
			if err != nil {
				panic(err)
			}
			return c
		},
		fanout: func(cs []capser) capser { return fanoutconsumer.NewMetrics(conv[consumer.Metrics](cs)) },
		routerAll: func(m map[pipeline.ID]capser) capser {
			return connector.NewMetricsRouter(convMap[consumer.Metrics](m))
		},
		routerPick: func(m map[pipeline.ID]capser, ids []pipeline.ID) (capser, error) {
			return connector.NewMetricsRouter(convMap[consumer.Metrics](m)).Consumer(ids...)
		},
		consume: func(c capser, ctx context.Context, v any) error {
			return c.(consumer.Metrics).ConsumeMetrics(ctx, v.(pmetric.Metrics))
		},
		pickFrom: func(router capser, ids []pipeline.ID) (capser, error) {
			r, ok := router.(connector.MetricsRouterAndConsumer)
			if !ok {
				return nil, errNotRouter
			}
			return r.Consumer(ids...)
		},
	},
	sig.Profiles: {
		name: sig.Profiles, signal: xpipeline.SignalProfiles,
		newCons: func(mutates bool, fn consumeFn) capser {
			c, err := xconsumer.NewProfiles(func(ctx context.Context, v pprofile.Profiles) error { return fn(ctx, v) }, opt(mutates))
			if err != nil {
				panic(err)
			}
			return c
		},
		fanout: func(cs []capser) capser { return fanoutconsumer.NewProfiles(conv[xconsumer.Profiles](cs)) },
		routerAll: func(m map[pipeline.ID]capser) capser {
			return xconnector.NewProfilesRouter(convMap[xconsumer.Profiles](m))
		},
		routerPick: func(m map[pipeline.ID]capser, ids []pipeline.ID) (capser, error) {
			return xconnector.NewProfilesRouter(convMap[xconsumer.Profiles](m)).Consumer(ids...)
		},
		consume: func(c capser, ctx context.Context, v any) error {
			return c.(xconsumer.Profiles).ConsumeProfiles(ctx, v.(pprofile.Profiles))
		},
		pickFrom: func(router capser, ids []pipeline.ID) (capser, error) {
			r, ok := router.(xconnector.ProfilesRouterAndConsumer)
			if !ok {
				return nil, errNotRouter
			}
			return r.Consumer(ids...)
		},
	},
}

var errNotRouter = errors.New("c06: the consumer handed to the connector is not a router")

// isReadOnly asks a pdata root whether it is marked read-only.
func isReadOnly(v any) bool { return v.(interface{ IsReadOnly() bool }).IsReadOnly() }

// markReadOnly marks a pdata root read-only.
func markReadOnly(v any) { v.(interface{ MarkReadOnly() }).MarkReadOnly() }
