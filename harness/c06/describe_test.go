package c06

import (
	"encoding/json"
	"os"
	"testing"

	"go.opentelemetry.io/collector/verifharness/pview"
	"go.opentelemetry.io/collector/verifharness/sig"
	"go.opentelemetry.io/collector/verifharness/vt"
)

// TestDescribe prints a replay script in readable form (debug aid):
// VT_DESCRIBE=<replay.json> go test -tags verif ./c06 -run TestDescribe -v
func TestDescribe(t *testing.T) {
	p := os.Getenv("VT_DESCRIBE")
	if p == "" {
		t.Skip()
	}
	var probe struct {
		Signal  string `json:"signal"`
		Payload []byte `json:"payload"`
	}
	check, err := vt.LoadReplay(p, &probe)
	if err != nil {
		t.Fatal(err)
	}
	v, err := sig.Decode(probe.Signal, probe.Payload)
	if err != nil {
		t.Fatal(err)
	}
	t.Logf("check=%s signal=%s payload:\n%s", check, probe.Signal, pview.String(pview.Of(v)))
	if check == "graph-isolation" {
		var s GraphScript
		_, _ = vt.LoadReplay(p, &s)
		s.Payload = nil
		b, _ := json.MarshalIndent(&s, "", "  ")
		t.Logf("configuration:\n%s", b)
		return
	}
	var s FanScript
	_, _ = vt.LoadReplay(p, &s)
	s.Payload = nil
	b, _ := json.MarshalIndent(&s, "", "  ")
	t.Logf("script:\n%s", b)
}
