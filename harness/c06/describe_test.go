package c06

import (
	"encoding/json"
	"fmt"
	"os"
	"path/filepath"
	"testing"

	"go.opentelemetry.io/collector/pdata/plog"
	"go.opentelemetry.io/collector/pdata/pmetric"
	"go.opentelemetry.io/collector/pdata/ptrace"

	"go.opentelemetry.io/collector/verifharness/pview"
	"go.opentelemetry.io/collector/verifharness/sig"
	"go.opentelemetry.io/collector/verifharness/vt"
)

// TestDescribe prints a replay script in readable form (debug aid):
// VT_DESCRIBE=<replay.json> go test -tags verif ./c06 -run TestDescribe -v
func TestDescribe(t *testing.T) {
	p := os.Getenv("VT_DESCRIBE")
	if p == "" {
		t.Skip()
	}
	var probe struct {
		Signal  string `json:"signal"`
		Payload []byte `json:"payload"`
	}
	check, err := vt.LoadReplay(p, &probe)
	if err != nil {
		t.Fatal(err)
	}
	v, err := sig.Decode(probe.Signal, probe.Payload)
	if err != nil {
		t.Fatal(err)
	}
	t.Logf("check=%s signal=%s payload:\n%s", check, probe.Signal, pview.String(pview.Of(v)))
	if check == "helper-capabilities" {
		var s HelperScript
		_, _ = vt.LoadReplay(p, &s)
		s.Payload = nil
		b, _ := json.MarshalIndent(&s, "", "  ")
		t.Logf("script:\n%s", b)
		return
	}
	if check == "graph-isolation" {
		var s GraphScript
		_, _ = vt.LoadReplay(p, &s)
		s.Payload = nil
		b, _ := json.MarshalIndent(&s, "", "  ")
		t.Logf("configuration:\n%s", b)
		return
	}
	var s FanScript
	_, _ = vt.LoadReplay(p, &s)
	s.Payload = nil
	b, _ := json.MarshalIndent(&s, "", "  ")
	t.Logf("script:\n%s", b)
}

// TestMakeHelperReplays writes the curated layer-3 replays (run once by hand:
// VT_MAKE_REPLAYS=/verif/replays/C06 go test -tags verif ./c06 -run TestMakeHelperReplays).
func TestMakeHelperReplays(t *testing.T) {
	dir := os.Getenv("VT_MAKE_REPLAYS")
	if dir == "" {
		t.Skip()
	}
	payload := map[string][]byte{}
	{
		ld := plog.NewLogs()
		sl := ld.ResourceLogs().AppendEmpty().ScopeLogs().AppendEmpty()
		for i := 0; i < 5; i++ {
			sl.LogRecords().AppendEmpty().Body().SetStr(fmt.Sprintf("record %d", i))
		}
		payload[sig.Logs] = sig.Encode(ld)
		td := ptrace.NewTraces()
		ss := td.ResourceSpans().AppendEmpty().ScopeSpans().AppendEmpty()
		for i := 0; i < 5; i++ {
			ss.Spans().AppendEmpty().SetName(fmt.Sprintf("span %d", i))
		}
		payload[sig.Traces] = sig.Encode(td)
		md := pmetric.NewMetrics()
		m := md.ResourceMetrics().AppendEmpty().ScopeMetrics().AppendEmpty().Metrics().AppendEmpty()
		m.SetName("g")
		for i := 0; i < 5; i++ {
			m.SetEmptyGauge().DataPoints().AppendEmpty().SetIntValue(int64(i))
		}
		g := m.Gauge()
		for i := 0; i < 4; i++ {
			g.DataPoints().AppendEmpty().SetIntValue(int64(10 + i))
		}
		payload[sig.Metrics] = sig.Encode(md)
	}
	for _, s := range sig.Three {
		for _, shape := range []string{"same-pipeline", "two-pipelines"} {
			for name, e := range map[string]HExp{
				"split-only-queue-batch": {Caps: "false", Queue: true, Batch: "max", Sizer: "items", Max: 2, FlushMS: 5, Consumers: 1},
				"min-only-queue-batch":   {Caps: "false", Queue: true, Batch: "min", Sizer: "items", Min: 7, FlushMS: 5, Consumers: 1},
				"legacy-batcher-max":     {Caps: "false", Legacy: "max", Max: 2, FlushMS: 5},
			} {
				sc := HelperScript{Signal: s, Payload: payload[s], Sends: 2, Exp: e, Shape: shape}
				b, _ := json.MarshalIndent(map[string]any{"property": "C06", "check": "helper-capabilities", "script": &sc}, "", " ")
				if err := os.WriteFile(filepath.Join(dir, fmt.Sprintf("l-helper-%s-%s-%s.json", name, shape, s)), b, 0o644); err != nil {
					t.Fatal(err)
				}
			}
		}
	}
}
