package c06

import (
	"context"
	"crypto/sha256"
	"encoding/json"
	"errors"
	"fmt"
	"sort"
	"strings"
	"sync"
	"testing"

	"go.uber.org/zap"
	"go.uber.org/zap/zapcore"
	"pgregory.net/rapid"

	"go.opentelemetry.io/collector/component"
	"go.opentelemetry.io/collector/config/configtelemetry"
	"go.opentelemetry.io/collector/connector"
	"go.opentelemetry.io/collector/connector/xconnector"
	"go.opentelemetry.io/collector/consumer"
	"go.opentelemetry.io/collector/consumer/xconsumer"
	"go.opentelemetry.io/collector/exporter"
	"go.opentelemetry.io/collector/exporter/xexporter"
	"go.opentelemetry.io/collector/featuregate"
	"go.opentelemetry.io/collector/pdata/plog"
	"go.opentelemetry.io/collector/pdata/pmetric"
	"go.opentelemetry.io/collector/pdata/pprofile"
	"go.opentelemetry.io/collector/pdata/ptrace"
	"go.opentelemetry.io/collector/pipeline"
	"go.opentelemetry.io/collector/processor"
	"go.opentelemetry.io/collector/processor/xprocessor"
	"go.opentelemetry.io/collector/receiver"
	"go.opentelemetry.io/collector/receiver/xreceiver"
	"go.opentelemetry.io/collector/service"
	"go.opentelemetry.io/collector/service/pipelines"
	"go.opentelemetry.io/collector/service/telemetry"
	"go.opentelemetry.io/collector/verifharness/pview"
	"go.opentelemetry.io/collector/verifharness/sig"
	"go.opentelemetry.io/collector/verifharness/vt"
)

// Layer 2: the graph built by the public service.New from a generated
// configuration whose processors, exporters and connectors declare
// MutatesData at random and really mutate.

const (
	recvType = "c6recv"
	procType = "c6proc"
	expType  = "c6exp"
	fwdType  = "c6fwd" // same-signal connector: hands the payload it received to the router
	xType    = "c6x"   // signal-converting connector: emits a fresh payload
)

// ring gives the signal a converting connector produces.
var ring = map[string]string{sig.Logs: sig.Metrics, sig.Metrics: sig.Traces, sig.Traces: sig.Profiles, sig.Profiles: sig.Logs}

// GComp is the behaviour of a processor or exporter id.
type GComp struct {
	Mutates bool   `json:"mut"`
	Sync    []Op   `json:"sync,omitempty"`
	Async   []Op   `json:"async,omitempty"` // exporters only
	Gate    int    `json:"gate,omitempty"`
	Fail    bool   `json:"fail,omitempty"`     // exporters only
	ErrKind string `json:"err_kind,omitempty"` // see Cons.ErrKind
	// Undeclared (non-mutating exporters only): mutation steps attempted when —
	// and only when — the payload received is marked read-only; each must panic.
	Undeclared []Op `json:"undeclared,omitempty"`
}

// GConn is one connector.
type GConn struct {
	ID      string `json:"id"`
	From    string `json:"from"`
	To      string `json:"to"`
	Mutates bool   `json:"mut"`
	Sync    []Op   `json:"sync,omitempty"`
	// Route (same-signal only): the connector asks its router for
	// Consumer(these pipelines...) instead of fanning out to all.
	Route []string `json:"route,omitempty"`
}

// GPipe is one pipeline.
type GPipe struct {
	Signal     string   `json:"signal"`
	Name       string   `json:"name"`
	Receivers  []string `json:"receivers"`
	Processors []string `json:"processors"`
	Exporters  []string `json:"exporters"`
}

func (p GPipe) ID() string { return p.Signal + "/" + p.Name }

// GraphScript is one layer-2 case.
type GraphScript struct {
	Signal   string           `json:"signal"`
	Payload  []byte           `json:"payload"`
	ReadOnly bool             `json:"readonly,omitempty"` // the receiver emits a payload it already marked read-only
	Recvs    []string         `json:"recvs"`
	Procs    map[string]GComp `json:"procs"`
	Exps     map[string]GComp `json:"exps"`
	Conns    []GConn          `json:"conns,omitempty"`
	Pipes    []GPipe          `json:"pipes"`
}

func init() {
	// profiles pipelines are behind an alpha gate; enabling it is a public, documented switch
	_ = featuregate.GlobalRegistry().Set("service.profilesSupport", true)
}

var cGraph = vt.New("C06", "graph-isolation")

func init() { cGraph.ReplayRepeat = 20 } // the graph iterates Go maps: invocation order varies between builds

// ---------------------------------------------------------------- generator

func subsetOf(t *rapid.T, label string, pool []string, min, max int) []string {
	if len(pool) == 0 || max <= 0 {
		return nil
	}
	if max > len(pool) {
		max = len(pool)
	}
	if min > max {
		min = max
	}
	k := rapid.IntRange(min, max).Draw(t, label+"#")
	if k == 0 {
		return nil
	}
	perm := rapid.Permutation(pool).Draw(t, label)
	return append([]string(nil), perm[:k]...)
}

func has(xs []string, x string) bool {
	for _, y := range xs {
		if y == x {
			return true
		}
	}
	return false
}

func genGraph(t *rapid.T) GraphScript {
	s := GraphScript{Signal: rapid.SampledFrom(sig.All).Draw(t, "signal"), Procs: map[string]GComp{}, Exps: map[string]GComp{}}
	var next int64 = 1
	s.Payload = sig.Gen(t, s.Signal, smallOpts(), &next)
	s.ReadOnly = pct(t, "readonly", 15)
	var ix *siteIndex
	if v, err := sig.Decode(s.Signal, s.Payload); err == nil {
		ix = indexSites(v)
	}
	s.Recvs = []string{recvType + "/r0", recvType + "/r1"}

	var procs, exps []string
	for i, n := 0, rapid.IntRange(0, 3).Draw(t, "nproc"); i < n; i++ {
		id := fmt.Sprintf("%s/p%d", procType, i)
		c := GComp{Mutates: rapid.Bool().Draw(t, "procmut")}
		if c.Mutates {
			c.Sync = append([]Op{Mark(id)}, genProgram(t, "procsync", 2, ix)...)
		}
		s.Procs[id] = c
		procs = append(procs, id)
	}
	for i, n := 0, rapid.IntRange(1, 4).Draw(t, "nexp"); i < n; i++ {
		id := fmt.Sprintf("%s/e%d", expType, i)
		c := GComp{Mutates: rapid.Bool().Draw(t, "expmut"), Fail: pct(t, "expfail", 20)}
		if c.Fail {
			c.ErrKind = rapid.SampledFrom([]string{"", "", "deadline", "canceled", "permanent", "joined"}).Draw(t, "experrkind")
		}
		if c.Mutates {
			c.Sync = genProgram(t, "expsync", 2, ix)
			if pct(t, "expmarksync", 80) {
				c.Sync = append([]Op{Mark(id + ".sync")}, c.Sync...)
			}
			if pct(t, "expasync?", 50) {
				c.Async = append([]Op{Mark(id + ".async")}, genProgram(t, "expasync", 2, ix)...)
				c.Gate = rapid.SampledFrom([]int{-1, 0, 0, 1, 3, 9}).Draw(t, "gate")
			}
		} else if pct(t, "expundeclared?", 40) {
			c.Undeclared = append(genProgram(t, "expundeclared", 1, ix), Mark(id+".undeclared"))
		}
		s.Exps[id] = c
		exps = append(exps, id)
	}

	other := ring[s.Signal]
	fwd := GConn{ID: fwdType + "/c0", From: s.Signal, To: s.Signal}
	cross := GConn{ID: xType + "/x0", From: s.Signal, To: other}
	hasFwd := pct(t, "fwd?", 60)
	hasCross := pct(t, "cross?", 35)

	pipe := func(signal, name string, recvs []string, conns []string) GPipe {
		p := GPipe{Signal: signal, Name: name, Receivers: recvs}
		p.Processors = subsetOf(t, name+"-procs", procs, 0, 2)
		p.Exporters = subsetOf(t, name+"-exps", exps, 0, 3)
		for _, c := range conns {
			if pct(t, name+"-to-"+c, 50) {
				p.Exporters = append(p.Exporters, c)
			}
		}
		if len(p.Exporters) == 0 {
			p.Exporters = []string{exps[0]}
		}
		if len(p.Exporters) > 1 {
			p.Exporters = rapid.Permutation(p.Exporters).Draw(t, name+"-exporder")
		}
		return p
	}
	var frontConns, backConns []string
	if hasFwd {
		frontConns = append(frontConns, fwd.ID)
	}
	if hasCross {
		frontConns = append(frontConns, cross.ID)
		backConns = append(backConns, cross.ID)
	}
	nF := rapid.IntRange(1, 3).Draw(t, "nfront")
	for i := 0; i < nF; i++ {
		var recvs []string
		if i == 0 || pct(t, "r0", 75) {
			recvs = append(recvs, s.Recvs[0])
		}
		if len(recvs) == 0 || pct(t, "r1", 25) {
			recvs = append(recvs, s.Recvs[1])
		}
		s.Pipes = append(s.Pipes, pipe(s.Signal, fmt.Sprintf("f%d", i), recvs, frontConns))
	}
	if hasFwd {
		if !has(s.Pipes[0].Exporters, fwd.ID) {
			any := false
			for _, p := range s.Pipes {
				any = any || has(p.Exporters, fwd.ID)
			}
			if !any {
				s.Pipes[0].Exporters = append(s.Pipes[0].Exporters, fwd.ID)
			}
		}
		nB := rapid.IntRange(1, 3).Draw(t, "nback")
		var backIDs []string
		for i := 0; i < nB; i++ {
			recvs := []string{fwd.ID}
			if pct(t, "back-r1", 20) {
				recvs = append(recvs, s.Recvs[1])
			}
			p := pipe(s.Signal, fmt.Sprintf("b%d", i), recvs, backConns)
			s.Pipes = append(s.Pipes, p)
			backIDs = append(backIDs, p.ID())
		}
		fwd.Mutates = pct(t, "fwdmut", 35)
		if fwd.Mutates {
			fwd.Sync = append([]Op{Mark(fwd.ID)}, genProgram(t, "fwdsync", 2, ix)...)
		}
		if pct(t, "route?", 40) {
			fwd.Route = subsetOf(t, "route", backIDs, 1, len(backIDs))
		}
		s.Conns = append(s.Conns, fwd)
	}
	if hasCross {
		any := false
		for _, p := range s.Pipes {
			any = any || has(p.Exporters, cross.ID)
		}
		if !any {
			s.Pipes[0].Exporters = append(s.Pipes[0].Exporters, cross.ID)
		}
		nT := rapid.IntRange(1, 2).Draw(t, "ntail")
		for i := 0; i < nT; i++ {
			s.Pipes = append(s.Pipes, pipe(other, fmt.Sprintf("t%d", i), []string{cross.ID}, nil))
		}
		cross.Mutates = pct(t, "crossmut", 40)
		if cross.Mutates {
			cross.Sync = append([]Op{Mark(cross.ID)}, genProgram(t, "crosssync", 1, ix)...)
		}
		s.Conns = append(s.Conns, cross)
	}
	return s
}

// ---------------------------------------------------------------- instrumented components

type nop struct{}

func (nop) Start(context.Context, component.Host) error { return nil }
func (nop) Shutdown(context.Context) error              { return nil }

type (
	lComp struct {
		nop
		consumer.Logs
	}
	tComp struct {
		nop
		consumer.Traces
	}
	mComp struct {
		nop
		consumer.Metrics
	}
	pComp struct {
		nop
		xconsumer.Profiles
	}
)

type arrival struct {
	tree any
	str  string
}

type gdelivery struct {
	call     arrival
	ro       bool // the payload was read-only at call time
	retained any
}

type connObs struct {
	next capser
}

type gworld struct {
	s  *GraphScript
	hs *sched

	mu         sync.Mutex
	arrivals   map[string][]arrival    // component key → payloads seen at call time
	deliveries map[string][]*gdelivery // exporter key → deliveries
	recvNext   map[string]capser       // receiver key → consumer handed to the factory
	connNext   map[string]capser       // connector key → router handed to the factory
	problems   []*vt.Finding
	errs       map[string]*leafErr // exporter key → its error value
	conns      map[string]GConn
}

func newGWorld(s *GraphScript) *gworld {
	w := &gworld{s: s, hs: &sched{}, arrivals: map[string][]arrival{}, deliveries: map[string][]*gdelivery{},
		recvNext: map[string]capser{}, connNext: map[string]capser{}, errs: map[string]*leafErr{}, conns: map[string]GConn{}}
	for _, c := range s.Conns {
		w.conns[c.ID] = c
	}
	return w
}

func (w *gworld) problem(f *vt.Finding) {
	w.mu.Lock()
	w.problems = append(w.problems, f)
	w.mu.Unlock()
}

func (w *gworld) arrive(key string, v any) arrival {
	tree := pview.Of(v)
	a := arrival{tree: tree, str: pview.String(tree)}
	w.mu.Lock()
	w.arrivals[key] = append(w.arrivals[key], a)
	w.mu.Unlock()
	return a
}

// edit runs a declared mutator's synchronous program on the payload it received.
func (w *gworld) edit(key string, v any, prog []Op) bool {
	if isReadOnly(v) {
		w.problem(vt.Failf("readonly-to-mutator", "%s declares MutatesData but was handed a read-only payload", key))
		return false
	}
	if msg := applyRecovered(v, prog); msg != "" {
		w.problem(vt.Failf("mutator-panic", "%s: mutation program panicked on a payload that is not read-only: %s", key, msg))
	}
	return true
}

func procKey(signal, id string) string    { return "proc:" + signal + ":" + id }
func expKey(signal, id string) string     { return "exp:" + signal + ":" + id }
func connKey(from, to, id string) string  { return "conn:" + from + ">" + to + ":" + id }
func recvKey(signal, id string) string    { return "recv:" + signal + ":" + id }
func freshPayload(signal, who string) any { v := newRoot(signal); markRoot(v, "fresh:"+who); return v }

func newRoot(signal string) any {
	switch signal {
	case sig.Logs:
		return plog.NewLogs()
	case sig.Traces:
		return ptrace.NewTraces()
	case sig.Metrics:
		return pmetric.NewMetrics()
	case sig.Profiles:
		return pprofile.NewProfiles()
	}
	panic("c06: unknown signal " + signal)
}

func (w *gworld) regRecv(signal string, id component.ID, next capser) {
	w.mu.Lock()
	w.recvNext[recvKey(signal, id.String())] = next
	w.mu.Unlock()
}

func (w *gworld) proc(signal string, id component.ID, next capser) capser {
	api := apis[signal]
	cfg := w.s.Procs[id.String()]
	key := procKey(signal, id.String())
	return api.newCons(cfg.Mutates, func(ctx context.Context, v any) error {
		w.hs.enter()
		w.arrive(key, v)
		if cfg.Mutates {
			w.edit(key, v, cfg.Sync)
		}
		return api.consume(next, ctx, v)
	})
}

func (w *gworld) exp(signal string, id component.ID) capser {
	api := apis[signal]
	cfg := w.s.Exps[id.String()]
	key := expKey(signal, id.String())
	w.mu.Lock()
	e := &leafErr{len(w.errs)}
	w.errs[key] = e
	w.mu.Unlock()
	return api.newCons(cfg.Mutates, func(_ context.Context, v any) error {
		at := w.hs.enter()
		d := &gdelivery{call: w.arrive(key, v), ro: isReadOnly(v), retained: v}
		w.mu.Lock()
		w.deliveries[key] = append(w.deliveries[key], d)
		w.mu.Unlock()
		if !cfg.Mutates && d.ro {
			for _, op := range cfg.Undeclared {
				if p, _ := vt.Recover(func() { ApplyOp(v, op) }); p == nil {
					w.problem(vt.Failf("undeclared-mutation-succeeded", "%s: undeclared mutation step %+v on a read-only payload did not panic", key, op))
				}
			}
		}
		if cfg.Mutates && w.edit(key, v, cfg.Sync) && len(cfg.Async) > 0 {
			w.hs.spawn(at, cfg.Gate, func() {
				if msg := applyRecovered(v, cfg.Async); msg != "" {
					w.problem(vt.Failf("mutator-panic", "%s: asynchronous mutation program panicked: %s", key, msg))
				}
			})
		}
		if cfg.Fail {
			return fmt.Errorf("export failed: %w", shapeErr(e, cfg.ErrKind))
		}
		return nil
	})
}

func (w *gworld) fwd(signal string, id component.ID, next capser) capser {
	api := apis[signal]
	cfg := w.conns[id.String()]
	key := connKey(signal, signal, id.String())
	w.mu.Lock()
	w.connNext[key] = next
	w.mu.Unlock()
	var route []pipeline.ID
	for _, r := range cfg.Route {
		route = append(route, pipelineID(r))
	}
	return api.newCons(cfg.Mutates, func(ctx context.Context, v any) error {
		w.hs.enter()
		w.arrive(key, v)
		if cfg.Mutates {
			w.edit(key, v, cfg.Sync)
		}
		if len(route) == 0 {
			return api.consume(next, ctx, v)
		}
		to, err := api.pickFrom(next, route)
		if err != nil {
			w.problem(vt.Failf("router/consumer-error", "%s: router.Consumer(%v): %v", key, route, err))
			return err
		}
		return api.consume(to, ctx, v)
	})
}

func (w *gworld) cross(from, to string, id component.ID, next capser) capser {
	cfg := w.conns[id.String()]
	key := connKey(from, to, id.String())
	w.mu.Lock()
	w.connNext[key] = next
	w.mu.Unlock()
	return apis[from].newCons(cfg.Mutates, func(ctx context.Context, v any) error {
		w.hs.enter()
		w.arrive(key, v)
		if cfg.Mutates {
			w.edit(key, v, cfg.Sync)
		}
		return apis[to].consume(next, ctx, freshPayload(to, id.String()))
	})
}

var stable = component.StabilityLevelStable

func newCfg() component.Config { return &struct{}{} }

func (w *gworld) settings() service.Settings {
	rf := xreceiver.NewFactory(component.MustNewType(recvType), newCfg,
		xreceiver.WithLogs(func(_ context.Context, s receiver.Settings, _ component.Config, n consumer.Logs) (receiver.Logs, error) {
			w.regRecv(sig.Logs, s.ID, n)
			return nop{}, nil
		}, stable),
		xreceiver.WithTraces(func(_ context.Context, s receiver.Settings, _ component.Config, n consumer.Traces) (receiver.Traces, error) {
			w.regRecv(sig.Traces, s.ID, n)
			return nop{}, nil
		}, stable),
		xreceiver.WithMetrics(func(_ context.Context, s receiver.Settings, _ component.Config, n consumer.Metrics) (receiver.Metrics, error) {
			w.regRecv(sig.Metrics, s.ID, n)
			return nop{}, nil
		}, stable),
		xreceiver.WithProfiles(func(_ context.Context, s receiver.Settings, _ component.Config, n xconsumer.Profiles) (xreceiver.Profiles, error) {
			w.regRecv(sig.Profiles, s.ID, n)
			return nop{}, nil
		}, stable))
	pf := xprocessor.NewFactory(component.MustNewType(procType), newCfg,
		xprocessor.WithLogs(func(_ context.Context, s processor.Settings, _ component.Config, n consumer.Logs) (processor.Logs, error) {
			return lComp{Logs: w.proc(sig.Logs, s.ID, n).(consumer.Logs)}, nil
		}, stable),
		xprocessor.WithTraces(func(_ context.Context, s processor.Settings, _ component.Config, n consumer.Traces) (processor.Traces, error) {
			return tComp{Traces: w.proc(sig.Traces, s.ID, n).(consumer.Traces)}, nil
		}, stable),
		xprocessor.WithMetrics(func(_ context.Context, s processor.Settings, _ component.Config, n consumer.Metrics) (processor.Metrics, error) {
			return mComp{Metrics: w.proc(sig.Metrics, s.ID, n).(consumer.Metrics)}, nil
		}, stable),
		xprocessor.WithProfiles(func(_ context.Context, s processor.Settings, _ component.Config, n xconsumer.Profiles) (xprocessor.Profiles, error) {
			return pComp{Profiles: w.proc(sig.Profiles, s.ID, n).(xconsumer.Profiles)}, nil
		}, stable))
	ef := xexporter.NewFactory(component.MustNewType(expType), newCfg,
		xexporter.WithLogs(func(_ context.Context, s exporter.Settings, _ component.Config) (exporter.Logs, error) {
			return lComp{Logs: w.exp(sig.Logs, s.ID).(consumer.Logs)}, nil
		}, stable),
		xexporter.WithTraces(func(_ context.Context, s exporter.Settings, _ component.Config) (exporter.Traces, error) {
			return tComp{Traces: w.exp(sig.Traces, s.ID).(consumer.Traces)}, nil
		}, stable),
		xexporter.WithMetrics(func(_ context.Context, s exporter.Settings, _ component.Config) (exporter.Metrics, error) {
			return mComp{Metrics: w.exp(sig.Metrics, s.ID).(consumer.Metrics)}, nil
		}, stable),
		xexporter.WithProfiles(func(_ context.Context, s exporter.Settings, _ component.Config) (xexporter.Profiles, error) {
			return pComp{Profiles: w.exp(sig.Profiles, s.ID).(xconsumer.Profiles)}, nil
		}, stable))
	ff := xconnector.NewFactory(component.MustNewType(fwdType), newCfg,
		xconnector.WithLogsToLogs(func(_ context.Context, s connector.Settings, _ component.Config, n consumer.Logs) (connector.Logs, error) {
			return lComp{Logs: w.fwd(sig.Logs, s.ID, n).(consumer.Logs)}, nil
		}, stable),
		xconnector.WithTracesToTraces(func(_ context.Context, s connector.Settings, _ component.Config, n consumer.Traces) (connector.Traces, error) {
			return tComp{Traces: w.fwd(sig.Traces, s.ID, n).(consumer.Traces)}, nil
		}, stable),
		xconnector.WithMetricsToMetrics(func(_ context.Context, s connector.Settings, _ component.Config, n consumer.Metrics) (connector.Metrics, error) {
			return mComp{Metrics: w.fwd(sig.Metrics, s.ID, n).(consumer.Metrics)}, nil
		}, stable),
		xconnector.WithProfilesToProfiles(func(_ context.Context, s connector.Settings, _ component.Config, n xconsumer.Profiles) (xconnector.Profiles, error) {
			return pComp{Profiles: w.fwd(sig.Profiles, s.ID, n).(xconsumer.Profiles)}, nil
		}, stable))
	xf := xconnector.NewFactory(component.MustNewType(xType), newCfg,
		xconnector.WithLogsToMetrics(func(_ context.Context, s connector.Settings, _ component.Config, n consumer.Metrics) (connector.Logs, error) {
			return lComp{Logs: w.cross(sig.Logs, sig.Metrics, s.ID, n).(consumer.Logs)}, nil
		}, stable),
		xconnector.WithMetricsToTraces(func(_ context.Context, s connector.Settings, _ component.Config, n consumer.Traces) (connector.Metrics, error) {
			return mComp{Metrics: w.cross(sig.Metrics, sig.Traces, s.ID, n).(consumer.Metrics)}, nil
		}, stable),
		xconnector.WithTracesToProfiles(func(_ context.Context, s connector.Settings, _ component.Config, n xconsumer.Profiles) (connector.Traces, error) {
			return tComp{Traces: w.cross(sig.Traces, sig.Profiles, s.ID, n).(consumer.Traces)}, nil
		}, stable),
		xconnector.WithProfilesToLogs(func(_ context.Context, s connector.Settings, _ component.Config, n consumer.Logs) (xconnector.Profiles, error) {
			return pComp{Profiles: w.cross(sig.Profiles, sig.Logs, s.ID, n).(xconsumer.Profiles)}, nil
		}, stable))

	cfgs := func(ids []string) map[component.ID]component.Config {
		m := map[component.ID]component.Config{}
		for _, id := range ids {
			m[mustID(id)] = newCfg()
		}
		return m
	}
	var procs, exps, conns []string
	for id := range w.s.Procs {
		procs = append(procs, id)
	}
	for id := range w.s.Exps {
		exps = append(exps, id)
	}
	for _, c := range w.s.Conns {
		conns = append(conns, c.ID)
	}
	return service.Settings{
		BuildInfo:           component.NewDefaultBuildInfo(),
		ReceiversConfigs:    cfgs(w.s.Recvs),
		ReceiversFactories:  map[component.Type]receiver.Factory{rf.Type(): rf},
		ProcessorsConfigs:   cfgs(procs),
		ProcessorsFactories: map[component.Type]processor.Factory{pf.Type(): pf},
		ExportersConfigs:    cfgs(exps),
		ExportersFactories:  map[component.Type]exporter.Factory{ef.Type(): ef},
		ConnectorsConfigs:   cfgs(conns),
		ConnectorsFactories: map[component.Type]connector.Factory{ff.Type(): ff, xf.Type(): xf},
		AsyncErrorChannel:   make(chan error, 16),
		LoggingOptions:      []zap.Option{zap.WrapCore(func(zapcore.Core) zapcore.Core { return zapcore.NewNopCore() })},
	}
}

func mustID(s string) component.ID {
	var id component.ID
	if err := id.UnmarshalText([]byte(s)); err != nil {
		panic(err)
	}
	return id
}

func pipelineID(s string) pipeline.ID {
	parts := strings.SplitN(s, "/", 2)
	return pipeline.NewIDWithName(apis[parts[0]].signal, parts[1])
}

func (w *gworld) config() service.Config {
	cfg := service.Config{
		Telemetry: telemetry.Config{
			Logs: telemetry.LogsConfig{
				Level: zapcore.ErrorLevel, Encoding: "json",
				OutputPaths: []string{"/dev/null"}, ErrorOutputPaths: []string{"/dev/null"},
				DisableCaller: true, DisableStacktrace: true,
			},
			Metrics: telemetry.MetricsConfig{Level: configtelemetry.LevelNone},
		},
		Pipelines: pipelines.Config{},
	}
	ids := func(ss []string) []component.ID {
		out := make([]component.ID, 0, len(ss))
		for _, s := range ss {
			out = append(out, mustID(s))
		}
		return out
	}
	for _, p := range w.s.Pipes {
		cfg.Pipelines[pipelineID(p.ID())] = &pipelines.PipelineConfig{Receivers: ids(p.Receivers), Processors: ids(p.Processors), Exporters: ids(p.Exporters)}
	}
	return cfg
}

// ---------------------------------------------------------------- independent evaluation of the configuration

// trail describes how a payload came to be: where it started and which
// mutation programs were applied to it since, in order.
type trail struct {
	fresh string // "" = the injected payload; else "<signal>|<connector id>"
	progs [][]Op
}

func (t trail) plus(p []Op) trail {
	n := make([][]Op, len(t.progs)+1)
	copy(n, t.progs)
	n[len(t.progs)] = p
	return trail{t.fresh, n}
}

type geval struct {
	s     *GraphScript
	conns map[string]GConn
	memo  map[string]arrival
	// expected, per injection
	arrivals   map[string][]arrival
	deliveries map[string][][2]arrival // exporter key → (at call, final)
	failing    map[string]bool         // exporter keys that fail and are reached
	sharedAll  map[string]bool         // exporter key → every expected delivery reaches it through a stage with >= 2 readers
	mutMemo    map[int]bool
	paths      int
	depth      int
}

func (e *geval) replay(t trail) (arrival, error) {
	jb, _ := json.Marshal(t.progs)
	k := t.fresh + "|" + string(jb)
	if a, ok := e.memo[k]; ok {
		return a, nil
	}
	var v any
	if t.fresh == "" {
		var err error
		if v, err = sig.Decode(e.s.Signal, e.s.Payload); err != nil {
			return arrival{}, err
		}
	} else {
		parts := strings.SplitN(t.fresh, "|", 2)
		v = freshPayload(parts[0], parts[1])
	}
	for _, p := range t.progs {
		if msg := applyRecovered(v, p); msg != "" {
			return arrival{}, errors.New("reference application panicked: " + msg)
		}
	}
	tree := pview.Of(v)
	a := arrival{tree: tree, str: pview.String(tree)}
	e.memo[k] = a
	return a, nil
}

// downstream lists the pipelines (indexes) a connector feeds with signal `to`.
func (e *geval) downstream(connID, to string) []int {
	var out []int
	for i, p := range e.s.Pipes {
		if p.Signal == to && has(p.Receivers, connID) {
			out = append(out, i)
		}
	}
	return out
}

func (e *geval) walk(pi int, t trail, depth int) error {
	p := e.s.Pipes[pi]
	if depth > e.depth {
		e.depth = depth
	}
	for _, id := range p.Processors {
		a, err := e.replay(t)
		if err != nil {
			return err
		}
		k := procKey(p.Signal, id)
		e.arrivals[k] = append(e.arrivals[k], a)
		if c := e.s.Procs[id]; c.Mutates {
			t = t.plus(c.Sync)
		}
	}
	at, err := e.replay(t)
	if err != nil {
		return err
	}
	// readers of the exporter stage: consumers that do not declare mutation share one payload
	readers := 0
	for _, id := range p.Exporters {
		c, isConn := e.conns[id]
		switch {
		case !isConn:
			if !e.s.Exps[id].Mutates {
				readers++
			}
		case c.From != c.To:
			if !c.Mutates {
				readers++
			}
		default:
			m := c.Mutates
			for _, q := range e.downstream(id, c.To) {
				m = m || e.pipeMutates(q)
			}
			if !m {
				readers++
			}
		}
	}
	for _, id := range p.Exporters {
		c, isConn := e.conns[id]
		if !isConn {
			k := expKey(p.Signal, id)
			if _, seen := e.sharedAll[k]; !seen {
				e.sharedAll[k] = true
			}
			if readers < 2 {
				e.sharedAll[k] = false
			}
			cfg := e.s.Exps[id]
			final := at
			if cfg.Mutates {
				if final, err = e.replay(t.plus(cfg.Sync).plus(cfg.Async)); err != nil {
					return err
				}
			}
			e.arrivals[k] = append(e.arrivals[k], at)
			e.deliveries[k] = append(e.deliveries[k], [2]arrival{at, final})
			if cfg.Fail {
				e.failing[k] = true
			}
			e.paths++
			continue
		}
		k := connKey(c.From, c.To, id)
		e.arrivals[k] = append(e.arrivals[k], at)
		if c.From == c.To {
			t2 := t
			if c.Mutates {
				t2 = t.plus(c.Sync)
			}
			for _, q := range e.downstream(id, c.To) {
				if len(c.Route) > 0 && !has(c.Route, e.s.Pipes[q].ID()) {
					continue
				}
				if err := e.walk(q, t2, depth+1); err != nil {
					return err
				}
			}
		} else {
			for _, q := range e.downstream(id, c.To) {
				if err := e.walk(q, trail{fresh: c.To + "|" + id}, depth+1); err != nil {
					return err
				}
			}
		}
	}
	return nil
}

// pipeMutates: does the pipeline, as configured, possibly mutate the payload
// handed to it?  Some processor declares it, or the exporter stage hands the
// original to a consumer that may mutate it, which happens exactly when every
// consumer of the stage may (otherwise the original stays with the readers
// and the mutators get copies).  A same-signal connector may mutate what it
// is given if it says so itself or if it hands it on to a pipeline that may.
func (e *geval) pipeMutates(pi int) bool {
	if v, ok := e.mutMemo[pi]; ok {
		return v
	}
	p := e.s.Pipes[pi]
	res := false
	for _, id := range p.Processors {
		if e.s.Procs[id].Mutates {
			res = true
		}
	}
	if !res {
		all := len(p.Exporters) > 0
		for _, id := range p.Exporters {
			c, isConn := e.conns[id]
			switch {
			case !isConn:
				all = all && e.s.Exps[id].Mutates
			case c.From != c.To:
				all = all && c.Mutates
			default:
				m := c.Mutates
				for _, q := range e.downstream(id, c.To) {
					m = m || e.pipeMutates(q)
				}
				all = all && m
			}
		}
		res = all
	}
	e.mutMemo[pi] = res
	return res
}

func sortedStrs(as []arrival) []string {
	out := make([]string, len(as))
	for i, a := range as {
		out[i] = a.str
	}
	sort.Strings(out)
	return out
}

// multisetDiff compares two multisets of arrivals; "" when equal.
func multisetDiff(want, got []arrival) string {
	ws, gs := sortedStrs(want), sortedStrs(got)
	if len(ws) == len(gs) {
		same := true
		for i := range ws {
			if ws[i] != gs[i] {
				same = false
			}
		}
		if same {
			return ""
		}
	}
	// find one unmatched observation and the closest expectation for the message
	cnt := map[string]int{}
	for _, w := range ws {
		cnt[w]++
	}
	for _, g := range got {
		if cnt[g.str] > 0 {
			cnt[g.str]--
			continue
		}
		for _, w := range want {
			if cnt[w.str] > 0 {
				return fmt.Sprintf("%d expected, %d observed; an observed payload matches no expectation, against one unmatched expectation: %s", len(want), len(got), pview.Diff(w.tree, g.tree))
			}
		}
		return fmt.Sprintf("%d expected, %d observed; surplus observation", len(want), len(got))
	}
	return fmt.Sprintf("%d expected, %d observed; missing observation", len(want), len(got))
}

// ---------------------------------------------------------------- run

func runGraph(s GraphScript) (nontrivial bool, key string, f *vt.Finding) {
	jb, _ := json.Marshal(&s)
	hsum := sha256.Sum256(jb)
	key = string(hsum[:])
	if apis[s.Signal] == nil || len(s.Pipes) == 0 {
		return false, key, nil
	}
	ctx := context.Background()
	w := newGWorld(&s)

	var srv *service.Service
	var err error
	if p, stack := vt.Recover(func() { srv, err = service.New(ctx, w.settings(), w.config()) }); p != nil {
		return true, key, vt.Failf("panic/service-new", "service.New panicked: %v\n%s", p, stack)
	}
	if err != nil {
		return false, key, vt.Failf("harness/service-new", "service.New rejected the generated configuration: %v", err)
	}
	shutdown := func() { _, _ = vt.Recover(func() { _ = srv.Shutdown(ctx) }) }
	if p, stack := vt.Recover(func() { err = srv.Start(ctx) }); p != nil || err != nil {
		shutdown()
		return false, key, vt.Failf("harness/service-start", "Start: %v %v\n%s", err, p, stack)
	}

	ev := &geval{s: &s, conns: w.conns, mutMemo: map[int]bool{}}

	// ---- advertised capabilities (fixed at build time)
	api := apis[s.Signal]
	for _, r := range s.Recvs {
		var fed []int
		for i, p := range s.Pipes {
			if p.Signal == s.Signal && has(p.Receivers, r) {
				fed = append(fed, i)
			}
		}
		next := w.recvNext[recvKey(s.Signal, r)]
		if len(fed) == 0 {
			continue
		}
		if next == nil {
			shutdown()
			return true, key, vt.Failf("receiver-not-built", "receiver %s is listed by %d pipelines but its factory was never called", r, len(fed))
		}
		want := true
		for _, i := range fed {
			want = want && ev.pipeMutates(i)
		}
		if got := next.Capabilities().MutatesData; got != want {
			shutdown()
			sg := "capabilities/receiver-fanout"
			if len(fed) == 1 {
				sg = "capabilities/pipeline"
			}
			return true, key, vt.Failf(sg, "consumer handed to receiver %s (feeding pipelines %v) advertises MutatesData=%v, the configuration implies %v", r, fed, got, want)
		}
		if len(fed) == 1 {
			cGraph.Class(fmt.Sprintf("cap:single-pipeline:%v", want))
		}
	}
	for _, c := range s.Conns {
		ck := connKey(c.From, c.To, c.ID)
		next := w.connNext[ck]
		if next == nil {
			shutdown()
			return true, key, vt.Failf("connector-not-built", "connector %s was never built", ck)
		}
		fed := ev.downstream(c.ID, c.To)
		want := true
		wantIDs := map[string]bool{}
		for _, i := range fed {
			want = want && ev.pipeMutates(i)
			wantIDs[s.Pipes[i].ID()] = true
		}
		if got := next.Capabilities().MutatesData; got != want {
			shutdown()
			return true, key, vt.Failf("capabilities/connector-router", "router handed to %s (feeding pipelines %v) advertises MutatesData=%v, the configuration implies %v", ck, fed, got, want)
		}
		ids, ok := routerIDs(next)
		if !ok {
			shutdown()
			return true, key, vt.Failf("router/not-a-router", "consumer handed to %s does not offer PipelineIDs()", ck)
		}
		if len(ids) != len(wantIDs) {
			shutdown()
			return true, key, vt.Failf("router/pipeline-ids", "router of %s lists %v, want %v", ck, ids, wantIDs)
		}
		for _, id := range ids {
			if !wantIDs[id.String()] {
				shutdown()
				return true, key, vt.Failf("router/pipeline-ids", "router of %s lists %v, want %v", ck, ids, wantIDs)
			}
		}
		for _, i := range fed {
			one, err := apis[c.To].pickFrom(next, []pipeline.ID{pipelineID(s.Pipes[i].ID())})
			if err != nil {
				shutdown()
				return true, key, vt.Failf("router/consumer-error", "router of %s: Consumer(%s): %v", ck, s.Pipes[i].ID(), err)
			}
			if got, want := one.Capabilities().MutatesData, ev.pipeMutates(i); got != want {
				shutdown()
				return true, key, vt.Failf("capabilities/pipeline", "pipeline %s (reached through the router of %s) advertises MutatesData=%v, the configuration implies %v", s.Pipes[i].ID(), ck, got, want)
			}
			cGraph.Class(fmt.Sprintf("cap:connector-fed-pipeline:%v", ev.pipeMutates(i)))
		}
	}

	// ---- inject one payload per receiver, one after the other
	totalPaths, maxDepth, mutated := 0, 0, false
	var finding *vt.Finding
	for _, r := range s.Recvs {
		var fed []int
		for i, p := range s.Pipes {
			if p.Signal == s.Signal && has(p.Receivers, r) {
				fed = append(fed, i)
			}
		}
		if len(fed) == 0 {
			continue
		}
		next := w.recvNext[recvKey(s.Signal, r)]
		in, derr := sig.Decode(s.Signal, s.Payload)
		if derr != nil {
			shutdown()
			return false, key, vt.Failf("harness/decode", "%v", derr)
		}
		orig := pview.Of(in)
		if s.ReadOnly {
			markReadOnly(in)
		}
		// reset observations
		w.mu.Lock()
		w.arrivals, w.deliveries = map[string][]arrival{}, map[string][]*gdelivery{}
		w.mu.Unlock()
		w.hs = &sched{}
		var result error
		p, stack := vt.Recover(func() { result = api.consume(next, ctx, in) })
		w.hs.join()
		if p != nil {
			finding = vt.Failf("panic/consume", "payload emitted by %s: panic: %v\n%s", r, p, stack)
			break
		}
		if len(w.problems) > 0 {
			finding = w.problems[0]
			break
		}
		// expectation from the configuration
		ev.memo, ev.arrivals, ev.deliveries, ev.failing, ev.paths = map[string]arrival{}, map[string][]arrival{}, map[string][][2]arrival{}, map[string]bool{}, 0
		ev.sharedAll = map[string]bool{}
		for _, i := range fed {
			if err := ev.walk(i, trail{}, 0); err != nil {
				shutdown()
				return false, key, vt.Failf("harness/ref-panic", "%v", err)
			}
		}
		totalPaths += ev.paths
		if ev.depth > maxDepth {
			maxDepth = ev.depth
		}
		// (1) every component sees, at call time, the original plus exactly the edits made upstream on its own path
		keys := map[string]bool{}
		for k := range ev.arrivals {
			keys[k] = true
		}
		for k := range w.arrivals {
			keys[k] = true
		}
		var ks []string
		for k := range keys {
			ks = append(ks, k)
		}
		sort.Strings(ks)
		for _, k := range ks {
			if d := multisetDiff(ev.arrivals[k], w.arrivals[k]); d != "" {
				finding = vt.Failf("content-at-call/"+strings.SplitN(k, ":", 2)[0], "payload emitted by %s: what %s received differs from the original plus the edits of the components upstream of it: %s", r, k, d)
				break
			}
		}
		if finding != nil {
			break
		}
		// (1b) a payload shared by several non-mutating consumers of one exporter stage is marked read-only
		for _, k := range ks {
			if !strings.HasPrefix(k, "exp:") || s.Exps[strings.SplitN(k, ":", 3)[2]].Mutates {
				continue
			}
			for _, d := range w.deliveries[k] {
				if ev.sharedAll[k] && !d.ro {
					finding = vt.Failf("shared-not-readonly", "payload emitted by %s: %s only ever shares its payload with another non-mutating consumer of the same exporter stage, but saw it not marked read-only", r, k)
				}
				if d.ro && len(s.Exps[strings.SplitN(k, ":", 3)[2]].Undeclared) > 0 {
					cGraph.Class("undeclared:on-readonly")
				}
			}
		}
		if finding != nil {
			break
		}
		// (2) after all asynchronous work: what each exporter retained
		for _, k := range ks {
			if !strings.HasPrefix(k, "exp:") {
				continue
			}
			var want, got []arrival
			for _, d := range ev.deliveries[k] {
				want = append(want, arrival{tree: d[1].tree, str: d[0].str + "\x00" + d[1].str})
				if d[0].str != d[1].str {
					mutated = true
				}
			}
			for _, d := range w.deliveries[k] {
				ft := pview.Of(d.retained)
				got = append(got, arrival{tree: ft, str: d.call.str + "\x00" + pview.String(ft)})
			}
			if d := multisetDiff(want, got); d != "" {
				sg := "reader-sees-mutation"
				if s.Exps[strings.SplitN(k, ":", 3)[2]].Mutates {
					sg = "mutator-not-isolated"
				}
				finding = vt.Failf(sg, "payload emitted by %s: after all work finished, the payloads retained by %s are not what it received plus exactly its own edits: %s", r, k, d)
				break
			}
		}
		if finding != nil {
			break
		}
		// (3) errors of every failing exporter reached, nil iff none
		for k, e := range w.errs {
			is := errors.Is(result, e)
			switch {
			case ev.failing[k] && !is:
				finding = vt.Failf("error-aggregation/missing", "payload emitted by %s: exporter %s failed but errors.Is(result, its error) is false; result = %v", r, k, result)
			case !ev.failing[k] && is:
				finding = vt.Failf("error-aggregation/spurious", "payload emitted by %s: exporter %s did not fail but its error is in the result %v", r, k, result)
			}
		}
		if finding == nil && (result == nil) != (len(ev.failing) == 0) {
			finding = vt.Failf("error-aggregation/nil", "payload emitted by %s: %d failing exporters reached but result = %v", r, len(ev.failing), result)
		}
		if finding != nil {
			break
		}
		// (4) a consumer that advertises MutatesData=false leaves what it is given untouched
		if !next.Capabilities().MutatesData {
			if after := pview.Of(in); !pview.Equal(orig, after) {
				finding = vt.Failf("nonmutating-pipeline-changed-input", "the consumer handed to receiver %s advertises MutatesData=false but the payload it was given changed: %s", r, pview.Diff(orig, after))
				break
			}
		}
		if len(ev.failing) > 0 {
			cGraph.Class("failing-exporter-reached")
		}
	}
	shutdown()
	if finding != nil {
		return true, key, finding
	}

	// ---- classification
	nMutProc, nMutExp, nAsync := 0, 0, 0
	for _, p := range s.Pipes {
		for _, id := range p.Processors {
			if s.Procs[id].Mutates {
				nMutProc++
			}
		}
		for _, id := range p.Exporters {
			if c, ok := s.Exps[id]; ok && c.Mutates {
				nMutExp++
				if len(c.Async) > 0 {
					nAsync++
				}
			}
		}
	}
	cGraph.Class("signal:"+s.Signal, fmt.Sprintf("pipelines:%d", len(s.Pipes)), fmt.Sprintf("conn-depth:%d", maxDepth))
	multiRecv := false
	for _, r := range s.Recvs {
		n := 0
		for _, p := range s.Pipes {
			if has(p.Receivers, r) {
				n++
			}
		}
		multiRecv = multiRecv || n > 1
	}
	if multiRecv {
		cGraph.Class("receiver-feeds-several-pipelines")
	}
	for _, c := range s.Conns {
		kind := "fwd"
		if c.From != c.To {
			kind = "cross"
		}
		cGraph.Class(fmt.Sprintf("connector:%s:feeds%d:mut=%v", kind, len(ev.downstream(c.ID, c.To)), c.Mutates))
		if len(c.Route) > 0 {
			cGraph.Class("connector:routes-subset")
		}
	}
	if nMutProc > 0 {
		cGraph.Class("mutating-processor-used")
	}
	if nMutExp > 0 {
		cGraph.Class("mutating-exporter-used")
	}
	if nAsync > 0 {
		cGraph.Class("async-exporter-used")
	}
	if s.ReadOnly {
		cGraph.Class("input:readonly")
	}
	switch {
	case totalPaths > 12:
		cGraph.Class("deliveries:>12")
	case totalPaths > 4:
		cGraph.Class("deliveries:5-12")
	default:
		cGraph.Class("deliveries:<=4")
	}
	if mutated {
		cGraph.Class("mutation-performed")
	}
	return totalPaths >= 2 && (nMutProc+nMutExp > 0 || anyConnMutates(&s)) && (mutated || nMutProc > 0), key, nil
}

func anyConnMutates(s *GraphScript) bool {
	for _, c := range s.Conns {
		if c.Mutates {
			return true
		}
	}
	return false
}

func TestGraph(t *testing.T) {
	defer flushOpReach(cGraph)
	vt.Run(t, cGraph, vt.N(6000, 240000), genGraph, runGraph)
}
