package sig

import (
	"go.opentelemetry.io/collector/pdata/plog"
	"go.opentelemetry.io/collector/pdata/pmetric"
	"go.opentelemetry.io/collector/pdata/pprofile"
	"go.opentelemetry.io/collector/pdata/ptrace"
)

// StandaloneSizes returns, for every indivisible unit of the payload (log
// record, span, data point, profile), the proto size of a payload that holds
// just that unit together with its resource / scope / metric wrappers — the
// smallest batch that can carry it.  Containers without any unit (a resource
// without scopes, a scope without items, a metric without points) are listed
// too: they cannot be divided either.
func StandaloneSizes(v any) []int {
	var out []int
	switch x := v.(type) {
	case plog.Logs:
		m := &plog.ProtoMarshaler{}
		for i := 0; i < x.ResourceLogs().Len(); i++ {
			rl := x.ResourceLogs().At(i)
			if rl.ScopeLogs().Len() == 0 {
				d := plog.NewLogs()
				rl.CopyTo(d.ResourceLogs().AppendEmpty())
				out = append(out, m.LogsSize(d))
			}
			for j := 0; j < rl.ScopeLogs().Len(); j++ {
				sl := rl.ScopeLogs().At(j)
				if sl.LogRecords().Len() == 0 {
					d := plog.NewLogs()
					drl := d.ResourceLogs().AppendEmpty()
					rl.Resource().CopyTo(drl.Resource())
					drl.SetSchemaUrl(rl.SchemaUrl())
					sl.CopyTo(drl.ScopeLogs().AppendEmpty())
					out = append(out, m.LogsSize(d))
				}
				for k := 0; k < sl.LogRecords().Len(); k++ {
					d := plog.NewLogs()
					drl := d.ResourceLogs().AppendEmpty()
					rl.Resource().CopyTo(drl.Resource())
					drl.SetSchemaUrl(rl.SchemaUrl())
					dsl := drl.ScopeLogs().AppendEmpty()
					sl.Scope().CopyTo(dsl.Scope())
					dsl.SetSchemaUrl(sl.SchemaUrl())
					sl.LogRecords().At(k).CopyTo(dsl.LogRecords().AppendEmpty())
					out = append(out, m.LogsSize(d))
				}
			}
		}
	case ptrace.Traces:
		m := &ptrace.ProtoMarshaler{}
		for i := 0; i < x.ResourceSpans().Len(); i++ {
			rl := x.ResourceSpans().At(i)
			if rl.ScopeSpans().Len() == 0 {
				d := ptrace.NewTraces()
				rl.CopyTo(d.ResourceSpans().AppendEmpty())
				out = append(out, m.TracesSize(d))
			}
			for j := 0; j < rl.ScopeSpans().Len(); j++ {
				sl := rl.ScopeSpans().At(j)
				if sl.Spans().Len() == 0 {
					d := ptrace.NewTraces()
					drl := d.ResourceSpans().AppendEmpty()
					rl.Resource().CopyTo(drl.Resource())
					drl.SetSchemaUrl(rl.SchemaUrl())
					sl.CopyTo(drl.ScopeSpans().AppendEmpty())
					out = append(out, m.TracesSize(d))
				}
				for k := 0; k < sl.Spans().Len(); k++ {
					d := ptrace.NewTraces()
					drl := d.ResourceSpans().AppendEmpty()
					rl.Resource().CopyTo(drl.Resource())
					drl.SetSchemaUrl(rl.SchemaUrl())
					dsl := drl.ScopeSpans().AppendEmpty()
					sl.Scope().CopyTo(dsl.Scope())
					dsl.SetSchemaUrl(sl.SchemaUrl())
					sl.Spans().At(k).CopyTo(dsl.Spans().AppendEmpty())
					out = append(out, m.TracesSize(d))
				}
			}
		}
	case pmetric.Metrics:
		m := &pmetric.ProtoMarshaler{}
		for i := 0; i < x.ResourceMetrics().Len(); i++ {
			rl := x.ResourceMetrics().At(i)
			if rl.ScopeMetrics().Len() == 0 {
				d := pmetric.NewMetrics()
				rl.CopyTo(d.ResourceMetrics().AppendEmpty())
				out = append(out, m.MetricsSize(d))
			}
			for j := 0; j < rl.ScopeMetrics().Len(); j++ {
				sl := rl.ScopeMetrics().At(j)
				if sl.Metrics().Len() == 0 {
					d := pmetric.NewMetrics()
					drl := d.ResourceMetrics().AppendEmpty()
					rl.Resource().CopyTo(drl.Resource())
					drl.SetSchemaUrl(rl.SchemaUrl())
					sl.CopyTo(drl.ScopeMetrics().AppendEmpty())
					out = append(out, m.MetricsSize(d))
				}
				for k := 0; k < sl.Metrics().Len(); k++ {
					src := sl.Metrics().At(k)
					n := pointCount(src)
					if n == 0 {
						d := pmetric.NewMetrics()
						drl := d.ResourceMetrics().AppendEmpty()
						rl.Resource().CopyTo(drl.Resource())
						drl.SetSchemaUrl(rl.SchemaUrl())
						dsl := drl.ScopeMetrics().AppendEmpty()
						sl.Scope().CopyTo(dsl.Scope())
						dsl.SetSchemaUrl(sl.SchemaUrl())
						src.CopyTo(dsl.Metrics().AppendEmpty())
						out = append(out, m.MetricsSize(d))
					}
					for p := 0; p < n; p++ {
						d := pmetric.NewMetrics()
						drl := d.ResourceMetrics().AppendEmpty()
						rl.Resource().CopyTo(drl.Resource())
						drl.SetSchemaUrl(rl.SchemaUrl())
						dsl := drl.ScopeMetrics().AppendEmpty()
						sl.Scope().CopyTo(dsl.Scope())
						dsl.SetSchemaUrl(sl.SchemaUrl())
						dm := dsl.Metrics().AppendEmpty()
						src.CopyTo(dm)
						keepPoint(dm, p)
						out = append(out, m.MetricsSize(d))
					}
				}
			}
		}
	case pprofile.Profiles:
		m := &pprofile.ProtoMarshaler{}
		for i := 0; i < x.ResourceProfiles().Len(); i++ {
			rl := x.ResourceProfiles().At(i)
			if rl.ScopeProfiles().Len() == 0 {
				d := pprofile.NewProfiles()
				rl.CopyTo(d.ResourceProfiles().AppendEmpty())
				out = append(out, m.ProfilesSize(d))
			}
			for j := 0; j < rl.ScopeProfiles().Len(); j++ {
				sl := rl.ScopeProfiles().At(j)
				if sl.Profiles().Len() == 0 {
					d := pprofile.NewProfiles()
					drl := d.ResourceProfiles().AppendEmpty()
					rl.Resource().CopyTo(drl.Resource())
					drl.SetSchemaUrl(rl.SchemaUrl())
					sl.CopyTo(drl.ScopeProfiles().AppendEmpty())
					out = append(out, m.ProfilesSize(d))
				}
				for k := 0; k < sl.Profiles().Len(); k++ {
					d := pprofile.NewProfiles()
					drl := d.ResourceProfiles().AppendEmpty()
					rl.Resource().CopyTo(drl.Resource())
					drl.SetSchemaUrl(rl.SchemaUrl())
					dsl := drl.ScopeProfiles().AppendEmpty()
					sl.Scope().CopyTo(dsl.Scope())
					dsl.SetSchemaUrl(sl.SchemaUrl())
					sl.Profiles().At(k).CopyTo(dsl.Profiles().AppendEmpty())
					out = append(out, m.ProfilesSize(d))
				}
			}
		}
	}
	return out
}

func pointCount(m pmetric.Metric) int {
	switch m.Type() {
	case pmetric.MetricTypeGauge:
		return m.Gauge().DataPoints().Len()
	case pmetric.MetricTypeSum:
		return m.Sum().DataPoints().Len()
	case pmetric.MetricTypeHistogram:
		return m.Histogram().DataPoints().Len()
	case pmetric.MetricTypeExponentialHistogram:
		return m.ExponentialHistogram().DataPoints().Len()
	case pmetric.MetricTypeSummary:
		return m.Summary().DataPoints().Len()
	}
	return 0
}

func keepPoint(m pmetric.Metric, p int) {
	i := -1
	switch m.Type() {
	case pmetric.MetricTypeGauge:
		m.Gauge().DataPoints().RemoveIf(func(pmetric.NumberDataPoint) bool { i++; return i != p })
	case pmetric.MetricTypeSum:
		m.Sum().DataPoints().RemoveIf(func(pmetric.NumberDataPoint) bool { i++; return i != p })
	case pmetric.MetricTypeHistogram:
		m.Histogram().DataPoints().RemoveIf(func(pmetric.HistogramDataPoint) bool { i++; return i != p })
	case pmetric.MetricTypeExponentialHistogram:
		m.ExponentialHistogram().DataPoints().RemoveIf(func(pmetric.ExponentialHistogramDataPoint) bool { i++; return i != p })
	case pmetric.MetricTypeSummary:
		m.Summary().DataPoints().RemoveIf(func(pmetric.SummaryDataPoint) bool { i++; return i != p })
	}
}

// Size returns the proto size of a root value.
func Size(v any) int {
	switch x := v.(type) {
	case plog.Logs:
		return (&plog.ProtoMarshaler{}).LogsSize(x)
	case ptrace.Traces:
		return (&ptrace.ProtoMarshaler{}).TracesSize(x)
	case pmetric.Metrics:
		return (&pmetric.ProtoMarshaler{}).MetricsSize(x)
	case pprofile.Profiles:
		return (&pprofile.ProtoMarshaler{}).ProfilesSize(x)
	}
	panic("sig: unknown root type")
}

// MaxSamplesPerProfile returns the largest sample count of any profile.
func MaxSamplesPerProfile(x pprofile.Profiles) int {
	best := 0
	for i := 0; i < x.ResourceProfiles().Len(); i++ {
		rl := x.ResourceProfiles().At(i)
		for j := 0; j < rl.ScopeProfiles().Len(); j++ {
			sl := rl.ScopeProfiles().At(j)
			for k := 0; k < sl.Profiles().Len(); k++ {
				if n := sl.Profiles().At(k).Sample().Len(); n > best {
					best = n
				}
			}
		}
	}
	return best
}

// UnitCount returns the number of indivisible units (records, spans, data
// points, profiles).
func UnitCount(v any) int {
	if x, ok := v.(pprofile.Profiles); ok {
		n := 0
		for i := 0; i < x.ResourceProfiles().Len(); i++ {
			rl := x.ResourceProfiles().At(i)
			for j := 0; j < rl.ScopeProfiles().Len(); j++ {
				n += rl.ScopeProfiles().At(j).Profiles().Len()
			}
		}
		return n
	}
	return Count(v)
}

// HasItemless reports whether the payload holds a container that carries no
// item at all: a resource entry without scopes, a scope entry without
// records / spans / metrics / profiles, a metric without data points, a
// profile without samples.
func HasItemless(v any) bool {
	switch x := v.(type) {
	case plog.Logs:
		for i := 0; i < x.ResourceLogs().Len(); i++ {
			rl := x.ResourceLogs().At(i)
			if rl.ScopeLogs().Len() == 0 {
				return true
			}
			for j := 0; j < rl.ScopeLogs().Len(); j++ {
				if rl.ScopeLogs().At(j).LogRecords().Len() == 0 {
					return true
				}
			}
		}
	case ptrace.Traces:
		for i := 0; i < x.ResourceSpans().Len(); i++ {
			rs := x.ResourceSpans().At(i)
			if rs.ScopeSpans().Len() == 0 {
				return true
			}
			for j := 0; j < rs.ScopeSpans().Len(); j++ {
				if rs.ScopeSpans().At(j).Spans().Len() == 0 {
					return true
				}
			}
		}
	case pmetric.Metrics:
		for i := 0; i < x.ResourceMetrics().Len(); i++ {
			rm := x.ResourceMetrics().At(i)
			if rm.ScopeMetrics().Len() == 0 {
				return true
			}
			for j := 0; j < rm.ScopeMetrics().Len(); j++ {
				ms := rm.ScopeMetrics().At(j).Metrics()
				if ms.Len() == 0 {
					return true
				}
				for k := 0; k < ms.Len(); k++ {
					one := pmetric.NewMetrics()
					ms.At(k).CopyTo(one.ResourceMetrics().AppendEmpty().ScopeMetrics().AppendEmpty().Metrics().AppendEmpty())
					if one.DataPointCount() == 0 {
						return true
					}
				}
			}
		}
	case pprofile.Profiles:
		for i := 0; i < x.ResourceProfiles().Len(); i++ {
			rp := x.ResourceProfiles().At(i)
			if rp.ScopeProfiles().Len() == 0 {
				return true
			}
			for j := 0; j < rp.ScopeProfiles().Len(); j++ {
				ps := rp.ScopeProfiles().At(j).Profiles()
				if ps.Len() == 0 {
					return true
				}
				for k := 0; k < ps.Len(); k++ {
					if ps.At(k).Sample().Len() == 0 {
						return true
					}
				}
			}
		}
	}
	return false
}
