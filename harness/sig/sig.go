// Package sig abstracts over the four signals so that checks can be written
// once: generate / marshal / unmarshal / flatten / tag, all through public
// APIs.
package sig

import (
	"pgregory.net/rapid"

	"go.opentelemetry.io/collector/pdata/plog"
	"go.opentelemetry.io/collector/pdata/pmetric"
	"go.opentelemetry.io/collector/pdata/pprofile"
	"go.opentelemetry.io/collector/pdata/ptrace"
	"go.opentelemetry.io/collector/verifharness/pgen"
	"go.opentelemetry.io/collector/verifharness/pitems"
	"go.opentelemetry.io/collector/verifharness/pview"
)

// Names of the signals.
const (
	Logs     = "logs"
	Traces   = "traces"
	Metrics  = "metrics"
	Profiles = "profiles"
)

// All lists the signals.
var All = []string{Logs, Traces, Metrics, Profiles}

// Three lists the stable signals.
var Three = []string{Logs, Traces, Metrics}

// Gen draws a tagged payload of the signal and returns its proto bytes.
func Gen(t *rapid.T, s string, o pgen.Opts, next *int64) []byte {
	switch s {
	case Logs:
		v := pgen.Logs(t, o)
		pitems.TagLogs(v, next)
		b, _ := (&plog.ProtoMarshaler{}).MarshalLogs(v)
		return b
	case Traces:
		v := pgen.Traces(t, o)
		pitems.TagTraces(v, next)
		b, _ := (&ptrace.ProtoMarshaler{}).MarshalTraces(v)
		return b
	case Metrics:
		v := pgen.Metrics(t, o)
		pitems.TagMetrics(v, next)
		b, _ := (&pmetric.ProtoMarshaler{}).MarshalMetrics(v)
		return b
	case Profiles:
		v := pgen.Profiles(t, o)
		pitems.TagProfiles(v, next)
		b, _ := (&pprofile.ProtoMarshaler{}).MarshalProfiles(v)
		return b
	}
	panic("sig: unknown signal " + s)
}

// Decode turns proto bytes into the pdata value (any of the four root types).
func Decode(s string, b []byte) (any, error) {
	switch s {
	case Logs:
		return (&plog.ProtoUnmarshaler{}).UnmarshalLogs(b)
	case Traces:
		return (&ptrace.ProtoUnmarshaler{}).UnmarshalTraces(b)
	case Metrics:
		return (&pmetric.ProtoUnmarshaler{}).UnmarshalMetrics(b)
	case Profiles:
		return (&pprofile.ProtoUnmarshaler{}).UnmarshalProfiles(b)
	}
	panic("sig: unknown signal " + s)
}

// Encode marshals a root value.
func Encode(v any) []byte {
	switch x := v.(type) {
	case plog.Logs:
		b, _ := (&plog.ProtoMarshaler{}).MarshalLogs(x)
		return b
	case ptrace.Traces:
		b, _ := (&ptrace.ProtoMarshaler{}).MarshalTraces(x)
		return b
	case pmetric.Metrics:
		b, _ := (&pmetric.ProtoMarshaler{}).MarshalMetrics(x)
		return b
	case pprofile.Profiles:
		b, _ := (&pprofile.ProtoMarshaler{}).MarshalProfiles(x)
		return b
	}
	panic("sig: unknown root type")
}

// Items flattens a root value.
func Items(v any) []pitems.Item {
	switch x := v.(type) {
	case plog.Logs:
		return pitems.Logs(x)
	case ptrace.Traces:
		return pitems.Traces(x)
	case pmetric.Metrics:
		return pitems.Metrics(x)
	case pprofile.Profiles:
		return pitems.Profiles(x)
	}
	panic("sig: unknown root type")
}

// ItemsOfBytes decodes and flattens.
func ItemsOfBytes(s string, b []byte) []pitems.Item {
	v, err := Decode(s, b)
	if err != nil {
		panic(err)
	}
	return Items(v)
}

// Tree renders the root value.
func Tree(v any) any { return pview.Of(v) }

// Count returns the number of items of a root value as the public API counts them.
func Count(v any) int {
	switch x := v.(type) {
	case plog.Logs:
		return x.LogRecordCount()
	case ptrace.Traces:
		return x.SpanCount()
	case pmetric.Metrics:
		return x.DataPointCount()
	case pprofile.Profiles:
		return x.SampleCount()
	}
	panic("sig: unknown root type")
}

// Clone deep-copies a root value through the public CopyTo.
func Clone(v any) any {
	switch x := v.(type) {
	case plog.Logs:
		d := plog.NewLogs()
		x.CopyTo(d)
		return d
	case ptrace.Traces:
		d := ptrace.NewTraces()
		x.CopyTo(d)
		return d
	case pmetric.Metrics:
		d := pmetric.NewMetrics()
		x.CopyTo(d)
		return d
	case pprofile.Profiles:
		d := pprofile.NewProfiles()
		x.CopyTo(d)
		return d
	}
	panic("sig: unknown root type")
}

// Simple builds a minimal payload of signal s holding n items (log records,
// spans, gauge data points, samples of one profile) tagged with the ids
// first, first+1, …
func Simple(s string, first int64, n int) any {
	next := first
	switch s {
	case Logs:
		ld := plog.NewLogs()
		sl := ld.ResourceLogs().AppendEmpty().ScopeLogs().AppendEmpty()
		for i := 0; i < n; i++ {
			sl.LogRecords().AppendEmpty().Body().SetStr("request body")
		}
		pitems.TagLogs(ld, &next)
		return ld
	case Traces:
		td := ptrace.NewTraces()
		ss := td.ResourceSpans().AppendEmpty().ScopeSpans().AppendEmpty()
		for i := 0; i < n; i++ {
			ss.Spans().AppendEmpty().SetName("span")
		}
		pitems.TagTraces(td, &next)
		return td
	case Metrics:
		md := pmetric.NewMetrics()
		m := md.ResourceMetrics().AppendEmpty().ScopeMetrics().AppendEmpty().Metrics().AppendEmpty()
		m.SetName("m")
		g := m.SetEmptyGauge()
		for i := 0; i < n; i++ {
			g.DataPoints().AppendEmpty().SetIntValue(int64(i))
		}
		pitems.TagMetrics(md, &next)
		return md
	case Profiles:
		pd := pprofile.NewProfiles()
		p := pd.ResourceProfiles().AppendEmpty().ScopeProfiles().AppendEmpty().Profiles().AppendEmpty()
		for i := 0; i < n; i++ {
			p.Sample().AppendEmpty()
		}
		pitems.TagProfiles(pd, &next)
		return pd
	}
	panic("unknown signal " + s)
}
