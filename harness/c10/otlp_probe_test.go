package c10

import (
	"context"
	"fmt"
	"net"
	"strings"
	"testing"
	"time"

	"go.opentelemetry.io/collector/component"
	"go.opentelemetry.io/collector/receiver/otlpreceiver"
	"go.opentelemetry.io/collector/service"
	"go.opentelemetry.io/collector/verifharness/topo"
	"go.opentelemetry.io/collector/verifharness/vt"
)

var cProbe = vt.New("C10", "shared-otlp-receiver-probe")

// ProbeScript documents the fixed configuration of the probe.
type ProbeScript struct {
	Topo     topo.Topology `json:"topo"`
	Attempts int           `json:"attempts"`
	Observed []string      `json:"observed,omitempty"`
}

// TestSharedOTLPReceiverProbe re-observes the listed finding
// order/start/shared-receiver-before-downstream on the real OTLP receiver
// (which shares one instance between signals through internal/sharedcomponent):
// two pipelines (logs, traces) fed by the same otlp receiver; every
// instrumented downstream component dials the receiver's gRPC port at the
// beginning of its own Start.  A successful connect means the receiver is
// already listening although this component, to which it sends data, has not
// been started yet.  The start order is a map-order dependent topological sort,
// so the configuration is started up to Attempts times.
func TestSharedOTLPReceiverProbe(t *testing.T) {
	defer cProbe.Flush()
	if vt.ReplayPath() != "" {
		t.Skip("generated probe, no replay")
	}
	s := ProbeScript{Attempts: 20, Topo: topo.Topology{
		Processors: []string{"tproc/p0", "tproc/p1"},
		Exporters:  []string{"texp/e0", "texp/e1"},
		Pipelines: []topo.Pipeline{
			{Signal: "logs", Receivers: []string{"otlp"}, Processors: []string{"tproc/p0"}, Exporters: []string{"texp/e0"}},
			{Signal: "traces", Receivers: []string{"otlp"}, Processors: []string{"tproc/p1"}, Exporters: []string{"texp/e1"}},
		},
	}}
	ctx := context.Background()
	for a := 0; a < s.Attempts && len(s.Observed) == 0; a++ {
		l, err := net.Listen("tcp", "127.0.0.1:0")
		if err != nil {
			cProbe.Note("probe skipped: cannot listen on loopback: %v", err)
			t.Skip("no loopback")
		}
		addr := l.Addr().String()
		_ = l.Close()

		w := topo.NewWorld(s.Topo)
		var open []string
		w.OnStart = func(key string, serial int) {
			if !strings.HasPrefix(key, "processor:") && !strings.HasPrefix(key, "exporter:") {
				return
			}
			c, err := net.DialTimeout("tcp", addr, 500*time.Millisecond)
			if err == nil {
				_ = c.Close()
				open = append(open, fmt.Sprintf("%s#%d", key, serial))
			}
		}
		set := w.Settings()
		f := otlpreceiver.NewFactory()
		cfg := f.CreateDefaultConfig().(*otlpreceiver.Config)
		cfg.GRPC.NetAddr.Endpoint = addr
		cfg.HTTP = nil
		set.ReceiversFactories[f.Type()] = f
		set.ReceiversConfigs[component.NewID(f.Type())] = cfg
		srv, err := service.New(ctx, set, w.Config())
		if err != nil {
			cProbe.Inconclusive("probe: service.New: %v", err)
			t.Fatalf("service.New: %v", err)
		}
		serr := srv.Start(ctx)
		_ = srv.Shutdown(ctx)
		if serr != nil { // e.g. the port was taken in the meantime: not an observation
			cProbe.Class("start-error")
			continue
		}
		cProbe.Eval(true, fmt.Sprintf("attempt-%d", a))
		if len(open) > 0 {
			s.Observed = open
			var evs []string
			for _, e := range w.Events() {
				if e.Op == "start" {
					evs = append(evs, e.Key)
				}
			}
			cProbe.Class("observed")
			cProbe.Sample(s)
			fd := vt.Failf("order/start/shared-receiver-before-downstream",
				"real OTLP receiver in a logs and a traces pipeline: its gRPC port %s accepted a connection while %v had not been started yet (instrumented components started in order %v; the shared receiver instance starts with the first of its two graph nodes)",
				addr, open, evs)
			if !cProbe.Soft(fd, s) {
				cProbe.Violation(fd, s)
				t.Fatalf("%v", fd)
			}
		} else {
			cProbe.Class("not-observed")
		}
	}
}
